"""Translator fragment for rp2_full_report.py (+ the pieces of abstract_ods_generator.py and
entry_types.py the full report model depends on).

Emits, from the current source text: table constants (MIN_ROWS, MAX_COLUMNS, sheet sizing formulas,
gaps between tables, header heights and header shapes, the legend shape and the row of the
"Accounting Method" cell), the column layout of every table as (column, link kind, field) lists,
the message ids of the translated texts that end up in data cells / sheet names, and three
structural flags:

  gen_full_clears_row_map        is the transaction->row dictionary emptied per asset?       (F3)
  gen_full_summary_link_guarded  is the (asset, year) lookup of the Summary links guarded?   (F2)
  gen_ods_single_method_by_value is a one-entry schedule printed by value (not [1970])?      (F10)

Fail-closed: any statement / expression outside the recognised shapes raises Unrecognised, and
gen.generate falls back to harness/translate/accepted/full_report.v.
"""
import ast

from . import gen
from .expr import Unrecognised, find_class, find_method, dotted

FIELDS = """Inductive ffield :=
| F_blank | F_ts | F_asset | F_exch | F_holder | F_type | F_spot | F_taxable | F_uid | F_notes | F_fiat_fee
| F_in_sold | F_in_crypto | F_in_running | F_in_fiat_no_fee | F_in_fiat_with_fee
| F_out_crypto | F_crypto_fee | F_out_running | F_out_fee_running | F_out_fiat
| F_x_from_exch | F_x_from_holder | F_x_to_exch | F_x_to_holder | F_x_sent | F_x_received | F_x_fee_running
| F_y_year | F_y_gain | F_cap_type | F_y_type | F_y_crypto | F_y_fiat | F_y_cost
| F_b_acquired | F_b_sent | F_b_received | F_b_final | F_total_label | F_total_value
| F_g_amount | F_g_running | F_g_gain | F_ev_ts | F_ev_type | F_ev_pct | F_ev_fiat | F_ev_spot | F_ev_uid | F_ev_note
| F_lot_ts | F_lot_pct | F_lot_fiat | F_lot_fee | F_lot_cost | F_lot_spot | F_lot_uid | F_lot_note
| F_label.
Inductive flink := L_none | L_event | L_lot | L_summary.
Definition fcol := (Z * flink * ffield)%type.
"""

YESNO = "_('YES') if transaction.is_taxable() else _('NO')"
TYPE = "transaction.transaction_type.get_translation().upper()"

IN_EXPR = {
    "in_lot_sold_percentage if in_lot_sold_percentage is not None else ''": "F_in_sold",
    "transaction.timestamp": "F_ts", "transaction.asset": "F_asset", "transaction.exchange": "F_exch",
    "transaction.holder": "F_holder", TYPE: "F_type", "transaction.spot_price": "F_spot",
    "transaction.crypto_in": "F_in_crypto", "computed_data.get_crypto_in_running_sum(transaction)": "F_in_running",
    "transaction.fiat_fee": "F_fiat_fee", "transaction.fiat_in_no_fee": "F_in_fiat_no_fee",
    "transaction.fiat_in_with_fee": "F_in_fiat_with_fee", YESNO: "F_taxable", "''": "F_blank",
    "transaction.unique_id": "F_uid", "transaction.notes": "F_notes",
}
OUT_EXPR = {
    "''": "F_blank", "transaction.timestamp": "F_ts", "transaction.asset": "F_asset", "transaction.exchange": "F_exch",
    "transaction.holder": "F_holder", TYPE: "F_type", "transaction.spot_price": "F_spot",
    "transaction.crypto_out_no_fee": "F_out_crypto", "transaction.crypto_fee": "F_crypto_fee",
    "computed_data.get_crypto_out_running_sum(transaction)": "F_out_running",
    "computed_data.get_crypto_out_fee_running_sum(transaction)": "F_out_fee_running",
    "transaction.fiat_out_no_fee": "F_out_fiat", "transaction.fiat_fee": "F_fiat_fee", YESNO: "F_taxable",
    "transaction.unique_id": "F_uid", "transaction.notes": "F_notes",
}
INTRA_EXPR = {
    "''": "F_blank", "transaction.timestamp": "F_ts", "transaction.asset": "F_asset",
    "transaction.from_exchange": "F_x_from_exch", "transaction.from_holder": "F_x_from_holder",
    "transaction.to_exchange": "F_x_to_exch", "transaction.to_holder": "F_x_to_holder", "transaction.spot_price": "F_spot",
    "transaction.crypto_sent": "F_x_sent", "transaction.crypto_received": "F_x_received", "transaction.crypto_fee": "F_crypto_fee",
    "computed_data.get_crypto_intra_fee_running_sum(transaction)": "F_x_fee_running", "transaction.fiat_fee": "F_fiat_fee",
    YESNO: "F_taxable", "transaction.unique_id": "F_uid", "transaction.notes": "F_notes",
}
YEARLY_EXPR = {
    "yearly_gain_loss.year": "F_y_year", "yearly_gain_loss.asset": "F_asset", "yearly_gain_loss.fiat_gain_loss": "F_y_gain",
    "capital_gains_type": "F_cap_type", "yearly_gain_loss.transaction_type.get_translation().upper()": "F_y_type",
    "yearly_gain_loss.crypto_amount": "F_y_crypto", "yearly_gain_loss.fiat_amount": "F_y_fiat",
    "yearly_gain_loss.fiat_cost_basis": "F_y_cost",
}
BAL_EXPR = {
    "balance.exchange": "F_exch", "balance.holder": "F_holder", "balance.asset": "F_asset",
    "balance.acquired_balance": "F_b_acquired", "balance.sent_balance": "F_b_sent", "balance.received_balance": "F_b_received",
    "balance.final_balance": "F_b_final",
}
TOTAL_EXPR = {"_('Total')": "F_total_label", "holder": "F_holder", "''": "F_blank", "value": "F_total_value"}
DETAIL_EXPR = {
    "gain_loss.crypto_amount": "F_g_amount", "gain_loss.asset": "F_asset",
    "computed_data.get_crypto_gain_loss_running_sum(gain_loss)": "F_g_running", "gain_loss.fiat_gain": "F_g_gain",
    "_('LONG') if gain_loss.is_long_term_capital_gains() else _('SHORT')": "F_cap_type",
}
EV_EXPR = {
    "gain_loss.taxable_event.timestamp": "F_ev_ts", "transaction_type": "F_ev_type",
    "gain_loss.taxable_event_fraction_percentage": "F_ev_pct",
    "gain_loss.taxable_event_fiat_amount_with_fee_fraction": "F_ev_fiat", "gain_loss.taxable_event.spot_price": "F_ev_spot",
    "gain_loss.taxable_event.unique_id": "F_ev_uid", "taxable_event_note": "F_ev_note",
}
LOT_EXPR = {
    "gain_loss.acquired_lot.timestamp": "F_lot_ts", "gain_loss.acquired_lot_fraction_percentage": "F_lot_pct",
    "gain_loss.acquired_lot_fiat_amount_with_fee_fraction": "F_lot_fiat", "fiat_fee_fraction": "F_lot_fee",
    "gain_loss.fiat_cost_basis": "F_lot_cost", "gain_loss.acquired_lot.spot_price": "F_lot_spot",
    "gain_loss.acquired_lot.unique_id": "F_lot_uid", "acquired_lot_note": "F_lot_note",
}
SUMMARY_EXPR = {
    "year": "F_y_year", "asset": "F_asset", "gain_loss.fiat_gain_loss": "F_y_gain", "capital_gains_type": "F_cap_type",
    "gain_loss.transaction_type.get_translation().upper()": "F_y_type", "gain_loss.crypto_amount": "F_y_crypto",
    "gain_loss.fiat_amount": "F_y_fiat", "gain_loss.fiat_cost_basis": "F_y_cost",
}

EV_NOTE = ("f'{current_taxable_event_fraction}/{total_taxable_event_fractions}: {gain_loss.crypto_amount:.8f} of "
           "{gain_loss.taxable_event.crypto_balance_change:.8f} {asset}'")
LOT_NOTE = ("f'{current_acquired_lot_fraction}/{total_acquired_lot_fractions}: {gain_loss.crypto_amount:.8f} of "
            "{gain_loss.acquired_lot.crypto_balance_change:.8f} {asset}'")
EV_TYPE = "f'{self._get_table_type_from_transaction(gain_loss.taxable_event)} / {gain_loss.taxable_event.transaction_type.get_translation().upper()}'"


def U(node):
    return ast.unparse(node)


def stmts_of(fn):
    """source text of every statement (at any depth) of a function, each unparsed on its own (no outer indentation)"""
    return {ast.unparse(x) for x in ast.walk(fn) if isinstance(x, ast.stmt)}


def coq_str(s):
    return "[" + "; ".join(str(ord(ch)) for ch in s) + "]"


def coq_bools(l):
    return "[" + "; ".join("true" if b else "false" for b in l) + "]"


def _is_text(node):
    """list element of a header / legend table: '' -> False, _(..) / _(..).format(..) / non-empty literal -> True"""
    if isinstance(node, ast.Constant) and isinstance(node.value, str):
        return node.value != ""
    if isinstance(node, ast.Call):
        f = node.func
        if isinstance(f, ast.Name) and f.id == "_" and len(node.args) == 1 and isinstance(node.args[0], ast.Constant) \
                and isinstance(node.args[0].value, str) and node.args[0].value != "":
            return True
        if isinstance(f, ast.Attribute) and f.attr == "format" and _is_text(f.value):
            return True
    raise Unrecognised(f"header/legend element {U(node)[:60]}")


def _msgid(node):
    """_('text') or _('text').format(..) -> text"""
    if isinstance(node, ast.Call) and isinstance(node.func, ast.Attribute) and node.func.attr == "format":
        node = node.func.value
    if isinstance(node, ast.Call) and isinstance(node.func, ast.Name) and node.func.id == "_" and len(node.args) == 1 \
            and isinstance(node.args[0], ast.Constant) and isinstance(node.args[0].value, str):
        return node.args[0].value
    return None


def _text_tables(setup):
    """assignments self.__name = [...] in _setup_text_data -> {name: ast.List}"""
    out = {}
    for s in setup.body:
        tgt = val = None
        if isinstance(s, ast.AnnAssign):
            tgt, val = s.target, s.value
        elif isinstance(s, ast.Assign) and len(s.targets) == 1:
            tgt, val = s.targets[0], s.value
        if tgt is not None and isinstance(tgt, ast.Attribute) and dotted(tgt) and dotted(tgt).startswith("self.__") and isinstance(val, ast.List):
            out[tgt.attr] = val
    return out


def _fill_cell_call(stmt):
    """Expr(self._fill_cell(sheet, row_expr, col, value, ...)) -> (row_src, col:int, value node) or None"""
    if not (isinstance(stmt, ast.Expr) and isinstance(stmt.value, ast.Call)):
        return None
    c = stmt.value
    if dotted(c.func) != "self._fill_cell" or len(c.args) < 4:
        return None
    if U(c.args[0]) != "sheet":
        raise Unrecognised("_fill_cell on another sheet")
    col = c.args[2]
    if not (isinstance(col, ast.Constant) and isinstance(col.value, int)):
        raise Unrecognised("_fill_cell column is not a literal")
    for k in c.keywords:
        if k.arg not in ("visual_style", "data_style"):
            raise Unrecognised(f"_fill_cell keyword {k.arg}")
    if len(c.args) > 4:
        raise Unrecognised("_fill_cell positional style arguments")
    return U(c.args[1]), col.value, c.args[3]


STYLE_NAMES = {"year", "visual_style", "highlighted_style", "transaction_visual_style", "border_style", "border_suffix",
               "transparent_style", "taxable_event_style", "acquired_lot_style", "taxable_event_style_modifier",
               "acquired_lot_style_modifier", "previous_acquired_lot", "previous_transaction", "border_drawn", "capital_gains_type"}


def _is_style_stmt(s):
    """statements that only compute styles (not modelled): declarations and assignments to style variables"""
    if isinstance(s, ast.AnnAssign) and isinstance(s.target, ast.Name):
        if s.value is None:
            return True
        return s.target.id in STYLE_NAMES and "row_index" not in U(s.value) or s.target.id in ("transaction", "gain_loss") and U(s.value).startswith("cast(")
    if isinstance(s, ast.Assign) and len(s.targets) == 1 and isinstance(s.targets[0], ast.Name):
        return s.targets[0].id in STYLE_NAMES
    if isinstance(s, ast.If):
        return all(_is_style_stmt(x) for x in s.body + s.orelse) and "row_index" not in U(s.test) or False
    return False


def _table_loop(fn, loop_var_src):
    """the single `for ... in <set>` loop of a table function"""
    loops = [s for s in fn.body if isinstance(s, ast.For)]
    if len(loops) != 1 or loops[0].orelse:
        raise Unrecognised(f"{fn.name}: expected exactly one loop")
    if U(loops[0].iter) != loop_var_src:
        raise Unrecognised(f"{fn.name}: loop iterates over {U(loops[0].iter)}")
    return loops[0]


def _cols(stmts, table, fname, special=None, link=None):
    """column list of the top-level _fill_cell statements of a loop body; `special` handles other statements
    (returns True if consumed)"""
    cols = []
    incr = 0
    for s in stmts:
        fc = _fill_cell_call(s)
        if fc:
            row, col, val = fc
            if row != "row_index":
                raise Unrecognised(f"{fname}: cell row {row}")
            cols.append((col,) + _value(val, table, fname, link))
            continue
        if isinstance(s, ast.AugAssign) and U(s) == "row_index += 1":
            incr += 1
            if s is not stmts[-1]:
                raise Unrecognised(f"{fname}: row_index incremented before the end of the row")
            continue
        if special and special(s):
            continue
        if _is_style_stmt(s):
            continue
        raise Unrecognised(f"{fname}: statement {U(s)[:70]}")
    if incr != 1:
        raise Unrecognised(f"{fname}: row_index += 1 count {incr}")
    return cols


def _value(val, table, fname, link):
    """value expression of a cell -> (link kind, field)"""
    src = U(val)
    if link and isinstance(val, ast.Call) and dotted(val.func) in link:
        kind, first_arg, tab = link[dotted(val.func)]
        if kind == "L_summary":
            if len(val.args) != 3 or U(val.args[0]) != "asset" or U(val.args[2]) != "year":
                raise Unrecognised(f"{fname}: summary link arguments {src[:60]}")
            inner = U(val.args[1])
            if inner not in tab:
                raise Unrecognised(f"{fname}: linked value {inner[:60]}")
            return (kind, tab[inner])
        if len(val.args) != 2:
            raise Unrecognised(f"{fname}: link arguments")
        who = U(val.args[0])
        for k, (arg, t) in first_arg.items():
            if who == arg:
                inner = U(val.args[1])
                if inner not in t:
                    raise Unrecognised(f"{fname}: linked value {inner[:60]}")
                return (k, t[inner])
        raise Unrecognised(f"{fname}: link subject {who}")
    if src not in table:
        raise Unrecognised(f"{fname}: cell value {src[:70]}")
    return ("L_none", table[src])


def coq_cols(cols):
    return "[" + "; ".join(f"({c}, {l}, {f})" for c, l, f in cols) + "]"


def _sum_formula(fn, names):
    """return a + b + c ... over known terms -> coq expression"""
    rets = [s for s in fn.body if isinstance(s, ast.Return)]
    if len(rets) != 1 or len([s for s in fn.body if not isinstance(s, ast.Expr)]) != 1:
        raise Unrecognised(f"{fn.name}: body")

    def go(e):
        if isinstance(e, ast.BinOp) and isinstance(e.op, (ast.Add, ast.Sub, ast.Mult)):
            op = {ast.Add: "+", ast.Sub: "-", ast.Mult: "*"}[type(e.op)]
            return f"({go(e.left)} {op} {go(e.right)})"
        if isinstance(e, ast.Constant) and isinstance(e.value, int) and not isinstance(e.value, bool):
            return str(e.value) if e.value >= 0 else f"({e.value})"
        src = U(e)
        if src in names:
            return names[src]
        raise Unrecognised(f"{fn.name}: term {src[:60]}")
    return go(rets[0].value)


def _call_gap(stmt, callee, sheet):
    """row_index = self.<callee>(<sheet>, ..., row_index [+ k]) -> k"""
    if not (isinstance(stmt, ast.Assign) and U(stmt.targets[0]) == "row_index" and isinstance(stmt.value, ast.Call)):
        return None
    c = stmt.value
    if dotted(c.func) != f"self.{callee}":
        return None
    if c.keywords or U(c.args[0]) != sheet:
        raise Unrecognised(f"{callee}: call arguments")
    last = c.args[-1]
    if U(last) == "row_index":
        return 0
    if isinstance(last, ast.BinOp) and isinstance(last.op, ast.Add) and U(last.left) == "row_index" \
            and isinstance(last.right, ast.Constant) and isinstance(last.right.value, int):
        return last.right.value
    raise Unrecognised(f"{callee}: start row {U(last)}")


def _header_call(fn, tables):
    """first statement: row_index = self._fill_header(_(title), self.__h1, self.__h2, sheet, row_index, col)"""
    s = fn.body[0]
    if not (isinstance(s, ast.Assign) and U(s.targets[0]) == "row_index" and isinstance(s.value, ast.Call)
            and dotted(s.value.func) == "self._fill_header"):
        raise Unrecognised(f"{fn.name}: does not start with _fill_header")
    a = s.value.args
    if len(a) != 6 or s.value.keywords or U(a[3]) != "sheet" or U(a[4]) != "row_index":
        raise Unrecognised(f"{fn.name}: _fill_header arguments")
    if _msgid(a[0]) is None:
        raise Unrecognised(f"{fn.name}: title")
    if not (isinstance(a[5], ast.Constant) and isinstance(a[5].value, int)):
        raise Unrecognised(f"{fn.name}: header column")
    h1, h2 = a[1].attr if isinstance(a[1], ast.Attribute) else None, a[2].attr if isinstance(a[2], ast.Attribute) else None
    if h1 not in tables or h2 not in tables:
        raise Unrecognised(f"{fn.name}: header tables")
    return ([_is_text(e) for e in tables[h1].elts], [_is_text(e) for e in tables[h2].elts], a[5].value)


FILL_HEADER_BODY = [
    "self._fill_cell(sheet, row_index, 0, title, visual_style='title', apply_style=apply_style)",
    "row_index += 1",
    "self._fill_cell(sheet, row_index, 0, '', visual_style='transparent', apply_style=apply_style)",
    "self._fill_cell(sheet, row_index + 1, 0, '', visual_style='transparent', apply_style=apply_style)",
    "header1: str",
    "header2: str",
    "i: int = 0",
    "for header1, header2 in zip(header_row_1, header_row_2):\n"
    "    self._fill_cell(sheet, row_index, column_index + i, header1, visual_style='header', data_style='default', apply_style=apply_style)\n"
    "    self._fill_cell(sheet, row_index + 1, column_index + i, header2, visual_style='header', data_style='default', apply_style=apply_style)\n"
    "    i += 1",
    "return row_index + 2",
]


def _ods_generator(repo):
    tree = gen.parse(repo, "plugin/report/abstract_ods_generator.py")
    cls = find_class(tree, "AbstractODSGenerator")
    fh = find_method(cls, "_fill_header")
    body = [U(s) for s in fh.body if not (isinstance(s, ast.If) and isinstance(s.body[0], ast.Raise))
            and not (isinstance(s, ast.Expr) and "type_check" in U(s))]
    if body != FILL_HEADER_BODY:
        raise Unrecognised("_fill_header body changed")
    fp = find_method(cls, "_fill_page")
    if "cls._fill_cell(sheet, row_index + i, column_index + j, element, apply_style=False)" not in U(fp):
        raise Unrecognised("_fill_page body")
    init = find_method(cls, "_initialize_output_file")
    src = U(init)
    have = stmts_of(init)
    need = [
        "cls._fill_page(legend_data, legend_sheet, 0, 0)",
        "accounting_method_by_year.append(f'{old_year}->{year}:{method.upper()}')",
        "accounting_method_by_year.append(f'{year}:{method.upper()}')",
        "old_year = MIN_DATE.year",
        "cls._fill_cell(legend_sheet, index, 1, ', '.join(accounting_method_by_year), visual_style='transparent')",
        "cls._fill_cell(legend_sheet, index + 1, 1, from_date if from_date != MIN_DATE else 'non-specified', visual_style='transparent')",
        "cls._fill_cell(legend_sheet, index + 2, 1, to_date if to_date != MAX_DATE else 'non-specified', visual_style='transparent')",
        "legend_sheet.name = _('Legend')",
    ]
    for n in need:
        if n not in have:
            raise Unrecognised(f"_initialize_output_file: missing `{n[:60]}`")
    for n in ["for index in range(0, 100):", "if legend_sheet[index, 0].value == _('Accounting Method'):", "if year - old_year > 1:",
              "if len(years_2_accounting_method_names) == 1:", "for year, method in years_2_accounting_method_names.items():"]:
        if n not in src:
            raise Unrecognised(f"_initialize_output_file: missing `{n[:60]}`")
    keyed = src.count("years_2_accounting_method_names[MIN_DATE.year]")
    by_value = "next(iter(years_2_accounting_method_names.values()))" in src
    app_value = "accounting_method_by_year.append(accounting_method.upper())" in have
    app_keyed = "accounting_method_by_year.append(years_2_accounting_method_names[MIN_DATE.year].upper())" in have
    n_app = sum(1 for x in have if x.startswith("accounting_method_by_year.append("))
    if n_app != 3:
        raise Unrecognised("_initialize_output_file: method list construction")
    if keyed == 0 and by_value and app_value and ("accounting_method: str = next(iter(years_2_accounting_method_names.values())) "
                                                  "if len(years_2_accounting_method_names) == 1 else 'mixed'") in have:
        single_by_value = True
    elif keyed == 2 and not by_value and app_keyed:
        single_by_value = False
    else:
        raise Unrecognised("_initialize_output_file: single-method lookup shape")
    return single_by_value


def _type_msgids(repo):
    tree = gen.parse(repo, "entry_types.py")
    for n in tree.body:
        tgt = n.target if isinstance(n, ast.AnnAssign) else (n.targets[0] if isinstance(n, ast.Assign) else None)
        if tgt is not None and U(tgt) == "_transaction_type_values_to_translation":
            if not isinstance(n.value, ast.Dict):
                break
            out = {}
            for k, v in zip(n.value.keys, n.value.values):
                p = dotted(k)
                m = _msgid(v)
                if p is None or not p.startswith("TransactionType.") or m is None:
                    raise Unrecognised("type translation entry")
                out[p.split(".")[1]] = m
            if sorted(out) != sorted(gen.TTYPES):
                raise Unrecognised("type translation table is not total")
            cls = find_class(tree, "TransactionType")
            if "return _transaction_type_values_to_translation[self]" not in U(find_method(cls, "get_translation")):
                raise Unrecognised("get_translation body")
            return out
    raise Unrecognised("type translation table not found")


def frag_full_report(repo):
    single_by_value = _ods_generator(repo)
    tmsg = _type_msgids(repo)
    tree = gen.parse(repo, "plugin/report/rp2_full_report.py")
    cls = find_class(tree, "Generator")
    consts = {}
    for n in cls.body:
        if isinstance(n, ast.AnnAssign) and isinstance(n.target, ast.Name) and n.target.id in ("MIN_ROWS", "MAX_COLUMNS"):
            if not (isinstance(n.value, ast.Constant) and isinstance(n.value.value, int)):
                raise Unrecognised(n.target.id)
            consts[n.target.id] = n.value.value
    if set(consts) != {"MIN_ROWS", "MAX_COLUMNS"}:
        raise Unrecognised("MIN_ROWS / MAX_COLUMNS")
    M = lambda name: find_method(cls, name)  # noqa: E731
    tables = _text_tables(M("_setup_text_data"))
    if "__legend" not in tables:
        raise Unrecognised("legend table")
    legend = []
    method_row = None
    for k, row in enumerate(tables["__legend"].elts):
        if not isinstance(row, ast.List):
            raise Unrecognised("legend row")
        legend.append([_is_text(e) for e in row.elts])
        if method_row is None and row.elts and _msgid(row.elts[0]) == "Accounting Method":
            method_row = k
    if method_row is None or method_row >= 100:
        raise Unrecognised("legend has no 'Accounting Method' row")

    # ---- sheet names and sizes
    def name_fmt(fn):
        v = gen._single_return(M(fn)) if hasattr(gen, "_single_return") else M(fn).body[-1].value
        if not (isinstance(v, ast.Call) and isinstance(v.func, ast.Attribute) and v.func.attr == "format" and U(v.args[0]) == "asset"):
            raise Unrecognised(fn)
        m = _msgid(v)
        if m is None or m.count("{}") != 1:
            raise Unrecognised(fn)
        return m
    msg_inout, msg_tax = name_fmt("get_in_out_sheet_name"), name_fmt("get_tax_sheet_name")
    inout_rows = _sum_formula(M("__get_number_of_rows_in_transaction_sheet"), {
        "self.MIN_ROWS": "gen_full_min_rows", "computed_data.in_transaction_set.count": "n_in",
        "computed_data.out_transaction_set.count": "n_out", "computed_data.intra_transaction_set.count": "n_intra"})
    tax_rows = _sum_formula(M("__get_number_of_rows_in_output_sheet"), {
        "self.MIN_ROWS": "gen_full_min_rows", "len(computed_data.yearly_gain_loss_list)": "n_yearly",
        "computed_data.balance_set.count": "n_bal", "computed_data.gain_loss_set.count": "n_gl"})

    # ---- generate(): summary header, per-asset loop, sheet renamed at the end
    g = stmts_of(M("generate"))
    for n in ["summary_sheet = output_file.sheets['Summary']",
              "summary_row_index: int = self._fill_header(_('Yearly Gain / Loss Summary'), self.__yearly_gain_loss_summary_header_names_row_1, "
              "self.__yearly_gain_loss_summary_header_names_row_2, summary_sheet, 0, 0)",
              "summary_row_index = self.__generate_asset(computed_data, output_file, summary_row_index)",
              "summary_sheet.name = _('Summary')"]:
        if n not in g:
            raise Unrecognised(f"generate: missing `{n[:50]}`")
    for n in ["for asset, computed_data in asset_to_computed_data.items():", "template_sheets_to_keep=self.TEMPLATE_SHEETS_TO_KEEP"]:
        if n not in U(M("generate")):
            raise Unrecognised(f"generate: missing `{n[:50]}`")
    sum_h1 = [_is_text(e) for e in tables["__yearly_gain_loss_summary_header_names_row_1"].elts]
    sum_h2 = [_is_text(e) for e in tables["__yearly_gain_loss_summary_header_names_row_2"].elts]

    # ---- __generate_asset: order of the tables, gaps, sizes, clearing of the row map
    ga = M("__generate_asset")
    src = stmts_of(ga)
    for n in ["transaction_sheet: Any = ezodf.Table(transaction_sheet_name)", "output_sheet: Any = ezodf.Table(output_sheet_name)",
              "output_file.sheets += transaction_sheet", "output_file.sheets += output_sheet",
              "transaction_sheet.reset(size=(self.__get_number_of_rows_in_transaction_sheet(computed_data), self.MAX_COLUMNS))",
              "output_sheet.reset(size=(self.__get_number_of_rows_in_output_sheet(computed_data), self.MAX_COLUMNS))",
              "new_lines: int = len(computed_data.yearly_gain_loss_list)", "if new_lines:\n    summary_sheet.append_rows(new_lines)",
              "return self.__generate_yearly_gain_loss_summary(summary_sheet, asset, computed_data.yearly_gain_loss_list, summary_row_index)",
              "transaction_sheet_name: str = self.get_in_out_sheet_name(asset)", "output_sheet_name: str = self.get_tax_sheet_name(asset)"]:
        if n not in src:
            raise Unrecognised(f"__generate_asset: missing `{n[:50]}`")
    order = [("__generate_in_table", "transaction_sheet"), ("__generate_out_table", "transaction_sheet"),
             ("__generate_intra_table", "transaction_sheet"), ("__generate_gain_loss_summary", "output_sheet"),
             ("__generate_account_balances", "output_sheet"), ("__generate_average_price_per_unit", "output_sheet"),
             ("__generate_gain_loss_detail", "output_sheet")]
    gaps, pos, resets, clears = [], 0, 0, False
    for s in ga.body:
        if pos < len(order):
            k = _call_gap(s, *order[pos])
            if k is not None:
                gaps.append(k)
                pos += 1
                continue
        if U(s) in ("row_index: int = 0", "row_index = 0"):
            resets += 1
            if pos not in (0, 3):
                raise Unrecognised("__generate_asset: row_index reset position")
            continue
        if U(s) in ("self.__in_out_sheet_transaction_2_row.clear()", "self.__in_out_sheet_transaction_2_row = {}",
                    "Generator.__in_out_sheet_transaction_2_row.clear()"):
            if pos != 0:
                raise Unrecognised("__generate_asset: row map cleared after a table was written")
            clears = True
            continue
        if ("row_index" in U(s) or "_2_row" in U(s)) and not isinstance(s, ast.Return):
            raise Unrecognised(f"__generate_asset: statement {U(s)[:60]}")
    if pos != len(order) or resets != 2:
        raise Unrecognised("__generate_asset: table calls")

    # ---- In-Out tables
    def map_assign(s):
        return U(s) == "self.__in_out_sheet_transaction_2_row[transaction] = row_index + 1"

    seen = {"map": 0}

    def in_special(s):
        if map_assign(s):
            seen["map"] += 1
            return True
        return U(s) in ("in_lot_sold_percentage: Optional[RP2Decimal] = computed_data.get_in_lot_sold_percentage(transaction)",
                        "if in_lot_sold_percentage == _ZERO and previous_transaction is not None:\n    in_lot_sold_percentage = None")

    def plain_special(s):
        if map_assign(s):
            seen["map"] += 1
            return True
        return False
    fin, fout, fintra = M("__generate_in_table"), M("__generate_out_table"), M("__generate_intra_table")
    hdr_in, hdr_out, hdr_intra = _header_call(fin, tables), _header_call(fout, tables), _header_call(fintra, tables)
    in_cols = _cols(_table_loop(fin, "in_transaction_set").body, IN_EXPR, "in table", in_special)
    if "if in_lot_sold_percentage == _ZERO and previous_transaction is not None:\n    in_lot_sold_percentage = None" not in stmts_of(fin) \
            or "previous_transaction = transaction" not in stmts_of(fin) or "previous_transaction: Optional[InTransaction] = None" not in stmts_of(fin):
        raise Unrecognised("in table: sold-percentage blanking rule")
    out_cols = _cols(_table_loop(fout, "out_transaction_set").body, OUT_EXPR, "out table", plain_special)
    intra_cols = _cols(_table_loop(fintra, "intra_transaction_set").body, INTRA_EXPR, "intra table", plain_special)
    if seen["map"] != 3:
        raise Unrecognised("row map is not filled once per table row")
    for fn, nm in ((fin, "in_transaction_set"), (fout, "out_transaction_set"), (fintra, "intra_transaction_set")):
        if f"computed_data.{nm}" not in U(fn) or not U(fn.body[-1]) == "return row_index":
            raise Unrecognised(f"{fn.name}: set / return")

    # ---- Tax sheet tables
    fsum, fbal, favg, fdet = (M("__generate_gain_loss_summary"), M("__generate_account_balances"),
                              M("__generate_average_price_per_unit"), M("__generate_gain_loss_detail"))
    hdr_gls, hdr_bal, hdr_det = _header_call(fsum, tables), _header_call(fbal, tables), _header_call(fdet, tables)
    gls_cols = _cols(_table_loop(fsum, "yearly_gain_loss_list").body, YEARLY_EXPR, "gain/loss summary")
    if "capital_gains_type: str = _('LONG') if yearly_gain_loss.is_long_term_capital_gains else _('SHORT')" not in stmts_of(fsum):
        raise Unrecognised("gain/loss summary: capital gains type")
    loops = [s for s in fbal.body if isinstance(s, ast.For)]
    if len(loops) != 2 or U(loops[0].iter) != "balance_set" or U(loops[1].iter) != "sorted(totals.items())" \
            or U(loops[1].target) != "(holder, value)":
        raise Unrecognised("account balances: loops")

    def bal_special(s):
        return U(s) in ("value = totals.setdefault(balance.holder, _ZERO)", "value += balance.final_balance", "totals[balance.holder] = value")
    bal_cols = _cols(loops[0].body, BAL_EXPR, "balances", bal_special)
    if not all(x in stmts_of(loops[0]) for x in ("value = totals.setdefault(balance.holder, _ZERO)", "value += balance.final_balance",
                                          "totals[balance.holder] = value")):
        raise Unrecognised("account balances: totals")
    tot_cols = _cols(loops[1].body, TOTAL_EXPR, "balance totals")
    # average price: fixed block
    avg = []
    for s in favg.body:
        fc = _fill_cell_call(s)
        if fc:
            row, col, val = fc
            off = 0 if row == "row_index" else (int(row.split("+")[1]) if row.startswith("row_index + ") else None)
            if off is None or col != 0:
                raise Unrecognised("average price: cell position")
            if U(val) == "price_per_unit":
                avg.append((off, "true"))
            elif _msgid(val):
                avg.append((off, "false"))
            else:
                raise Unrecognised("average price: value")
        elif isinstance(s, ast.Return):
            if not U(s).startswith("return row_index + "):
                raise Unrecognised("average price: return")
            avg_rows = int(U(s)[len("return row_index + "):])
        else:
            raise Unrecognised("average price: statement")
    # detail table
    link = {"self.__get_hyperlinked_transaction_value":
            (None, {"L_event": ("gain_loss.taxable_event", EV_EXPR), "L_lot": ("gain_loss.acquired_lot", LOT_EXPR)}, None)}
    dl = _table_loop(fdet, "gain_loss_set")
    state = {"year_map": 0, "lot": None}

    def det_special(s):
        src = U(s)
        if src == ("if gain_loss.taxable_event.timestamp.year != year:\n"
                   "    self.__tax_sheet_year_2_row[_AssetAndYear(asset, gain_loss.taxable_event.timestamp.year)] = row_index + 1"):
            state["year_map"] += 1
            return True
        if src in ("border_style = self.__get_border_style(gain_loss.taxable_event.timestamp.year, year)", "year = border_style.year",
                   "current_taxable_event_fraction: int = gain_loss_set.get_taxable_event_fraction(gain_loss) + 1",
                   "total_taxable_event_fractions: int = gain_loss_set.get_taxable_event_number_of_fractions(gain_loss.taxable_event)",
                   "transaction_type: str = " + EV_TYPE, "taxable_event_note: str = " + EV_NOTE, "highlighted_style: str = f'highlighted{border_suffix}'",
                   "if current_taxable_event_fraction == total_taxable_event_fractions:\n"
                   "    taxable_event_style_modifier = '' if taxable_event_style_modifier == '_alt' else '_alt'"):
            return True
        if isinstance(s, ast.If) and U(s.test) == "gain_loss.acquired_lot":
            if state["lot"] is not None:
                raise Unrecognised("detail: two acquired-lot branches")

            def lot_special(x):
                return U(x) in ("current_acquired_lot_fraction: int = gain_loss_set.get_acquired_lot_fraction(gain_loss) + 1",
                                "total_acquired_lot_fractions: int = gain_loss_set.get_acquired_lot_number_of_fractions(gain_loss.acquired_lot)",
                                "acquired_lot_note: str = " + LOT_NOTE,
                                "fiat_fee_fraction: RP2Decimal = gain_loss.acquired_lot.fiat_fee * gain_loss.acquired_lot_fraction_percentage",
                                "acquired_lot_style = f'acquired_lot{acquired_lot_style_modifier}{border_suffix}'",
                                "if gain_loss.acquired_lot != previous_acquired_lot:\n"
                                "    acquired_lot_style_modifier = '' if acquired_lot_style_modifier == '_alt' else '_alt'")
            lot_cols = _cols(s.body + [ast.parse("row_index += 1").body[0]], {}, "detail (lot)", lot_special, link)
            els = [x for x in s.orelse if not _is_style_stmt(x) and not lot_special(x)]
            if len(els) != 1 or not isinstance(els[0], ast.For) or not U(els[0].iter).startswith("range(") \
                    or U(els[0].body[0]) != "self._fill_cell(sheet, row_index, i, '', visual_style=f'{acquired_lot_style}')" or len(els[0].body) != 1:
                raise Unrecognised("detail: no-lot branch")
            ra = els[0].iter.args
            if len(ra) != 2 or not all(isinstance(a, ast.Constant) and isinstance(a.value, int) for a in ra):
                raise Unrecognised("detail: no-lot range")
            state["lot"] = (lot_cols, ra[0].value, ra[1].value)
            return True
        return False
    det_cols = _cols(dl.body, DETAIL_EXPR, "detail", det_special, link)
    if state["year_map"] != 1 or state["lot"] is None:
        raise Unrecognised("detail: year map / lot branch")
    for need_src in ("year: int = 0", "gain_loss_set: GainLossSet = computed_data.gain_loss_set"):
        if need_src not in stmts_of(fdet):
            raise Unrecognised("detail: preamble")
    # links
    lt = stmts_of(M("__get_hyperlinked_transaction_value"))
    for n in ["row: Optional[int] = self.__get_in_out_sheet_row(transaction)", "if not row:\n    return value",
              """if isinstance(value, (RP2Decimal, int, float)):\n    return f'=HYPERLINK("#{self.get_in_out_sheet_name(transaction.asset)}.a{row}:z{row}"; {value})'""",
              """return f'=HYPERLINK("#{self.get_in_out_sheet_name(transaction.asset)}.a{row}:z{row}"; "{value}")'"""]:
        if n not in lt:
            raise Unrecognised(f"transaction link: missing `{n[:50]}`")
    gr = stmts_of(M("__get_in_out_sheet_row"))
    if "if transaction not in self.__in_out_sheet_transaction_2_row:\n    return None" not in gr \
            or "return self.__in_out_sheet_transaction_2_row[transaction]" not in gr:
        raise Unrecognised("__get_in_out_sheet_row body")
    ls = M("__get_hyperlinked_summary_value")
    lsrc = stmts_of(ls)
    for n in ["""if isinstance(value, (RP2Decimal, int, float)):\n    return f'=HYPERLINK("#{self.get_tax_sheet_name(asset)}.a{row}:z{row}"; {value})'""",
              """return f'=HYPERLINK("#{self.get_tax_sheet_name(asset)}.a{row}:z{row}"; "{value}")'"""]:
        if n not in lsrc:
            raise Unrecognised(f"summary link: missing `{n[:50]}`")
    if "row: int = self.__tax_sheet_year_2_row[_AssetAndYear(asset, year)]" in lsrc and " not in self.__tax_sheet_year_2_row" not in U(ls):
        guarded = False
    elif ("asset_and_year: _AssetAndYear = _AssetAndYear(asset, year)" in lsrc
          and "if asset_and_year not in self.__tax_sheet_year_2_row:\n    return value" in lsrc
          and "row: int = self.__tax_sheet_year_2_row[asset_and_year]" in lsrc):
        guarded = True
    else:
        raise Unrecognised("summary link: lookup shape")
    # summary sheet lines
    fys = M("__generate_yearly_gain_loss_summary")
    slink = {"self.__get_hyperlinked_summary_value": ("L_summary", None, SUMMARY_EXPR)}
    sl = _table_loop(fys, "yearly_gain_loss_list")

    def sum_special(s):
        return U(s) in ("visual_style: str = 'transparent'", "year: int = gain_loss.year",
                        "capital_gains_type: str = _('LONG') if gain_loss.is_long_term_capital_gains else _('SHORT')")
    sum_cols = _cols(sl.body, {}, "summary sheet", sum_special, slink)
    if "year: int = gain_loss.year" not in stmts_of(sl) or "capital_gains_type: str = _('LONG') if gain_loss.is_long_term_capital_gains else _('SHORT')" not in stmts_of(sl):
        raise Unrecognised("summary sheet: year / type")
    # class-level dictionaries
    csrc = {U(x) for x in cls.body}
    for n in ["__in_out_sheet_transaction_2_row: Dict[AbstractTransaction, int] = {}", "__tax_sheet_year_2_row: Dict[_AssetAndYear, int] = {}"]:
        if n not in csrc:
            raise Unrecognised("class-level dictionaries")
    tgt = gen.parse(repo, "plugin/report/abstract_ods_generator.py")
    ttf = find_method(find_class(tgt, "AbstractODSGenerator"), "_get_table_type_from_transaction")
    tt = stmts_of(ttf)
    if "if isinstance(transaction, InTransaction):\n    return 'IN'" not in tt or "if isinstance(transaction, OutTransaction):\n    return 'OUT'" not in tt \
            or U(ttf.body[-1]) != "return 'INTRA'":
        raise Unrecognised("_get_table_type_from_transaction")

    s = FIELDS
    s += f"Definition gen_full_min_rows : Z := {consts['MIN_ROWS']}.\n"
    s += f"Definition gen_full_max_columns : Z := {consts['MAX_COLUMNS']}.\n"
    s += f"Definition gen_full_inout_rows (n_in n_out n_intra : Z) : Z := {inout_rows}.\n"
    s += f"Definition gen_full_tax_rows (n_yearly n_bal n_gl : Z) : Z := {tax_rows}.\n"
    s += "Definition gen_header_height : Z := 3.\n"
    s += f"Definition gen_full_gaps : list Z := [{'; '.join(map(str, gaps))}].\n"
    s += f"Definition gen_full_avg_cells : list (Z * bool) := [{'; '.join(f'({o}, {b})' for o, b in avg)}].\n"
    s += f"Definition gen_full_avg_rows : Z := {avg_rows}.\n"
    for nm, (h1, h2, col) in (("in", hdr_in), ("out", hdr_out), ("intra", hdr_intra), ("gls", hdr_gls), ("bal", hdr_bal), ("det", hdr_det),
                              ("sum", (sum_h1, sum_h2, 0))):
        s += f"Definition gen_full_hdr_{nm} : list bool * list bool * Z := ({coq_bools(h1)}, {coq_bools(h2)}, {col}).\n"
    s += f"Definition gen_full_legend : list (list bool) := [{'; '.join(coq_bools(r) for r in legend)}].\n"
    s += f"Definition gen_full_legend_method_row : Z := {method_row}.\n"
    for nm, cols in (("in", in_cols), ("out", out_cols), ("intra", intra_cols), ("gls", gls_cols), ("bal", bal_cols), ("tot", tot_cols),
                     ("det", det_cols), ("det_lot", state["lot"][0]), ("sum", sum_cols)):
        s += f"Definition gen_full_cols_{nm} : list fcol := {coq_cols(cols)}.\n"
    s += f"Definition gen_full_nolot_range : Z * Z := ({state['lot'][1]}, {state['lot'][2]}).\n"
    s += f"Definition gen_full_msg_inout : str := {coq_str(msg_inout)}.\n"
    s += f"Definition gen_full_msg_tax : str := {coq_str(msg_tax)}.\n"
    for nm in ("Summary", "Legend", "LONG", "SHORT", "YES", "NO"):
        s += f"Definition gen_full_msg_{nm.lower()} : str := {coq_str(nm)}.\n"
    s += "Definition gen_full_type_msgid (t : ttype) : str :=\n  match t with\n"
    for t in gen.TTYPES:
        s += f"  | {t} => {coq_str(tmsg[t])}\n"
    s += "  end.\n"
    s += ("Definition gen_full_msgids : list (str * bool) :=\n  map (fun t => (gen_full_type_msgid t, true)) all_ttypes ++\n"
          "  map (fun m => (m, false)) [gen_full_msg_long; gen_full_msg_short; gen_full_msg_yes; gen_full_msg_no; gen_full_msg_inout; "
          "gen_full_msg_tax; gen_full_msg_summary; gen_full_msg_legend].\n")
    s += f"Definition gen_full_clears_row_map : bool := {'true' if clears else 'false'}.\n"
    s += f"Definition gen_full_summary_link_guarded : bool := {'true' if guarded else 'false'}.\n"
    s += f"Definition gen_ods_single_method_by_value : bool := {'true' if single_by_value else 'false'}.\n"
    return s


gen.FRAGMENTS.append(("full_report", frag_full_report, None))
