"""Source-derived tables of the hand-modelled aggregation code (balance.py, computed_data.py).

Same contract as gen.py (one recogniser per fragment, fail-closed, fallback to the accepted text under accepted/,
status `translated` / `translated(differs-from-accepted)` / `fallback(<reason>)` recorded in the evidence), but the
fragments are written to their OWN file Model/GeneratedTie.v: nothing of the executable model depends on it, only
Model/BalanceGen.v, Model/ComputedGen.v (interpreters of the tables) and the agreement proofs Proofs/BalanceGenProofs.v,
Proofs/ComputedGenProofs.v, which the property files C06-C10, C13 cite.  So an edit of balance.py / computed_data.py
re-checks those proofs and properties (about a minute) instead of rebuilding everything that imports Generated.v.

  python -m harness.translate.tie accept [repo]     rewrite the accepted fragments from the given tree
  python -m harness.translate.tie show [repo]       print the generated file and the status
"""
import os
import sys

from . import gen
from .expr import Unrecognised
from .frag_balance import frag_balance
from .frag_computed import frag_computed
from .frag_entry_set import frag_entry_set
from .frag_avl_key import frag_avl_key

FRAGMENTS = [("balance", frag_balance), ("computed", frag_computed), ("entry_set", frag_entry_set), ("avl_key", frag_avl_key)]

HEADER = """(** GENERATED from /repo's working tree by harness/translate/tie.py -- do not edit. *)
From RP2V Require Import Base.Prelude Base.Time Base.Dec Model.Types.
Open Scope Z_scope.
"""


def generate(repo):
    parts, status = [HEADER], {}
    for name, fn in FRAGMENTS:
        acc_path = os.path.join(gen.ACCEPTED, name + ".v")
        try:
            text = fn(repo)
            status[name] = "translated"
            if os.path.exists(acc_path):
                with open(acc_path, encoding="utf-8") as f:
                    if f.read() != text:
                        status[name] = "translated(differs-from-accepted)"
        except (Unrecognised, SyntaxError, OSError, KeyError, IndexError, AttributeError, ValueError, TypeError) as exc:
            if not os.path.exists(acc_path):
                raise
            with open(acc_path, encoding="utf-8") as f:
                text = f.read()
            status[name] = f"fallback({type(exc).__name__}: {exc})"
        parts.append(f"\n(* ---- fragment: {name} [{status[name].split('(')[0]}] ---- *)\n" + text)
    return "".join(parts), status


def write(repo, theories):
    """called by core.prepare (under the build lock): -> status per fragment"""
    text, status = generate(repo)
    path = os.path.join(theories, "Model", "GeneratedTie.v")
    try:
        with open(path, encoding="utf-8") as f:
            if f.read() == text:
                return status
    except OSError:
        pass
    with open(path, "w", encoding="utf-8") as f:
        f.write(text)
    return status


def accept(repo):
    for name, fn in FRAGMENTS:
        with open(os.path.join(gen.ACCEPTED, name + ".v"), "w", encoding="utf-8") as f:
            f.write(fn(repo))


if __name__ == "__main__":
    repo = sys.argv[2] if len(sys.argv) > 2 else "/repo"
    if sys.argv[1] == "accept":
        accept(repo)
    else:
        text, st = generate(repo)
        sys.stdout.write(text)
        sys.stderr.write(repr(st) + "\n")
