"""Translator fragment `open_positions`: what Model/OpenPos.v takes from
src/rp2/plugin/report/open_positions.py (+ the shipped templates and message catalogues).

Extracted from the AST of `Generator.generate` (fail-closed, any unexpected statement raises
Unrecognised and the accepted text is used instead):
 * HEADER_ROWS, the three sheet names, the prompt strings, the two style thresholds;
 * which header cells are texts / empty (the six header lists of `_setup_text_data`), the two
   "ENTER PRICES" note cells;
 * the arithmetic of the first pass (lot cost x (1 - sold %), the two `> ZERO` filters), of the
   second pass (per-unit cost, row cost, weight) as Coq expressions, after checking that the
   surrounding dictionary bookkeeping is the expected text;
 * every row writer as a table  column -> value  (data rows of both sheets, the Input row, the two
   percentage loops, per-holder totals and grand totals), formulas as lists of literal pieces and
   row-number holes;
 * the condition for per-holder total rows; whether the repair of finding F8-openpos (drop assets without a counted
   balance between the two passes) is present;
 * the translated sheet names per shipped language (message catalogues, as gettext reads them);
 * the (rows, columns) of the three template sheets per (country, language) template that exists.
"""
import ast
import gettext
import os

from .expr import Translator, Unrecognised, find_class, find_method

LANGS = ["en", "es", "kl", "en_IE", "ja"]           # code = index (harness/props/c15.py uses the same)
COUNTRIES = ["us", "es", "jp", "ie", "generic"]     # code = index (Model/ReportInput.v country_of_code')
REL = "plugin/report/open_positions.py"


def strlit(s):
    return "[" + "; ".join(str(ord(ch)) for ch in s) + "]"


def _parse(repo, rel):
    with open(os.path.join(repo, "src", "rp2", rel), encoding="utf-8") as f:
        return ast.parse(f.read())


def _const(tree, name):
    for n in tree.body:
        tgt = n.target if isinstance(n, ast.AnnAssign) else (n.targets[0] if isinstance(n, ast.Assign) else None)
        if isinstance(tgt, ast.Name) and tgt.id == name:
            return n.value
    raise Unrecognised(f"constant {name} not found")


def _str_const(tree, name):
    v = _const(tree, name)
    if not (isinstance(v, ast.Constant) and isinstance(v.value, str)):
        raise Unrecognised(f"{name} is not a string literal")
    return v.value


def _dec_literal(node):
    """RP2Decimal("0.20") -> (20, -2)"""
    if not (isinstance(node, ast.Call) and isinstance(node.func, ast.Name) and node.func.id == "RP2Decimal" and len(node.args) == 1
            and not node.keywords and isinstance(node.args[0], ast.Constant) and isinstance(node.args[0].value, str)):
        raise Unrecognised("not an RP2Decimal literal")
    from decimal import Decimal
    sign, digits, exp = Decimal(node.args[0].value).as_tuple()
    if not isinstance(exp, int):
        raise Unrecognised("non-finite decimal literal")
    m = int("".join(map(str, digits)))
    return f"({'-' if sign else ''}{m}, {exp})"


class _Tr(Translator):
    """expr.Translator + RP2Decimal("...") literals"""

    def expr(self, node, expect=None):
        if isinstance(node, ast.Call) and isinstance(node.func, ast.Name) and node.func.id == "RP2Decimal":
            return (_dec_literal(node), "dec")
        return super().expr(node, expect)


def _stmts(body):
    return [s for s in body if not Translator.is_noise(s)]


def _value(s):
    """value of an Assign / AnnAssign to a single Name -> (name, value) or None"""
    if isinstance(s, ast.AnnAssign) and isinstance(s.target, ast.Name) and s.value is not None:
        return s.target.id, s.value
    if isinstance(s, ast.Assign) and len(s.targets) == 1 and isinstance(s.targets[0], ast.Name):
        return s.targets[0].id, s.value
    return None


def _is_gettext(node):
    """_("text") or _("text {}").format(..) with a non-empty msgid -> msgid"""
    if isinstance(node, ast.Call) and isinstance(node.func, ast.Attribute) and node.func.attr == "format":
        node = node.func.value
    if isinstance(node, ast.Call) and isinstance(node.func, ast.Name) and node.func.id == "_" and len(node.args) == 1 \
            and isinstance(node.args[0], ast.Constant) and isinstance(node.args[0].value, str) and node.args[0].value:
        return node.args[0].value
    return None


class _Gen:
    def __init__(self, repo):
        self.repo = repo
        self.tree = _parse(repo, REL)
        self.cls = find_class(self.tree, "Generator")
        self.fn = find_method(self.cls, "generate")
        self.sheet_const = {"_ASSET": _str_const(self.tree, "_ASSET"), "_ASSET_EXCHANGE": _str_const(self.tree, "_ASSET_EXCHANGE"),
                            "_INPUT": _str_const(self.tree, "_INPUT")}
        self.prompt = _str_const(self.tree, "_INPUT_VALUE_STRING")
        self.report_prompt = _str_const(self.tree, "_REPORT_INPUT_VALUE_STRING")
        ts = _const(self.tree, "_TEMPLATE_SHEETS")
        if not (isinstance(ts, ast.Set) and sorted(e.value for e in ts.elts if isinstance(e, ast.Constant)) == sorted(self.sheet_const.values())):
            raise Unrecognised("_TEMPLATE_SHEETS")
        if ast.unparse(_const(self.tree, "_TEMPLATE_SHEETS_TO_KEEP")) != "{'__' + sheet_name for sheet_name in _TEMPLATE_SHEETS}":
            raise Unrecognised("_TEMPLATE_SHEETS_TO_KEEP")
        self.header_rows = None
        for n in self.cls.body:
            v = _value(n)
            if v and v[0] == "HEADER_ROWS" and isinstance(v[1], ast.Constant) and isinstance(v[1].value, int):
                self.header_rows = v[1].value
        if self.header_rows is None:
            raise Unrecognised("HEADER_ROWS")
        self.sheets = {}          # python variable -> sheet constant name
        self.out = {}

    # ----- formulas
    def parts(self, node, rowvar, endvar, env):
        if not isinstance(node, ast.JoinedStr):
            raise Unrecognised("formula is not an f-string")
        ps = []
        for v in node.values:
            if isinstance(v, ast.Constant) and isinstance(v.value, str):
                ps.append(("lit", v.value))
                continue
            if not isinstance(v, ast.FormattedValue) or v.conversion != -1 or v.format_spec is not None:
                raise Unrecognised("f-string piece")
            e = v.value
            src = ast.unparse(e)
            if src == f"{rowvar} + 1":
                ps.append(("row1",))
            elif src == "self.HEADER_ROWS + 1":
                ps.append(("hdr1",))
            elif endvar is not None and src == endvar:
                ps.append(("end",))
            elif src == "holder":
                ps.append(("holder",))
            elif src == "_INPUT_VALUE_STRING":
                ps.append(("lit", self.prompt))
            elif src == "_REPORT_INPUT_VALUE_STRING":
                ps.append(("lit", self.report_prompt))
            elif _is_gettext(e) is not None:
                if _is_gettext(e) != self.sheet_const["_INPUT"] or src != f"_({self.sheet_const['_INPUT']!r})":
                    raise Unrecognised(f"translated text {src} inside a formula")
                ps.append(("input",))
            elif isinstance(e, ast.Name) and e.id in env and isinstance(env[e.id], list):
                ps.extend(env[e.id])
            else:
                raise Unrecognised(f"f-string hole {src}")
        merged = []
        for p in ps:
            if p[0] == "lit" and merged and merged[-1][0] == "lit":
                merged[-1] = ("lit", merged[-1][1] + p[1])
            elif p != ("lit", ""):
                merged.append(p)
        return merged

    @staticmethod
    def coq_parts(ps):
        m = {"row1": "OPRow1", "hdr1": "OPHdr1", "end": "OPEnd", "holder": "OPHolder", "input": "OPInputName"}
        return "[" + "; ".join(f"OPLit {strlit(p[1])}" if p[0] == "lit" else m[p[0]] for p in ps) + "]"

    # ----- one row writer
    def row_block(self, stmts, roles, rowvar=None, sheet=None, endvar=None, need_append=True):
        """roles: python name -> op_val constructor for the data variables of this block.
        Returns (sheet const, [(col, coq op_val)])."""
        env = {}
        cells = []
        appended = 0
        closed = False
        for s in stmts:
            if closed:
                raise Unrecognised("statement after the row counter update")
            src = ast.unparse(s)
            av = _value(s)
            if isinstance(s, ast.Expr) and isinstance(s.value, ast.Call) and src.endswith(".append_rows(1)"):
                var = src[:-len(".append_rows(1)")]
                if var not in self.sheets or (sheet is not None and self.sheets[var] != sheet):
                    raise Unrecognised(f"append_rows on {var}")
                sheet = self.sheets[var]
                appended += 1
                continue
            if av and ast.unparse(av[1]).startswith("row_indexes[") and isinstance(av[1], ast.Subscript):
                if ast.unparse(av[1]) != f"row_indexes[{sheet}]" or (rowvar is not None):
                    raise Unrecognised(f"row variable: {src}")
                rowvar = av[0]
                continue
            if av and isinstance(av[1], ast.Subscript) and ast.unparse(av[1]).startswith("last_data_row_indexes["):
                if ast.unparse(av[1]) != f"last_data_row_indexes[{sheet}]":
                    raise Unrecognised(f"last data index: {src}")
                endvar = av[0]
                continue
            if av and isinstance(av[1], ast.JoinedStr):
                env[av[0]] = self.parts(av[1], rowvar, endvar, env)
                continue
            if av and isinstance(av[1], ast.BinOp) and isinstance(av[1].op, ast.Mult):
                # <row>_cost_basis = <balance variable> * unit_cost_basis
                bal = [k for k, v in roles.items() if v == "OVBalance"]
                if not bal or ast.unparse(av[1]) != f"{bal[0]} * unit_cost_basis":
                    raise Unrecognised(f"row cost basis: {src}")
                t = _Tr({bal[0]: ("balance", "grid"), "unit_cost_basis": ("unit_cost_basis", "dec")})
                c, ty = t.expr(av[1])
                if ty != "dec":
                    raise Unrecognised("row cost type")
                self.out.setdefault("row_cost", set()).add(c)
                env[av[0]] = "cost"
                continue
            if isinstance(s, ast.Assign) and len(s.targets) == 1 and ast.unparse(s.targets[0]) == f"row_indexes[{sheet}]":
                if ast.unparse(s.value) != f"{rowvar} + 1":
                    raise Unrecognised(f"row counter update: {src}")
                closed = True
                continue
            if isinstance(s, ast.Expr) and isinstance(s.value, ast.Call) and ast.unparse(s.value.func) == "self._fill_cell":
                a = s.value.args
                kws = {k.arg for k in s.value.keywords}
                if len(a) != 4 or not kws <= {"visual_style", "data_style", "apply_style"}:
                    raise Unrecognised(f"_fill_cell call shape: {src[:80]}")
                var = ast.unparse(a[0])
                if var not in self.sheets or self.sheets[var] != sheet:
                    raise Unrecognised(f"_fill_cell on sheet {var} inside a block of {sheet}")
                if ast.unparse(a[1]) != rowvar:
                    raise Unrecognised(f"_fill_cell row {ast.unparse(a[1])} (expected {rowvar})")
                if not (isinstance(a[2], ast.Constant) and isinstance(a[2].value, int)):
                    raise Unrecognised("_fill_cell column is not a literal")
                cells.append((a[2].value, self.value(a[3], roles, env, rowvar, endvar)))
                continue
            raise Unrecognised(f"unexpected statement in a row writer: {src[:100]}")
        if need_append and (appended != 1 or not closed):
            raise Unrecognised("row writer without exactly one append_rows / counter update")
        if len({c for c, _ in cells}) != len(cells):
            raise Unrecognised("a column is written twice in one row writer")
        return sheet, cells

    def value(self, node, roles, env, rowvar, endvar):
        src = ast.unparse(node)
        if isinstance(node, ast.Constant) and node.value == "":
            return "OVEmpty"
        if isinstance(node, ast.Name) and node.id in roles:
            return roles[node.id]
        if isinstance(node, ast.Name) and env.get(node.id) == "cost":
            return "OVCost"
        if isinstance(node, ast.Name) and isinstance(env.get(node.id), list):
            return f"OVFormula {self.coq_parts(env[node.id])}"
        if isinstance(node, ast.Name) and node.id == "_INPUT_VALUE_STRING":
            return f"OVStr {strlit(self.prompt)}"
        if isinstance(node, ast.BinOp) and isinstance(node.op, ast.Div) and isinstance(node.left, ast.Name) \
                and env.get(node.left.id) == "cost" and ast.unparse(node.right) == "total_cost_basis":
            t = _Tr({node.left.id: ("row_cost", "dec"), "total_cost_basis": ("total_cost_basis", "dec")})
            c, ty = t.expr(node)
            if ty != "odec":
                raise Unrecognised("weight type")
            self.out.setdefault("weight", set()).add(c)
            return "OVWeight"
        if isinstance(node, ast.JoinedStr):
            ps = self.parts(node, rowvar, endvar, env)
            if not (ps and ps[0][0] == "lit" and ps[0][1].startswith("=")):
                raise Unrecognised(f"f-string that is not a formula: {src[:60]}")
            return f"OVFormula {self.coq_parts(ps)}"
        if _is_gettext(node) is not None:
            return "OVLabel"
        raise Unrecognised(f"cell value {src[:80]}")

    @staticmethod
    def coq_cells(cells):
        return "[" + "; ".join(f"({c}, {v})" for c, v in cells) + "]"

    # ----- header lists
    def header_lists(self):
        fn = find_method(self.cls, "_setup_text_data")
        lists = {}
        for s in fn.body:
            if isinstance(s, ast.AnnAssign) and isinstance(s.target, ast.Attribute) and isinstance(s.value, ast.List):
                flags = []
                for e in s.value.elts:
                    if isinstance(e, ast.Constant) and e.value == "":
                        flags.append(False)
                    elif _is_gettext(e) is not None:
                        flags.append(True)
                    elif isinstance(e, ast.List):
                        flags.append(None)            # legend rows
                    else:
                        raise Unrecognised(f"header element {ast.unparse(e)[:60]}")
                lists[s.target.attr] = flags
        return lists

    # ----- the body of generate
    def run(self):
        body = _stmts(self.fn.body)
        i = 0

        def nxt():
            nonlocal i
            if i >= len(body):
                raise Unrecognised("generate ends early")
            s = body[i]
            i += 1
            return s

        def expect_src(text):
            s = nxt()
            if ast.unparse(s) != text:
                raise Unrecognised(f"expected `{text[:70]}`, found `{ast.unparse(s)[:70]}`")
            return s

        # prologue up to the sheet variables
        while True:
            s = nxt()
            av = _value(s)
            if av and ast.unparse(av[1]).startswith("output_file.sheets["):
                i -= 1
                break
            if isinstance(s, (ast.If, ast.AnnAssign, ast.Assign)) or (isinstance(s, ast.Expr) and ast.unparse(s) == "self._setup_text_data(country)"):
                continue
            raise Unrecognised(f"prologue statement {ast.unparse(s)[:80]}")
        for _ in range(3):
            var, val = _value(nxt())
            k = ast.unparse(val)[len("output_file.sheets["):-1]
            if k not in self.sheet_const:
                raise Unrecognised(f"sheet lookup {ast.unparse(val)}")
            self.sheets[var] = k
        if sorted(self.sheets.values()) != sorted(self.sheet_const):
            raise Unrecognised("the three sheet variables")
        # headers and notes
        hl = self.header_lists()
        headers, notes = {}, {}
        while True:
            s = nxt()
            if not (isinstance(s, ast.Expr) and isinstance(s.value, ast.Call)):
                i -= 1
                break
            f = ast.unparse(s.value.func)
            a = s.value.args
            kw = {k.arg: ast.unparse(k.value) for k in s.value.keywords}
            if f == "self._fill_header":
                if len(a) != 6 or kw != {"apply_style": "False"} or _is_gettext(a[0]) is None or ast.unparse(a[4]) != "0" or ast.unparse(a[5]) != "0":
                    raise Unrecognised("_fill_header call shape")
                sh = self.sheets.get(ast.unparse(a[3]))
                r1, r2 = a[1].attr if isinstance(a[1], ast.Attribute) else None, a[2].attr if isinstance(a[2], ast.Attribute) else None
                if sh is None or r1 not in hl or r2 not in hl or None in hl[r1] or None in hl[r2]:
                    raise Unrecognised("_fill_header arguments")
                headers[sh] = list(zip(hl[r1], hl[r2]))          # zip: the shorter list wins, as in _fill_header
            elif f == "self._fill_cell":
                sh = self.sheets.get(ast.unparse(a[0]))
                if len(a) != 4 or sh is None or kw != {"apply_style": "False"} or _is_gettext(a[3]) is None \
                        or not all(isinstance(x, ast.Constant) and isinstance(x.value, int) for x in a[1:3]):
                    raise Unrecognised("note cell call shape")
                notes.setdefault(sh, []).append((a[1].value, a[2].value))
            else:
                raise Unrecognised(f"header section: {f}")
        if sorted(headers) != sorted(self.sheet_const):
            raise Unrecognised("one header per sheet expected")
        expect_src("row_indexes: Dict[str, int] = {sheet_name: self.HEADER_ROWS for sheet_name in _TEMPLATE_SHEETS}")
        expect_src("total_cost_basis = ZERO")
        expect_src("asset_cost_bases: Dict[str, RP2Decimal] = {}")
        expect_src("holders: List[str] = []")
        expect_src("asset_crypto_balance_holder: Dict[str, Dict[str, RP2Decimal]] = {}")
        expect_src("asset_crypto_balance_holder_exchange: Dict[str, Dict[str, Dict[str, RP2Decimal]]] = {}")
        self.first_pass(nxt())
        # optional repair between the passes (finding F8-openpos): assets without a counted balance are dropped
        # and their cost leaves the grand total
        nx = nxt()
        repair = ("for asset in [a for a in asset_cost_bases if a not in asset_crypto_balance_holder]:\n"
                  "    total_cost_basis -= asset_cost_bases.pop(asset)")
        self.out["drop_orphans"] = ast.unparse(nx) == repair
        if self.out["drop_orphans"]:
            nx = nxt()
        self.second_pass(nx)
        # percentage loops
        pct = {}
        for _ in range(2):
            var, val = _value(nxt())
            src = ast.unparse(val)
            if not (src.startswith("row_indexes[") and src[len("row_indexes["):-1] in self.sheet_const):
                raise Unrecognised("end-of-data index before a percentage loop")
            sh = src[len("row_indexes["):-1]
            loop = nxt()
            if not (isinstance(loop, ast.For) and ast.unparse(loop.target) == "row_idx" and not loop.orelse
                    and ast.unparse(loop.iter) == f"range(self.HEADER_ROWS, row_indexes[{sh}])"):
                raise Unrecognised("percentage loop header")
            _, cells = self.row_block(_stmts(loop.body), {}, rowvar="row_idx", sheet=sh, endvar=var, need_append=False)
            pct[sh] = cells
        expect_src("last_data_row_indexes = row_indexes.copy()")
        totals, grands = {}, {}
        for _ in range(2):
            s = nxt()
            if not (isinstance(s, ast.If) and ast.unparse(s.test) == "len(holders) > 1" and not s.orelse and len(_stmts(s.body)) == 1):
                raise Unrecognised("per-holder totals condition")
            loop = _stmts(s.body)[0]
            if not (isinstance(loop, ast.For) and ast.unparse(loop.target) == "holder" and ast.unparse(loop.iter) == "holders" and not loop.orelse):
                raise Unrecognised("per-holder totals loop")
            sh, cells = self.row_block(_stmts(loop.body), {"holder": "OVHolder"})
            totals[sh] = cells
            # grand total: statements up to and including the counter update
            blk = []
            while True:
                t = nxt()
                blk.append(t)
                if isinstance(t, ast.Assign) and ast.unparse(t.targets[0]).startswith("row_indexes["):
                    break
            sh2, cells = self.row_block(blk, {})
            if sh2 != sh:
                raise Unrecognised("grand total on another sheet than the holder totals before it")
            grands[sh] = cells
        if sorted(totals) != ["_ASSET", "_ASSET_EXCHANGE"]:
            raise Unrecognised("totals for both report sheets expected")
        for var, k in sorted(self.sheets.items(), key=lambda kv: ["_ASSET", "_ASSET_EXCHANGE", "_INPUT"].index(kv[1])):
            expect_src(f"{var}.name = _({self.sheet_const[k]!r})")
        expect_src("output_file.save()")
        if i != len(body):
            raise Unrecognised("statements after save()")
        self.out.update(headers=headers, notes=notes, pct=pct, totals=totals, grands=grands)

    def first_pass(self, loop):
        if not (isinstance(loop, ast.For) and ast.unparse(loop.target) == "(asset, computed_data)"
                and ast.unparse(loop.iter) == "asset_to_computed_data.items()" and not loop.orelse):
            raise Unrecognised("first loop header")
        b = _stmts(loop.body)
        if len(b) != 4 or not isinstance(b[0], ast.If) or ast.unparse(b[1]) != "ComputedData.type_check('computed_data', computed_data)":
            raise Unrecognised("first loop body")
        lots, bals = b[2], b[3]
        if not (isinstance(lots, ast.For) and ast.unparse(lots.target) == "current_transaction"
                and ast.unparse(lots.iter) == "computed_data.in_transaction_set" and not lots.orelse):
            raise Unrecognised("lot loop header")
        lb = _stmts(lots.body)
        if len(lb) != 4 or ast.unparse(lb[0]) != "in_transaction = cast(InTransaction, current_transaction)" \
                or ast.unparse(lb[1]) != "sold_percent: RP2Decimal = computed_data.get_in_lot_sold_percentage(in_transaction)":
            raise Unrecognised("lot loop body")
        name, val = _value(lb[2])
        if name != "transaction_cost_basis":
            raise Unrecognised("transaction_cost_basis")
        tr = _Tr({"in_transaction.fiat_in_with_fee": ("(i_fiat_in_with_fee l)", "dec"), "in_transaction.fiat_in_no_fee": ("(i_fiat_in_no_fee l)", "dec"),
                  "in_transaction.fiat_fee": ("(i_fiat_fee l)", "dec"), "in_transaction.crypto_in": ("(i_crypto_in l)", "grid"),
                  "in_transaction.spot_price": ("(i_spot l)", "grid"), "sold_percent": ("sold_percent", "dec"),
                  "transaction_cost_basis": ("transaction_cost_basis", "dec")})
        c, ty = tr.expr(val)
        if ty != "dec":
            raise Unrecognised("lot cost type")
        self.out["lot_cost"] = c
        cond = lb[3]
        if not (isinstance(cond, ast.If) and not cond.orelse):
            raise Unrecognised("lot filter")
        c, ty = tr.expr(cond.test)
        if ty != "bool":
            raise Unrecognised("lot filter type")
        self.out["lot_counts"] = c
        want = ["value = asset_cost_bases.setdefault(asset, ZERO)", "value += transaction_cost_basis", "asset_cost_bases[asset] = value",
                "total_cost_basis += transaction_cost_basis"]
        if [ast.unparse(s) for s in _stmts(cond.body)] != want:
            raise Unrecognised("accumulation of the asset cost basis")
        if not (isinstance(bals, ast.For) and ast.unparse(bals.target) == "balance_set" and ast.unparse(bals.iter) == "computed_data.balance_set"
                and not bals.orelse and len(_stmts(bals.body)) == 1 and isinstance(_stmts(bals.body)[0], ast.If) and not _stmts(bals.body)[0].orelse):
            raise Unrecognised("balance loop")
        cond = _stmts(bals.body)[0]
        tr = _Tr({"balance_set.final_balance": ("final_balance", "grid")})
        c, ty = tr.expr(cond.test)
        if ty != "bool":
            raise Unrecognised("balance filter type")
        self.out["balance_counts"] = c
        want = [
            "if balance_set.holder not in holders:\n    holders.append(balance_set.holder)",
            "if asset not in asset_crypto_balance_holder:\n    asset_crypto_balance_holder[asset] = {}\n    asset_crypto_balance_holder_exchange[asset] = {}",
            "if balance_set.holder not in asset_crypto_balance_holder[asset]:\n    asset_crypto_balance_holder[asset][balance_set.holder] = ZERO\n"
            "    asset_crypto_balance_holder_exchange[asset][balance_set.holder] = {}",
            "asset_crypto_balance_holder[asset][balance_set.holder] += balance_set.final_balance",
            "if balance_set.exchange not in asset_crypto_balance_holder_exchange[asset][balance_set.holder]:\n"
            "    asset_crypto_balance_holder_exchange[asset][balance_set.holder][balance_set.exchange] = balance_set.final_balance",
        ]
        if [ast.unparse(s) for s in _stmts(cond.body)] != want:
            raise Unrecognised("bookkeeping of holders / balances in the first loop")

    def second_pass(self, loop):
        if not (isinstance(loop, ast.For) and ast.unparse(loop.target) == "(asset, asset_cost_basis)"
                and ast.unparse(loop.iter) == "asset_cost_bases.items()" and not loop.orelse):
            raise Unrecognised("second loop header")
        b = _stmts(loop.body)
        k = 0
        if ast.unparse(b[k]) != "total_crypto_balance = ZERO":
            raise Unrecognised("total_crypto_balance init")
        k += 1
        if ast.unparse(b[k]) != "for crypto_balance in asset_crypto_balance_holder[asset].values():\n    total_crypto_balance += crypto_balance":
            raise Unrecognised("total_crypto_balance loop")
        k += 1
        name, val = _value(b[k])
        if name != "unit_cost_basis":
            raise Unrecognised("unit_cost_basis")
        c, ty = _Tr({"asset_cost_basis": ("asset_cost_basis", "dec"), "total_crypto_balance": ("total_crypto_balance", "grid")}).expr(val)
        if ty != "odec":
            raise Unrecognised("unit cost type")
        self.out["unit_cost"] = c
        k += 1
        if ast.unparse(b[k]) != "unit_data_style: str = 'fiat'":
            raise Unrecognised("unit_data_style")
        k += 1
        want = ("if _FIAT_UNIT_DATA_STYLE_4_DECIMAL_MINIMUM <= unit_cost_basis < _FIAT_UNIT_DATA_STYLE_2_DECIMAL_MINIMUM:\n"
                "    unit_data_style = 'fiat_unit_4'\nelif unit_cost_basis < _FIAT_UNIT_DATA_STYLE_4_DECIMAL_MINIMUM:\n    unit_data_style = 'fiat_unit_7'")
        if ast.unparse(b[k]) != want:
            raise Unrecognised("unit style selection")
        self.out["style4"] = _dec_literal(_const(self.tree, "_FIAT_UNIT_DATA_STYLE_4_DECIMAL_MINIMUM"))
        self.out["style2"] = _dec_literal(_const(self.tree, "_FIAT_UNIT_DATA_STYLE_2_DECIMAL_MINIMUM"))
        k += 1
        # input row: up to the counter update
        blk = []
        while True:
            blk.append(b[k])
            k += 1
            if isinstance(blk[-1], ast.Assign) and ast.unparse(blk[-1].targets[0]).startswith("row_indexes["):
                break
        sh, cells = self.row_block(blk, {"asset": "OVAsset"})
        if sh != "_INPUT":
            raise Unrecognised("input row expected first")
        self.out["row_input"] = cells
        while k < len(b) and _value(b[k]) and isinstance(_value(b[k])[1], ast.Constant) and _value(b[k])[1].value == "":
            k += 1                               # _vlookup_formula = "" / _lookup_field = ""
        l1, l2 = b[k], b[k + 1]
        if k + 2 != len(b):
            raise Unrecognised("second loop has extra statements")
        if not (isinstance(l1, ast.For) and ast.unparse(l1.target) == "(holder, holder_crypto_balance)"
                and ast.unparse(l1.iter) == "asset_crypto_balance_holder[asset].items()" and not l1.orelse):
            raise Unrecognised("asset rows loop")
        sh, cells = self.row_block(_stmts(l1.body), {"asset": "OVAsset", "holder": "OVHolder", "holder_crypto_balance": "OVBalance",
                                                     "unit_cost_basis": "OVUnit"})
        if sh != "_ASSET":
            raise Unrecognised("asset rows go to another sheet")
        self.out["row_asset"] = cells
        if not (isinstance(l2, ast.For) and ast.unparse(l2.target) == "(holder, exchanges)"
                and ast.unparse(l2.iter) == "asset_crypto_balance_holder_exchange[asset].items()" and not l2.orelse
                and len(_stmts(l2.body)) == 1):
            raise Unrecognised("asset-exchange outer loop")
        l3 = _stmts(l2.body)[0]
        if not (isinstance(l3, ast.For) and ast.unparse(l3.target) == "(exchange, crypto_exchange_balance)"
                and ast.unparse(l3.iter) == "exchanges.items()" and not l3.orelse):
            raise Unrecognised("asset-exchange inner loop")
        sh, cells = self.row_block(_stmts(l3.body), {"asset": "OVAsset", "holder": "OVHolder", "exchange": "OVExchange",
                                                     "crypto_exchange_balance": "OVBalance", "unit_cost_basis": "OVUnit"})
        if sh != "_ASSET_EXCHANGE":
            raise Unrecognised("asset-exchange rows go to another sheet")
        self.out["row_asset_exchange"] = cells


def _translations(repo):
    """sheet names as the generator's `_()` returns them, per shipped language (None: no catalogue)"""
    res = {}
    for lang in LANGS:
        mo = os.path.join(repo, "src", "rp2", "locales", lang, "LC_MESSAGES", "messages.mo")
        if not os.path.exists(mo):
            res[lang] = None
            continue
        with open(mo, "rb") as f:
            res[lang] = gettext.GNUTranslations(f)
    return res


def _templates(repo, sheet_names):
    """(country, lang) -> [(rows, cols) of __Asset, __Asset - Exchange, __Input] for every template that exists"""
    try:
        import ezodf
    except ImportError as exc:      # pragma: no cover
        raise Unrecognised(f"ezodf not importable: {exc}")
    data = os.path.join(repo, "src", "rp2", "plugin", "report", "data")
    out = {}
    for c in COUNTRIES:
        for lang in LANGS:
            base = os.path.join(data, c, f"template_open_positions_{lang}")
            path = base + ".ods"
            if not os.path.exists(path):
                if not os.path.exists(base + ".txt"):
                    continue
                with open(base + ".txt", encoding="utf-8") as f:
                    link = f.read().strip()
                path = os.path.join(data, link)
                if not link.endswith(".ods") or not os.path.exists(path):
                    continue
            doc = ezodf.opendoc(path)
            names = list(doc.sheets.names())
            dims = []
            for s in sheet_names:
                if "__" + s not in names:
                    raise Unrecognised(f"{path}: sheet __{s} missing")
                sh = doc.sheets["__" + s]
                dims.append((sh.nrows(), sh.ncols()))
            if "__Legend_open_positions" not in names:
                raise Unrecognised(f"{path}: legend sheet missing")
            out[(c, lang)] = dims
    return out


def frag_open_positions(repo):
    g = _Gen(repo)
    g.run()
    o = g.out
    for k in ("row_cost", "weight"):
        if len(o.get(k, ())) != 1:
            raise Unrecognised(f"{k}: expected one formula shared by both sheets, found {sorted(o.get(k, ()))}")
    names = [g.sheet_const["_ASSET"], g.sheet_const["_ASSET_EXCHANGE"], g.sheet_const["_INPUT"]]
    s = "Inductive op_part := OPLit (s : str) | OPRow1 | OPHdr1 | OPEnd | OPHolder | OPInputName.\n"
    s += ("Inductive op_val := OVAsset | OVHolder | OVExchange | OVBalance | OVUnit | OVCost | OVWeight\n"
          "  | OVStr (s : str) | OVLabel | OVEmpty | OVFormula (ps : list op_part).\n")
    s += f"Definition gen_op_header_rows : Z := {g.header_rows}.\n"
    s += f"Definition gen_op_sheet_ids : list str := [{'; '.join(strlit(n) for n in names)}].\n"
    s += f"Definition gen_op_lot_cost (l : intx) (sold_percent : dec) : dec := {o['lot_cost']}.\n"
    s += f"Definition gen_op_lot_counts (transaction_cost_basis : dec) : bool := {o['lot_counts']}.\n"
    s += f"Definition gen_op_balance_counts (final_balance : Z) : bool := {o['balance_counts']}.\n"
    s += f"Definition gen_op_unit_cost (asset_cost_basis : dec) (total_crypto_balance : Z) : option dec := {o['unit_cost']}.\n"
    s += f"Definition gen_op_row_cost (balance : Z) (unit_cost_basis : dec) : dec := {sorted(o['row_cost'])[0]}.\n"
    s += f"Definition gen_op_weight (row_cost total_cost_basis : dec) : option dec := {sorted(o['weight'])[0]}.\n"
    s += f"Definition gen_op_style4_min : dec := {o['style4']}.\nDefinition gen_op_style2_min : dec := {o['style2']}.\n"
    s += "Definition gen_op_totals_need_more_than : Z := 1.\n"
    s += f"Definition gen_op_drop_orphans : bool := {'true' if o['drop_orphans'] else 'false'}.\n"
    key = {"_ASSET": "asset", "_ASSET_EXCHANGE": "asset_exchange", "_INPUT": "input"}
    for k in ("_ASSET", "_ASSET_EXCHANGE", "_INPUT"):
        hdr = "; ".join(f"({'true' if a else 'false'}, {'true' if b else 'false'})" for a, b in o["headers"][k])
        s += f"Definition gen_op_hdr_{key[k]} : list (bool * bool) := [{hdr}].\n"
        nt = "; ".join(f"({r}, {c})" for r, c in o["notes"].get(k, []))
        s += f"Definition gen_op_notes_{key[k]} : list (Z * Z) := [{nt}].\n"
    s += f"Definition gen_op_row_input : list (Z * op_val) := {g.coq_cells(o['row_input'])}.\n"
    s += f"Definition gen_op_row_asset : list (Z * op_val) := {g.coq_cells(o['row_asset'])}.\n"
    s += f"Definition gen_op_row_asset_exchange : list (Z * op_val) := {g.coq_cells(o['row_asset_exchange'])}.\n"
    for k in ("_ASSET", "_ASSET_EXCHANGE"):
        s += f"Definition gen_op_pct_{key[k]} : list (Z * op_val) := {g.coq_cells(o['pct'][k])}.\n"
        s += f"Definition gen_op_total_{key[k]} : list (Z * op_val) := {g.coq_cells(o['totals'][k])}.\n"
        s += f"Definition gen_op_grand_{key[k]} : list (Z * op_val) := {g.coq_cells(o['grands'][k])}.\n"
    tr = _translations(repo)
    s += "(* sheet names as gettext returns them, per language code (en es kl en_IE ja) *)\n"
    s += "Definition gen_op_names (lang : Z) : option (str * str * str) :=\n"
    for code, lang in enumerate(LANGS):
        if tr[lang] is None:
            continue
        t = [tr[lang].gettext(n) for n in names]
        s += f"  if lang =? {code} then Some ({strlit(t[0])}, {strlit(t[1])}, {strlit(t[2])}) else\n"
    s += "  None.\n"
    tp = _templates(repo, names)
    s += "(* (rows, columns) of the template sheets __Asset, __Asset - Exchange, __Input per (country code, language code) *)\n"
    s += "Definition gen_op_template (c lang : Z) : option ((Z * Z) * (Z * Z) * (Z * Z)) :=\n"
    for (c, lang), d in sorted(tp.items(), key=lambda kv: (COUNTRIES.index(kv[0][0]), LANGS.index(kv[0][1]))):
        s += (f"  if (c =? {COUNTRIES.index(c)}) && (lang =? {LANGS.index(lang)}) then "
              f"Some (({d[0][0]}, {d[0][1]}), ({d[1][0]}, {d[1][1]}), ({d[2][0]}, {d[2][1]})) else\n")
    s += "  None.\n"
    return s


FRAGMENT = ("open_positions", frag_open_positions, None)
