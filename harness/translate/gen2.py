"""Additional translator fragments (matcher structure, reports, imports, templates);
registered into gen.FRAGMENTS on import."""
import ast

from . import gen
from .expr import Unrecognised, find_class, find_method, dotted, Translator


def _stmts(body):
    return [s for s in body if not Translator.is_noise(s)]


def frag_matcher_flags(repo):
    """Structural facts of the seek functions that the matcher proofs depend on."""
    tree = gen.parse(repo, "abstract_accounting_method.py")
    cls = find_class(tree, "AbstractFeatureBasedAccountingMethod")
    fn = find_method(cls, "seek_non_exhausted_acquired_lot")
    body = _stmts(fn.body)
    last_if = None
    for s in body:
        if isinstance(s, ast.If) and "clear_partial_amount" in ast.unparse(s):
            last_if = s
    if last_if is None:
        raise Unrecognised("feature seek: final selection block not found")
    if ast.unparse(last_if.test) != "selected_acquired_lot_amount > ZERO and selected_acquired_lot":
        raise Unrecognised("feature seek: selection test")
    inner = _stmts(last_if.body)
    if len(inner) < 2 or ast.unparse(inner[0]) != "lot_candidates.clear_partial_amount(selected_acquired_lot)":
        raise Unrecognised("feature seek: clear_partial_amount is not first")
    push = "self.add_selected_lot_to_heap(lot_candidates.acquired_lot_heap, selected_acquired_lot)"
    mid = inner[1:-1]
    if not isinstance(inner[-1], ast.Return):
        raise Unrecognised("feature seek: no return")
    if len(mid) == 1 and isinstance(mid[0], ast.If) and not mid[0].orelse \
            and ast.unparse(mid[0].test) == "selected_acquired_lot_amount > taxable_event_amount" \
            and [ast.unparse(x) for x in _stmts(mid[0].body)] == [push]:
        always = False
    elif len(mid) == 1 and ast.unparse(mid[0]) == push:
        always = True
    else:
        raise Unrecognised("feature seek: re-push shape")
    # set_to_index pushes range(self.to_index, to_index + 1)
    fcls = find_class(tree, "FeatureBasedAcquiredLotCandidates")
    sti = ast.unparse(find_method(fcls, "set_to_index"))
    if "for i in range(self.to_index, to_index + 1)" not in sti:
        raise Unrecognised("set_to_index range")
    return f"Definition gen_always_repush : bool := {'true' if always else 'false'}.\n"


gen.FRAGMENTS.append(("matcher_flags", frag_matcher_flags, None))
