"""Additional translator fragments (reports, imports, templates); registered into gen.FRAGMENTS."""
