"""Typed, fail-closed translator from a small subset of Python expressions /
method bodies to Coq terms over the RP2 model records.

Anything outside the recognised subset raises Unrecognised; the caller then uses
the committed hand-written default for that fragment and records the fallback.
"""
import ast


class Unrecognised(Exception):
    pass


# types: grid (Z, 1e-11 units), dec, odec (option dec), bool, int (Z), ts, tdelta, ttype, optlot
TRUE = ("true", "bool")
FALSE = ("false", "bool")


def dotted(node):
    """self.a.b.c / self.a.b() -> 'self.a.b.c' / 'self.a.b()' (None if not such a path)."""
    call = False
    if isinstance(node, ast.Call):
        if node.args or node.keywords:
            return None
        node = node.func
        call = True
    parts = []
    while isinstance(node, ast.Attribute):
        parts.append(node.attr)
        node = node.value
    if isinstance(node, ast.Name):
        parts.append(node.id)
    else:
        return None
    s = ".".join(reversed(parts))
    return s + "()" if call else s


class Translator:
    def __init__(self, env, lot_mode=None):
        """env: dotted path -> (coq term, type).  lot_mode: None (no lot notion),
        'none' or 'some' for partial evaluation of `self.acquired_lot` truthiness."""
        self.env = env
        self.lot_mode = lot_mode

    # ---------- helpers
    def to_dec(self, t):
        c, ty = t
        if ty == "dec":
            return c
        if ty == "grid":
            return f"(of_grid {c})"
        if ty == "int":
            return f"({c}, 0)"
        raise Unrecognised(f"cannot view {ty} as dec")

    def zero_like(self, ty):
        if ty in ("grid", "int"):
            return ("0", ty)
        if ty == "dec":
            return ("dzero", "dec")
        raise Unrecognised(f"ZERO of type {ty}")

    def truth(self, t):
        c, ty = t
        if ty == "bool":
            return t
        if ty == "optlot":
            if self.lot_mode == "none":
                return FALSE
            if self.lot_mode == "some":
                return TRUE
        raise Unrecognised(f"truthiness of {ty}")

    # ---------- expressions
    def expr(self, node, expect=None):
        if isinstance(node, ast.Constant):
            if node.value is True:
                return TRUE
            if node.value is False:
                return FALSE
            if isinstance(node.value, int):
                return (f"({node.value})", "int")
            raise Unrecognised(f"constant {node.value!r}")
        if isinstance(node, ast.Name):
            if node.id == "ZERO":
                if expect is None:
                    return ("ZERO", "zero")
                return self.zero_like(expect)
            if node.id in self.env:
                return self.env[node.id]
            raise Unrecognised(f"name {node.id}")
        p = dotted(node)
        if p is not None and p in self.env:
            c, ty = self.env[p]
            if c is None:
                raise Unrecognised(f"path {p} not available here")
            if self.lot_mode == "none" and p.startswith("self.acquired_lot."):
                raise Unrecognised("acquired_lot accessed where it is None")
            return (c, ty)
        if isinstance(node, ast.Attribute) and node.attr == "days":
            v = self.expr(node.value)
            if v[1] == "tdelta":
                a, b = v[0]
                return (f"(days_between {b} {a})", "int")
            raise Unrecognised(".days on non-timedelta")
        if isinstance(node, ast.UnaryOp):
            if isinstance(node.op, ast.Not):
                c, _ = self.truth(self.expr(node.operand))
                if c == "true":
                    return FALSE
                if c == "false":
                    return TRUE
                return (f"(negb {c})", "bool")
            if isinstance(node.op, ast.USub):
                c, ty = self.expr(node.operand, expect)
                if ty in ("grid", "int"):
                    return (f"(- {c})", ty)
                if ty == "dec":
                    return (f"(dneg {c})", "dec")
            raise Unrecognised("unary op")
        if isinstance(node, ast.BoolOp):
            vals = [self.truth(self.expr(v)) for v in node.values]
            op = "andb" if isinstance(node.op, ast.And) else "orb"
            acc = vals[0][0]
            for v in vals[1:]:
                acc = f"({op} {acc} {v[0]})"
            return (acc, "bool")
        if isinstance(node, ast.IfExp):
            t = self.truth(self.expr(node.test))
            if t[0] == "true":
                return self.expr(node.body, expect)
            if t[0] == "false":
                return self.expr(node.orelse, expect)
            a = self.expr(node.body, expect)
            b = self.expr(node.orelse, a[1] if a[1] != "zero" else expect)
            if a[1] == "zero":
                a = self.zero_like(b[1])
            if b[1] == "zero":
                b = self.zero_like(a[1])
            if a[1] != b[1]:
                raise Unrecognised("if-expression branches of different type")
            return (f"(if {t[0]} then {a[0]} else {b[0]})", a[1])
        if isinstance(node, ast.BinOp):
            return self.binop(node, expect)
        if isinstance(node, ast.Compare):
            return self.compare(node)
        raise Unrecognised(ast.dump(node)[:120])

    def binop(self, node, expect):
        a = self.expr(node.left)
        b = self.expr(node.right)
        if a[1] == "zero" and b[1] != "zero":
            a = self.zero_like("dec" if b[1] == "odec" else b[1])
        if b[1] == "zero" and a[1] != "zero":
            b = self.zero_like("dec" if a[1] == "odec" else a[1])
        op = node.op
        if isinstance(op, ast.Sub) and a[1] == "ts" and b[1] == "ts":
            return ((a[0], b[0]), "tdelta")
        if isinstance(op, (ast.Add, ast.Sub)):
            name = "add" if isinstance(op, ast.Add) else "sub"
            if a[1] == b[1] and a[1] in ("grid", "int"):
                return (f"(Z.{name} {a[0]} {b[0]})", a[1])
            if "odec" in (a[1], b[1]):
                oa = a[0] if a[1] == "odec" else f"(Some {self.to_dec(a)})"
                ob = b[0] if b[1] == "odec" else f"(Some {self.to_dec(b)})"
                return (f"(olift2 d{name} {oa} {ob})", "odec")
            return (f"(d{name} {self.to_dec(a)} {self.to_dec(b)})", "dec")
        if isinstance(op, ast.Mult):
            return (f"(dmul {self.to_dec(a)} {self.to_dec(b)})", "dec")
        if isinstance(op, ast.Div):
            if a[1] == "odec" or b[1] == "odec":
                raise Unrecognised("division of an optional value")
            return (f"(odiv {self.to_dec(a)} {self.to_dec(b)})", "odec")
        raise Unrecognised("binary operator")

    CMP = {ast.GtE: ("Z.geb", "dgeb"), ast.Gt: ("Z.gtb", "dgtb"), ast.LtE: ("Z.leb", "dleb"),
           ast.Lt: ("Z.ltb", "dltb"), ast.Eq: ("Z.eqb", "deqb"), ast.NotEq: (None, "dneb")}

    def compare(self, node):
        if len(node.ops) != 1:
            raise Unrecognised("chained comparison")
        op = node.ops[0]
        a = self.expr(node.left)
        b = self.expr(node.comparators[0])
        if a[1] == "zero":
            a = self.zero_like(b[1])
        if b[1] == "zero":
            b = self.zero_like(a[1])
        if isinstance(op, (ast.Is, ast.IsNot)):
            raise Unrecognised("is / is not")
        if a[1] == "ttype" and b[1] == "ttype":
            if isinstance(op, ast.Eq):
                return (f"(ttype_eqb {a[0]} {b[0]})", "bool")
            if isinstance(op, ast.NotEq):
                return (f"(negb (ttype_eqb {a[0]} {b[0]}))", "bool")
            raise Unrecognised("ordering on transaction types")
        if type(op) not in self.CMP:
            raise Unrecognised("comparison operator")
        zop, dop = self.CMP[type(op)]
        # Typed cases.  grid/grid (crypto amounts, 1e-11 units) and int/int: RP2Decimal compares after quantising to 13
        # decimals, which is exact on the 1e-11 grid, so the comparison is the integer one (`self.crypto_fee > ZERO` ->
        # `(Z.gtb (x_crypto_fee t) 0)`).  Anything involving a dec (fiat values, 31 significant digits) keeps RP2Decimal's
        # 13-decimal comparison (`self.fiat_fee > ZERO` -> `(dgtb (x_fiat_fee t) dzero)`).
        if a[1] == b[1] and a[1] in ("grid", "int"):
            if zop is None:
                return (f"(negb (Z.eqb {a[0]} {b[0]}))", "bool")
            return (f"({zop} {a[0]} {b[0]})", "bool")
        if a[1] in ("grid", "dec") and b[1] in ("grid", "dec"):
            return (f"({dop} {self.to_dec(a)} {self.to_dec(b)})", "bool")
        raise Unrecognised(f"comparison between {a[1]} and {b[1]}")

    # ---------- statement blocks: if-chains ending in return; raise = internal error
    def block(self, stmts, expect):
        """Translate a list of statements that must end in return/raise on every path.
        Returns (coq, type) or ('RAISE', 'raise')."""
        stmts = [s for s in stmts if not self.is_noise(s)]
        if not stmts:
            raise Unrecognised("block falls through")
        s = stmts[0]
        if isinstance(s, ast.Return):
            if s.value is None:
                raise Unrecognised("bare return")
            return self.expr(s.value, expect)
        if isinstance(s, ast.Raise):
            return ("RAISE", "raise")
        if isinstance(s, ast.If):
            t = self.truth(self.expr(s.test))
            rest = stmts[1:]
            then_falls = not self.ends(s.body)
            else_body = s.orelse if s.orelse else []
            else_falls = not self.ends(else_body) if else_body else True
            if t[0] == "true":
                return self.block(s.body + (rest if then_falls else []), expect)
            if t[0] == "false":
                return self.block(else_body + (rest if else_falls else []), expect)
            thn = self.block(s.body + (rest if then_falls else []), expect)
            els = self.block(else_body + (rest if else_falls else []), expect)
            if thn[1] == "raise":
                return els      # guard that raises an internal error: modelled as unreachable
            if els[1] == "raise":
                return thn
            if thn[1] == "zero":
                thn = self.zero_like(els[1])
            if els[1] == "zero":
                els = self.zero_like(thn[1])
            if thn[1] == "dec" and els[1] == "odec":
                thn = (f"(Some {thn[0]})", "odec")
            if els[1] == "dec" and thn[1] == "odec":
                els = (f"(Some {els[0]})", "odec")
            if thn[1] != els[1]:
                raise Unrecognised(f"branches of different type {thn[1]} / {els[1]}")
            return (f"(if {t[0]} then {thn[0]} else {els[0]})", thn[1])
        raise Unrecognised(f"statement {type(s).__name__}")

    def ends(self, stmts):
        stmts = [s for s in stmts if not self.is_noise(s)]
        if not stmts:
            return False
        last = stmts[-1]
        if isinstance(last, (ast.Return, ast.Raise)):
            return True
        if isinstance(last, ast.If) and last.orelse:
            return self.ends(last.body) and self.ends(last.orelse)
        return False

    @staticmethod
    def is_noise(s):
        """docstrings, comments-as-strings, logging calls, pass"""
        if isinstance(s, ast.Pass):
            return True
        if isinstance(s, ast.Expr):
            if isinstance(s.value, ast.Constant) and isinstance(s.value.value, str):
                return True
            if isinstance(s.value, ast.Call):
                p = s.value.func
                while isinstance(p, ast.Attribute):
                    p = p.value
                if isinstance(p, ast.Name) and p.id in ("LOGGER", "logging"):
                    return True
        return False


def find_class(tree, name):
    for n in tree.body:
        if isinstance(n, ast.ClassDef) and n.name == name:
            return n
    raise Unrecognised(f"class {name} not found")


def find_method(cls, name):
    for n in cls.body:
        if isinstance(n, ast.FunctionDef) and n.name == name:
            return n
    raise Unrecognised(f"method {name} not found in {cls.name}")
