(* Driver of the extracted model: reads "cmd a1 a2 ..." (decimal integers) per line,
   prints the resulting integer list on one line.  Integers are converted to and from
   Coq's binary Z with the extracted arithmetic only. *)
open Model

let rec pos_of_int (n : int) : positive =
  if n = 1 then XH else if n land 1 = 0 then XO (pos_of_int (n lsr 1)) else XI (pos_of_int (n lsr 1))
let z_of_int (n : int) : z = if n = 0 then Z0 else if n > 0 then Zpos (pos_of_int n) else Zneg (pos_of_int (-n))
let rec int_of_pos (p : positive) : int = match p with XH -> 1 | XO q -> 2 * int_of_pos q | XI q -> 2 * int_of_pos q + 1
let chunk = 1_000_000_000_000_000 (* 10^15 *)
let zchunk = z_of_int chunk

let z_of_string (s : string) : z =
  let neg = String.length s > 0 && s.[0] = '-' in
  let s = if neg then String.sub s 1 (String.length s - 1) else s in
  let n = String.length s in
  let acc = ref Z0 in
  let i = ref 0 in
  let first = n mod 15 in
  if first > 0 then (acc := z_of_int (int_of_string (String.sub s 0 first)); i := first);
  while !i < n do
    acc := Z.add (Z.mul !acc zchunk) (z_of_int (int_of_string (String.sub s !i 15)));
    i := !i + 15
  done;
  if neg then Z.opp !acc else !acc

let rec pos_bits (p : positive) : int = match p with XH -> 1 | XO q | XI q -> 1 + pos_bits q

let string_of_z (v : z) : string =
  let small p = pos_bits p <= 60 in
  match v with
  | Z0 -> "0"
  | Zpos p when small p -> string_of_int (int_of_pos p)
  | Zneg p when small p -> "-" ^ string_of_int (int_of_pos p)
  | _ ->
    let neg = (match v with Zneg _ -> true | _ -> false) in
    let a = ref (Z.abs v) in
    let parts = ref [] in
    while !a <> Z0 do
      let (q, r) = Z.div_eucl !a zchunk in
      let ri = (match r with Z0 -> 0 | Zpos p -> int_of_pos p | Zneg _ -> assert false) in
      parts := ri :: !parts;
      a := q
    done;
    let b = Buffer.create 64 in
    if neg then Buffer.add_char b '-';
    (match !parts with
     | [] -> Buffer.add_char b '0'
     | h :: t -> Buffer.add_string b (string_of_int h);
                 List.iter (fun x -> Buffer.add_string b (Printf.sprintf "%015d" x)) t);
    Buffer.contents b

let () =
  try
    while true do
      let line = input_line stdin in
      let toks = List.filter (fun s -> s <> "") (String.split_on_char ' ' line) in
      match toks with
      | [] -> print_newline ()
      | c :: rest ->
        let res = entry (z_of_string c) (List.map z_of_string rest) in
        print_string (String.concat " " (List.map string_of_z res));
        print_newline ()
    done
  with End_of_file -> ()
