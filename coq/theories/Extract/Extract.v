(** Extraction of the executable model.  Only ExtrOcamlBasic is used: bool, option,
    unit, list, prod, sumbool map to OCaml's; Z / positive / N / nat stay inductive. *)
Require Extraction.
Require Import ExtrOcamlBasic.
From RP2V Require Import Model.Main.
Extraction "model.ml" Main.entry.
