(** Property C09 -- later transactions never change results already computed for earlier periods. *)
From RP2V Require Import Base.Prelude Base.Time Base.Dec Model.Types Model.Generated Model.Matcher Model.MatchSpec Model.MatchWf
  Proofs.MatcherProps.
Open Scope Z_scope.

(** the matching computed by the matcher (as the code has it) for the history up to T is a prefix of
    the matching of any extension whose additional lots and events are all dated after T -- in
    particular for continuations containing lots the method would prefer; and a history that
    fails up to T fails with any continuation *)
Theorem C09_prefix_stable : forall lots lots2 sched evs evs2 T,
  (forall e, In e evs -> e_us e <= T) -> (forall e, In e evs2 -> T < e_us e) ->
  (forall l, In l lots -> utc_us (i_ts l) <= T) -> (forall l, In l lots2 -> T < utc_us (i_ts l)) ->
  wf lots sched evs -> wf (lots ++ lots2) sched (evs ++ evs2) ->
  match run_matcher gen_always_repush lots sched evs with
  | Ok fs1 => match run_matcher gen_always_repush (lots ++ lots2) sched (evs ++ evs2) with
              | Ok fs => exists fs2, fs = fs1 ++ fs2 /\ (forall f, In f fs2 -> exists e, In e evs2 /\ e_row e = f_ev f)
              | Err _ => True
              end
  | Err x => run_matcher gen_always_repush (lots ++ lots2) sched (evs ++ evs2) = Err x
  end.
Proof. exact m_prefix_stable. Qed.

Print Assumptions C09_prefix_stable.
