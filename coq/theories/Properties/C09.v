(** Property C09 -- later transactions never change results already computed for earlier periods. *)
(** Matcher layer: [run_matcher] (Model/Matcher.v).  Aggregation layer: [compute] / [compute_tax] (Model/Computed.v,
    Model/ComputedSpec.v); vocabulary [trunc_txs], [trunc_fracs], [restrict], [extends_after], [lots_precede_events]:
    Model/StabilitySpec.v.  Proofs: Proofs/SpecPrefix.v, Proofs/MatcherProps.v, Proofs/C09Proofs.v; examples and the F9
    witness: Proofs/C09Examples.v. *)
From Coq Require Import List ZArith Bool Lia.
From RP2V Require Import Base.Prelude Base.Time Base.Dec Model.Types Model.Generated Model.Txn Model.Matcher Model.MatchSpec Model.MatchWf
  Model.Pipeline Model.Computed Model.ComputedSpec Model.StabilitySpec
  Proofs.MatcherProps Proofs.ComputedProofs Proofs.C09Proofs Proofs.C09Examples.
Import ListNotations.
Open Scope Z_scope.

(** the matching computed by the matcher (as the code has it) for the history up to T is a prefix of
    the matching of any extension whose additional lots and events are all dated after T -- in
    particular for continuations containing lots the method would prefer; and a history that
    fails up to T fails with any continuation *)
Theorem C09_prefix_stable : forall lots lots2 sched evs evs2 T,
  (forall e, In e evs -> e_us e <= T) -> (forall e, In e evs2 -> T < e_us e) ->
  (forall l, In l lots -> utc_us (i_ts l) <= T) -> (forall l, In l lots2 -> T < utc_us (i_ts l)) ->
  wf lots sched evs -> wf (lots ++ lots2) sched (evs ++ evs2) ->
  match run_matcher gen_always_repush lots sched evs with
  | Ok fs1 => match run_matcher gen_always_repush (lots ++ lots2) sched (evs ++ evs2) with
              | Ok fs => exists fs2, fs = fs1 ++ fs2 /\ (forall f, In f fs2 -> exists e, In e evs2 /\ e_row e = f_ev f)
              | Err _ => True
              end
  | Err x => run_matcher gen_always_repush (lots ++ lots2) sched (evs ++ evs2) = Err x
  end.
Proof. exact m_prefix_stable. Qed.

(** * "a run limited by to-date T reports the same figures as a run on the history truncated at T"
    [trunc_txs D t] = the transactions of [t] dated (local date) up to [D]; [trunc_fracs D evs fs] = the fractions whose
    event is dated up to [D]; [restrict D t cd] = [cd] with its internal, unreported tables (unfiltered detail table and
    running sums) cut at [D] and EVERY reported field unchanged (C09_reported_fields_untouched).
    Needs time-sorted lists (what [build] produces) and local dates monotone in time (F9; see C09_to_date_refuted), and that
    lots are acquired no later than the events that consume them (true for the matcher's output: second theorem). *)
Theorem C09_to_date_equals_truncated_history : forall period from_day D D' allow exs hos t fs evs gls,
  time_sorted t -> dates_monotone t -> taxable_events t = Ok evs -> all_fractions t fs = Some gls ->
  lots_precede_events gls -> D <= D' ->
  compute period from_day D' allow exs hos (trunc_txs D t) (trunc_fracs D evs fs) =
  match compute period from_day D allow exs hos t fs with Ok cd => Ok (restrict D t cd) | Err e => Err e end.
Proof. exact to_date_equiv. Qed.

(** the whole computation: the matcher on the truncated history yields the truncated fractions, hence (D' = no to-date);
    the truncated history must still contain an acquisition (otherwise RP2 rejects the sheet: empty IN table), its
    well-formedness then follows from that of the full history (C09_truncated_history_wellformed) *)
Theorem C09_to_date_equals_truncated_history_end_to_end : forall period from_day D D' allow exs hos sched t evs cd,
  time_sorted t -> dates_monotone t -> taxable_events t = Ok evs ->
  wf (t_ins t) sched (map event_of evs) -> t_ins (trunc_txs D t) <> [] -> D <= D' ->
  compute_tax period from_day D allow exs hos sched t = Ok cd ->
  compute_tax period from_day D' allow exs hos sched (trunc_txs D t) = Ok (restrict D t cd).
Proof. exact compute_tax_to_date_equiv_built. Qed.
Theorem C09_truncated_history_wellformed : forall D sched t evs,
  time_sorted t -> dates_monotone t -> taxable_events t = Ok evs ->
  wf (t_ins t) sched (map event_of evs) -> t_ins (trunc_txs D t) <> [] ->
  wf (t_ins (trunc_txs D t)) sched (map event_of (filter (fun x => txn_day x <=? D) evs)).
Proof. exact wf_trunc. Qed.

Theorem C09_truncated_matching : forall D sched t evs,
  time_sorted t -> dates_monotone t -> taxable_events t = Ok evs ->
  wf (t_ins t) sched (map event_of evs) ->
  wf (t_ins (trunc_txs D t)) sched (map event_of (filter (fun x => txn_day x <=? D) evs)) ->
  forall fs, fractions_of gen_always_repush sched t = Ok fs ->
    fractions_of gen_always_repush sched (trunc_txs D t) = Ok (trunc_fracs D evs fs).
Proof. exact fractions_of_trunc. Qed.

(** views, labels, yearly list, balances, price per unit, sold percentages are the same field by field *)
Theorem C09_reported_fields_untouched : forall D t cd,
  let cd' := restrict D t cd in
  cd_events cd' = cd_events cd /\ cd_gls cd' = cd_gls cd /\ cd_evfrac cd' = cd_evfrac cd /\ cd_lotfrac cd' = cd_lotfrac cd /\
  cd_yearly cd' = cd_yearly cd /\ cd_balances cd' = cd_balances cd /\ cd_price cd' = cd_price cd /\
  cd_ins cd' = cd_ins cd /\ cd_outs cd' = cd_outs cd /\ cd_intras cd' = cd_intras cd /\ cd_sold_pct cd' = cd_sold_pct cd /\
  cd_all_gls cd' = take_until g_day D (cd_all_gls cd) /\
  (exists rest, cd_all_gls cd = cd_all_gls cd' ++ rest).
Proof. exact restrict_fields. Qed.

(** ... and it is false for the code as it is when local dates are not monotone in time (finding F9): history [t9] of
    Proofs/L4Examples.v, to-date 2020-12-31 -- the run with the to-date shows nothing, the run on the truncated history
    reports the sale dated 2020-12-31 and its yearly line *)
Theorem C09_to_date_refuted : exists period from_day D D' exs hos sched t cd cd',
  time_sorted t /\ D <= D' /\
  compute_tax period from_day D false exs hos sched t = Ok cd /\
  compute_tax period from_day D' false exs hos sched (trunc_txs D t) = Ok cd' /\
  cd_gls cd = [] /\ length (cd_gls cd') = 1%nat /\ cd_outs cd = [] /\ length (cd_outs cd') = 1%nat /\ cd_yearly cd = [] /\ length (cd_yearly cd') = 1%nat.
Proof. exact c09_to_date_refuted. Qed.

(** * "adding transactions dated after a time T never changes anything computed for taxable events at or before T"
    [extends_after T t t2]: [t2] is [t] plus transactions that all happen after the instant [T], everything of [t] happens at
    or before [T].  Pairing and amounts: the matcher's fractions of [t] are an initial segment of those of [t2]
    (C09_prefix_stable at the level of the transaction sets); a history that fails keeps failing. *)
Theorem C09_earlier_pairing_unchanged : forall T sched t t2 evs evs2,
  extends_after T t t2 -> taxable_events t = Ok evs -> taxable_events t2 = Ok evs2 ->
  wf (t_ins t) sched (map event_of evs) -> wf (t_ins t2) sched (map event_of evs2) ->
  match fractions_of gen_always_repush sched t with
  | Ok fs1 => forall fs2, fractions_of gen_always_repush sched t2 = Ok fs2 ->
                exists fsX, fs2 = fs1 ++ fsX /\ forall f, In f fsX -> exists x, In x evs2 /\ T < t_us x /\ t_row x = f_ev f
  | Err e => fractions_of gen_always_repush sched t2 = Err e
  end.
Proof. exact fractions_ext. Qed.

(** proceeds, cost bases, gains, long/short flags: the detail table of the earlier run is an initial segment of the later
    run's -- the same records [g] (event, lot, amount) at the same positions -- and [g_proceeds g], [g_cost g], [g_gain g],
    [g_long period g] are functions of the record alone; the added records belong to added events *)
Theorem C09_detail_table_unchanged : forall T sched t t2 evs evs2,
  extends_after T t t2 -> taxable_events t = Ok evs -> taxable_events t2 = Ok evs2 ->
  wf (t_ins t) sched (map event_of evs) -> wf (t_ins t2) sched (map event_of evs2) ->
  forall fs1 fs2 gls1 gls2,
  fractions_of gen_always_repush sched t = Ok fs1 -> fractions_of gen_always_repush sched t2 = Ok fs2 ->
  all_fractions t fs1 = Some gls1 -> all_fractions t2 fs2 = Some gls2 ->
  exists ext, gls2 = gls1 ++ ext /\ forall g, In g ext -> In (g_ev g) evs2 /\ ~ In (g_ev g) evs /\ T < t_us (g_ev g).
Proof. exact detail_table_ext. Qed.

(** "the yearly totals of closed years": the lines of the years <= Y are the same for two detail tables that agree on the
    fractions of those years (from C06_line_is_sum: a line is the left-to-right sum over the fractions with its key) *)
Theorem C09_closed_years : forall period Y to1 to2 fy gls1 gls2 yl1 yl2,
  yearly_list period to1 fy gls1 = Ok yl1 -> yearly_list period to2 fy gls2 = Ok yl2 ->
  filter (fun g => g_year g <=? Y) (take_until g_day to1 gls1) = filter (fun g => g_year g <=? Y) (take_until g_day to2 gls2) ->
  filter (fun L => y_year L <=? Y) yl1 = filter (fun L => y_year L <=? Y) yl2.
Proof. exact yearly_closed_years. Qed.

(** all of it for two runs of the whole computation (same options): every earlier fraction with all its figures, the running
    sums, and the yearly lines of every year Y that the added events do not touch *)
Theorem C09_later_transactions_change_nothing : forall T period from_day to_day allow allow2 exs hos sched t t2 evs evs2 cd cd2,
  extends_after T t t2 -> taxable_events t = Ok evs -> taxable_events t2 = Ok evs2 ->
  wf (t_ins t) sched (map event_of evs) -> wf (t_ins t2) sched (map event_of evs2) ->
  compute_tax period from_day to_day allow exs hos sched t = Ok cd ->
  compute_tax period from_day to_day allow2 exs hos sched t2 = Ok cd2 ->
  exists ext, cd_all_gls cd2 = cd_all_gls cd ++ ext /\
    (forall g, In g ext -> In (g_ev g) evs2 /\ ~ In (g_ev g) evs /\ T < t_us (g_ev g)) /\
    (exists rest, cd_gl_running cd2 = cd_gl_running cd ++ rest) /\
    forall Y, (forall g, In g ext -> Y < g_year g) ->
      filter (fun L => y_year L <=? Y) (cd_yearly cd) = filter (fun L => y_year L <=? Y) (cd_yearly cd2).
Proof. exact later_transactions_change_nothing. Qed.

(** Non-vacuity (Proofs/C09Examples.v, history A of Proofs/L4Examples.v): [to_date_instance] instantiates
    C09_to_date_equals_truncated_history_end_to_end (to-date 2020-08-26 vs the history without the 2021 sale; [wf_A], [wf_A'],
    [tA_time_sorted], [tA_dates_monotone] discharge the hypotheses; [to_date_cut]: the cut removes a fraction);
    [extension_instance] instantiates C09_later_transactions_change_nothing ([tA_extends_tA']); [extension_closed_year]: the four
    2020 lines are identical, the later run has a fifth line; [t9_not_monotone]: the F9 witness violates [dates_monotone]. *)

Print Assumptions C09_prefix_stable.
Print Assumptions C09_to_date_equals_truncated_history.
Print Assumptions C09_to_date_equals_truncated_history_end_to_end.
Print Assumptions C09_truncated_history_wellformed.
Print Assumptions C09_truncated_matching.
Print Assumptions C09_reported_fields_untouched.
Print Assumptions C09_to_date_refuted.
Print Assumptions C09_earlier_pairing_unchanged.
Print Assumptions C09_detail_table_unchanged.
Print Assumptions C09_closed_years.
Print Assumptions C09_later_transactions_change_nothing.

(** * From the rows.  [rows_extend_after T h h2] (Model/FromRowsSpec.v): the raw history [h] is [h2] without its rows dated after
    the instant [T] (rows keep ids and order; the added rows may stand anywhere in the tables).  Both histories are
    [built_history] (Proofs/ComputeTotal.v; spelled out in Properties/C01.v): the well-formedness of BOTH matcher inputs is derived
    from hypotheses about the rows, not assumed; [distinct_row_ids]: row ids pairwise distinct across the tables.
    The constructed, time-sorted sets of [h2] extend those of [h] ([extends_after]); the fractions of [h] are an initial segment of
    the fractions of [h2], the added fractions belong to added events; a history that fails keeps failing with the same error. *)
From RP2V Require Import Model.FromRowsSpec Proofs.L4Examples Proofs.ComputeTotal Proofs.FromRows Proofs.FromRowsExamples.

Theorem C09_prefix_stable_from_rows : forall T sched h t h2 t2,
  built_history sched h t -> built_history sched h2 t2 -> rows_extend_after T h h2 -> distinct_row_ids h2 ->
  extends_after T t t2 /\
  exists evs evs2, taxable_events t = Ok evs /\ taxable_events t2 = Ok evs2 /\
  match fractions_of gen_always_repush sched t with
  | Ok fs1 => forall fs2, fractions_of gen_always_repush sched t2 = Ok fs2 ->
                exists fsX, fs2 = fs1 ++ fsX /\ forall f, In f fsX -> exists x, In x evs2 /\ T < t_us x /\ t_row x = f_ev f
  | Err e => fractions_of gen_always_repush sched t2 = Err e
  end.
Proof. exact prefix_stable_from_rows. Qed.

(** ... and with the pairing everything computed for the earlier events: the detail table and the running sums of the earlier run
    are initial segments of the later run's, the yearly lines of every year the added events do not touch are identical *)
Theorem C09_later_rows_change_nothing : forall T period from_day to_day allow allow2 exs hos sched h t h2 t2 cd cd2,
  built_history sched h t -> built_history sched h2 t2 -> rows_extend_after T h h2 -> distinct_row_ids h2 ->
  compute_tax period from_day to_day allow exs hos sched t = Ok cd ->
  compute_tax period from_day to_day allow2 exs hos sched t2 = Ok cd2 ->
  exists ext, cd_all_gls cd2 = cd_all_gls cd ++ ext /\
    (forall g, In g ext -> T < t_us (g_ev g)) /\
    (exists rest, cd_gl_running cd2 = cd_gl_running cd ++ rest) /\
    forall Y, (forall g, In g ext -> Y < g_year g) ->
      filter (fun L => y_year L <=? Y) (cd_yearly cd) = filter (fun L => y_year L <=? Y) (cd_yearly cd2).
Proof. exact later_rows_change_nothing. Qed.

(** non-vacuity (Proofs/FromRowsExamples.v): history A without / with its 2021 sale; [hA_prefix_instance], [hA_later_rows_instance]
    instantiate the two theorems; the later run has one more fraction *)
Theorem C09_from_rows_nonvacuous :
  built_history schedA hA' tA' /\ built_history schedA hA tA /\ rows_extend_after T500 hA' hA /\ distinct_row_ids hA /\
  exists fs', fractions_of gen_always_repush schedA tA' = Ok fs' /\ length fs' = 6%nat /\ length fsA = 7%nat.
Proof. exact c09_from_rows_nonvacuous. Qed.

Print Assumptions C09_prefix_stable_from_rows.
Print Assumptions C09_later_rows_change_nothing.
Print Assumptions C09_from_rows_nonvacuous.

(** Source tie (regenerated on every run).  The three aggregates of [compute] whose stability under later transactions rests on
    a to-date rule of computed_data.py -- the yearly summary (cut of `_create_yearly_gain_loss_list`, year filter), the sold
    percentage per lot (the loop runs over the FILTERED gain/loss set; skip conditions on the lot's date), the average price
    (cut of `_compute_price_per_unit`) -- computed from the tables the translator reads from the source (Model/GeneratedTie.v,
    interpreters in Model/ComputedGen.v) are the hand-written [yearly_list], [sold_pct_add] fold and [price_per_unit] of
    Model/Computed.v.  An edit that drops a cut or moves the sold-percentage loop to the unfiltered set makes this theorem
    stop compiling (Proofs/ComputedGenYearly.v, ComputedGenSold.v, ComputedGenPrice.v). *)
From RP2V Require Import Model.GeneratedTie Model.ComputedGen Proofs.ComputedGenProofs.
Theorem C09_source_tie_to_date_rules :
  (forall period from_day to_day gls, yearly_list_gen period from_day to_day gls = yearly_list period to_day (year_of_day from_day) gls) /\
  (forall from_day to_day gls,
     sold_pct_gen from_day to_day gls = fold_left (sold_pct_add from_day to_day) (iter_window g_day from_day to_day gls) (Ok [])) /\
  (forall from_day to_day ins, price_per_unit_gen from_day to_day ins = price_per_unit to_day ins).
Proof. exact window_aggregates_gen_agree. Qed.
Print Assumptions C09_source_tie_to_date_rules.

(** Source tie (regenerated on every run): a lot acquired after a taxable event is invisible to it.  The lookup of
    `get_acquired_lot_for_taxable_event` (`find_max_value_less_than` of the max-disambiguator key of the event's timestamp over
    the keys `initialize` inserted), with the key format read from accounting_engine.py as data (Model/GeneratedTie.v, fragment
    avl_key; interpreter Model/AvlKeyGen.v), is [Matcher.to_index] at the event's instant - the bound all prefix-stability
    theorems above rest on.  A key built from the wall-clock time or without microseconds lets a later lot through (or hides an
    earlier one) and stops compiling here (Proofs/AvlKeyGenProofs.v). *)
From RP2V Require Import Model.AvlKeyGen Proofs.AvlKeyGenProofs.
Theorem C09_source_tie_lookup_ignores_later_lots :
  forall lots te, Forall (fun x => 0 <= i_row x <= ak_max_num) lots -> to_index_gen lots te = Some (to_index lots (utc_us te)).
Proof. exact to_index_gen_agrees. Qed.
Print Assumptions C09_source_tie_lookup_ignores_later_lots.
