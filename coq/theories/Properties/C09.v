(** Property C09 -- later transactions never change results already computed for earlier periods.
    The matching of events at or before T is a prefix of the matching of any extension whose
    additional lots and events are all dated after T (stated on the specification; the model
    equals the specification by Proofs/MatcherRefine.v). *)
From RP2V Require Import Base.Prelude Base.Time Base.Dec Model.Types Model.Generated Model.Matcher Model.MatchSpec Model.MatchWf
  Proofs.SpecPrefix.
Open Scope Z_scope.

Theorem C09_prefix_stable : forall lots lots2 sched evs evs2 T,
  (forall e, In e evs -> e_us e <= T) -> (forall e, In e evs2 -> T < e_us e) ->
  (forall l, In l lots -> utc_us (i_ts l) <= T) -> (forall l, In l lots2 -> T < utc_us (i_ts l)) ->
  wf (lots ++ lots2) sched (evs ++ evs2) ->
  match spec_run lots sched evs with
  | Ok fs1 => match spec_run (lots ++ lots2) sched (evs ++ evs2) with
              | Ok fs => exists fs2, fs = fs1 ++ fs2 /\ (forall f, In f fs2 -> exists e, In e evs2 /\ e_row e = f_ev f)
              | Err _ => True
              end
  | Err x => spec_run (lots ++ lots2) sched (evs ++ evs2) = Err x
  end.
Proof. exact spec_prefix_stable. Qed.

Print Assumptions C09_prefix_stable.
