(** Property C12 -- malformed or contradictory input is rejected, never silently processed.
    Only statements closed by [exact] of lemmas proved in Proofs/Faults*.v, and their axioms.

    [is_err r] = the model function returns an error (the implementation raises).  Layers: constructors (mk_in / mk_out /
    mk_intra), one row (create_<table>_args on the arguments read through the header map), one sheet row in the table state
    machine (row_step), the sheet (parse_sheet), the configuration (validate_config), the options (options_check) and the
    front end of a run (front_end: exit status and report files).  Positions are universally quantified: a faulty
    row after ANY accepted prefix and before ANYTHING; a faulty line after any accepted lines of a section; a
    faulty section after any accepted sections; a faulty asset after any parsed assets. *)
From RP2V Require Import Base.Prelude Base.Time Base.Dec Base.Sorting Model.Types Model.Generated Model.Txn Model.Parser Model.Render
  Model.ConfigModel Proofs.ParserSheet Proofs.ParserExample Proofs.FaultsCtor Proofs.FaultsSheet Proofs.FaultsPositions
  Proofs.FaultsConfig Proofs.FaultsExamples.
Open Scope Z_scope.

(** ---------- transaction type not allowed in its table (14 types x 3 tables) *)
Theorem C12_in_types : forall t, in_type_allowed t = true <->
  In t [AIRDROP; BUY; DONATE; GIFT; HARDFORK; INCOME; INTEREST; MINING; STAKING; WAGES].
Proof. exact in_types_exact. Qed.
Theorem C12_out_types : forall t, out_type_allowed t = true <-> In t [DONATE; FEE; GIFT; LOST; SELL; STAKING].
Proof. exact out_types_exact. Qed.
Theorem C12_in_type_not_allowed : forall r, in_type_allowed (ri_type r) = false -> is_err (mk_in r).
Proof. exact mk_in_type_not_allowed. Qed.
Theorem C12_out_type_not_allowed : forall r, out_type_allowed (ro_type r) = false -> is_err (mk_out r).
Proof. exact mk_out_type_not_allowed. Qed.
(** a transfer carries no type: it is always MOVE (a transaction_type column in [intra_header] is an unknown field, below) *)
Theorem C12_intra_type : forall a, t_type (TIntra a) = MOVE.
Proof. exact intra_always_move. Qed.

(** ---------- non-positive amounts, zero spot price where required, both fee kinds, received > sent *)
Theorem C12_in_nonpositive_amount : forall r, ri_type r <> STAKING -> ri_crypto_in r <= 0 -> is_err (mk_in r).
Proof. exact mk_in_nonpositive_amount. Qed.
Theorem C12_in_zero_spot : forall r, ri_spot r = 0 -> is_err (mk_in r).
Proof. exact mk_in_zero_spot. Qed.
Theorem C12_in_negative_spot : forall r, ri_spot r < 0 -> is_err (mk_in r).
Proof. exact mk_in_negative_spot. Qed.
Theorem C12_in_negative_crypto_fee : forall r v, ri_crypto_fee r = Some v -> v < 0 -> is_err (mk_in r).
Proof. exact mk_in_negative_crypto_fee. Qed.
Theorem C12_in_negative_fiat_fee : forall r v, ri_fiat_fee r = Some v -> v < 0 -> is_err (mk_in r).
Proof. exact mk_in_negative_fiat_fee. Qed.
Theorem C12_in_both_fees : forall r c f, ri_crypto_fee r = Some c -> ri_fiat_fee r = Some f -> is_err (mk_in r).
Proof. exact mk_in_both_fees. Qed.
Theorem C12_in_nonpositive_fiat_in_no_fee : forall r v, ri_fiat_in_no_fee r = Some v -> v <= 0 -> is_err (mk_in r).
Proof. exact mk_in_nonpositive_fiat_in_no_fee. Qed.
Theorem C12_in_nonpositive_fiat_in_with_fee : forall r v, ri_fiat_in_with_fee r = Some v -> v <= 0 -> is_err (mk_in r).
Proof. exact mk_in_nonpositive_fiat_in_with_fee. Qed.

Theorem C12_out_nonpositive_amount : forall r, ro_type r <> FEE -> ro_crypto_out_no_fee r <= 0 -> is_err (mk_out r).
Proof. exact mk_out_nonpositive_amount. Qed.
Theorem C12_out_zero_spot : forall r, ro_type r <> FEE -> ro_spot r = 0 -> is_err (mk_out r).
Proof. exact mk_out_zero_spot. Qed.
Theorem C12_out_negative_spot : forall r, ro_spot r < 0 -> is_err (mk_out r).
Proof. exact mk_out_negative_spot. Qed.
Theorem C12_out_negative_fee : forall r, ro_crypto_fee r < 0 -> is_err (mk_out r).
Proof. exact mk_out_negative_fee. Qed.
Theorem C12_out_fee_typed_nonpositive_fee : forall r, ro_type r = FEE -> ro_crypto_fee r <= 0 -> is_err (mk_out r).
Proof. exact mk_out_fee_typed_nonpositive_fee. Qed.
Theorem C12_out_fee_typed_with_amount : forall r, ro_type r = FEE -> ro_crypto_out_no_fee r <> 0 -> is_err (mk_out r).
Proof. exact mk_out_fee_typed_with_amount. Qed.
Theorem C12_out_nonpositive_with_fee : forall r v, ro_crypto_out_with_fee r = Some v -> v <= 0 -> is_err (mk_out r).
Proof. exact mk_out_nonpositive_with_fee. Qed.
Theorem C12_out_nonpositive_fiat_out_no_fee : forall r v, ro_fiat_out_no_fee r = Some v -> v <= 0 -> is_err (mk_out r).
Proof. exact mk_out_nonpositive_fiat_out_no_fee. Qed.
Theorem C12_out_negative_fiat_fee : forall r v, ro_fiat_fee r = Some v -> v < 0 -> is_err (mk_out r).
Proof. exact mk_out_negative_fiat_fee. Qed.

Theorem C12_intra_nonpositive_sent : forall r, rx_crypto_sent r <= 0 -> is_err (mk_intra r).
Proof. exact mk_intra_nonpositive_sent. Qed.
Theorem C12_intra_negative_received : forall r, rx_crypto_received r < 0 -> is_err (mk_intra r).
Proof. exact mk_intra_negative_received. Qed.
Theorem C12_intra_received_more_than_sent : forall r, rx_crypto_sent r < rx_crypto_received r -> is_err (mk_intra r).
Proof. exact mk_intra_received_more_than_sent. Qed.
Theorem C12_intra_fee_without_spot : forall r,
  rx_crypto_sent r <> rx_crypto_received r -> (rx_spot r = None \/ rx_spot r = Some 0) -> is_err (mk_intra r).
Proof. exact mk_intra_fee_without_spot. Qed.
Theorem C12_intra_negative_spot : forall r v, rx_spot r = Some v -> v < 0 -> is_err (mk_intra r).
Proof. exact mk_intra_negative_spot. Qed.

(** ---------- one cell: unknown asset / exchange / holder, timestamp without time zone, unknown type string,
    non-numeric number, empty mandatory cell -- for every field of every table *)
Theorem C12_unknown_name : forall s l, str_index s l 0 = None -> is_err (member_arg (ACell (CStr s)) l).
Proof. exact member_arg_unknown. Qed.
Theorem C12_timestamp_without_zone : forall cfg s,
  ts_lookup s (pc_ts cfg) = TsNaive \/ ts_lookup s (pc_ts cfg) = TsBad -> is_err (ts_arg cfg (ACell (CStr s))).
Proof. intros cfg s H. exact (ts_arg_not_aware cfg s (ts_naive_or_bad cfg s H)). Qed.
Theorem C12_unknown_type_string : forall s, ttype_of_str s = None -> is_err (ttype_arg (ACell (CStr s))).
Proof. exact ttype_arg_unknown. Qed.
Theorem C12_non_numeric : forall s, is_err (mandatory_num (ACell (CStr s))) /\ is_err (optional_num (ACell (CStr s))).
Proof. intro s. exact (conj (mandatory_num_nonnumeric s) (optional_num_nonnumeric s)). Qed.
Theorem C12_empty_mandatory_number : is_err (mandatory_num (ACell CEmpty)) /\ is_err (mandatory_num ANone).
Proof. exact (conj mandatory_num_empty mandatory_num_absent). Qed.

Theorem C12_bad_argument_in : forall cfg rowno ga f, arg_bad_in cfg f (ga f) -> is_err (create_in_args cfg rowno ga).
Proof. exact create_in_args_bad. Qed.
Theorem C12_bad_argument_out : forall cfg rowno ga f, arg_bad_out cfg f (ga f) -> is_err (create_out_args cfg rowno ga).
Proof. exact create_out_args_bad. Qed.
Theorem C12_bad_argument_intra : forall cfg rowno ga f, arg_bad_intra cfg f (ga f) -> is_err (create_intra_args cfg rowno ga).
Proof. exact create_intra_args_bad. Qed.

(** the injector: a cell written into column [col] of a row is what the parser reads for the field mapped to that column *)
Theorem C12_injected_cell_is_read : forall h row col c f,
  lookup_col f h = Some (Z.of_nat col) -> (col < length row)%nat -> get_arg h (upd row col c) f = ACell c.
Proof. exact get_arg_upd. Qed.

(** a data row that does not construct, or whose asset differs from the sheet's, is an error -- never skipped *)
Theorem C12_data_row_fault : forall cfg asset s t rowno row,
  create_err cfg t rowno row \/ asset_is cfg (header_of cfg t) row asset = false ->
  is_err (data_row cfg asset s t rowno row).
Proof. exact data_row_fault. Qed.

(** ---------- the table state machine *)
Theorem C12_data_row_in_table : forall cfg asset s t rowno row,
  ps_cur s = Some t -> ps_count s <> 1 -> first_ok (nth 0 row CEmpty) = true ->
  is_err (data_row cfg asset s t rowno row) -> is_err (row_step cfg asset s rowno row).
Proof. exact step_data_fault. Qed.
Theorem C12_nested_table : forall cfg asset s t t' rowno row,
  ps_cur s = Some t -> table_of_cell (nth 0 row CEmpty) = Some t' -> is_err (row_step cfg asset s rowno row).
Proof. exact step_nested. Qed.
Theorem C12_blank_row_inside_table : forall cfg asset s t rowno row,
  ps_cur s = Some t -> is_empty_cell (nth 0 row CEmpty) = true -> is_err (row_step cfg asset s rowno row).
Proof. exact step_blank_in_table. Qed.
Theorem C12_table_end_outside_table : forall cfg asset s rowno row,
  ps_cur s = None -> is_table_end (nth 0 row CEmpty) = true -> is_err (row_step cfg asset s rowno row).
Proof. exact step_table_end_outside. Qed.
Theorem C12_data_outside_table : forall cfg asset s rowno row,
  ps_cur s = None -> first_ok (nth 0 row CEmpty) = true -> is_err (row_step cfg asset s rowno row).
Proof. exact step_data_outside. Qed.
(** a keyword of a table type that ANY accepted prefix has already begun (with or without data rows) *)
Theorem C12_repeated_table_step : forall cfg asset s t rowno row,
  ps_cur s = None -> table_of_cell (nth 0 row CEmpty) = Some t -> seen_has t (ps_seen s) = true -> is_err (row_step cfg asset s rowno row).
Proof. exact repeated_table_step. Qed.

(** ---------- the sheet: a single faulty row after ANY accepted prefix, followed by ANYTHING *)
Theorem C12_fault_at_any_position : forall cfg asset counter pre row post s,
  parse_rows cfg asset (init_state counter) 1 pre = Ok s ->
  is_err (row_step cfg asset s (1 + Z.of_nat (length pre)) row) ->
  is_err (parse_sheet cfg asset counter (pre ++ row :: post)).
Proof. exact fault_at_any_position. Qed.

(** ... spelled out on rendered sheets: any valid tables before, any valid rows before in the same table *)
Theorem C12_fault_in_rendered_sheet : forall cfg asset ai counter blocks a t gap kw hdr w rows1 a1 bad post,
  str_index asset (pc_assets cfg) 0 = Some ai ->
  wf_blocks cfg asset 1 blocks -> NoDup (map (fun b => tab_code (b_tab b)) blocks) ->
  expect_blocks cfg (acc0 counter) 1 blocks = Ok a ->
  tab_empty a t = true -> (forall b, In b blocks -> b_tab b <> t) ->
  (forall r, In r gap -> is_blank_row r = true) ->
  table_of_cell (nth 0 kw CEmpty) = Some t ->
  first_ok (nth 0 hdr CEmpty) = true ->
  constructs cfg t (1 + blocks_len blocks + Z.of_nat (length gap) + 1) hdr = false ->
  wf_header (header_of cfg t) w -> (forall f, In f (mandatory_of t) -> mapped (header_of cfg t) f = true) ->
  (forall rj, In rj rows1 -> srow_tab (fst rj) = t /\ srow_ok (fst rj) = true) ->
  (forall rj, In rj rows1 -> first_ok (nth 0 (render_row (header_of cfg t) w (srow_cell asset (fst rj)) (snd rj)) CEmpty) = true) ->
  expect_rows cfg a (1 + blocks_len blocks + Z.of_nat (length gap) + 2) rows1 = Ok a1 ->
  first_ok (nth 0 bad CEmpty) = true ->
  (forall rowno, create_err cfg t rowno bad) \/ asset_is cfg (header_of cfg t) bad asset = false ->
  is_err (parse_sheet cfg asset counter
            (flat_map (render_block cfg asset) blocks ++ gap ++ [kw; hdr] ++ render_data cfg asset t w rows1 ++ bad :: post)).
Proof. exact fault_in_rendered_sheet. Qed.

Theorem C12_missing_table_end : forall cfg asset counter rows s t,
  parse_rows cfg asset (init_state counter) 1 rows = Ok s -> ps_cur s = Some t -> is_err (parse_sheet cfg asset counter rows).
Proof. exact unterminated_table. Qed.

Theorem C12_no_in_transactions : forall cfg asset counter rows s,
  parse_rows cfg asset (init_state counter) 1 rows = Ok s -> ps_ins s = [] -> is_err (parse_sheet cfg asset counter rows).
Proof. exact no_in_transactions. Qed.

(** an otherwise valid sheet (any tables, any order) without IN table, or whose IN table has no data rows *)
Theorem C12_missing_or_empty_in_table : forall cfg asset ai counter blocks trailing p,
  str_index asset (pc_assets cfg) 0 = Some ai ->
  wf_blocks cfg asset 1 blocks ->
  NoDup (map (fun b => tab_code (b_tab b)) blocks) ->
  (forall r, In r trailing -> is_blank_row r = true) ->
  expected cfg counter blocks = Ok p -> pa_ins p = [] ->
  is_err (parse_sheet cfg asset counter (render_sheet cfg asset blocks trailing)).
Proof. exact missing_or_empty_in_table. Qed.

Theorem C12_unknown_asset : forall cfg asset counter rows,
  str_index asset (pc_assets cfg) 0 = None -> is_err (parse_sheet cfg asset counter rows).
Proof. exact unknown_asset. Qed.

(** repeated table: the code remembers the table types it has begun (translated from parse_ods; this statement does not
    compile against a tree that still tests the transaction set for emptiness) ... *)
Theorem C12_code_remembers_tables : gen_parser_remembers_tables = true.
Proof. exact code_parser_remembers_tables. Qed.

(** ... so a second table of a type already present among ANY valid tables before it -- with or without data rows -- is
    rejected, wherever it comes and whatever follows *)
Theorem C12_repeated_table_rejected : forall cfg asset ai counter blocks a t gap kw post,
  str_index asset (pc_assets cfg) 0 = Some ai ->
  wf_blocks cfg asset 1 blocks -> NoDup (map (fun b => tab_code (b_tab b)) blocks) ->
  expect_blocks cfg (acc0 counter) 1 blocks = Ok a ->
  (exists b, In b blocks /\ b_tab b = t) ->
  (forall r, In r gap -> is_blank_row r = true) ->
  table_of_cell (nth 0 kw CEmpty) = Some t ->
  is_err (parse_sheet cfg asset counter (flat_map (render_block cfg asset) blocks ++ gap ++ kw :: post)).
Proof. exact repeated_table_rejected. Qed.

(** witness for the other value of the flag (finding F11, repaired): a parser that tests the transaction set for emptiness
    accepts a sheet with two OUT tables whose first has no data rows, and processes the second table's row; the parser that
    remembers table types rejects the same sheet *)
Theorem C12_repeated_table_refuted :
  exists cfg asset rows p,
    length (filter (fun r => match table_of_cell (nth 0 r CEmpty) with Some TabOut => true | _ => false end) rows) = 2%nat /\
    parse_sheet_gen false cfg asset 0 rows = Ok p /\ length (pa_outs p) = 1%nat /\
    parse_sheet_gen true cfg asset 0 rows = Err EValue.
Proof. exact repeated_table_refuted. Qed.

(** ---------- configuration *)
Theorem C12_header_fault_at_any_position : forall t pre k v post acc,
  validate_header_go t pre [] = Ok acc -> header_item_bad t acc k v ->
  is_err (validate_header t (pre ++ (k, v) :: post)).
Proof. exact header_fault_at_any_position. Qed.
Theorem C12_empty_header_section : forall t, is_err (validate_header t []).
Proof. exact header_empty. Qed.
Theorem C12_unknown_section : forall s name items, known_section (norm_section name) = false -> is_err (section_step s (name, items)).
Proof. exact unknown_section. Qed.
Theorem C12_section_fault_at_any_position : forall pre sec post s,
  sections_go cstate0 pre = Ok s -> is_err (section_step s sec) -> is_err (validate_config (pre ++ sec :: post)).
Proof. exact section_fault_at_any_position. Qed.
Theorem C12_missing_mandatory_section_or_field : forall l s,
  sections_go cstate0 l = Ok s ->
  cs_assets s = [] \/ cs_exchanges s = [] \/ cs_holders s = [] \/ cs_in s = [] \/ cs_out s = [] \/ cs_intra s = [] ->
  is_err (validate_config l).
Proof. exact missing_mandatory. Qed.
Theorem C12_general_missing_field : forall items,
  assoc_str gen_kw_assets items = None \/ assoc_str gen_kw_exchanges items = None \/ assoc_str gen_kw_holders items = None ->
  forall s name, str_eqb (norm_section name) gen_kw_general = true -> is_err (section_step s (name, items)).
Proof. exact general_missing_field. Qed.

(** ---------- command-line options *)
Theorem C12_method_option_with_config_section : forall c o s m,
  op_method o = Some m -> cs_methods s <> [] -> fst (options_check c o (Ok s)) <> 0 /\ snd (options_check c o (Ok s)) = [].
Proof. exact method_option_with_config_section. Qed.
Theorem C12_unsupported_method_option : forall c o cfg m,
  op_method o = Some m -> (forall mm, meth_of_name m = Some mm -> meth_in mm (country_methods c) = false) ->
  options_check c o cfg = (2, []).
Proof. exact unsupported_method_option. Qed.
Theorem C12_from_date_after_to_date : forall c o cfg,
  op_to_day o < op_from_day o -> fst (options_check c o cfg) <> 0 /\ snd (options_check c o cfg) = [].
Proof. exact from_date_after_to_date. Qed.
Theorem C12_unknown_asset_option : forall c o s a,
  op_asset o = Some a -> str_mem a (cs_assets s) = false -> fst (options_check c o (Ok s)) <> 0 /\ snd (options_check c o (Ok s)) = [].
Proof. exact unknown_asset_option. Qed.
Theorem C12_unknown_method_in_config : forall c o s y m,
  In (y, m) (cs_methods s) -> meth_of_name m = None -> fst (options_check c o (Ok s)) <> 0 /\ snd (options_check c o (Ok s)) = [].
Proof. exact unknown_method_in_config. Qed.
Theorem C12_malformed_config_stops_the_run : forall c o e,
  fst (options_check c o (Err e)) <> 0 /\ snd (options_check c o (Err e)) = [].
Proof. exact malformed_config_rejected. Qed.

(** ---------- end to end: a rejected option / configuration / sheet (of any asset, after any accepted ones) means a
    non-zero exit status and NO report, whatever the later stages ([back]) would do *)
Theorem C12_faulty_asset_at_any_position : forall cfg pre a post workbook counter ps,
  parse_all cfg pre workbook counter = Ok ps ->
  (match workbook a with
   | None => True
   | Some rows => is_err (parse_sheet cfg a (match rev ps with [] => counter | (_, p) :: _ => pa_counter p end) rows)
   end) ->
  is_err (parse_all cfg (pre ++ a :: post) workbook counter).
Proof. exact parse_all_err. Qed.

Theorem C12_no_report_on_rejection : forall c o secs ts workbook back,
  fst (options_check c o (validate_config secs)) <> 0 \/
  is_err (validate_config secs) \/
  (exists s, validate_config secs = Ok s /\
             is_err (parse_all (pcfg_of s ts) (snd (options_check c o (validate_config secs))) workbook 0)) ->
  fst (front_end c o secs ts workbook back) <> 0 /\ snd (front_end c o secs ts workbook back) = [].
Proof. exact no_report_on_rejection. Qed.

(** non-vacuity of the position theorems (concrete sheet / section / options meeting every hypothesis) *)
Theorem C12_nonvacuous_fault_in_sheet :
  is_err (parse_sheet ex_cfg ex_asset 0
            (flat_map (render_block ex_cfg ex_asset) ex_first ++ [] ++ [[CStr [73; 78]]; ex_hdr]
             ++ render_data ex_cfg ex_asset TabIn 11 [(SIn ex_in1, ex_junk)] ++ ex_bad_row :: [[CStr TABLE_END]])).
Proof. exact fault_in_rendered_sheet_nonvacuous. Qed.
Theorem C12_nonvacuous_repeated_table :
  is_err (parse_sheet ex_cfg ex_asset 0 (flat_map (render_block ex_cfg ex_asset) ex_first ++ [[CEmpty]] ++ [CStr [79; 117; 116]] :: [])).
Proof. exact repeated_table_rejected_nonvacuous. Qed.
Theorem C12_nonvacuous_repeated_after_empty_table :
  is_err (parse_sheet ex_cfg ex_asset 0 (flat_map (render_block ex_cfg ex_asset) ex_empty_out ++ [] ++ [CStr [79; 85; 84]] :: [ex_hdr])).
Proof. exact repeated_after_empty_table_nonvacuous. Qed.

Print Assumptions C12_in_types.
Print Assumptions C12_out_types.
Print Assumptions C12_in_type_not_allowed.
Print Assumptions C12_out_type_not_allowed.
Print Assumptions C12_in_nonpositive_amount.
Print Assumptions C12_in_both_fees.
Print Assumptions C12_out_zero_spot.
Print Assumptions C12_intra_received_more_than_sent.
Print Assumptions C12_intra_fee_without_spot.
Print Assumptions C12_bad_argument_in.
Print Assumptions C12_bad_argument_out.
Print Assumptions C12_bad_argument_intra.
Print Assumptions C12_data_row_fault.
Print Assumptions C12_nested_table.
Print Assumptions C12_data_outside_table.
Print Assumptions C12_fault_at_any_position.
Print Assumptions C12_fault_in_rendered_sheet.
Print Assumptions C12_missing_table_end.
Print Assumptions C12_missing_or_empty_in_table.
Print Assumptions C12_unknown_asset.
Print Assumptions C12_code_remembers_tables.
Print Assumptions C12_repeated_table_step.
Print Assumptions C12_repeated_table_rejected.
Print Assumptions C12_repeated_table_refuted.
Print Assumptions C12_header_fault_at_any_position.
Print Assumptions C12_section_fault_at_any_position.
Print Assumptions C12_missing_mandatory_section_or_field.
Print Assumptions C12_method_option_with_config_section.
Print Assumptions C12_unsupported_method_option.
Print Assumptions C12_from_date_after_to_date.
Print Assumptions C12_unknown_asset_option.
Print Assumptions C12_no_report_on_rejection.
Print Assumptions C12_nonvacuous_fault_in_sheet.
Print Assumptions C12_nonvacuous_repeated_after_empty_table.

(** ---------- end to end, with the later stages plugged in (Model/EndToEnd.v [rp2_model] = [front_end] composed with the bridge
    to the transaction sets, the matcher, the report input and the report models; Proofs/EndToEndFront.v): a rejected option /
    configuration / sheet means a non-zero exit status and NO report of the composed run.  One-line corollary of
    [C12_no_report_on_rejection] through the file-name view of the run (which IS [front_end]). *)
From RP2V Require Import Model.Grid Model.ReportInput Model.MainRun Model.RunCompose Model.EndToEnd Proofs.EndToEndFront.
Theorem C12_end_to_end_no_report : forall c o secs ts workbook v envp,
  fst (options_check c (l1_options o) (validate_config secs)) <> 0 \/
  is_err (validate_config secs) \/
  (exists s, validate_config secs = Ok s /\
             is_err (parse_all (pcfg_of s ts) (snd (options_check c (l1_options o) (validate_config secs))) workbook 0)) ->
  fst (rp2_model c o secs ts workbook v envp) <> 0 /\ snd (rp2_model c o secs ts workbook v envp) = [].
Proof. exact e2e_front_rejection. Qed.
(** ... in particular the sheet of any processed asset, after any accepted ones, is missing or rejected by the parser *)
Theorem C12_end_to_end_faulty_sheet : forall c o secs ts workbook v envp s pre a post ps,
  validate_config secs = Ok s ->
  snd (options_check c (l1_options o) (Ok s)) = pre ++ a :: post ->
  parse_all (pcfg_of s ts) pre workbook 0 = Ok ps ->
  (match workbook a with
   | None => True
   | Some rows => is_err (parse_sheet (pcfg_of s ts) a (match rev ps with [] => 0 | (_, p) :: _ => pa_counter p end) rows)
   end) ->
  fst (rp2_model c o secs ts workbook v envp) <> 0 /\ snd (rp2_model c o secs ts workbook v envp) = [].
Proof. exact e2e_sheet_rejected. Qed.
(** the run's file-name view is [front_end] applied to the named reports of the back end *)
Theorem C12_end_to_end_is_front_end : forall c o secs ts workbook v envp,
  exists f, rp2_files c o secs ts workbook v envp =
            (fst (rp2_model c o secs ts workbook v envp), map f (snd (rp2_model c o secs ts workbook v envp))).
Proof. exact rp2_model_files. Qed.

(** non-vacuity: rp2_es -m lifo on ANY configuration / workbook, and rp2_us with an empty configuration file *)
Theorem C12_end_to_end_nonvacuous : forall secs ts workbook v envp,
  let o := {| o_method := Some [108; 105; 102; 111]; o_lang := None; o_from := 0; o_to := 10; o_asset := None; o_neg := false;
              o_prefix := []; o_plugin := false |} in
  (fst (rp2_model ES o secs ts workbook v envp) <> 0 /\ snd (rp2_model ES o secs ts workbook v envp) = []) /\
  (fst (rp2_model US o [] ts workbook v envp) <> 0 /\ snd (rp2_model US o [] ts workbook v envp) = []).
Proof. exact e2e_front_rejection_nonvacuous. Qed.

Print Assumptions C12_end_to_end_no_report.
Print Assumptions C12_end_to_end_nonvacuous.
Print Assumptions C12_end_to_end_faulty_sheet.
Print Assumptions C12_end_to_end_is_front_end.
