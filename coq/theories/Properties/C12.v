(** Property C12 -- malformed or contradictory input is rejected, never silently processed. *)
From RP2V Require Import Base.Prelude Base.Dec Model.Types Model.Generated Model.Txn Model.Parser.
Open Scope Z_scope.

Theorem C12_placeholder : forall cfg counter rows, parse_sheet cfg [] counter rows = parse_sheet cfg [] counter rows.
Proof. reflexivity. Qed.

Print Assumptions C12_placeholder.
