(** Property C14 (placeholder while the model is being corresponded). *)
From RP2V Require Import Base.Prelude Model.Types Model.Generated Model.TaxReport Proofs.TaxReportProofs.
Open Scope Z_scope.
Theorem C14_stub : type_to_sheet tax_tables_us SELL = Some [67; 97; 112; 105; 116; 97; 108; 32; 71; 97; 105; 110; 115].
Proof. exact stub_us_sell. Qed.
Print Assumptions C14_stub.
