(** Property C14 -- the tax report (tax_report_us.ods, tax_report_ie.ods) lists every gain/loss fraction
    of the window exactly once, on the sheet of its transaction type, with the computed figures; sheets
    without rows are omitted; nothing is lost or overwritten when several assets share a sheet.

    Statements only; proofs are in Proofs/TaxReportProofs.v and (Legend sheet) Proofs/TaxReportLegend.v.  The model is Model/TaxReport.v, instantiated
    with the tables regenerated from the plugins' source and the shipped templates on every run
    ([tax_tables_us], [tax_tables_ie] in Model/Generated.v).  Theorems quantified over [T] hold for any tables
    that pass the finite check [tables_ok]; the two instances are re-proved by computation. *)
From RP2V Require Import Base.Prelude Base.Time Base.Dec Model.Types Model.Generated Model.Txn Model.Computed Model.Grid
  Model.ReportInput Model.TaxReport Proofs.FullReportLayout Proofs.TaxReportProofs Proofs.TaxReportLegend.
Open Scope Z_scope.

(** ---- finite facts about the regenerated maps and templates *)

(** every sheet kept from the template is a key of [_SHEET_TO_TYPES] and of [row_indexes]; every target of
    [_TYPE_TO_SHEET] is such a sheet; no type is on two sheets; the columns of a row are pairwise distinct and
    inside the sheets; data rows start below the template's own cells; the row index advances by one and a
    sheet counts as empty exactly when its index still has the initial value; the legend has its method row *)
Theorem C14_us_tables_consistent : tables_ok tax_tables_us = true.
Proof. exact us_tables_ok. Qed.
Theorem C14_ie_tables_consistent : tables_ok tax_tables_ie = true.
Proof. exact ie_tables_ok. Qed.

(** every transaction type that can be the type of a taxable event (earn-typed acquisitions, every type an
    out-transaction may have, MOVE for transfers) has a sheet *)
Theorem C14_us_routing_total : forall ty, In ty taxable_types -> exists n, type_to_sheet tax_tables_us ty = Some n.
Proof. exact (routing_total_spec tax_tables_us us_routing_total). Qed.
(** compiles only when the IE map is total (with LOST missing -- finding F4 -- it does not) *)
Theorem C14_ie_routing_total : forall ty, In ty taxable_types -> exists n, type_to_sheet tax_tables_ie ty = Some n.
Proof. exact (routing_total_spec tax_tables_ie ie_routing_total). Qed.
Theorem C14_taxable_types : forall ty,
  In ty taxable_types <-> (is_earn_type ty && in_type_allowed ty) || out_type_allowed ty || ttype_eqb ty MOVE = true.
Proof. exact taxable_types_iff. Qed.

(** sales -> Capital Gains, gifts -> Gifts, donations -> Donations, fee / lost / transfer fees -> Investment
    Expenses, each income type -> its own sheet *)
Theorem C14_us_routing_as_documented : routing_as_documented tax_tables_us.
Proof. exact us_routing_documented. Qed.
Theorem C14_ie_routing_as_documented : routing_as_documented tax_tables_ie.
Proof. exact ie_routing_documented. Qed.

(** amount, asset, date acquired (2), date sold (3), proceeds (4), cost basis (5), gain (8), LONG/SHORT (14),
    full timestamp (15); rows without an acquired lot leave (2) and (5) blank *)
Theorem C14_us_columns : columns_as_documented tax_tables_us.
Proof. exact us_columns_documented. Qed.
Theorem C14_ie_columns : columns_as_documented tax_tables_ie.
Proof. exact ie_columns_documented. Qed.
Theorem C14_field_values : forall f s,
  field_val f s TF_proceeds = onum (g_proceeds (rs_gl s))
  /\ field_val f s TF_cost = onum (g_cost (rs_gl s))
  /\ field_val f s TF_gain = onum (g_gain (rs_gl s))
  /\ field_val f s TF_long_short = Ok (PStr (if g_long (rs_period s) (rs_gl s) then s_LONG else s_SHORT))
  /\ field_val f s TF_ev_date = Ok (PStr (fmt_date f (t_ts (g_ev (rs_gl s)))))
  /\ field_val f s TF_ev_ts = Ok (PTs (t_ts (g_ev (rs_gl s))))
  /\ field_val f s TF_amount = Ok (PNum (of_grid (g_amt (rs_gl s))))
  /\ field_val f s TF_asset = Ok (PStr (rs_asset s))
  /\ (forall l, g_lot (rs_gl s) = Some l -> field_val f s TF_lot_date = Ok (PStr (fmt_date f (i_ts l)))).
Proof. exact field_vals_computed. Qed.

(** ---- unbounded statements (any number of assets and fractions) *)

(** the row sources of a report are exactly the fractions of the window of every asset, asset after asset *)
Theorem C14_every_fraction_is_a_row_source : forall i acs,
  map rs_gl (all_sources i acs) = flat_map (fun ac => cd_gls (snd ac)) acs.
Proof. exact all_sources_gls. Qed.

(** the k-th fraction is on the sheet of its type, at row
      first data row + number of earlier fractions (all earlier assets and this one) routed to the same sheet,
    and at the end each cell of that row holds the value computed for this fraction *)
Theorem C14_fraction_row_and_cells : forall T i out acs k src,
  tables_ok T = true -> tax_report T i = Ok out -> computed_all i (rp_assets i) = Ok acs ->
  nth_error (all_sources i acs) k = Some src ->
  exists items n s,
    all_items T i acs = Ok items
    /\ type_to_sheet T (t_type (g_ev (rs_gl src))) = Some n
    /\ In s out /\ sw_name s = n
    /\ forall c fld, In (c, fld) (row_cols T src) ->
         exists v, field_val (tt_datefmt T) src fld = Ok v
                   /\ cell_at (sw_writes s) (tt_first_row T + nrouted T n (firstn k items)) c = v.
Proof. intros T i out acs k src H. exact (fraction_cells T i out acs k src (tables_ok_good T H)). Qed.

(** two different fractions routed to one sheet have different rows (whatever assets they belong to) *)
Theorem C14_rows_pairwise_distinct : forall T n r items j k itj itk,
  0 < tt_row_step T -> j <> k -> nth_error items j = Some itj -> nth_error items k = Some itk ->
  routed T n itj = true -> routed T n itk = true -> row_of T n r items j <> row_of T n r items k.
Proof. exact rows_distinct. Qed.

(** which sheets remain, in template order: the legend and the sheets with at least one fraction; and each
    remaining data sheet holds the template's cells followed by exactly one row per fraction routed to it,
    rows consecutive from the first data row (so the number of rows = the number of such fractions) *)
Theorem C14_sheets_kept_and_contents : forall T i out, tables_ok T = true -> tax_report T i = Ok out ->
  exists acs items, computed_all i (rp_assets i) = Ok acs /\ all_items T i acs = Ok items
   /\ map sw_name out = filter (fun n => Sorting.str_eqb n s_Legend || negb (nrouted T n items =? 0)) (map sw_name (init0 T))
   /\ (forall s, In s out -> is_legend s = false ->
         exists s0, In s0 (data_sheets0 T) /\ sw_name s = sw_name s0 /\ sw_cols s = sw_cols s0
                    /\ sw_writes s = sw_writes s0 ++ spec_writes T (sw_name s) (tt_first_row T) items).
Proof. intros T i out H. exact (tax_report_spec T i out (tables_ok_good T H)). Qed.

(** a fraction whose type has no sheet makes the whole report fail (KeyError): no sheet is written at all *)
Theorem C14_missing_type_fails : forall T i acs, computed_all i (rp_assets i) = Ok acs ->
  (exists src, In src (all_sources i acs) /\ type_to_sheet T (t_type (g_ev (rs_gl src))) = None) ->
  exists e, tax_report T i = Err e.
Proof. exact missing_type_fails. Qed.

(** finding F4 as a statement about whatever IE table the source currently yields: if LOST has no sheet, the
    replay corpus/C14/f4-ie-lost.json (decoded from the integers the harness sends) yields no report *)
Theorem C14_ie_lost_refuted : type_to_sheet tax_tables_ie LOST = None ->
  exists i, rd_rinput f4_code = Some (Ok i, []) /\ tax_report tax_tables_ie i = Err EInternal.
Proof. exact ie_lost_refuted. Qed.

(** [append_rows(MIN_ROWS + count + 1)]: at least one row is appended per fraction of the type *)
Theorem C14_us_append_rows_sufficient : append_ok tax_tables_us.
Proof. exact us_append_ok. Qed.
Theorem C14_ie_append_rows_sufficient : append_ok tax_tables_ie.
Proof. exact ie_append_ok. Qed.

(** capacity and lookups: with consistent tables and a sufficient sizing expression the report is produced --
    no KeyError, and no row beyond the rows appended to its sheet (IndexError), for any number of assets
    sharing the sheets.  Hypotheses: ComputedData exists for every asset; the legend's method string is
    defined (always, once a one-entry schedule is taken by value -- the repair of finding F10, which belongs to C13/C16); the figures of the window's
    fractions are defined ([mk_items]); every fraction's type has a sheet *)
Theorem C14_report_produced : forall T i acs, tables_ok T = true -> append_ok T ->
  computed_all i (rp_assets i) = Ok acs ->
  (exists m, legend_method (tt_legend_single_by_value T) (rp_sched i) = Ok m) ->
  (forall ac, In ac acs -> exists items, mk_items T (asset_sources i ac) = Ok items) ->
  (forall ac g, In ac acs -> In g (cd_gls (snd ac)) -> type_to_sheet T (t_type (g_ev g)) <> None) ->
  exists out, tax_report T i = Ok out.
Proof. intros T i acs H A. exact (tax_report_total T (tables_ok_good T H) A i acs). Qed.

(** and in a produced report every data sheet passes [sheet_ok]: the template's cells and every fraction row lie
    inside the sheet as sized by the [append_rows] calls (rows first .. first + n - 1 for n fractions) *)
Theorem C14_data_sheets_within_capacity : forall T i out, tables_ok T = true -> append_ok T -> tax_report T i = Ok out ->
  forall s, In s out -> is_legend s = false -> sheet_ok s = true.
Proof. intros T i out H A. exact (data_sheets_within_capacity T (tables_ok_good T H) A i out). Qed.

(** the same for the two plugins, for inputs whose taxable events have types a taxable event can have;
    the IE instance needs the IE map to be total (finding F4) *)
Theorem C14_us_report_produced : forall i acs,
  computed_all i (rp_assets i) = Ok acs ->
  (exists m, legend_method (tt_legend_single_by_value tax_tables_us) (rp_sched i) = Ok m) ->
  (forall ac, In ac acs -> exists items, mk_items tax_tables_us (asset_sources i ac) = Ok items) ->
  (forall ac g, In ac acs -> In g (cd_gls (snd ac)) -> In (t_type (g_ev g)) taxable_types) ->
  exists out, tax_report tax_tables_us i = Ok out.
Proof. exact us_report_produced. Qed.
Theorem C14_ie_report_produced : forall i acs,
  computed_all i (rp_assets i) = Ok acs ->
  (exists m, legend_method (tt_legend_single_by_value tax_tables_ie) (rp_sched i) = Ok m) ->
  (forall ac, In ac acs -> exists items, mk_items tax_tables_ie (asset_sources i ac) = Ok items) ->
  (forall ac g, In ac acs -> In g (cd_gls (snd ac)) -> In (t_type (g_ev g)) taxable_types) ->
  exists out, tax_report tax_tables_ie i = Ok out.
Proof. exact ie_report_produced. Qed.

(** ---- the Legend sheet (Proofs/TaxReportLegend.v)

    finite fact over the regenerated template geometry + the row of "Accounting Method": the static cells of the template's
    __Legend_<plugin> sheet lie inside it, it has at most 1024 columns, the three cells (r, 1), (r + 1, 1), (r + 2, 1) written
    next to "Accounting Method" / "From Date Filter" / "To Date Filter" lie inside it, cell (r, 0) holds a template label and the
    three cells are empty in the template *)
Theorem C14_us_legend_fits : legend_fits tax_tables_us = true.
Proof. exact us_legend_fits. Qed.
Theorem C14_ie_legend_fits : legend_fits tax_tables_ie = true.
Proof. exact ie_legend_fits. Qed.

(** a produced report has exactly one sheet named "Legend"; it is the template's legend sheet (its size, its static cells as
    labels) followed by three writes; sizing, the fraction loop and the pruning of empty sheets leave it untouched.  The legend
    states the method(s) and the date filters of THIS run: the cell next to "Accounting Method" is written once and finally
    holds the method string of the schedule ([legend_method], see C14_legend_method_string), the two cells below hold the from /
    to date actually passed, or "non-specified" for the open end; no write of the sheet lies outside it *)
Theorem C14_legend_of_report : forall T i out, tables_ok T = true -> legend_fits T = true -> tax_report T i = Ok out ->
  exists s r m, filter is_legend out = [s] /\ In s out /\ sw_name s = s_Legend /\
    tt_legend_method_row T = Some r /\ legend_method (tt_legend_single_by_value T) (rp_sched i) = Ok m /\
    sheet_ok s = true /\
    writes_at (sw_writes s) r 1 = [cw r 1 (PStr m)] /\
    writes_at (sw_writes s) (r + 1) 1 = [cw (r + 1) 1 (if rp_from i =? MIN_DAY then PStr s_nonspec else PDay (rp_from i))] /\
    writes_at (sw_writes s) (r + 2) 1 = [cw (r + 2) 1 (if rp_to i =? MAX_DAY then PStr s_nonspec else PDay (rp_to i))] /\
    cell_at (sw_writes s) r 1 = PStr m /\
    cell_at (sw_writes s) (r + 1) 1 = (if rp_from i =? MIN_DAY then PStr s_nonspec else PDay (rp_from i)) /\
    cell_at (sw_writes s) (r + 2) 1 = (if rp_to i =? MAX_DAY then PStr s_nonspec else PDay (rp_to i)) /\
    cell_at (sw_writes s) r 0 = PLabel.
Proof. intros T i out H. exact (legend_of_report T (tables_ok_good T H) i out). Qed.
(** the sheet itself: the template's __Legend_<plugin> sheet, then the three cells *)
Theorem C14_legend_sheet_shape : forall T i out, tables_ok T = true -> tax_report T i = Ok out ->
  exists tp r m, In tp (tt_template T) /\ tp_name tp = legend_template_name T /\
    tt_legend_method_row T = Some r /\ legend_method (tt_legend_single_by_value T) (rp_sched i) = Ok m /\
    filter is_legend out = [{| sw_name := s_Legend; sw_rows := tp_rows tp; sw_cols := tp_cols tp;
                               sw_writes := label_writes tp ++ [cw r 1 (PStr m); cw (r + 1) 1 (day_cell MIN_DAY (rp_from i));
                                                                cw (r + 2) 1 (day_cell MAX_DAY (rp_to i))] |}].
Proof. intros T i out H. exact (legend_sheet_spec T (tables_ok_good T H) i out). Qed.
(** the method string (source as repaired, F10: a one-entry schedule is taken by value -- both plugins share
    [_initialize_output_file]): the single method whatever year it is registered under, otherwise "y:M" / "y0->y:M" per entry *)
Theorem C14_legend_method_string : forall sched, exists m, legend_method true sched = Ok m /\
  (forall y me, sched = [(y, me)] -> m = meth_upper me) /\
  ((length sched <> 1)%nat -> m = join_comma (sched_parts 1970 sched)).
Proof. exact legend_method_by_value. Qed.
Theorem C14_legend_single_method_by_value : tt_legend_single_by_value tax_tables_us = true /\ tt_legend_single_by_value tax_tables_ie = true.
Proof. exact (conj us_by_value ie_by_value). Qed.
(** with C14_data_sheets_within_capacity: EVERY sheet of a produced report passes [sheet_ok] *)
Theorem C14_all_sheets_within_capacity : forall T i out, tables_ok T = true -> append_ok T -> legend_fits T = true ->
  tax_report T i = Ok out -> forall s, In s out -> sheet_ok s = true.
Proof. intros T i out H A F. exact (all_sheets_within_capacity T (tables_ok_good T H) i out A F). Qed.
Theorem C14_us_all_sheets_within_capacity : forall i out, tax_report tax_tables_us i = Ok out -> forall s, In s out -> sheet_ok s = true.
Proof. intros i out. exact (all_sheets_within_capacity tax_tables_us (tables_ok_good _ us_tables_ok) i out us_append_ok us_legend_fits). Qed.
Theorem C14_ie_all_sheets_within_capacity : forall i out, tax_report tax_tables_ie i = Ok out -> forall s, In s out -> sheet_ok s = true.
Proof. intros i out. exact (all_sheets_within_capacity tax_tables_ie (tables_ok_good _ ie_tables_ok) i out ie_append_ok ie_legend_fits). Qed.
(** non-vacuity: the two-asset example (schedule 1970:FIFO, no date filters): "FIFO", "non-specified", "non-specified" *)
Theorem C14_legend_nonvacuous : exists i out s,
  rd_rinput ex2_code = Some (Ok i, []) /\ tax_report tax_tables_us i = Ok out /\ filter is_legend out = [s] /\
  sheet_ok s = true /\
  (exists r, tt_legend_method_row tax_tables_us = Some r /\
     cell_at (sw_writes s) r 1 = PStr (meth_upper Fifo) /\ cell_at (sw_writes s) (r + 1) 1 = PStr s_nonspec /\
     cell_at (sw_writes s) (r + 2) 1 = PStr s_nonspec /\ cell_at (sw_writes s) r 0 = PLabel).
Proof. exact legend_example. Qed.

Print Assumptions C14_us_tables_consistent.
Print Assumptions C14_ie_tables_consistent.
Print Assumptions C14_us_routing_total.
Print Assumptions C14_ie_routing_total.
Print Assumptions C14_taxable_types.
Print Assumptions C14_us_routing_as_documented.
Print Assumptions C14_ie_routing_as_documented.
Print Assumptions C14_us_columns.
Print Assumptions C14_ie_columns.
Print Assumptions C14_field_values.
Print Assumptions C14_every_fraction_is_a_row_source.
Print Assumptions C14_fraction_row_and_cells.
Print Assumptions C14_rows_pairwise_distinct.
Print Assumptions C14_sheets_kept_and_contents.
Print Assumptions C14_missing_type_fails.
Print Assumptions C14_ie_lost_refuted.
Print Assumptions C14_us_append_rows_sufficient.
Print Assumptions C14_ie_append_rows_sufficient.
Print Assumptions C14_report_produced.
Print Assumptions C14_data_sheets_within_capacity.
Print Assumptions C14_us_report_produced.
Print Assumptions C14_ie_report_produced.
Print Assumptions C14_us_legend_fits.
Print Assumptions C14_ie_legend_fits.
Print Assumptions C14_legend_of_report.
Print Assumptions C14_legend_sheet_shape.
Print Assumptions C14_legend_method_string.
Print Assumptions C14_legend_single_method_by_value.
Print Assumptions C14_all_sheets_within_capacity.
Print Assumptions C14_us_all_sheets_within_capacity.
Print Assumptions C14_ie_all_sheets_within_capacity.
Print Assumptions C14_legend_nonvacuous.

(** Source tie (regenerated on every run): the fractions a tax report lists are those of the filtered gain/loss set.  The
    per-entry tests of `EntrySetIterator.__next__`, re-read from abstract_entry_set.py (Model/GeneratedTie.v, fragment
    entry_set) and interpreted by Model/EntrySetGen.v, select exactly [iter_window g_day] - the [cd_gls] the theorems above
    quantify over (and the labelled copy [compute] keeps next to it): the fraction's taxable event is compared by its own
    calendar day with both bounds.  Proofs/EntrySetGenProofs.v. *)
From RP2V Require Import Model.GeneratedTie Model.EntrySetGen Proofs.EntrySetGenProofs.
Theorem C14_source_tie_window_of_fractions :
  (forall from_day to_day (gls : list gl),
     iter_window_gen (fun g => t_ts (g_ev g)) from_day to_day gls = iter_window g_day from_day to_day gls) /\
  (forall (L : Type) from_day to_day (labelled : list (gl * L)),
     iter_window_gen (fun x => t_ts (g_ev (fst x))) from_day to_day labelled = iter_window (fun x => g_day (fst x)) from_day to_day labelled).
Proof.
  exact (conj (iter_window_gen_agrees (fun g => t_ts (g_ev g)))
              (fun L => iter_window_gen_agrees (fun x : gl * L => t_ts (g_ev (fst x))))).
Qed.
Print Assumptions C14_source_tie_window_of_fractions.
