(** Property C19 -- hyperlinks in the full report lead to the row of the same transaction.
    Statements only (proofs: Proofs/FullReportProofs.v, FullReportCompute.v, FullReportWitness.v).

    The generator fills a dictionary transaction -> In-Out row while it writes the three tables (a transaction
    hashes / compares by its input row number only) and reads it back when it writes the gain/loss rows;
    (asset, year) -> first gain/loss row feeds the links of the Summary sheet.  [code_flags] are the structural
    facts the translator reads from the CURRENT source: is the dictionary emptied per asset
    ([gen_full_clears_row_map]), is the (asset, year) lookup guarded ([gen_full_summary_link_guarded]).  The
    positive theorems need both to be [true]: on a tree without the repairs of findings F3 / F2 this file does not
    compile and the check searches for the concrete multi-asset replay; the [_refuted] theorems show what the
    generator as published does (they hold on every tree). *)
From RP2V Require Import Base.Prelude Base.Time Base.Dec Base.Assoc Model.Types Model.Generated Model.Txn Model.Matcher
  Model.Pipeline Model.Computed Model.Grid Model.ReportInput Model.FullReport
  Proofs.FullReportLayout Proofs.FullReportProofs Proofs.FullReportCompute Proofs.FullReportWitness.
Open Scope Z_scope.

(** which cells of a gain/loss row are hyperlinks, and to whose row: columns 5-11 the taxable event, 12-19 the lot *)
Theorem C19_link_columns :
  map (fun x : fcol => (fst (fst x), snd (fst x))) (gen_full_cols_det ++ gen_full_cols_det_lot) =
    [(0, L_none); (1, L_none); (2, L_none); (3, L_none); (4, L_none);
     (5, L_event); (6, L_event); (7, L_event); (8, L_event); (9, L_event); (10, L_event); (11, L_event);
     (12, L_lot); (13, L_lot); (14, L_lot); (15, L_lot); (16, L_lot); (17, L_lot); (18, L_lot); (19, L_lot)] /\
  Forall (fun x : fcol => snd (fst x) = L_summary) gen_full_cols_sum.
Proof. split; [reflexivity|repeat constructor]. Qed.

(** invariant: after the three tables of an asset are written, the dictionary is exact on the transactions shown
    (1-based row of the very row written from that transaction) and holds nothing else -- whatever earlier assets
    left in it.  [vis_rows x]: input row numbers of the transactions shown; distinct within an asset. *)
Theorem C19_row_map_exact : forall x lm0, NoDup (vis_rows x) ->
  (forall e r, shown_at x e r -> aget (t_row e) (lm_after code_flags x lm0) = Some (r + 1)) /\
  (forall rid, ~ In rid (vis_rows x) -> aget rid (lm_after code_flags x lm0) = None).
Proof. intros x lm0. exact (row_map_exact code_flags x lm0 eq_refl). Qed.

(** link_target_same: every linked cell of a gain/loss row of asset x points to sheet "<x> In-Out", (1-based) row r + 1
    where r is the row on which that very transaction was written (C19_target_row below); [inner] = the value shown *)
Theorem C19_event_link_target : forall env inp x lm0 j d f r, NoDup (vis_rows x) ->
  shown_at x (g_ev (fst d)) r ->
  det_field env inp x (lm_after code_flags x lm0) j d L_event f
  = PLink (inout_name env (ac_name x)) (r + 1) (det_field env inp x [] j d L_none f).
Proof. intros env inp x lm0 j d f r Hnd. exact (event_link_target code_flags env inp x lm0 eq_refl Hnd j d f r). Qed.
Theorem C19_lot_link_target : forall env inp x lm0 j d f l r, NoDup (vis_rows x) ->
  g_lot (fst d) = Some l -> shown_at x (TIn l) r ->
  det_field env inp x (lm_after code_flags x lm0) j d L_lot f
  = PLink (inout_name env (ac_name x)) (r + 1) (det_field env inp x [] j d L_none f).
Proof. intros env inp x lm0 j d f l r Hnd. exact (lot_link_target code_flags env inp x lm0 eq_refl Hnd j d f l r). Qed.

(** the target row was written from the same transaction: row r of the In-Out sheet holds, column by column, its fields *)
Theorem C19_target_row : forall env inp x e r, shown_at x e r ->
  match e with
  | TIn t => exists k, forall col lk f, In (col, lk, f) gen_full_cols_in ->
      writes_at (sw_writes (inout_sheet env inp x)) r col = [cw r col (in_field env inp x k t lk f)]
  | TOut t => exists k, forall col lk f, In (col, lk, f) gen_full_cols_out ->
      writes_at (sw_writes (inout_sheet env inp x)) r col = [cw r col (out_field env inp x k t lk f)]
  | TIntra t => exists k, forall col lk f, In (col, lk, f) gen_full_cols_intra ->
      writes_at (sw_writes (inout_sheet env inp x)) r col = [cw r col (intra_field env inp x k t lk f)]
  end.
Proof. exact target_row. Qed.

(** a transaction the date filter hides carries no link: the cell holds the plain value.  For ComputedData produced by
    the pipeline: a lot of the asset that is not among the in-transactions shown (row numbers distinct within the asset) *)
Theorem C19_hidden_event_no_link : forall env inp x lm0 j d f,
  ~ In (t_row (g_ev (fst d))) (vis_rows x) ->
  det_field env inp x (lm_after code_flags x lm0) j d L_event f = det_field env inp x [] j d L_none f.
Proof. intros env inp x lm0 j d f. exact (event_no_link code_flags env inp x lm0 eq_refl j d f). Qed.
Theorem C19_hidden_lot_no_link : forall env inp x lm0 j d f l period from_day to_day allow exs hos fs,
  compute period from_day to_day allow exs hos (ac_txs x) fs = Ok (ac_c x) ->
  NoDup (all_rows (ac_txs x)) ->
  g_lot (fst d) = Some l -> In l (t_ins (ac_txs x)) -> ~ In l (cd_ins (ac_c x)) ->
  det_field env inp x (lm_after code_flags x lm0) j d L_lot f = det_field env inp x [] j d L_none f.
Proof. intros env inp x lm0 j d f l period from_day to_day allow exs hos fs. exact (hidden_lot_no_link code_flags env inp x lm0 j d f l period from_day to_day allow exs hos fs eq_refl). Qed.
(** the distinctness hypothesis of the theorems above follows from distinct row numbers in the asset's input *)
Theorem C19_shown_rows_distinct : forall x period from_day to_day allow exs hos fs,
  compute period from_day to_day allow exs hos (ac_txs x) fs = Ok (ac_c x) ->
  NoDup (all_rows (ac_txs x)) -> NoDup (vis_rows x).
Proof. intros. eapply compute_vis_nodup; eassumption. Qed.

(** with the dictionary emptied per asset, the sheets of an asset depend on that asset alone: a successful run is
    Legend, Summary and, per asset, [In-Out; Tax written with the asset's own exact row map] *)
Theorem C19_report_assets_independent : forall env inp sheets, full_report code_flags env inp = ROk sheets ->
  exists acs legend summary, computed_all inp (rp_assets inp) = Ok acs /\
    sheets = legend :: summary :: flat_map (asset_sheets code_flags env inp) (actxs 0 acs (fe_extra env)).
Proof. intros env inp sheets. exact (full_report_shape_clears code_flags env inp sheets eq_refl). Qed.

(** Summary sheet: the cells of the line of (asset x, year y) link to "<x> Tax", the (1-based) row of the FIRST fraction
    shown whose event falls in year y -- or carry no link when no fraction of that year is shown (from-date inside the
    year); the lookup never fails.  Hypothesis: calendar years do not decrease along the instant-sorted fractions
    (finding F9 for mixed UTC offsets) *)
Theorem C19_summary_link_first_row : forall env inp x k y f,
  nondecr 1 (map g_year (cd_gls (ac_c x))) -> 0 < y_year y ->
  summary_field env x (ym_of inp x) k y L_summary f =
  match first_idx (y_year y) (map g_year (cd_gls (ac_c x))) with
  | Some j => PLink (tax_name env (ac_name x)) (tl_det (tax_layout_of inp x) + Z.of_nat j + 1) (summary_field env x [] k y L_none f)
  | None => summary_field env x [] k y L_none f
  end.
Proof. intros env inp x k y f H. exact (summary_link env inp x H k y f). Qed.
Theorem C19_first_idx_is_first : forall y l j, first_idx y l = Some j ->
  nth_error l j = Some y /\ forall j', (j' < j)%nat -> nth_error l j' <> Some y.
Proof. exact first_idx_spec. Qed.
Theorem C19_summary_lookup_never_fails : forall x ym, summary_key_error code_flags x ym = false.
Proof. intros x ym. exact (summary_no_key_error code_flags x ym eq_refl). Qed.

(** the generator as published (dictionary never emptied): F3 -- in the two-asset input [w_f3] (assets AAA, BBB sharing
    row numbers 3, 4, 9; from-date 2021-01-01) a linked timestamp cell of "BBB Tax" leads to a row of "BBB In-Out" that
    shows another timestamp: the hidden 2020 lot of BBB (input row 4) inherits the row of AAA's visible lot with the same
    row number.  Repaired: no such cell, the event cells stay linked, the hidden lot's cells are plain.
    F2 -- [w_f2] (sale in March 2021, from-date 2021-06-01): KeyError instead of an unlinked Summary line *)
Theorem C19_link_target_refuted_stale_entry : has_stale_link (full_report only_clear_missing wenv w_f3) n_BBB_tax n_BBB_inout = true.
Proof. exact f3_stale_link. Qed.
Theorem C19_same_input_repaired :
  has_stale_link (full_report fixed_flags wenv w_f3) n_BBB_tax n_BBB_inout = false /\
  (0 < n_links (full_report fixed_flags wenv w_f3) n_BBB_tax < n_links (full_report only_clear_missing wenv w_f3) n_BBB_tax)%nat.
Proof. exact f3_repaired. Qed.
Theorem C19_summary_link_refuted_unguarded :
  full_report {| ff_clears := true; ff_guarded := false; ff_single_by_value := true |} wenv w_f2 = RKeyError.
Proof. exact f2_key_error. Qed.
Theorem C19_summary_same_input_repaired :
  existsb (shows_int 2021) (sheet_named gen_full_msg_summary (full_report fixed_flags wenv w_f2)) = true /\
  n_links (full_report fixed_flags wenv w_f2) gen_full_msg_summary = 0%nat.
Proof. exact f2_repaired. Qed.

Print Assumptions C19_link_columns.
Print Assumptions C19_row_map_exact.
Print Assumptions C19_event_link_target.
Print Assumptions C19_lot_link_target.
Print Assumptions C19_target_row.
Print Assumptions C19_hidden_event_no_link.
Print Assumptions C19_hidden_lot_no_link.
Print Assumptions C19_shown_rows_distinct.
Print Assumptions C19_report_assets_independent.
Print Assumptions C19_summary_link_first_row.
Print Assumptions C19_first_idx_is_first.
Print Assumptions C19_summary_lookup_never_fails.
Print Assumptions C19_link_target_refuted_stale_entry.
Print Assumptions C19_same_input_repaired.
Print Assumptions C19_summary_link_refuted_unguarded.
Print Assumptions C19_summary_same_input_repaired.
