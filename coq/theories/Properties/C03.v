(** Property C03 -- exactly the taxable transactions are taxed, each once and in full.
    (That every taxable event then receives fractions summing to its full amount, and income
    exactly one lot-less fraction, is C02 / SpecProps.) *)
From RP2V Require Import Base.Prelude Base.Time Base.Dec Model.Types Model.Generated Model.Txn
  Model.Matcher Model.Pipeline Proofs.C03Proofs Proofs.TransferFee.
From Coq Require Import Permutation.
Open Scope Z_scope.

Theorem C03_earn_types : forall t,
  is_earn_type t = true <->
  t = AIRDROP \/ t = HARDFORK \/ t = INCOME \/ t = INTEREST \/ t = MINING \/ t = STAKING \/ t = WAGES.
Proof. exact earn_types_exact. Qed.

(** the transfer-fee rule of the source as it is now (IntraTransaction.is_taxable, re-translated on every run): a transfer is
    taxable iff its crypto fee is > 0 on the 1e-11 grid.  Proved by reflexivity on the generated definition: a tree with
    another rule (e.g. the one before the repair of finding F8, `fiat_fee > ZERO` at 13 decimals) stops compiling here *)
Theorem C03_transfer_rule_from_source : forall a, intra_is_taxable a = (x_crypto_fee a >? 0).
Proof. exact code_intra_taxable_iff_fee. Qed.

(** the taxable events are exactly: earn-typed acquisitions, all out-transactions, transfers with a positive fee *)
Theorem C03_taxable_exactly : forall (t : txs) evs (e : txn),
  taxable_events t = Ok evs ->
  (In e evs <->
   (exists a, e = TIn a /\ In a (t_ins t) /\ is_earn_type (i_type a) = true) \/
   (exists a, e = TOut a /\ In a (t_outs t)) \/
   (exists a, e = TIntra a /\ In a (t_intras t) /\ 0 < x_crypto_fee a)).
Proof. exact taxable_events_exact. Qed.

(** ... and for histories that went through the constructors (which reject sent < received, so a fee is never negative):
    "every transfer between own accounts whose fee is non-zero" *)
Theorem C03_taxable_exactly_from_rows : forall (h : hist) (t : txs) evs (e : txn),
  build h = Ok t -> taxable_events t = Ok evs ->
  (In e evs <->
   (exists a, e = TIn a /\ In a (t_ins t) /\ is_earn_type (i_type a) = true) \/
   (exists a, e = TOut a /\ In a (t_outs t)) \/
   (exists a, e = TIntra a /\ In a (t_intras t) /\ x_crypto_fee a <> 0)).
Proof. exact taxable_events_exact_built. Qed.

Theorem C03_feeless_transfer_never_taxed : forall (t : txs) evs a,
  taxable_events t = Ok evs -> x_crypto_fee a = 0 -> ~ In (TIntra a) evs.
Proof. exact feeless_transfer_not_taxed. Qed.

(** finding F8 (repaired): under the previous rule ([intra_is_taxable_fiat]: fiat value of the fee > 0 at 13 decimals) a
    transfer with a fee of 1e-11 coins at price 1e-8 (worth 1e-19) was not a taxable event.  Stated on the pipeline under that
    explicit rule, so it compiles on every tree; [dust_fee_taxed_now] (Proofs/TransferFee.v) is the same history under the
    rule of the source: one taxable event, amount 1e-11 *)
Theorem C03_refuted_dust_fee_old_rule : exists h t evs a,
  build h = Ok t /\ taxable_events_by intra_is_taxable_fiat t = Ok evs /\
  In a (t_intras t) /\ x_crypto_fee a = 1 /\ ~ In (TIntra a) evs.
Proof. exact c03_refuted_dust_fee_old_rule. Qed.

Theorem C03_none_dropped_or_duplicated : forall (t : txs) evs,
  taxable_events t = Ok evs -> Permutation evs (taxable_unsorted t) /\ NoDup (map t_row evs).
Proof. intros t evs H. split; [exact (taxable_events_perm t evs H) | exact (taxable_events_rows_distinct t evs H)]. Qed.

Theorem C03_amount_and_kind : forall e,
  e_row (event_of e) = t_row e /\ e_amt (event_of e) = t_balance_change e /\ e_earn (event_of e) = t_is_earning e.
Proof. exact event_of_faithful. Qed.

Theorem C03_only_fee_of_transfer : forall a, intra_crypto_balance_change a = x_crypto_fee a.
Proof. intro a; reflexivity. Qed.

Print Assumptions C03_earn_types.
Print Assumptions C03_transfer_rule_from_source.
Print Assumptions C03_taxable_exactly.
Print Assumptions C03_taxable_exactly_from_rows.
Print Assumptions C03_feeless_transfer_never_taxed.
Print Assumptions C03_refuted_dust_fee_old_rule.
Print Assumptions C03_none_dropped_or_duplicated.
Print Assumptions C03_amount_and_kind.
Print Assumptions C03_only_fee_of_transfer.

(** SOURCE TIE (fee split).  The guard of ods_parser._create_and_process_transaction, re-read from the source on every run as
    a boolean expression over named predicates (Generated.gen_split_guard; InTransaction.is_crypto_fee_defined is translated
    too) and interpreted by Model/SplitGen.v, is the test of the parser model: an acquisition is split exactly when its crypto
    fee is positive -- whatever its type (an earn-typed acquisition with a crypto fee still gets its artificial FEE disposal,
    which is a taxable event).  A guard with a further conjunct (`and not transaction.is_taxable()`) stops compiling here. *)
From RP2V Require Import Model.Parser Model.SplitGen Proofs.SplitGenProofs.
Theorem C03_source_tie_fee_split_guard :
  forall tx, ev_guard gen_split_guard tx = match tx with TIn a => 0 <? i_crypto_fee a | _ => false end.
Proof. exact split_guard_agrees. Qed.
Print Assumptions C03_source_tie_fee_split_guard.

(** SOURCE TIE (tax engine).  Which sets tax_engine._create_unfiltered_taxable_event_set scans, in which order, and the
    predicate that selects a transaction are re-read from the source on every run (Generated.gen_te_scan / gen_te_filter);
    interpreted by Model/TaxEngineGen.v they are the taxable-event list of the model *)
From RP2V Require Import Model.TaxEngineGen Proofs.TaxEngineGenProofs.
Theorem C03_source_tie_taxable_event_set : forall t, taxable_events_gen t = taxable_events t.
Proof. exact taxable_events_gen_agrees. Qed.
Print Assumptions C03_source_tie_taxable_event_set.

(** SOURCE TIE (date window).  Which taxable events and which of their fractions a run with -f / -t reports: the per-entry tests
    of `EntrySetIterator.__next__` re-read from abstract_entry_set.py on every run (Model/GeneratedTie.v, fragment entry_set;
    interpreter Model/EntrySetGen.v) are [iter_window] of Model/Computed.v on the event's OWN calendar day
    (`timestamp.date()`), compared with the dates given - not its instant against UTC midnights, which would drop events near
    the boundary that were written with a non-UTC offset. *)
From RP2V Require Import Model.Computed Model.GeneratedTie Model.EntrySetGen Proofs.EntrySetGenProofs.
Theorem C03_source_tie_window_of_taxable_events :
  (forall from_day to_day (evs : list txn),
     iter_window_gen t_ts from_day to_day evs = iter_window (fun x => local_day (t_ts x)) from_day to_day evs) /\
  (forall from_day to_day (gls : list gl),
     iter_window_gen (fun g => t_ts (g_ev g)) from_day to_day gls = iter_window g_day from_day to_day gls).
Proof. exact (conj (iter_window_gen_agrees t_ts) (iter_window_gen_agrees (fun g => t_ts (g_ev g)))). Qed.
Print Assumptions C03_source_tie_window_of_taxable_events.
