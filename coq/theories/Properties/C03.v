(** Property C03 -- exactly the taxable transactions are taxed, each once and in full.
    (That every taxable event then receives fractions summing to its full amount, and income
    exactly one lot-less fraction, is C02 / SpecProps.) *)
From RP2V Require Import Base.Prelude Base.Time Base.Dec Model.Types Model.Generated Model.Txn
  Model.Matcher Model.Pipeline Proofs.C03Proofs.
From Coq Require Import Permutation.
Open Scope Z_scope.

Theorem C03_earn_types : forall t,
  is_earn_type t = true <->
  t = AIRDROP \/ t = HARDFORK \/ t = INCOME \/ t = INTEREST \/ t = MINING \/ t = STAKING \/ t = WAGES.
Proof. exact earn_types_exact. Qed.

(** the taxable events are exactly: earn-typed acquisitions, all out-transactions, transfers
    whose fee has a positive fiat value (13-decimal comparison: see finding F8 for dust) *)
Theorem C03_taxable_exactly : forall (t : txs) evs (e : txn),
  taxable_events t = Ok evs ->
  (In e evs <->
   (exists a, e = TIn a /\ In a (t_ins t) /\ is_earn_type (i_type a) = true) \/
   (exists a, e = TOut a /\ In a (t_outs t)) \/
   (exists a, e = TIntra a /\ In a (t_intras t) /\ dgtb (x_fiat_fee a) dzero = true)).
Proof. exact taxable_events_iff. Qed.

Theorem C03_none_dropped_or_duplicated : forall (t : txs) evs,
  taxable_events t = Ok evs -> Permutation evs (taxable_unsorted t) /\ NoDup (map t_row evs).
Proof. intros t evs H. split; [exact (taxable_events_perm t evs H) | exact (taxable_events_rows_distinct t evs H)]. Qed.

Theorem C03_amount_and_kind : forall e,
  e_row (event_of e) = t_row e /\ e_amt (event_of e) = t_balance_change e /\ e_earn (event_of e) = t_is_earning e.
Proof. exact event_of_faithful. Qed.

Theorem C03_only_fee_of_transfer : forall a, intra_crypto_balance_change a = x_crypto_fee a.
Proof. intro a; reflexivity. Qed.

Print Assumptions C03_earn_types.
Print Assumptions C03_taxable_exactly.
Print Assumptions C03_none_dropped_or_duplicated.
Print Assumptions C03_amount_and_kind.
Print Assumptions C03_only_fee_of_transfer.
