(** Property C11 -- parsed transactions equal the spreadsheet rows for any column layout.
    Only statements closed by [exact] of lemmas proved in Proofs/Parser*.v, and their axioms.

    Vocabulary (Model/Render.v): a sheet is a list of [block]s (blank rows, keyword row, header row, data rows,
    TABLE END row) in any order of distinct tables, followed by blank rows; a data row is a typed source row
    ([src_in] / [src_out] / [src_intra]: strings and the exact binary values of the numeric cells) rendered by
    [render_row h width cells junk]: the field's cell in the column the header map [h] assigns to it, [junk c] in
    every other column.  [expected] computes the transactions from the typed rows alone. *)
From RP2V Require Import Base.Prelude Base.Time Base.Dec Base.Sorting Model.Types Model.Generated Model.Txn Model.Parser Model.Render
  Proofs.ParserNum Proofs.ParserLookup Proofs.ParserRows Proofs.ParserSheet Proofs.ParserSpec Proofs.ParserExample.
Open Scope Z_scope.

(** MAIN THEOREM.  For every configuration [cfg] and every sheet whose tables are well formed under it ([wf_blocks]:
    per table an injective header map into the row width, every mandatory field mapped, a keyword row, a header row
    that is not itself a transaction, source rows with positive denominators whose rendered first cell is neither
    empty nor a keyword, a TABLE END row, blank rows in between), tables of pairwise distinct types in ANY order,
    ANY junk in unmapped columns: if the typed rows yield the transactions [p] (at least one acquisition), then
    parsing the rendered sheet yields exactly [p] -- same transactions, same order, same artificial ids. *)
Theorem C11_parse_render : forall cfg asset ai counter blocks trailing p,
  str_index asset (pc_assets cfg) 0 = Some ai ->
  wf_blocks cfg asset 1 blocks ->
  NoDup (map (fun b => tab_code (b_tab b)) blocks) ->
  (forall r, In r trailing -> is_blank_row r = true) ->
  expected cfg counter blocks = Ok p -> pa_ins p <> [] ->
  parse_sheet cfg asset counter (render_sheet cfg asset blocks trailing) = Ok p.
Proof. exact parse_render. Qed.

(** (a) every field is read from the column the configuration assigns to it; unmapped (junk) columns are never read *)
Theorem C11_field_from_assigned_column : forall h w fc junk f,
  wf_header h w -> get_arg h (render_row h w fc junk) f = (if mapped h f then ACell (fc f) else ANone).
Proof. exact get_arg_render. Qed.

(** (b) one row: the constructor receives the row's own values, numbers converted by [num11], absent optionals as None *)
Theorem C11_in_row : forall cfg asset ai rowno w s junk r,
  wf_header (pc_in cfg) w -> (forall f, In f gen_in_mandatory -> mapped (pc_in cfg) f = true) ->
  str_index asset (pc_assets cfg) 0 = Some ai -> srow_ok (SIn s) = true -> raw_of_in cfg rowno s = Some r ->
  create_in cfg rowno (render_row (pc_in cfg) w (in_cell asset s) junk) = Ok r.
Proof. exact create_in_render. Qed.

Theorem C11_out_row : forall cfg asset ai rowno w s junk r,
  wf_header (pc_out cfg) w -> (forall f, In f gen_out_mandatory -> mapped (pc_out cfg) f = true) ->
  str_index asset (pc_assets cfg) 0 = Some ai -> srow_ok (SOut s) = true -> raw_of_out cfg rowno s = Some r ->
  create_out cfg rowno (render_row (pc_out cfg) w (out_cell asset s) junk) = Ok r.
Proof. exact create_out_render. Qed.

Theorem C11_intra_row : forall cfg asset ai rowno w s junk r,
  wf_header (pc_intra cfg) w -> (forall f, In f gen_intra_mandatory -> mapped (pc_intra cfg) f = true) ->
  str_index asset (pc_assets cfg) 0 = Some ai -> srow_ok (SIntra s) = true -> raw_of_intra cfg rowno s = Some r ->
  create_intra cfg rowno (render_row (pc_intra cfg) w (intra_cell asset s) junk) = Ok r.
Proof. exact create_intra_render. Qed.

(** (e) no row skipped, none read twice, order preserved: the row ids of each set are exactly the sheet rows of the
    table's data rows, in sheet order; the OUT set is followed by the artificial fee disposals *)
Theorem C11_rows_once_in_order : forall cfg asset counter blocks p,
  wf_blocks cfg asset 1 blocks -> expected cfg counter blocks = Ok p ->
  map i_row (pa_ins p) = data_rownos TabIn 1 blocks /\
  (exists art, pa_outs p = firstn (length (data_rownos TabOut 1 blocks)) (pa_outs p) ++ art /\
               map o_row (firstn (length (data_rownos TabOut 1 blocks)) (pa_outs p)) = data_rownos TabOut 1 blocks) /\
  map x_row (pa_intras p) = data_rownos TabIntra 1 blocks.
Proof. exact parsed_rows_are_sheet_rows. Qed.

(** numbers: the precision in the source is 11 decimals; the conversion is within 5e-12 of the cell's value (stated
    without division: num / den is the exact binary value of the double) ... *)
Theorem C11_format_precision : gen_fmt_decimals = 11.
Proof. exact fmt_decimals_is_11. Qed.

Theorem C11_num11_accuracy : forall n d, 0 < d -> 2 * Z.abs (num11 n d * d - n * 10 ^ 11) <= d.
Proof. exact num11_accuracy. Qed.

(** ... a double strictly within 5e-12 of an 11-decimal number u * 1e-11 is read as exactly u ... *)
Theorem C11_num11_exact : forall n d u, 0 < d -> 2 * Z.abs (n * 10 ^ 11 - u * d) < d -> num11 n d = u.
Proof. exact num11_exact. Qed.

(** ... in particular the double nearest to it when |value| < 2^16 (half an ulp is then at most 2^-38 < 5e-12; DESIGN states
    the bound as 2^52 * 1e-11 = 45035.99 < 2^16).  PARTIAL: binary64 rounding itself is not modelled -- "q is the double
    nearest to u * 1e-11" enters as the distance bound |q - u * 1e-11| <= 2^-38, which IEEE-754 round-to-nearest guarantees
    below 2^16; the check re-validates that premise on every generated value (oracle self-check in l1.expected). *)
Theorem C11_num11_exact_double_partial : forall n d u, 0 < d -> Z.abs (n * 10 ^ 11 - u * d) * 2 ^ 38 <= 10 ^ 11 * d -> num11 n d = u.
Proof. exact num11_exact_double. Qed.

(** empty optional cells default as documented: fees to 0 (a crypto fee implies fiat_fee = crypto_fee * spot_price), the fiat
    amounts to amount * spot_price (+ fee), crypto_out_with_fee to the sum, a transfer's spot price to 0; supplied values win *)
Theorem C11_in_defaults : forall r a, mk_in r = Ok a ->
  (ri_crypto_fee r = None -> i_crypto_fee a = 0) /\
  (ri_crypto_fee r = None -> ri_fiat_fee r = None -> i_fiat_fee a = g 0) /\
  (forall c, ri_crypto_fee r = Some c -> 0 < c -> i_fiat_fee a = dmul (g c) (g (ri_spot r))) /\
  (ri_fiat_in_no_fee r = None -> i_fiat_in_no_fee a = dmul (g (ri_crypto_in r)) (g (ri_spot r))) /\
  (forall v, ri_fiat_in_no_fee r = Some v -> i_fiat_in_no_fee a = g v) /\
  (ri_fiat_in_with_fee r = None -> i_fiat_in_with_fee a = dadd (i_fiat_in_no_fee a) (i_fiat_fee a)) /\
  (forall v, ri_fiat_in_with_fee r = Some v -> i_fiat_in_with_fee a = g v).
Proof. exact in_defaults. Qed.

Theorem C11_out_defaults : forall r a, mk_out r = Ok a ->
  (ro_crypto_out_with_fee r = None -> o_crypto_out_with_fee a = ro_crypto_out_no_fee r + ro_crypto_fee r) /\
  (forall v, ro_crypto_out_with_fee r = Some v -> o_crypto_out_with_fee a = v) /\
  (ro_fiat_out_no_fee r = None -> o_fiat_out_no_fee a = dmul (g (ro_crypto_out_no_fee r)) (g (ro_spot r))) /\
  (forall v, ro_fiat_out_no_fee r = Some v -> o_fiat_out_no_fee a = g v) /\
  (ro_fiat_fee r = None -> o_fiat_fee a = dmul (g (ro_crypto_fee r)) (g (ro_spot r))) /\
  (forall v, ro_fiat_fee r = Some v -> o_fiat_fee a = g v) /\
  o_fiat_out_with_fee a = dadd (o_fiat_out_no_fee a) (o_fiat_fee a).
Proof. exact out_defaults. Qed.

Theorem C11_intra_defaults : forall r a, mk_intra r = Ok a ->
  (rx_spot r = None -> x_spot a = 0) /\ (forall v, rx_spot r = Some v -> x_spot a = v) /\
  x_fiat_fee a = dmul (g (rx_crypto_sent r - rx_crypto_received r)) (g (x_spot a)).
Proof. exact intra_defaults. Qed.

(** crypto fee on an acquisition: the acquisition (same row, instant, account, type, amount; crypto fee 0) plus an
    artificial fee-only disposal at the same instant and account; coin flow crypto_in - fee; cost basis unchanged *)
Theorem C11_crypto_fee_split : forall raw tx tx' o id cfee,
  mk_in raw = Ok tx -> ri_crypto_fee raw = Some cfee -> 0 < cfee ->
  split_in tx = Ok tx' -> fee_out tx id = Ok o ->
  i_row tx' = ri_row raw /\ i_ts tx' = ri_ts raw /\ i_exch tx' = ri_exch raw /\ i_holder tx' = ri_holder raw /\ i_type tx' = ri_type raw /\
  i_crypto_in tx' = ri_crypto_in raw /\ i_crypto_fee tx' = 0 /\
  o_row o = id /\ o_ts o = ri_ts raw /\ o_exch o = ri_exch raw /\ o_holder o = ri_holder raw /\ o_type o = FEE /\
  o_crypto_out_no_fee o = 0 /\ o_crypto_fee o = cfee /\ o_spot o = ri_spot raw /\
  i_crypto_in tx' - o_crypto_out_with_fee o = ri_crypto_in raw - cfee /\
  i_fiat_in_with_fee tx' = i_fiat_in_with_fee tx /\ i_fiat_in_no_fee tx' = i_fiat_in_no_fee tx /\
  o_fiat_fee o = dmul (g cfee) (g (ri_spot raw)).
Proof. exact crypto_fee_split. Qed.

Theorem C11_crypto_fee_cost_basis : forall raw tx cfee,
  mk_in raw = Ok tx -> ri_crypto_fee raw = Some cfee -> 0 < cfee -> ri_fiat_in_no_fee raw = None -> ri_fiat_in_with_fee raw = None ->
  i_fiat_in_with_fee tx = dadd (dmul (g (ri_crypto_in raw)) (g (ri_spot raw))) (dmul (g cfee) (g (ri_spot raw))).
Proof. exact crypto_fee_cost_basis. Qed.

(** the fee-only disposal itself never fails to construct (only the second construction of the acquisition can:
    when its derived fiat value rounds to 0 at 13 decimals -- finding dust-crypto-fee-split) *)
Theorem C11_fee_disposal_constructs : forall a id, 0 < i_spot a -> 0 < i_crypto_fee a ->
  exists o, fee_out a id = Ok o /\ o_row o = id /\ o_ts o = i_ts a /\ o_exch o = i_exch a /\ o_holder o = i_holder a /\
            o_type o = FEE /\ o_spot o = i_spot a /\ o_crypto_out_no_fee o = 0 /\ o_crypto_fee o = i_crypto_fee a /\
            o_crypto_out_with_fee o = i_crypto_fee a /\ o_fiat_fee o = dmul (g (i_crypto_fee a)) (g (i_spot a)).
Proof. exact fee_out_spec. Qed.

(** refuted half (finding F15): an acquisition that constructs, has a crypto fee, and whose split fails -- while the same
    row without the fee constructs.  [expected] returns Err for such rows, so they are outside the main theorem. *)
Theorem C11_dust_split_refuted :
  exists raw tx, mk_in raw = Ok tx /\ 0 < i_crypto_fee tx /\ ri_fiat_in_no_fee raw = None /\ split_in tx = Err EValue /\
                 mk_in {| ri_row := ri_row raw; ri_ts := ri_ts raw; ri_exch := ri_exch raw; ri_holder := ri_holder raw; ri_type := ri_type raw;
                          ri_spot := ri_spot raw; ri_crypto_in := ri_crypto_in raw; ri_crypto_fee := None; ri_fiat_in_no_fee := None;
                          ri_fiat_in_with_fee := None; ri_fiat_fee := None |} <> Err EValue.
Proof. exact dust_split_refuted. Qed.

(** ... and that is the only way: with fiat values positive at 13 decimals the split succeeds *)
Theorem C11_split_succeeds : forall a,
  dgtb (i_fiat_in_no_fee a) dzero = true -> dgtb (i_fiat_in_with_fee a) dzero = true -> dgeb (i_fiat_fee a) dzero = true ->
  exists a', split_in a = Ok a'.
Proof. exact split_in_ok. Qed.

(** the field ids / mandatory / numeric parameter lists the model uses are those of the constructors in the source *)
Theorem C11_source_tables :
  gen_in_mandatory = [0; 1; 2; 3; 4; 5; 6] /\ gen_in_numeric = [5; 6; 7; 8; 9; 10] /\ length gen_in_fields = 13%nat /\
  gen_out_mandatory = [0; 1; 2; 3; 4; 5; 6; 7] /\ gen_out_numeric = [5; 6; 7; 8; 9; 10] /\ length gen_out_fields = 13%nat /\
  gen_intra_mandatory = [0; 1; 2; 3; 4; 5; 6; 7; 8] /\ gen_intra_numeric = [6; 7; 8] /\ length gen_intra_fields = 11%nat.
Proof. exact source_tables. Qed.

(** non-vacuity: a concrete sheet (tables in the order OUT, IN, INTRA; permuted columns; junk incl. "TABLE END" strings;
    blank rows; an acquisition with crypto fee) meets every hypothesis of the main theorem *)
Theorem C11_nonvacuous :
  exists p, expected ex_cfg 0 ex_blocks = Ok p /\
            parse_sheet ex_cfg ex_asset 0 (render_sheet ex_cfg ex_asset ex_blocks [[CEmpty]]) = Ok p /\
            length (pa_ins p) = 2%nat /\ length (pa_outs p) = 2%nat /\ length (pa_intras p) = 1%nat /\ pa_counter p = -1 /\
            map i_row (pa_ins p) = [8; 9] /\ map o_row (pa_outs p) = [4; -1].
Proof. exact parse_render_nonvacuous. Qed.

Print Assumptions C11_parse_render.
Print Assumptions C11_field_from_assigned_column.
Print Assumptions C11_in_row.
Print Assumptions C11_out_row.
Print Assumptions C11_intra_row.
Print Assumptions C11_rows_once_in_order.
Print Assumptions C11_format_precision.
Print Assumptions C11_num11_accuracy.
Print Assumptions C11_num11_exact.
Print Assumptions C11_num11_exact_double_partial.
Print Assumptions C11_in_defaults.
Print Assumptions C11_out_defaults.
Print Assumptions C11_intra_defaults.
Print Assumptions C11_crypto_fee_split.
Print Assumptions C11_crypto_fee_cost_basis.
Print Assumptions C11_fee_disposal_constructs.
Print Assumptions C11_dust_split_refuted.
Print Assumptions C11_split_succeeds.
Print Assumptions C11_source_tables.
Print Assumptions C11_nonvacuous.

(** SOURCE TIE (fee split).  ods_parser._create_and_process_transaction is re-read from the source on every run as data
    (Generated.v fragment `split`: the guard, the keyword-argument maps of the two constructor calls, the containers);
    Model/SplitGen.v interprets the data, and the interpretation is [data_row], the row step that [parse_sheet] and every
    theorem above is about.  Any edit of that function that changes the guard, a keyword argument or a container stops
    compiling here (Proofs/SplitGenProofs.v). *)
From RP2V Require Import Model.SplitGen Proofs.SplitGenProofs.
Theorem C11_source_tie_fee_split :
  forall cfg asset s t rowno row, data_row_gen cfg asset s t rowno row = data_row cfg asset s t rowno row.
Proof. exact data_row_gen_agrees. Qed.
Print Assumptions C11_source_tie_fee_split.
