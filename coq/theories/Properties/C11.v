(** Property C11 -- parsed transactions equal the spreadsheet rows for any column layout. *)
From RP2V Require Import Base.Prelude Base.Dec Model.Types Model.Generated Model.Txn Model.Parser Proofs.ParserNum.
Open Scope Z_scope.

Theorem C11_num11_accuracy : forall n d, 0 < d -> 2 * Z.abs (num11 n d * d - n * 10 ^ 11) <= d.
Proof. exact num11_accuracy. Qed.

Print Assumptions C11_num11_accuracy.
