(** Property C06 -- the yearly gain/loss summary equals the sum of its detail fractions.

    Model: [yearly_list period to_day from_year gls] of Model/Computed.v (computed_data.py
    [_create_yearly_gain_loss_list] + [_filter_yearly_gain_loss_by_year]); [gls] is the detail table
    (all fractions, sorted by the instant of their taxable event), [to_day] the to-date,
    [from_year] the year of the from-date, [period] the long-term holding period of the country.
    [take_until g_day to_day gls] is what the summary loop sees: it walks the detail table and
    [break]s at the first fraction whose local date is after the to-date.
    Vocabulary ([line_has_key], [dsum], [odflt], [line_before]): Model/ComputedSpec.v.
    Proofs: Proofs/YearlyProofs.v, Proofs/C06Proofs.v. *)
From Coq Require Import List ZArith Bool Lia Sorted QArith Qabs.
From RP2V Require Import Base.Prelude Base.Time Base.Dec Model.Types Model.Generated Model.Pipeline Model.Computed Model.ComputedSpec
  Proofs.DecProofs Proofs.FilterProofs Proofs.C06Proofs Proofs.ComputedProofs Proofs.FiatSumProofs Proofs.C04Reassembly Proofs.C06Closed.
Import ListNotations.
Open Scope Z_scope.

(** the summary shown by a run is [yearly_list] of that run's own detail table *)
Theorem C06_summary_of_run : forall period from_day to_day allow exs hos t fs cd,
  compute period from_day to_day allow exs hos t fs = Ok cd ->
  yearly_list period to_day (year_of_day from_day) (cd_all_gls cd) = Ok (cd_yearly cd).
Proof. exact c06_summary_of_run. Qed.

(** "Each line ... equals the sums of crypto amount, proceeds, cost basis and gain over exactly the
    detail fractions with that key": the crypto amount is the exact integer sum, the three fiat figures
    are the left-to-right 31-digit sums the code computes; "exactly the fractions with that key" is the
    filter [line_has_key]; "lines exist only for keys that have fractions" is [mine <> []]. *)
Theorem C06_line_is_sum : forall period to_day from_year gls yl,
  yearly_list period to_day from_year gls = Ok yl ->
  forall L, In L yl ->
    let mine := filter (line_has_key period L) (take_until g_day to_day gls) in
    mine <> [] /\
    y_crypto L = sumZ (map g_amt mine) /\
    y_fiat L = dsum (map (fun g => odflt (g_proceeds g)) mine) /\
    y_cost L = dsum (map (fun g => odflt (g_cost g)) mine) /\
    y_gain L = dsum (map (fun g => odflt (g_gain g)) mine).
Proof. exact c06_line_is_sum. Qed.

(** "the year being that of the taxable event's own timestamp" (not the lot's), in local time *)
Theorem C06_key_is_event_year : forall period L g,
  line_has_key period L g = true <->
  local_year (t_ts (g_ev g)) = y_year L /\ t_type (g_ev g) = y_type L /\ gl_is_long period (g_ev g) (g_lot g) = y_long L.
Proof. exact line_has_key_iff. Qed.

(** the summed figures are all defined: the run succeeds exactly when they are *)
Theorem C06_figures_defined : forall period to_day from_year gls,
  (exists yl, yearly_list period to_day from_year gls = Ok yl) <->
  (forall g, In g (take_until g_day to_day gls) -> g_proceeds g <> None /\ g_cost g <> None /\ g_gain g <> None).
Proof. exact c06_figures_defined. Qed.

(** "Every fraction ... contributes to exactly one line" (of the years that are shown) *)
Theorem C06_fraction_in_exactly_one_line : forall period to_day from_year gls yl,
  yearly_list period to_day from_year gls = Ok yl ->
  forall g, In g (take_until g_day to_day gls) -> from_year <= g_year g ->
    exists L, In L yl /\ line_has_key period L g = true /\
              forall L', In L' yl -> line_has_key period L' g = true -> L' = L.
Proof. exact c06_fraction_one_line. Qed.

(** "lines exist only for keys that have fractions" (and only for years from the from-date's year on) *)
Theorem C06_no_line_without_fraction : forall period to_day from_year gls yl,
  yearly_list period to_day from_year gls = Ok yl ->
  forall L, In L yl -> from_year <= y_year L /\
    exists g, In g (take_until g_day to_day gls) /\ line_has_key period L g = true.
Proof. exact c06_no_empty_line. Qed.

(** no key appears twice *)
Theorem C06_keys_distinct : forall period to_day from_year gls yl,
  yearly_list period to_day from_year gls = Ok yl ->
  NoDup yl /\
  forall a b, In a yl -> In b yl -> y_year a = y_year b -> y_type a = y_type b -> y_long a = y_long b -> a = b.
Proof. exact c06_keys_distinct. Qed.

(** "the per-asset grand totals therefore equal the totals of the detail table": exact for the crypto amount
    (fiat figures: C06_fiat_totals below) *)
Theorem C06_grand_total_crypto : forall period to_day from_year gls yl,
  yearly_list period to_day from_year gls = Ok yl ->
  sumZ (map y_crypto yl) = sumZ (map g_amt (filter (fun g => from_year <=? g_year g) (take_until g_day to_day gls))).
Proof. exact c06_crypto_total. Qed.

(** The fiat figures against exact arithmetic.  [to_q d] is the exact rational value of a decimal, [qsum l] the exact
    sum of the values of [l], [EPS] = 5e-31 (half a unit in the 31st digit, relative), and [partial_mag dzero l] the sum of
    the magnitudes of the intermediate sums of the left-to-right addition of [l] (at most length x the largest partial
    sum): every reported figure is within EPS x that of the exact sum of its fractions ... *)
Theorem C06_line_fiat_error : forall period to_day from_year gls yl,
  yearly_list period to_day from_year gls = Ok yl ->
  forall L, In L yl ->
  let mine := filter (line_has_key period L) (take_until g_day to_day gls) in
  (Qabs (to_q (y_fiat L) - qsum (map (fun g => odflt (g_proceeds g)) mine)) <= EPS * partial_mag dzero (map (fun g => odflt (g_proceeds g)) mine) /\
   Qabs (to_q (y_cost L) - qsum (map (fun g => odflt (g_cost g)) mine)) <= EPS * partial_mag dzero (map (fun g => odflt (g_cost g)) mine) /\
   Qabs (to_q (y_gain L) - qsum (map (fun g => odflt (g_gain g)) mine)) <= EPS * partial_mag dzero (map (fun g => odflt (g_gain g)) mine))%Q.
Proof. exact c06_line_fiat_bounds. Qed.

(** ... and the grand totals of the three fiat columns are within the sum of these bounds ([total_bound]) of the exact
    totals of the detail table (fractions up to the cut, of the years shown) *)
Theorem C06_fiat_totals : forall period to_day from_year gls yl,
  yearly_list period to_day from_year gls = Ok yl ->
  let counted := filter (fun g => from_year <=? g_year g) (take_until g_day to_day gls) in
  (Qabs (qsumf (fun L => to_q (y_fiat L)) yl - qsum (map (fun g => odflt (g_proceeds g)) counted)) <= total_bound period to_day gls yl (fun g => odflt (g_proceeds g)) /\
   Qabs (qsumf (fun L => to_q (y_cost L)) yl - qsum (map (fun g => odflt (g_cost g)) counted)) <= total_bound period to_day gls yl (fun g => odflt (g_cost g)) /\
   Qabs (qsumf (fun L => to_q (y_gain L)) yl - qsum (map (fun g => odflt (g_gain g)) counted)) <= total_bound period to_day gls yl (fun g => odflt (g_gain g)))%Q.
Proof. exact c06_fiat_totals. Qed.

(** The same in closed form (a-priori): a line with n fractions is within n x 1e-30 x (sum of the magnitudes of its
    fractions' figures) of the exact sum, and each grand total within N x 1e-30 x (sum of the magnitudes of the figures of
    all N counted fractions); [nq n] = n as a rational, 2 x EPS = 1e-30, [qabs_sum l] = sum of |value|; the side
    conditions say n, N <= 1e30.  With all magnitudes <= B this is n^2 x 1e-30 x B (C06_magnitudes_below_max). *)
Theorem C06_line_fiat_error_closed : forall period to_day from_year gls yl,
  yearly_list period to_day from_year gls = Ok yl ->
  forall L, In L yl ->
  let mine := filter (line_has_key period L) (take_until g_day to_day gls) in
  let n := nq (length mine) in
  (2 * n * EPS <= 1 ->
   Qabs (to_q (y_fiat L) - qsum (map (fun g => odflt (g_proceeds g)) mine)) <= n * (2 * EPS) * qabs_sum (map (fun g => odflt (g_proceeds g)) mine) /\
   Qabs (to_q (y_cost L) - qsum (map (fun g => odflt (g_cost g)) mine)) <= n * (2 * EPS) * qabs_sum (map (fun g => odflt (g_cost g)) mine) /\
   Qabs (to_q (y_gain L) - qsum (map (fun g => odflt (g_gain g)) mine)) <= n * (2 * EPS) * qabs_sum (map (fun g => odflt (g_gain g)) mine))%Q.
Proof. exact c06_line_fiat_closed. Qed.
Theorem C06_fiat_totals_closed : forall period to_day from_year gls yl,
  yearly_list period to_day from_year gls = Ok yl ->
  let counted := filter (fun g => from_year <=? g_year g) (take_until g_day to_day gls) in
  let N := nq (length counted) in
  (2 * N * EPS <= 1 ->
   Qabs (qsumf (fun L => to_q (y_fiat L)) yl - qsum (map (fun g => odflt (g_proceeds g)) counted)) <= N * (2 * EPS) * qabs_sum (map (fun g => odflt (g_proceeds g)) counted) /\
   Qabs (qsumf (fun L => to_q (y_cost L)) yl - qsum (map (fun g => odflt (g_cost g)) counted)) <= N * (2 * EPS) * qabs_sum (map (fun g => odflt (g_cost g)) counted) /\
   Qabs (qsumf (fun L => to_q (y_gain L)) yl - qsum (map (fun g => odflt (g_gain g)) counted)) <= N * (2 * EPS) * qabs_sum (map (fun g => odflt (g_gain g)) counted))%Q.
Proof. exact c06_fiat_totals_closed_all. Qed.
Theorem C06_magnitudes_below_max : forall l B, (forall x, In x l -> Qabs (to_q x) <= B)%Q -> (qabs_sum l <= nq (length l) * B)%Q.
Proof. exact qabs_sum_le_max. Qed.

(** the from-date only hides the lines of earlier years; the lines of the remaining years are unchanged *)
Theorem C06_from_year_only_hides_lines : forall period to_day fy fy' gls yl yl',
  yearly_list period to_day fy gls = Ok yl -> yearly_list period to_day fy' gls = Ok yl' -> fy' <= fy ->
  yl = filter (fun l => fy <=? y_year l) yl'.
Proof. exact c06_from_year. Qed.

(** order of the summary: year descending, SHORT before LONG, type descending *)
Theorem C06_order : forall period to_day from_year gls yl,
  yearly_list period to_day from_year gls = Ok yl -> StronglySorted line_before yl.
Proof. exact c06_order. Qed.

(** "Every fraction dated up to the to-date contributes": when local dates are monotone in time
    ([day_sorted]: true whenever all timestamps carry the same UTC offset) the loop's [break] is the
    filter "dated up to the to-date" ... *)
Theorem C06_line_is_sum_of_all_dated_fractions : forall period to_day from_year gls yl,
  day_sorted g_day gls ->
  yearly_list period to_day from_year gls = Ok yl ->
  forall L, In L yl ->
    let mine := filter (fun g => line_has_key period L g && (g_day g <=? to_day)) gls in
    mine <> [] /\
    y_crypto L = sumZ (map g_amt mine) /\
    y_fiat L = dsum (map (fun g => odflt (g_proceeds g)) mine) /\
    y_cost L = dsum (map (fun g => odflt (g_cost g)) mine) /\
    y_gain L = dsum (map (fun g => odflt (g_gain g)) mine).
Proof. exact c06_line_is_sum_sorted. Qed.

Theorem C06_every_dated_fraction_counts : forall period to_day from_year gls yl,
  day_sorted g_day gls ->
  yearly_list period to_day from_year gls = Ok yl ->
  forall g, In g gls -> g_day g <= to_day -> from_year <= g_year g ->
    exists L, In L yl /\ line_has_key period L g = true /\
              forall L', In L' yl -> line_has_key period L' g = true -> L' = L.
Proof. exact c06_every_dated_fraction_counts. Qed.

(** ... and without that hypothesis the sentence is false for the code as it is (finding F9): in the
    history [h9] (Proofs/L4Examples.v; a sale written at +14:00 followed by one written at -12:00) the
    second sale is dated 2020-12-31, the to-date is 2020-12-31, and the summary is empty. *)
Theorem C06_to_date_refuted : exists period to_day from_year gls yl g,
  yearly_list period to_day from_year gls = Ok yl /\
  In g gls /\ g_day g <= to_day /\ from_year <= g_year g /\
  forall L, In L yl -> line_has_key period L g = false.
Proof. exact c06_to_date_refuted. Qed.

(** Non-vacuity (Proofs/C06Proofs.v, evaluated by the kernel on history A of Proofs/L4Examples.v: three calendar
    years, two holders, a sale split into a long and a short fraction, two fractions in one line):
    [c06_example_whole], [c06_example_cut] (to-date inside 2020, from-year 2020), [c06_glsA_sorted],
    [c06_example_run] (the same through [compute]), and the instances [c06_line_is_sum_instance],
    [c06_counts_instance] of the theorems above; Proofs/FiatSumProofs.v: [c06_fiat_totals_instance],
    [c06_total_bound_small] (the bound on the grand total of the proceeds of history A is 1.5e-27);
    Proofs/C06Closed.v: [c06_closed_instance], [c06_closed_bound_small] (closed-form bound for history A below 1e-25). *)

Print Assumptions C06_summary_of_run.
Print Assumptions C06_line_is_sum.
Print Assumptions C06_key_is_event_year.
Print Assumptions C06_figures_defined.
Print Assumptions C06_fraction_in_exactly_one_line.
Print Assumptions C06_no_line_without_fraction.
Print Assumptions C06_keys_distinct.
Print Assumptions C06_grand_total_crypto.
Print Assumptions C06_line_fiat_error.
Print Assumptions C06_fiat_totals.
Print Assumptions C06_line_fiat_error_closed.
Print Assumptions C06_fiat_totals_closed.
Print Assumptions C06_magnitudes_below_max.
Print Assumptions C06_from_year_only_hides_lines.
Print Assumptions C06_order.
Print Assumptions C06_line_is_sum_of_all_dated_fractions.
Print Assumptions C06_every_dated_fraction_counts.
Print Assumptions C06_to_date_refuted.

(** Source tie (regenerated on every run).  [yearly_list_gen] (Model/ComputedGen.v) is the yearly summary with every choice the
    source makes taken from the tables the translator reads from computed_data.py (Model/GeneratedTie.v): the set
    `_create_yearly_gain_loss_list` is handed (unfiltered), its to-date test and that it `break`s, the key tuple
    (event year, asset, type, long/short), the attribute accumulated into each amount, the sort, and the bound
    `y.year >= from_date.year` of `_filter_yearly_gain_loss_by_year`.  It is the hand-written [yearly_list] the theorems above
    are about; an edit that drops the to-date test, filters by another bound, summarises the filtered set or accumulates
    another attribute makes this theorem stop compiling (Proofs/ComputedGenYearly.v). *)
From RP2V Require Import Model.GeneratedTie Model.ComputedGen Proofs.ComputedGenYearly.
Theorem C06_source_tie_yearly_summary :
  forall (period from_day to_day : Z) (gls : list gl),
    yearly_list_gen period from_day to_day gls = yearly_list period to_day (year_of_day from_day) gls.
Proof. exact yearly_list_gen_agrees. Qed.
Print Assumptions C06_source_tie_yearly_summary.
