(** Property C02 -- every disposal is fully covered by earlier lots; no lot is ever overspent.
    INTERIM: the conservation theorems are being proved in Proofs/SpecProps.v + Proofs/MatcherRefine.v. *)
From RP2V Require Import Base.Prelude Base.Time Base.Dec Model.Types Model.Generated Model.Matcher Model.MatchSpec.
Open Scope Z_scope.

Theorem C02_always_repush : gen_always_repush = true.
Proof. reflexivity. Qed.
Print Assumptions C02_always_repush.
