(** Property C02 -- every disposal is fully covered by earlier lots; no lot is ever overspent. *)
From RP2V Require Import Base.Prelude Base.Time Base.Dec Model.Types Model.Generated Model.Matcher Model.MatchSpec
  Model.MatchWf Model.FracSpec Proofs.MatcherProps.
Open Scope Z_scope.

(** the run either succeeds or fails with the "lots exhausted" error -- nothing else *)
Theorem C02_total : forall lots sched evs, wf lots sched evs ->
  (exists fs, run_matcher gen_always_repush lots sched evs = Ok fs) \/
  run_matcher gen_always_repush lots sched evs = Err EExhausted.
Proof. exact m_total. Qed.

(** it fails exactly when, at some disposal, the lots acquired so far cannot cover the disposals
    so far -- whatever the accounting method *)
Theorem C02_fails_iff : forall lots sched evs, wf lots sched evs ->
  (run_matcher gen_always_repush lots sched evs = Err EExhausted <->
   exists j d, (j < length evs)%nat /\ e_earn (nth j evs d) = false /\ have lots (e_us (nth j evs d)) < need evs j).
Proof. exact m_fails_iff. Qed.

Theorem C02_fractions_positive : forall lots sched evs, wf lots sched evs ->
  forall fs, run_matcher gen_always_repush lots sched evs = Ok fs -> forall f, In f fs -> 0 < f_amt f.
Proof. exact m_positive. Qed.

(** the fractions of every taxable event sum exactly to the full amount leaving the holder *)
Theorem C02_event_fully_covered : forall lots sched evs, wf lots sched evs ->
  forall fs, run_matcher gen_always_repush lots sched evs = Ok fs ->
  forall e, In e evs -> ev_taken fs (e_row e) = e_amt e.
Proof. exact m_event_covered. Qed.

(** no lot is overspent at any point of the history *)
Theorem C02_no_lot_overspent : forall lots sched evs, wf lots sched evs ->
  forall fs, run_matcher gen_always_repush lots sched evs = Ok fs ->
  forall k i, (i < length lots)%nat -> 0 <= rem_after lots (firstn k fs) i.
Proof. exact m_no_overspend. Qed.

(** fractions belong to taxable events only; lot-less exactly for income; income once in full
    (that no fraction comes from a lot acquired after the disposal is part of C01_order) *)
Theorem C02_only_events : forall lots sched evs, wf lots sched evs ->
  forall fs, run_matcher gen_always_repush lots sched evs = Ok fs ->
  forall f, In f fs -> exists e, In e evs /\ e_row e = f_ev f /\ (f_lot f = None <-> e_earn e = true).
Proof. exact m_only_events. Qed.

Theorem C02_income_once : forall lots sched evs, wf lots sched evs ->
  forall fs, run_matcher gen_always_repush lots sched evs = Ok fs ->
  forall e, In e evs -> e_earn e = true -> filter (frac_of_ev (e_row e)) fs = [mk_frac lots e None (e_amt e)].
Proof. exact m_earn_once. Qed.

(** disposing of the entire remaining holding always succeeds and leaves every lot exactly exhausted *)
Theorem C02_sell_all : forall lots sched evs fs,
  wf lots sched evs -> run_matcher gen_always_repush lots sched evs = Ok fs ->
  forall e, e_earn e = false -> wf lots sched (evs ++ [e]) ->
    (forall i, (i < length lots)%nat -> lot_us lots i <= e_us e) ->
    e_amt e = sumZ (map (rem_after lots fs) (seq 0 (length lots))) ->
    exists fs', run_matcher gen_always_repush lots sched (evs ++ [e]) = Ok (fs ++ fs') /\
                forall i, (i < length lots)%nat -> rem_after lots (fs ++ fs') i = 0.
Proof. exact m_sell_all. Qed.

Print Assumptions C02_total.
Print Assumptions C02_fails_iff.
Print Assumptions C02_fractions_positive.
Print Assumptions C02_event_fully_covered.
Print Assumptions C02_no_lot_overspent.
Print Assumptions C02_only_events.
Print Assumptions C02_income_once.
Print Assumptions C02_sell_all.
