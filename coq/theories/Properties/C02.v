(** Property C02 -- every disposal is fully covered by earlier lots; no lot is ever overspent. *)
From RP2V Require Import Base.Prelude Base.Time Base.Dec Model.Types Model.Generated Model.Matcher Model.MatchSpec
  Model.MatchWf Model.FracSpec Proofs.MatcherProps.
Open Scope Z_scope.

(** the run either succeeds or fails with the "lots exhausted" error -- nothing else *)
Theorem C02_total : forall lots sched evs, wf lots sched evs ->
  (exists fs, run_matcher gen_always_repush lots sched evs = Ok fs) \/
  run_matcher gen_always_repush lots sched evs = Err EExhausted.
Proof. exact m_total. Qed.

(** it fails exactly when, at some disposal, the lots acquired so far cannot cover the disposals
    so far -- whatever the accounting method *)
Theorem C02_fails_iff : forall lots sched evs, wf lots sched evs ->
  (run_matcher gen_always_repush lots sched evs = Err EExhausted <->
   exists j d, (j < length evs)%nat /\ e_earn (nth j evs d) = false /\ have lots (e_us (nth j evs d)) < need evs j).
Proof. exact m_fails_iff. Qed.

Theorem C02_fractions_positive : forall lots sched evs, wf lots sched evs ->
  forall fs, run_matcher gen_always_repush lots sched evs = Ok fs -> forall f, In f fs -> 0 < f_amt f.
Proof. exact m_positive. Qed.

(** the fractions of every taxable event sum exactly to the full amount leaving the holder *)
Theorem C02_event_fully_covered : forall lots sched evs, wf lots sched evs ->
  forall fs, run_matcher gen_always_repush lots sched evs = Ok fs ->
  forall e, In e evs -> ev_taken fs (e_row e) = e_amt e.
Proof. exact m_event_covered. Qed.

(** no lot is overspent at any point of the history *)
Theorem C02_no_lot_overspent : forall lots sched evs, wf lots sched evs ->
  forall fs, run_matcher gen_always_repush lots sched evs = Ok fs ->
  forall k i, (i < length lots)%nat -> 0 <= rem_after lots (firstn k fs) i.
Proof. exact m_no_overspend. Qed.

(** fractions belong to taxable events only; lot-less exactly for income; income once in full
    (that no fraction comes from a lot acquired after the disposal is part of C01_order) *)
Theorem C02_only_events : forall lots sched evs, wf lots sched evs ->
  forall fs, run_matcher gen_always_repush lots sched evs = Ok fs ->
  forall f, In f fs -> exists e, In e evs /\ e_row e = f_ev f /\ (f_lot f = None <-> e_earn e = true).
Proof. exact m_only_events. Qed.

Theorem C02_income_once : forall lots sched evs, wf lots sched evs ->
  forall fs, run_matcher gen_always_repush lots sched evs = Ok fs ->
  forall e, In e evs -> e_earn e = true -> filter (frac_of_ev (e_row e)) fs = [mk_frac lots e None (e_amt e)].
Proof. exact m_earn_once. Qed.

(** disposing of the entire remaining holding always succeeds and leaves every lot exactly exhausted *)
Theorem C02_sell_all : forall lots sched evs fs,
  wf lots sched evs -> run_matcher gen_always_repush lots sched evs = Ok fs ->
  forall e, e_earn e = false -> wf lots sched (evs ++ [e]) ->
    (forall i, (i < length lots)%nat -> lot_us lots i <= e_us e) ->
    e_amt e = sumZ (map (rem_after lots fs) (seq 0 (length lots))) ->
    exists fs', run_matcher gen_always_repush lots sched (evs ++ [e]) = Ok (fs ++ fs') /\
                forall i, (i < length lots)%nat -> rem_after lots (fs ++ fs') i = 0.
Proof. exact m_sell_all. Qed.

Print Assumptions C02_total.
Print Assumptions C02_fails_iff.
Print Assumptions C02_fractions_positive.
Print Assumptions C02_event_fully_covered.
Print Assumptions C02_no_lot_overspent.
Print Assumptions C02_only_events.
Print Assumptions C02_income_once.
Print Assumptions C02_sell_all.

(** * From the rows: the same statements for a history BUILT FROM INPUT ROWS, in terms of transactions.
    [built_history sched h t] (Proofs/ComputeTotal.v; spelled out in Properties/C01.v, C01_order_from_rows): the well-formedness of
    the matcher input is derived from hypotheses about the rows.  [lot_balance fs a] = crypto_in of the acquisition [a] minus the
    fractions of [fs] taken from it; [distinct_row_ids h]: row ids pairwise distinct across the three tables (what the parser
    guarantees); [acquired_by t T] = total crypto_in of the acquisitions made at or before the instant [T]; [disposed l] = total
    amount leaving the holder through the disposals (non-income taxable events) of [l]  (Model/FromRowsSpec.v). *)
From RP2V Require Import Base.Sorting Model.Txn Model.Pipeline Model.FromRowsSpec Proofs.L4Examples Proofs.ComputeTotal
  Proofs.ComputeTotalExamples Proofs.FromRows Proofs.FromRowsExamples.

Theorem C02_fractions_positive_from_rows : forall sched h t, built_history sched h t ->
  forall fs, fractions_of gen_always_repush sched t = Ok fs -> forall f, In f fs -> 0 < f_amt f.
Proof. exact positive_from_rows. Qed.

(** per taxable event the fractions sum exactly to the amount it moves: a disposal's amount plus its crypto fee, a transfer's
    fee, an income event's amount -- the latter as exactly one lot-less fraction *)
Theorem C02_event_fully_covered_from_rows : forall sched h t, built_history sched h t ->
  forall fs evs, fractions_of gen_always_repush sched t = Ok fs -> taxable_events t = Ok evs ->
  forall x, In x evs ->
    ev_taken fs (t_row x) = t_balance_change x /\
    match x with
    | TIn a => t_balance_change x = i_crypto_in a /\
               filter (frac_of_ev (i_row a)) fs = [{| f_ev := i_row a; f_lot := None; f_amt := i_crypto_in a |}]
    | TOut o => t_balance_change x = o_crypto_out_with_fee o
    | TIntra i => t_balance_change x = x_crypto_fee i
    end.
Proof. exact event_covered_from_rows. Qed.

(** no acquisition is overspent after any prefix of the fractions *)
Theorem C02_no_lot_overspent_from_rows : forall sched h t, built_history sched h t ->
  forall fs, fractions_of gen_always_repush sched t = Ok fs ->
  forall k a, In a (t_ins t) -> 0 <= lot_balance (firstn k fs) a /\ lot_taken (firstn k fs) (i_row a) <= i_crypto_in a.
Proof. exact no_lot_overspent_from_rows. Qed.

(** fractions belong to taxable events only, lot-less exactly for income; the lot of a fraction is an acquisition of the history
    made at or before the instant of the disposal *)
Theorem C02_fractions_belong_from_rows : forall sched h t, built_history sched h t ->
  forall fs evs, fractions_of gen_always_repush sched t = Ok fs -> taxable_events t = Ok evs ->
  forall f, In f fs ->
    exists x, In x evs /\ t_row x = f_ev f /\ (f_lot f = None <-> t_is_earning x = true) /\
              forall lr, f_lot f = Some lr -> exists a, In a (t_ins t) /\ i_row a = lr /\ in_us a <= t_us x.
Proof. exact fractions_belong_from_rows. Qed.

(** the matching succeeds or fails with "lots exhausted" -- nothing else; it fails exactly when, at some disposal [x] (after the
    events [p]), the acquisitions made up to its instant do not cover the disposals up to and including it -- whatever the method *)
Theorem C02_outcome_from_rows : forall sched h t, built_history sched h t -> distinct_row_ids h ->
  exists evs, taxable_events t = Ok evs /\
    ((exists fs, fractions_of gen_always_repush sched t = Ok fs) \/ fractions_of gen_always_repush sched t = Err EExhausted) /\
    (fractions_of gen_always_repush sched t = Err EExhausted <->
     exists p x r, evs = p ++ x :: r /\ t_is_earning x = false /\ acquired_by t (t_us x) < disposed (p ++ [x])).
Proof. exact outcome_from_rows. Qed.

(** sell-all: the history plus one final disposal row [r] (at the end of the OUT table, dated after every row of the history) of
    exactly the remaining holding is matched -- the earlier fractions unchanged -- and leaves every acquisition exactly exhausted *)
Theorem C02_sell_all_from_rows : forall sched h t fs r t2 o,
  built_history sched h t -> fractions_of gen_always_repush sched t = Ok fs ->
  built_history sched (with_final_out h r) t2 -> distinct_row_ids (with_final_out h r) ->
  all_rows_before h (utc_us (ro_ts r)) ->
  mk_out r = Ok o -> o_crypto_out_with_fee o = sumZ (map (lot_balance fs) (t_ins t)) ->
  t_ins t2 = t_ins t /\
  exists fs', fractions_of gen_always_repush sched t2 = Ok (fs ++ fs') /\
              (forall a, In a (t_ins t2) -> lot_balance (fs ++ fs') a = 0).
Proof. exact sell_all_from_rows. Qed.

(** non-vacuity (Proofs/FromRowsExamples.v): history A is a [built_history] with distinct row ids; history B (buy 1, sell 2, buy 5)
    is one too and fails with the failing prefix exhibited; history A plus a final sale of the remaining 2.8 coins is exhausted *)
Theorem C02_from_rows_nonvacuous :
  built_history schedA hA tA /\ distinct_row_ids hA /\ fractions_of gen_always_repush schedA tA = Ok fsA /\
  (built_history schedA hB tB /\ distinct_row_ids hB /\ fractions_of gen_always_repush schedA tB = Err EExhausted /\
   exists evs p x r, taxable_events tB = Ok evs /\ evs = p ++ x :: r /\ t_is_earning x = false /\ acquired_by tB (t_us x) < disposed (p ++ [x])) /\
  (t_ins tA_all = t_ins tA /\
   exists fs', fractions_of gen_always_repush schedA tA_all = Ok (fsA ++ fs') /\ forall a, In a (t_ins tA_all) -> lot_balance (fsA ++ fs') a = 0).
Proof. exact c02_from_rows_nonvacuous. Qed.

Print Assumptions C02_fractions_positive_from_rows.
Print Assumptions C02_event_fully_covered_from_rows.
Print Assumptions C02_no_lot_overspent_from_rows.
Print Assumptions C02_fractions_belong_from_rows.
Print Assumptions C02_outcome_from_rows.
Print Assumptions C02_sell_all_from_rows.
Print Assumptions C02_from_rows_nonvacuous.

(** SOURCE TIE (tax engine).  The four branches of the loop of tax_engine._create_unfiltered_gain_and_loss_set (which
    GainLoss is built: amount and lot; which engine call advances, with which amounts) and the sources of the two
    iterators are re-read from the source on every run (Generated.v fragment `tax_engine`); interpreted by
    Model/TaxEngineGen.v they are the model's [loop] and [fractions_of].  A lot iterator over a date-filtered copy of the
    in-set (lots acquired after the to-date withheld from the engine) stops compiling here. *)
From RP2V Require Import Model.Txn Model.Pipeline Model.TaxEngineGen Proofs.TaxEngineGenProofs.
Theorem C02_source_tie_tax_engine_loop :
  (forall ar lots fuel s evs e l ea la out,
     loop_gen ar lots fuel s evs e l ea la out = loop ar lots fuel s evs e l ea la out) /\
  (forall ar sched t, fractions_of_gen ar sched t = fractions_of ar sched t).
Proof. exact tax_engine_matcher_agrees. Qed.
Print Assumptions C02_source_tie_tax_engine_loop.

(** SOURCE TIE (which lots a disposal may draw on).  The AVL key of accounting_engine.py, re-read from the source on every run
    (Model/GeneratedTie.v, fragment avl_key; interpreter Model/AvlKeyGen.v): the key inserted for a lot ranks as (UTC instant in
    microseconds, row); a lot's key is <= the key looked up for a taxable event exactly when the lot was acquired at or before
    the event's INSTANT (not its wall-clock time, not its second), for rows 0 .. 10^12 - 1 = what the max disambiguator spells.
    This is the test `xt <=? t` of [Matcher.to_index_aux] behind "every disposal is covered by earlier lots only". *)
From RP2V Require Import Model.GeneratedTie Model.AvlKeyGen Proofs.AvlKeyGenProofs.
Theorem C02_source_tie_lots_visible_to_a_disposal :
  (forall l, ak_inserted l = Some (utc_us (i_ts l), i_row l)) /\
  (forall l te, 0 <= i_row l <= ak_max_num -> ak_visible l te = Some (utc_us (i_ts l) <=? utc_us te)) /\
  ak_max_num = 10 ^ gen_ak_width - 1.
Proof. exact avl_key_gen_agrees. Qed.
Print Assumptions C02_source_tie_lots_visible_to_a_disposal.
