(** Property C15 -- the open-positions report matches the balances and the cost of the unsold lot parts.

    Statements only; each is closed by [exact] of a lemma of Proofs/OpenPosProofs.v (structure of the two
    passes, layout, capacity, lookups) or Proofs/OpenPosArith.v (exact identities and the accuracy of the
    31-digit decimal figures; Proofs/OpenPosWeights.v: the decimal weights of a sheet add up to 1 within an explicit bound).  The model they speak about is Model/OpenPos.v; its arithmetic expressions,
    column tables, header height, sheet names and template sizes are re-translated from
    src/rp2/plugin/report/open_positions.py on every run (Generated.v, fragment open_positions), so these
    statements are re-checked against the source as it is now.

    Hypotheses that stay visible:
    - [op_wf]: what ComputedData provides (distinct row ids, positive lot amounts, non-negative costs, lots inside the date
      window, every fraction's lot among the in-transactions, no lot overspent (C02), the sold-% table = the fold over the
      fractions).  [compute_parts] proves the structural ones for every output of [compute]; "not overspent" is C02's theorem.
    - C07's reconciliation (sum of final balances = amount left in the lots) where a positive balance is needed: a hypothesis of
      [C15_listed_has_balance]; discharged end to end, from the raw rows, by [C15_listed_has_balance_from_rows] for runs whose
      window hides nothing (C07_reconciliation_from_rows + [C15_remaining_is_unsold]).  Since the repair of finding F8 it
      carries no caveat about small transfer fees.  With a to-date cut the reconciliation of the cut history is not proved
      (C07's theorem is for the whole history); the check judges those runs with the oracle.
      The KeyError of [C15_keyerror] needs an asset whose lots keep an amount that no account holds; a dust transfer fee
      can no longer produce that situation (the witness of Proofs/OpenPosExamples.v is kept, on explicitly given fractions).
    - sizes: lot cost x accumulated rounding below 4.9e-14, per-unit cost below 1e18 (RP2Decimal comparisons defined). *)
From Coq Require Import QArith Qabs Permutation.
From RP2V Require Import Base.Prelude Base.Time Base.Dec Base.Assoc Model.Types Model.Generated Model.Txn Model.Matcher
  Model.MatchSpec Model.MatchWf Model.Pipeline Model.ComputedSpec Proofs.PipelineWf
  Model.Computed Model.Grid Model.ReportInput Model.OpenPos Proofs.DecProofs Proofs.C04Proofs Proofs.OpenPosProofs
  Proofs.OpenPosArith Proofs.OpenPosExamples Proofs.OpenPosReconcile Proofs.OpenPosWeights.
Open Scope Z_scope.

(** ---- the code's expressions and columns (break when the source changes them) *)
Theorem C15_formulas_from_source :
  (forall l sold, gen_op_lot_cost l sold = dmul (i_fiat_in_with_fee l) (dsub (1, 0) sold)) /\
  (forall x, gen_op_lot_counts x = dgtb x dzero) /\
  (forall b, gen_op_balance_counts b = (b >? 0)) /\
  (forall cost total, gen_op_unit_cost cost total = ddiv cost (of_grid total)) /\
  (forall bal unit, gen_op_row_cost bal unit = dmul (of_grid bal) unit) /\
  (forall rc total, gen_op_weight rc total = ddiv rc total) /\
  gen_op_header_rows = 3 /\ gen_op_totals_need_more_than = 1.
Proof. exact formulas_from_source. Qed.

Theorem C15_columns_from_source :
  map fst (filter (fun cv => match snd cv with OVAsset | OVHolder | OVExchange | OVBalance | OVUnit | OVCost | OVWeight => true | _ => false end) gen_op_row_asset)
    = [0; 1; 2; 3; 4; 5] /\
  map snd (firstn 6 gen_op_row_asset) = [OVAsset; OVHolder; OVBalance; OVUnit; OVCost; OVWeight] /\
  map snd (firstn 7 gen_op_row_asset_exchange) = [OVAsset; OVHolder; OVExchange; OVBalance; OVUnit; OVCost; OVWeight] /\
  map fst (firstn 7 gen_op_row_asset_exchange) = [0; 1; 2; 3; 4; 5; 6] /\
  NoDup (map fst gen_op_row_asset) /\ NoDup (map fst gen_op_row_asset_exchange).
Proof. exact columns_from_source. Qed.

(** ---- which assets are listed: those with a lot whose unsold cost  cost x (1 - sold %)  is > 0, in input order, once *)
Theorem C15_listed_assets : forall cs s, first_pass cs = Ok s ->
  map fst (fp_costs s) = map fst (filter (fun ac => asset_listed (snd ac)) (number_from 0 cs)) /\
  (forall a, aget a (fp_costs s) = if a <? 0 then None else match nth_error cs (Z.to_nat a) with Some c => cost_opt c | None => None end).
Proof. exact listed_assets_spec. Qed.

(** ... and such an asset has a lot with an unsold remainder (a sold-out lot never counts) *)
Theorem C15_listed_has_unsold : forall from_ to_ c, op_wf from_ to_ c ->
  (forall l, In l (cd_ins c) -> (qcost l * E (length (cd_gls c) + 3) < 49 # (10 ^ 15))%Q) ->
  asset_listed c = true -> exists l, In l (cd_ins c) /\ 0 < remaining (cd_gls c) l.
Proof. exact listed_has_unsold. Qed.

(** ---- rows: per asset, every holder with a counted (> 0) account exactly once with the sum of those balances;
         every counted (exchange, holder) account exactly once with its final balance *)
Theorem C15_holder_rows : forall bl,
  NoDup (map fst (holder_table bl)) /\
  (forall h, In h (map fst (holder_table bl)) <-> exists b, In b bl /\ b_holder b = h) /\
  (forall h v, In (h, v) (holder_table bl) -> v = sumZ (map b_final (filter (of_holder h) bl))).
Proof. exact holder_table_spec. Qed.

Theorem C15_exchange_rows : forall bl, NoDup (map acct bl) ->
  NoDup (map fst (exch_table bl)) /\ Permutation (rows_of_heb (exch_table bl)) (map triple bl).
Proof. exact exch_table_spec. Qed.

(** the tables the second pass reads for a listed asset are exactly these, built from the balances with final balance > 0 *)
Theorem C15_tables_of_listed : forall cs s, first_pass cs = Ok s -> forall ac c,
  In ac (fp_costs s) -> nth_error cs (Z.to_nat (fst ac)) = Some c -> pos_balances c <> [] ->
  amem (fst ac) (fp_hbal s) = true /\ amem (fst ac) (fp_hebal s) = true /\
  hb_of s (fst ac) = holder_table (pos_balances c) /\ heb_of s (fst ac) = exch_table (pos_balances c) /\
  0 < total_balance (hb_of s (fst ac)).
Proof. exact asset_ok_of. Qed.

(** the sheets: header, then one row per table entry of every listed asset in order, then the percentage
    columns of those rows, per-holder totals, grand total *)
Theorem C15_rows_written : forall i input_name s, fst (fp_total s) <> 0 -> Forall (asset_ok s) (fp_costs s) ->
  second_pass i input_name s =
  Ok {| w_asset := total_rows i input_name s (pct_writes input_name (asset_sheet_body i input_name s) gen_op_pct_asset) gen_op_total_asset gen_op_grand_asset;
        w_exch := total_rows i input_name s (pct_writes input_name (exch_sheet_body i input_name s) gen_op_pct_asset_exchange)
                    gen_op_total_asset_exchange gen_op_grand_asset_exchange;
        w_input := input_sheet_body i input_name s |}.
Proof. exact second_pass_spec. Qed.

Theorem C15_rows_layout : forall tbl envs w,
  ws_next (ws_add_rows w envs tbl) = ws_next w + Z.of_nat (length envs) /\
  ws_appended (ws_add_rows w envs tbl) = ws_appended w + Z.of_nat (length envs) /\
  ws_writes (ws_add_rows w envs tbl) =
    ws_writes w ++ flat_map (fun ke => render_row (with_row (snd ke) (fst ke)) tbl) (number_from (ws_next w) envs).
Proof. exact ws_add_rows_spec. Qed.

(** what the cells of the k-th data row finally hold (no later write lands on them): the row's own figures *)
Theorem C15_asset_sheet_cells : forall i inp s k e col v,
  nth_error (flat_map (holder_envs_of i inp s) (fp_costs s)) k = Some e -> In (col, v) gen_op_row_asset ->
  cell_at (ws_writes (total_rows i inp s (pct_writes inp (asset_sheet_body i inp s) gen_op_pct_asset) gen_op_total_asset gen_op_grand_asset))
          (gen_op_header_rows + Z.of_nat k) col
  = render_val (with_row e (gen_op_header_rows + Z.of_nat k)) v.
Proof. exact asset_sheet_cells. Qed.

Theorem C15_exch_sheet_cells : forall i inp s k e col v,
  nth_error (flat_map (exch_envs_of i inp s) (fp_costs s)) k = Some e -> In (col, v) gen_op_row_asset_exchange ->
  cell_at (ws_writes (total_rows i inp s (pct_writes inp (exch_sheet_body i inp s) gen_op_pct_asset_exchange)
                        gen_op_total_asset_exchange gen_op_grand_asset_exchange))
          (gen_op_header_rows + Z.of_nat k) col
  = render_val (with_row e (gen_op_header_rows + Z.of_nat k)) v.
Proof. exact exch_sheet_cells. Qed.

(** crypto balance cell = the holder's balance of the table (= sum of that holder's final balances > 0) *)
Theorem C15_balance_cell : forall i inp s k e,
  nth_error (flat_map (holder_envs_of i inp s) (fp_costs s)) k = Some e ->
  cell_at (ws_writes (total_rows i inp s (pct_writes inp (asset_sheet_body i inp s) gen_op_pct_asset) gen_op_total_asset gen_op_grand_asset))
          (gen_op_header_rows + Z.of_nat k) 2 = PNum (of_grid (re_bal e)).
Proof. exact asset_sheet_balance_cell. Qed.

(** ---- exact arithmetic *)
(** realised cost basis of the detail + cost of the unsold lot parts = everything acquired *)
Theorem C15_conservation_exact : forall lots gls,
  NoDup (map i_row lots) -> (forall l, In l lots -> 0 < i_crypto_in l) ->
  (forall g l, In g gls -> g_lot g = Some l -> In l lots) ->
  (realised_exact gls + unrealised_exact lots gls == acquired_exact lots)%Q.
Proof. exact conservation_exact. Qed.

(** cost-basis weights add up to 100 % *)
Theorem C15_weights_sum_one_exact : forall (assets : list (Q * list Q)),
  (forall a, In a assets -> ~ (sumQ (snd a) == 0)%Q) -> ~ (sumQ (map fst assets) == 0)%Q ->
  (sumQ (flat_map (fun a => map (fun b => b * (fst a / sumQ (snd a)) / sumQ (map fst assets)) (snd a)) assets) == 1)%Q.
Proof. exact weights_sum_one. Qed.

(** per-unit cost = unrealised cost / total balance: the rows of an asset add up to its unrealised cost *)
Theorem C15_rows_sum_to_asset_cost : forall (c : Q) (bals : list Q), ~ (sumQ bals == 0)%Q ->
  (sumQ (map (fun b => b * (c / sumQ bals)) bals) == c)%Q.
Proof. exact rows_sum_to_asset_cost. Qed.

(** the divisor of the per-unit cost is the sum of all counted final balances *)
Theorem C15_total_balance : forall bl, total_balance (holder_table bl) = sumZ (map b_final bl).
Proof. exact total_balance_holder_table. Qed.

(** ---- accuracy of the decimal figures; E n = (1 + 5e-31)^n - 1 *)
Theorem C15_sold_pct_accuracy : forall A amts, 0 < A -> (forall x, In x amts -> 0 <= x) ->
  (Qabs (to_q (sold_dec A amts) - inject_Z (sumZ amts) / inject_Z A) <= E (S (length amts)) * (inject_Z (sumZ amts) / inject_Z A))%Q.
Proof. exact sold_pct_accuracy. Qed.

(** a lot's unsold cost as the report computes it vs  cost x remaining / amount  (absolute, relative to the lot's cost) *)
Theorem C15_lot_unrealised_accuracy : forall from_ to_ c, op_wf from_ to_ c -> forall l, In l (cd_ins c) ->
  (Qabs (to_q (lot_unrealised c l) - unrealised_of (cd_gls c) l) <= qcost l * E (length (lot_amts c l) + 3))%Q.
Proof. exact lot_unrealised_model. Qed.

(** the asset's unrealised cost basis vs the exact cost of the unsold parts of the counted lots *)
Theorem C15_asset_cost_accuracy : forall from_ to_ c, op_wf from_ to_ c ->
  (Qabs (to_q (asset_cost_of c) - sumQ (map (unrealised_of (cd_gls c)) (counted_lots c)))
   <= E (length (counted_lots c) + (length (cd_gls c) + 3)) * sumQ (map qcost (counted_lots c)))%Q.
Proof. exact asset_cost_accuracy. Qed.

(** one row: per-unit cost = cost / total balance, row cost basis = balance x per-unit cost, weight = row cost / grand total,
    each within 1, 2, 3 roundings of the exact expression over the decimal asset cost and grand total *)
Theorem C15_row_figures_accuracy : forall (cost total : dec) (B b : Z) u w,
  gen_op_unit_cost cost B = Some u -> gen_op_weight (gen_op_row_cost b u) total = Some w ->
  let C := to_q cost in let beta := to_q (of_grid B) in let b' := to_q (of_grid b) in let T := to_q total in
  (Qabs (to_q u - C / beta) <= E 1 * Qabs (C / beta) /\
   Qabs (to_q (gen_op_row_cost b u) - C / beta * b') <= E 2 * Qabs (C / beta * b') /\
   Qabs (to_q w - C / beta * b' / T) <= E 3 * Qabs (C / beta * b' / T))%Q.
Proof. exact row_figures_accuracy. Qed.

(** a counted lot has unsold cost >= 4.9e-14 (the comparison is RP2Decimal's 13-decimal one) *)
Theorem C15_counted_lower_bound : forall u, dgtb u dzero = true -> (49 # (10 ^ 15) <= to_q u)%Q.
Proof. exact dgtb_zero_lower. Qed.

(** ---- divisions and lookups *)
Theorem C15_total_positive : forall cs s, first_pass cs = Ok s -> fp_costs s <> [] -> (0 < to_q (fp_total s))%Q /\ fst (fp_total s) <> 0.
Proof. exact total_cost_positive. Qed.

Theorem C15_listed_has_balance : forall from_ to_ c, op_wf from_ to_ c ->
  (forall l, In l (cd_ins c) -> (qcost l * E (length (cd_gls c) + 3) < 49 # (10 ^ 15))%Q) ->
  sumZ (map b_final (cd_balances c)) = sumZ (map (remaining (cd_gls c)) (cd_ins c)) ->
  asset_listed c = true -> pos_balances c <> [].
Proof. exact listed_has_balance. Qed.

(** the reconciliation premise is C07's theorem.  The report reads the amount left in a lot off the gain/loss rows of ComputedData;
    for a run whose window hides nothing ([shows_all]: no from-date, no to-date cut) that is what the matcher's fractions leave *)
Theorem C15_remaining_is_unsold : forall period from_ to_ allow exs hos t fs c,
  compute period from_ to_ allow exs hos t fs = Ok c -> shows_all from_ to_ t ->
  sumZ (map (remaining (cd_gls c)) (cd_ins c)) = unsold (t_ins t) fs.
Proof. exact remaining_is_unsold. Qed.

(** ... so, end to end from the raw rows (constructors, taxable events, matcher, ComputedData) and with no hypothesis about
    balances or about small transfer fees: a listed asset has an account with a positive balance.  This goes through
    C07_reconciliation_from_rows and the transfer-fee rule of the source (every transfer with a fee > 0 is taxed: repair of
    finding F8); on a tree with the old rule it stops compiling.  Non-vacuity: [listed_has_balance_instance]
    (Proofs/OpenPosReconcile.v), the dust-fee history of finding F8 itself *)
Theorem C15_listed_has_balance_from_rows : forall period from_ to_ allow exs hos sched h t fs c,
  build h = Ok t ->
  in_rows_increasing h -> amounts_positive h -> NoDup (map fst sched) ->
  (forall evs, taxable_events t = Ok evs -> hist_same_instant_same_year evs /\ hist_sched_covers sched evs) ->
  fractions_of gen_always_repush sched t = Ok fs ->
  outs_consistent t -> shows_all from_ to_ t ->
  compute period from_ to_ allow exs hos t fs = Ok c ->
  op_wf from_ to_ c ->
  (forall l, In l (cd_ins c) -> (qcost l * E (length (cd_gls c) + 3) < 49 # (10 ^ 15))%Q) ->
  asset_listed c = true -> pos_balances c <> [].
Proof. exact listed_has_balance_from_rows. Qed.

(** the same for any window without a to-date cut of the balances ([no_cut]), the identification of the gain/loss rows with the
    fractions being carried as a hypothesis (under a from-date the report's rows are a subset: outside the property's quantifier) *)
Theorem C15_listed_has_balance_reconciled : forall period from_ to_ allow exs hos sched h t fs c,
  build h = Ok t ->
  in_rows_increasing h -> amounts_positive h -> NoDup (map fst sched) ->
  (forall evs, taxable_events t = Ok evs -> hist_same_instant_same_year evs /\ hist_sched_covers sched evs) ->
  fractions_of gen_always_repush sched t = Ok fs ->
  outs_consistent t -> no_cut to_ t ->
  compute period from_ to_ allow exs hos t fs = Ok c ->
  op_wf from_ to_ c ->
  (forall l, In l (cd_ins c) -> (qcost l * E (length (cd_gls c) + 3) < 49 # (10 ^ 15))%Q) ->
  sumZ (map (remaining (cd_gls c)) (cd_ins c)) = unsold (t_ins t) fs ->
  asset_listed c = true -> pos_balances c <> [].
Proof. exact listed_has_balance_reconciled. Qed.

(** no lookup fails, no division by zero: the report is produced *)
Theorem C15_no_lookup_fails : forall lang i cs s,
  gen_op_names lang <> None -> gen_op_template (country_code (rp_country i)) lang <> None ->
  method_lookup_ok (rp_sched i) = true ->
  first_pass cs = Ok s -> fst (fp_total s) <> 0 ->
  (forall a c, nth_error cs a = Some c -> asset_listed c = true -> pos_balances c <> []) ->
  (forall ac, In ac (fp_costs s) -> exists k, unit_style (unit_of s ac) = Ok k) ->
  exists sheets, open_positions_gen false lang i cs = Ok sheets /\ length sheets = 3%nat.
Proof. exact open_positions_total. Qed.

(** the same for either shape of the code (with / without the repair of finding F8-openpos between the passes), in terms of
    the tables the second pass reads *)
Theorem C15_no_lookup_fails_gen : forall drop lang i cs s,
  gen_op_names lang <> None -> gen_op_template (country_code (rp_country i)) lang <> None ->
  method_lookup_ok (rp_sched i) = true ->
  first_pass cs = Ok s -> fst (fp_total (prep drop s)) <> 0 -> Forall (asset_ok (prep drop s)) (fp_costs (prep drop s)) ->
  exists sheets, open_positions_gen drop lang i cs = Ok sheets /\ length sheets = 3%nat.
Proof. exact open_positions_total_gen. Qed.

(** the report the check compares with the implementation is the one of the shape the translator finds in the source *)
Theorem C15_shape_from_source : forall lang i cs, open_positions_of lang i cs = open_positions_gen gen_op_drop_orphans lang i cs.
Proof. reflexivity. Qed.

(** ... and it is not produced when a listed asset has no account with a positive balance (KeyError) *)
Theorem C15_keyerror : forall lang i cs,
  (exists a c, nth_error cs a = Some c /\ asset_listed c = true /\ pos_balances c = []) ->
  exists e, open_positions_gen false lang i cs = Err e.
Proof. exact open_positions_keyerror. Qed.

(** with the repair, every asset that reaches the second pass has both table entries and a positive divisor *)
Theorem C15_repair_lookups : forall cs s, first_pass cs = Ok s -> forall ac, In ac (fp_costs (drop_orphans s)) ->
  amem (fst ac) (fp_hbal (drop_orphans s)) = true /\ amem (fst ac) (fp_hebal (drop_orphans s)) = true /\
  0 < total_balance (hb_of (drop_orphans s) (fst ac)).
Proof. exact drop_orphans_lookups. Qed.

(** the KeyError on a concrete state.  The witness gives the transactions AND the gain/loss fractions explicitly (the report
    model reads both from its input: [computed_all] does not run the matcher): BUY 1 (H0); MOVE 1 -> 0.99999999999 to H1 at price
    1e-8; SELL 0.99999999999 (H1); fractions = the sale only, i.e. the transfer fee of 1e-11 was not taken from the lot.  That is
    what the matcher produced under the transfer-fee rule before the repair of finding F8 (a fee worth < 5e-14 was not a taxable
    event); under the rule of the source as it is now the fee is taxed, the lot is exhausted and this state is not reachable
    from these rows (C07_reconciliation_from_rows).  The statement itself does not depend on the rule and compiles on every
    tree: the lot keeps 1e-11 (cost 1e-9 > 0), every balance is 0, the unrepaired shape of the generator dies with KeyError;
    with the repair between the passes (F8-openpos) the same state yields the report *)
Theorem C15_refuted_dust_fee : exists c rest,
  rd_rinput keyerror_args = Some (Ok key_i, []) /\ computed_all key_i (rp_assets key_i) = Ok key_acs /\ map snd key_acs = c :: rest /\
  asset_listed c = true /\ pos_balances c = [] /\
  map (remaining (cd_gls c)) (cd_ins c) = [1] /\ map b_final (cd_balances c) = [0; 0] /\
  open_positions_gen false 0 key_i (map snd key_acs) = Err EInternal.
Proof. exact keyerror_witness. Qed.

Theorem C15_dust_fee_repaired : exists sa se si,
  open_positions_gen true 0 key_i (map snd key_acs) = Ok [sa; se; si] /\
  sw_rows sa = 5 /\ cell_at (sw_writes sa) 3 0 = PStr [66; 66; 66] /\ cell_at (sw_writes sa) 3 2 = PNum (of_grid 200000000000) /\
  dsame (match cell_at (sw_writes sa) 3 5 with PNum d => d | _ => dzero end) (1, 0) = true.
Proof. exact keyerror_repaired. Qed.

(** ---- capacity: every write is inside the sheet (template rows + one append_rows per written row) *)
Theorem C15_capacity : forall lang i cs sheets,
  open_positions_of lang i cs = Ok sheets -> Forall (fun sh => sheet_ok sh = true) sheets.
Proof. exact sheets_within_capacity. Qed.

(** what [compute] guarantees by construction (the structural part of [op_wf]) *)
Theorem C15_compute_parts : forall period from_ to_ allow exs hos t fs c,
  compute period from_ to_ allow exs hos t fs = Ok c ->
  (forall l, In l (cd_ins c) -> In l (t_ins t) /\ in_window from_ to_ l = true) /\
  fold_left (sold_pct_add from_ to_) (cd_gls c) (Ok []) = Ok (cd_sold_pct c) /\
  balances allow to_ exs hos t = Ok (cd_balances c).
Proof. exact compute_parts. Qed.

(** ---- the COMBINED decimal inequality for the weights (Proofs/OpenPosWeights.v): the exact identity, the accuracy of one row's
    weight (3 roundings) and the accuracy of the two decimal sums behind it -- the grand total is ONE running decimal sum over the
    counted lots of all assets, the per-asset costs are one decimal sum per asset; both approximate the exact sum of the counted
    decimal lot costs within E n, n = [n_counted cs] = number of counted lots (lots with unsold cost > 0) of all assets.
    For the rows of the "Asset" sheet ([holder_envs_of]: one per holder with a counted balance, all listed assets):
        | sum of the decimal weights - 1 | * (1 - E n)  <=  E (n + 3) + E n,        E k = (1 + 5e-31)^k - 1
    Hypotheses: the first pass succeeds and lists an asset; every listed asset has an account with a positive balance
    (C15_listed_has_balance / C15_listed_has_balance_from_rows); E n < 1 *)
Theorem C15_weights_sum_close_to_one : forall i inp cs s, first_pass cs = Ok s -> fp_costs s <> [] ->
  (forall a c, nth_error cs a = Some c -> asset_listed c = true -> pos_balances c <> []) ->
  (E (n_counted cs) < 1)%Q ->
  (Qabs (sumQ (map (fun e => to_q (re_weight e)) (flat_map (holder_envs_of i inp s) (fp_costs s))) - 1) * (1 - E (n_counted cs))
   <= E (n_counted cs + 3) + E (n_counted cs))%Q.
Proof. exact weights_sum_close_to_one. Qed.
(** explicit: for n counted lots with n * 5e-31 <= 1/4 (n <= 5e29) the weights add up to 1 within (8 n + 12) * 5e-31; the number of
    counted lots is at most the number of acquired lots of the listed assets, which is at least the number of listed assets *)
Theorem C15_weights_sum_close_to_one_explicit : forall i inp cs s, first_pass cs = Ok s -> fp_costs s <> [] ->
  (forall a c, nth_error cs a = Some c -> asset_listed c = true -> pos_balances c <> []) ->
  (inject_Z (Z.of_nat (n_counted cs)) * EPS <= 1 # 4)%Q ->
  (Qabs (sumQ (map (fun e => to_q (re_weight e)) (flat_map (holder_envs_of i inp s) (fp_costs s))) - 1)
   <= (8 * inject_Z (Z.of_nat (n_counted cs)) + 12) * EPS)%Q.
Proof. exact weights_sum_close_to_one_explicit. Qed.
(** the same for the rows of the "Asset - Exchange" sheet (one per counted (exchange, holder) account), provided the accounts of a
    listed asset's balance table are pairwise distinct (of a repeated account the model, like the code, keeps the first entry) *)
Theorem C15_exchange_weights_sum_close_to_one : forall i inp cs s, first_pass cs = Ok s -> fp_costs s <> [] ->
  (forall a c, nth_error cs a = Some c -> asset_listed c = true -> pos_balances c <> []) ->
  (forall a c, nth_error cs a = Some c -> asset_listed c = true -> NoDup (map acct (pos_balances c))) ->
  (inject_Z (Z.of_nat (n_counted cs)) * EPS <= 1 # 4)%Q ->
  (Qabs (sumQ (map (fun e => to_q (re_weight e)) (flat_map (exch_envs_of i inp s) (fp_costs s))) - 1)
   <= (8 * inject_Z (Z.of_nat (n_counted cs)) + 12) * EPS)%Q.
Proof. exact exch_weights_sum_close_to_one_explicit. Qed.
Theorem C15_n_counted : forall cs, n_counted cs = length (flat_map (fun c => map (lot_unrealised c) (filter (lot_counted c) (cd_ins c))) cs).
Proof. reflexivity. Qed.
(** the two decimal sums: grand total and per-asset cost, as decimal sums (from 0, in order) of the counted decimal lot costs *)
Theorem C15_total_is_running_sum : forall cs s, first_pass cs = Ok s -> fp_total s = fold_left dadd (all_counted cs) dzero.
Proof. exact total_is_sum. Qed.
Theorem C15_asset_cost_is_sum : forall c, asset_cost_of c = fold_left dadd (counted_costs c) dzero.
Proof. exact asset_cost_fold. Qed.
(** (1 + 5e-31)^n - 1 <= 2 n 5e-31 while n * 5e-31 <= 1/2 *)
Theorem C15_E_linear : forall n, (inject_Z (Z.of_nat n) * EPS <= 1 # 2 -> E n <= 2 * inject_Z (Z.of_nat n) * EPS)%Q.
Proof. exact E_linear. Qed.
(** non-vacuity: the three-asset example (AAA with two lots and a transfer between accounts, BBB, CCC sold out): 3 counted lots,
    both sheets within 36 * 5e-31 of 100 % *)
Theorem C15_weights_nonvacuous : exists s, first_pass ex_cs = Ok s /\ fp_costs s <> [] /\ n_counted ex_cs = 3%nat /\
  (Qabs (sumQ (map (fun e => to_q (re_weight e)) (flat_map (holder_envs_of ex_i [] s) (fp_costs s))) - 1) <= (8 * 3 + 12) * EPS)%Q /\
  (Qabs (sumQ (map (fun e => to_q (re_weight e)) (flat_map (exch_envs_of ex_i [] s) (fp_costs s))) - 1) <= (8 * 3 + 12) * EPS)%Q.
Proof. exact ex_weights. Qed.

Print Assumptions C15_formulas_from_source.
Print Assumptions C15_listed_assets.
Print Assumptions C15_listed_has_unsold.
Print Assumptions C15_holder_rows.
Print Assumptions C15_exchange_rows.
Print Assumptions C15_tables_of_listed.
Print Assumptions C15_rows_written.
Print Assumptions C15_conservation_exact.
Print Assumptions C15_weights_sum_one_exact.
Print Assumptions C15_rows_sum_to_asset_cost.
Print Assumptions C15_sold_pct_accuracy.
Print Assumptions C15_lot_unrealised_accuracy.
Print Assumptions C15_asset_cost_accuracy.
Print Assumptions C15_row_figures_accuracy.
Print Assumptions C15_total_positive.
Print Assumptions C15_listed_has_balance.
Print Assumptions C15_remaining_is_unsold.
Print Assumptions C15_listed_has_balance_from_rows.
Print Assumptions C15_listed_has_balance_reconciled.
Print Assumptions C15_no_lookup_fails.
Print Assumptions C15_keyerror.
Print Assumptions C15_refuted_dust_fee.
Print Assumptions C15_dust_fee_repaired.
Print Assumptions C15_repair_lookups.
Print Assumptions C15_no_lookup_fails_gen.
Print Assumptions C15_asset_sheet_cells.
Print Assumptions C15_exch_sheet_cells.
Print Assumptions C15_balance_cell.
Print Assumptions C15_capacity.
Print Assumptions C15_compute_parts.
Print Assumptions C15_weights_sum_close_to_one.
Print Assumptions C15_weights_sum_close_to_one_explicit.
Print Assumptions C15_exchange_weights_sum_close_to_one.
Print Assumptions C15_n_counted.
Print Assumptions C15_total_is_running_sum.
Print Assumptions C15_asset_cost_is_sum.
Print Assumptions C15_E_linear.
Print Assumptions C15_weights_nonvacuous.

(** Source tie (regenerated on every run).  The sold percentage per lot that open_positions turns into unsold amounts, computed
    from the tables the translator reads from the sold-percentage loop of ComputedData.__init__ (Model/GeneratedTie.v
    [gen_sold_*]: it iterates the FILTERED gain/loss set, skips fractions without lot or whose lot is dated outside the window,
    accumulates acquired_lot_fraction_percentage; interpreter [sold_pct_gen] of Model/ComputedGen.v), is the [sold_pct_add] fold
    of [compute].  An edit that fuses the loop into the one over the unfiltered set makes this theorem stop compiling
    (Proofs/ComputedGenSold.v). *)
From RP2V Require Import Model.GeneratedTie Model.ComputedGen Proofs.ComputedGenSold.
Theorem C15_source_tie_sold_percentage :
  forall (from_day to_day : Z) (gls : list gl),
    sold_pct_gen from_day to_day gls = fold_left (sold_pct_add from_day to_day) (iter_window g_day from_day to_day gls) (Ok []).
Proof. exact sold_pct_gen_agrees. Qed.
Print Assumptions C15_source_tie_sold_percentage.
