(** Property C07 -- account balances equal the flows of each account and reconcile with unsold lots.

    Model: [balances allow to_day exs hos t] of Model/Computed.v (balance.py [BalanceSet.__init__]):
    replay of in + intra + out transactions sorted by instant (stable: ties in / intra / out, then
    sheet order) = [replay_order t]; the loop [break]s at the first transaction whose local date is
    after the to-date: [take_until txn_day to_day (replay_order t)] is what it sees.
    An account is an (exchange, holder) pair (indices into the configured lists; the model encodes it as
    exchange * 100000 + holder, hence [holders_ok]: holder indices are below 100000).
    Vocabulary ([acquired_by], [sent_by], [received_by], [acct_touched], [holder_total], [holder_net],
    [unsold], [outs_consistent], [intras_consistent], [fees_nonneg], [no_cut]): Model/ComputedSpec.v.
    Proofs: Proofs/BalanceProofs.v, Proofs/C07Proofs.v, Proofs/ReconcileProofs.v, Proofs/TransferFee.v. *)
From Coq Require Import List ZArith Bool Lia Sorted.
From RP2V Require Import Base.Prelude Base.Time Base.Dec Model.Types Model.Generated Model.Txn Model.Matcher Model.MatchSpec
  Model.MatchWf Model.FracSpec Model.Pipeline Model.Computed Model.ComputedSpec
  Proofs.FilterProofs Proofs.PipelineWf Proofs.C07Proofs Proofs.TransferFee Proofs.ReconcileProofs.
Import ListNotations.
Open Scope Z_scope.

(** SOURCE TIE (fee split).  The artificial fee-only OutTransaction(...) that ods_parser._create_and_process_transaction
    builds for an acquisition with a crypto fee is re-read from the source on every run as a keyword-argument map
    (Generated.gen_split_fee_args), and so is the guard under which it is built; interpreted by Model/SplitGen.v they are
    the model's [fee_out] (exchange, holder and crypto fee of the row: the debit the account balance sees) and the test
    "crypto fee positive".  Stated through [data_row]: the whole row step is the interpretation of the table. *)
From RP2V Require Import Model.Parser Model.SplitGen Proofs.SplitGenProofs.
Theorem C07_source_tie_fee_split :
  forall cfg asset s t rowno row, data_row_gen cfg asset s t rowno row = data_row cfg asset s t rowno row.
Proof. exact data_row_gen_agrees. Qed.
Print Assumptions C07_source_tie_fee_split.

(** "For every (exchange, holder) account the reported acquired, sent, received and final balances equal the sums
    over that account's transactions up to the to-date ... final = acquired + received - sent; every account
    touched appears exactly once".  Holds with and without -n ([allow]) whenever a table is produced. *)
Theorem C07_accounts : forall allow to_day exs hos t bl,
  holders_ok t ->
  balances allow to_day exs hos t = Ok bl ->
  let l := take_until txn_day to_day (replay_order t) in
  NoDup (map (fun b => (b_exch b, b_holder b)) bl) /\
  (forall ex ho, holder_ok ho ->
     ((exists b, In b bl /\ b_exch b = ex /\ b_holder b = ho) <-> (exists x, In x l /\ acct_touched ex ho x = true))) /\
  (forall b, In b bl ->
     b_acquired b = sumZ (map (acquired_by (b_exch b) (b_holder b)) l) /\
     b_sent b = sumZ (map (sent_by (b_exch b) (b_holder b)) l) /\
     b_received b = sumZ (map (received_by (b_exch b) (b_holder b)) l) /\
     b_final b = b_acquired b + b_received b - b_sent b).
Proof. exact c07_accounts. Qed.

(** "acquired = crypto received from in-transactions, sent = outgoing amounts plus fees and transfers sent,
    received = transfers received", table by table, "up to the to-date" being the date filter: when local
    dates are monotone in time ([day_sorted]; finding F9 otherwise, see C10_to_date_refuted) *)
Theorem C07_flows_by_table : forall allow to_day exs hos t bl,
  holders_ok t -> day_sorted txn_day (replay_order t) ->
  balances allow to_day exs hos t = Ok bl ->
  forall b, In b bl ->
    let mine ex' ho' := same_acct ex' ho' (b_exch b) (b_holder b) in
    b_acquired b = sumZ (map i_crypto_in (filter (fun a => mine (i_exch a) (i_holder a) && (in_day a <=? to_day)) (t_ins t))) /\
    b_sent b = sumZ (map (fun a => o_crypto_out_no_fee a + o_crypto_fee a)
                         (filter (fun a => mine (o_exch a) (o_holder a) && (out_day a <=? to_day)) (t_outs t))) +
               sumZ (map x_crypto_sent (filter (fun a => mine (x_from_exch a) (x_from_holder a) && (intra_day a <=? to_day)) (t_intras t))) /\
    b_received b = sumZ (map x_crypto_received (filter (fun a => mine (x_to_exch a) (x_to_holder a) && (intra_day a <=? to_day)) (t_intras t))) /\
    b_final b = b_acquired b + b_received b - b_sent b.
Proof. exact c07_flows_by_table. Qed.

(** "per-holder totals add up": the total of a holder (sum of the final balances of that holder's accounts) is
    the net flow of that holder over all exchanges (transfers between the holder's own accounts cancel except
    for the fee), and the holders' totals add up to the grand total *)
Theorem C07_holder_totals : forall allow to_day exs hos t bl,
  holders_ok t ->
  balances allow to_day exs hos t = Ok bl ->
  forall ho, holder_total ho bl = sumZ (map (holder_net ho) (take_until txn_day to_day (replay_order t))).
Proof. exact c07_holder_totals. Qed.

Theorem C07_holders_add_up : forall (bl : list balance) (holders : list Z),
  NoDup holders -> (forall b, In b bl -> In (b_holder b) holders) ->
  sumZ (map b_final bl) = sumZ (map (fun ho => holder_total ho bl) holders).
Proof. exact c07_holders_add_up. Qed.

(** "The sum of all final balances equals the total amount the tax computation leaves unconsumed in lots."
    [unsold lots fs] = sum over the lots of (crypto_in - amount of the fractions taken from that lot).
    Hypotheses that the code forces: the matcher input is well-formed ([wf], established by
    [pipeline_wf] for histories that went through the constructors -- see the next theorem) and the
    matcher run succeeds; no to-date cut ([no_cut]: the tax computation always covers the whole history);
    a supplied crypto_out_with_fee column equals amount + fee ([outs_consistent]; otherwise refuted:
    C07_reconciliation_needs_consistent_outs); the transfer fee is sent - received and not negative ([intras_consistent],
    [fees_nonneg]: both guaranteed by the constructor, and absent from the end-to-end theorem below).
    Nothing is assumed about small transfer fees: IntraTransaction.is_taxable taxes every transfer whose crypto fee is > 0
    (C03_transfer_rule_from_source), so every fee the balances lose is taken from a lot.  (Under the rule before the repair
    of finding F8 this failed for fees worth less than 5e-14: C07_reconciliation_dust_refuted.) *)
Theorem C07_reconciliation : forall allow to_day exs hos sched t fs bl,
  fractions_of gen_always_repush sched t = Ok fs ->
  (forall evs, taxable_events t = Ok evs -> wf (t_ins t) sched (map event_of evs)) ->
  outs_consistent t -> intras_consistent t -> fees_nonneg t -> no_cut to_day t ->
  balances allow to_day exs hos t = Ok bl ->
  sumZ (map b_final bl) = unsold (t_ins t) fs.
Proof. exact c07_reconciliation. Qed.

(** the same end to end, from the raw rows: constructors ([build]), taxable events, matcher, balances *)
Theorem C07_reconciliation_from_rows : forall allow to_day exs hos sched h t fs bl,
  build h = Ok t ->
  in_rows_increasing h -> amounts_positive h -> NoDup (map fst sched) ->
  (forall evs, taxable_events t = Ok evs -> hist_same_instant_same_year evs /\ hist_sched_covers sched evs) ->
  fractions_of gen_always_repush sched t = Ok fs ->
  outs_consistent t -> no_cut to_day t ->
  balances allow to_day exs hos t = Ok bl ->
  sumZ (map b_final bl) = unsold (t_ins t) fs.
Proof. exact c07_reconciliation_hist. Qed.

(** [unsold] is the sum of the per-lot remainders of property C02 ([rem_after]) *)
Theorem C07_unsold_is_sum_of_remainders : forall lots fs,
  unsold lots fs = sumZ (map (rem_after lots fs) (seq 0 (length lots))).
Proof. exact unsold_rem_after. Qed.

(** finding F8 (repaired): under the previous transfer-fee rule ([intra_is_taxable_fiat]: fiat value of the fee > 0 at 13
    decimals) every hypothesis holds for a history with a dust transfer fee and the balances are 1e-11 short of the lots.
    Stated on the pipeline under that explicit rule ([fractions_of_by]), so it compiles on every tree; under the rule of the
    source the same history reconciles ([c07_dust_fee_reconciles_now], Proofs/ReconcileProofs.v) *)
Theorem C07_reconciliation_dust_refuted : exists h sched t fs bl,
  build h = Ok t /\ fractions_of_by intra_is_taxable_fiat gen_always_repush sched t = Ok fs /\
  balances false 100000 [[69; 48]; [69; 49]] [[72; 48]; [72; 49]] t = Ok bl /\
  outs_consistent t /\ intras_consistent t /\ fees_nonneg t /\ no_cut 100000 t /\
  sumZ (map b_final bl) = unsold (t_ins t) fs - 1.
Proof. exact c07_reconciliation_dust_refuted. Qed.

Theorem C07_reconciliation_needs_consistent_outs : exists h sched t fs bl,
  build h = Ok t /\ fractions_of gen_always_repush sched t = Ok fs /\ balances false 100000 [[69; 48]; [69; 49]] [[72; 48]; [72; 49]] t = Ok bl /\
  fees_nonneg t /\ no_cut 100000 t /\ sumZ (map b_final bl) <> unsold (t_ins t) fs.
Proof. exact c07_reconciliation_needs_consistent_outs. Qed.

(** Non-vacuity (Proofs/ReconcileProofs.v, history A of Proofs/L4Examples.v: two exchanges, two holders, a
    fee-bearing transfer, income, eight transactions): [tA_holders_ok], [tA_balances] (three accounts),
    [hA_rows_increasing], [hA_amounts_positive], [hA_events_ok], [tA_outs_consistent], [tA_fees_nonneg], [tA_no_cut]
    establish every hypothesis; [c07_reconciliation_instance] is C07_reconciliation_from_rows applied to it
    (both sides 2.8 coins: [c07_reconciliation_value], holder totals 1.8 and 1). *)

Print Assumptions C07_accounts.
Print Assumptions C07_flows_by_table.
Print Assumptions C07_holder_totals.
Print Assumptions C07_holders_add_up.
Print Assumptions C07_reconciliation.
Print Assumptions C07_reconciliation_from_rows.
Print Assumptions C07_unsold_is_sum_of_remainders.
Print Assumptions C07_reconciliation_dust_refuted.
Print Assumptions C07_reconciliation_needs_consistent_outs.

(** Source tie (regenerated on every run).  [balances_gen] (Model/BalanceGen.v) executes the update program the translator
    reads from balance.py's replay loop (Model/GeneratedTie.v: concatenation order, the cut and its break, per transaction
    class the stores to the four dictionaries in source order, the negative-balance test) on the same state; it is the
    hand-written [balances] the theorems above are about.  An edit of balance.py that changes the meaning of the program
    makes this theorem stop compiling (Proofs/BalanceGenProofs.v, Proofs/BalanceGenReplay.v). *)
From RP2V Require Import Model.GeneratedTie Model.BalanceGen Proofs.BalanceGenReplay.
Theorem C07_source_tie_balance_replay :
  forall (allow : bool) (to_day : Z) (exs hos : list str) (t : txs), balances_gen allow to_day exs hos t = balances allow to_day exs hos t.
Proof. exact balances_gen_agrees. Qed.
Print Assumptions C07_source_tie_balance_replay.
