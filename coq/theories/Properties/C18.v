(** Property C18 -- no network, no subprocess, writes confined to the output and log directories.

    PARTIAL.  Proved here (static half): over the import table and the call-site table that the
    translator regenerates from every *.py under src/rp2 on every run -- every imported module is on the
    allow-list and not a networking / process / foreign-code facility; every dynamic import has the
    constant prefix "rp2.plugin."; there is no exec / eval / compile / process / network call site; every
    call site that can modify the file system is one of the modelled ones (log directory and log file
    under ./log, creation of the output directory, removal and writing of a report in the output
    directory; rp2_config's own .ini) -- and, over the run model, that every file a run writes belongs to
    its write set {./log/rp2_*.log} + {output_dir/prefix+method_+report}, whose members cannot coincide with
    the input spreadsheet or the configuration unless those carry such a name.
    Only corresponded (dynamic half, harness/props/c18.py): that the running program raises no network /
    process audit event, writes nothing outside that set and leaves input and configuration
    byte-identical; third-party libraries and C extensions are observed only through audit events and the
    file-system snapshot. *)
From RP2V Require Import Base.Prelude Base.Sorting Model.Types.
From RP2V Require Import Model.Generated Model.MainRun Model.Imports.
From RP2V Require Import Proofs.RunLemmas Proofs.C18Proofs.
Open Scope Z_scope.

Theorem C18_imports_allowed : forall m imps imp, In (m, imps) import_table -> In imp imps -> import_ok imp = true.
Proof. exact imports_allowed. Qed.

Theorem C18_no_networking_import : forall m imps imp, In (m, imps) import_table -> In imp imps ->
  In (top_level (fst imp)) allowed_toplevel /\ ~ In (top_level (fst imp)) denied_toplevel.
Proof. exact no_denied_import. Qed.

Theorem C18_dynamic_imports_confined : forall s, In s call_sites -> st_kind s = 1 ->
  str_prefixb s_plugin_prefix (st_prefix s) = true.
Proof. exact dynamic_imports_have_plugin_prefix. Qed.

Theorem C18_no_exec_process_network : forall s, In s call_sites -> st_kind s <> 2 /\ st_kind s <> 4 /\ st_kind s <> 5.
Proof. exact no_exec_process_network_site. Qed.

Theorem C18_write_sites_modelled : forall s, In s call_sites -> is_write_site s = true ->
  exists a, In a modelled_write_sites /\ site_matches s a = true.
Proof. exact write_sites_are_modelled. Qed.

Theorem C18_write_sites_unique : write_sites_unique = true.
Proof. exact write_sites_unique_true. Qed.

Theorem C18_entry_points : scripts_cover_countries = true.
Proof. exact scripts_cover_countries_true. Qed.

Theorem C18_policy_consistent : forall m, In m allowed_toplevel -> ~ In m denied_toplevel.
Proof. exact allowed_not_denied. Qed.

(** every report file a (modelled) run writes is in its write set ... *)
Theorem C18_run_writes_in_write_set : forall c o cf inp stamp outdir f,
  In f (snd (run c o cf inp)) -> In (WOut outdir f) (write_set c o cf stamp outdir).
Proof. exact run_writes_in_write_set. Qed.

(** ... whose members are ./log/rp2_<stamp>.log or output_dir/prefix+label+"_"+report file ... *)
Theorem C18_write_set_shape : forall c o cf stamp outdir p,
  In p (write_set c o cf stamp outdir) ->
  (exists st, render p = s_log_prefix ++ st ++ s_log_suffix) \/
  (exists g label, In g (country_generators c) /\ render p = outdir ++ [c_slash] ++ o_prefix o ++ label ++ report_suffix g).
Proof. exact write_set_shape. Qed.

(** ... and therefore differ from any path that neither ends in ".log" nor in "_<report file name>" (the input
    spreadsheet and the configuration file, unless the user names them so / points -o, -p at them) *)
Theorem C18_write_set_disjoint : forall c o cf stamp outdir p other,
  In p (write_set c o cf stamp outdir) -> is_log_path other = false -> is_report_path other = false -> render p <> other.
Proof. exact write_set_disjoint. Qed.

Print Assumptions C18_imports_allowed.
Print Assumptions C18_no_networking_import.
Print Assumptions C18_dynamic_imports_confined.
Print Assumptions C18_no_exec_process_network.
Print Assumptions C18_write_sites_modelled.
Print Assumptions C18_write_sites_unique.
Print Assumptions C18_entry_points.
Print Assumptions C18_policy_consistent.
Print Assumptions C18_run_writes_in_write_set.
Print Assumptions C18_write_set_shape.
Print Assumptions C18_write_set_disjoint.
