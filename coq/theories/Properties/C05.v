(** Property C05 -- long-term vs short-term classification follows the holding period.
    This file contains only the property statements, each closed by [exact] of a lemma
    proved elsewhere, and the axioms they rest on. *)
From RP2V Require Import Base.Prelude Base.Time Base.Dec Model.Types Model.Generated Proofs.C05Proofs.
Open Scope Z_scope.

(** long-term exactly when the whole days elapsed reach the country's threshold *)
Theorem C05_threshold : forall period ev lot,
  gl_is_long period ev (Some lot) = true <->
  period * US_PER_DAY <= utc_us (t_ts ev) - utc_us (i_ts lot).
Proof. exact is_long_iff. Qed.

(** income events (no lot) are always short-term *)
Theorem C05_income_short : forall period ev, gl_is_long period ev None = false.
Proof. exact is_long_earn. Qed.

(** the flag depends only on the two instants, whatever their time zones / other fields *)
Theorem C05_instants_only : forall period ev ev' lot lot',
  utc_us (t_ts ev) = utc_us (t_ts ev') -> utc_us (i_ts lot) = utc_us (i_ts lot') ->
  gl_is_long period ev (Some lot) = gl_is_long period ev' (Some lot').
Proof. exact is_long_instants_only. Qed.

Theorem C05_us_es_365 : forall env, country_period US env = 365 /\ country_period ES env = 365.
Proof. exact period_us_es. Qed.

Theorem C05_generic_configured : forall env, country_period GENERIC env = env.
Proof. exact period_generic. Qed.

Theorem C05_jp_ie_never : forall c env ev lot,
  c = JP \/ c = IE -> ts_in_range (t_ts ev) -> ts_in_range (i_ts lot) ->
  gl_is_long (country_period c env) ev (Some lot) = false.
Proof. exact never_long_jp_ie. Qed.

Print Assumptions C05_threshold.
Print Assumptions C05_income_short.
Print Assumptions C05_instants_only.
Print Assumptions C05_us_es_365.
Print Assumptions C05_generic_configured.
Print Assumptions C05_jp_ie_never.

(** ------------------------------------------------------------------------------------------------------------
    The generic plugin's threshold comes from the environment variable LONG_TERM_CAPITAL_GAINS
    (plugin/country/generic.py: [int(...)], rejecting a missing / empty / non-integer / negative value).
    [C05_generic_configured] above takes the parsed number as given; here the parsing itself is modelled
    (Model/EntryC05Env.v: [generic_period_of_env max_digits v], [v = None] when the variable is not set, for ASCII values;
    [max_digits] = sys.get_int_max_str_digits() of the interpreter, 4300 by default, 0 = unlimited) and compared with the
    implementation on every run (driver cmd 4, harness/props/c05.py).  Proofs: Proofs/C05Env.v. *)
From Coq Require Import List.
From RP2V Require Import Model.EntryC05Env Proofs.C05Env.

(** a plain decimal literal of n >= 0 ([decimal_literal n] = str(n)) is accepted, and n is then the threshold of the
    long/short classification *)
Theorem C05_generic_env_accepts : forall md n, 0 <= n -> md = 0 \/ Z.of_nat (length (decimal_literal n)) <= md ->
  generic_period_of_env md (Some (decimal_literal n)) = Ok n /\ generic_threshold md (Some (decimal_literal n)) = Ok n /\
  forall ev lot, gl_is_long (country_period GENERIC n) ev (Some lot) = true <-> n * US_PER_DAY <= utc_us (t_ts ev) - utc_us (i_ts lot).
Proof. exact generic_env_accepts. Qed.
Theorem C05_decimal_literal_is_n : forall n, 0 <= n ->
  decimal_literal n <> nil /\ all_digits (decimal_literal n) /\ digits_value (decimal_literal n) = n.
Proof. exact (fun n Hn => conj (proj1 (decimal_literal_digits n Hn)) (conj (proj2 (decimal_literal_digits n Hn)) (decimal_literal_value n Hn))). Qed.
(** more generally any non-empty string of digits (leading zeros included) is accepted with its value *)
Theorem C05_generic_env_accepts_digits : forall md s, s <> nil -> all_digits s -> md = 0 \/ Z.of_nat (length s) <= md ->
  generic_period_of_env md (Some s) = Ok (digits_value s) /\ generic_threshold md (Some s) = Ok (digits_value s).
Proof. exact generic_env_accepts_digits. Qed.

(** rejected: not set / empty; a character that is neither digit, underscore, sign nor (C) white space anywhere in the value;
    a minus sign before digits of non-zero value; more digits than the interpreter converts *)
Theorem C05_generic_env_rejects : forall md,
  (generic_period_of_env md None = Err EValue /\ generic_period_of_env md (Some nil) = Err EValue) /\
  (forall s c, In c s -> is_digit c = false -> c <> 95 -> c <> 43 -> c <> 45 -> is_c_space c = false ->
     generic_period_of_env md (Some s) = Err EValue) /\
  (forall s, s <> nil -> all_digits s -> 0 < digits_value s -> generic_period_of_env md (Some (45 :: s)%list) = Err EValue) /\
  (forall s, s <> nil -> all_digits s -> 0 < md < Z.of_nat (length s) -> generic_period_of_env md (Some s) = Err EValue).
Proof.
  exact (fun md => conj (generic_env_rejects_unset md) (conj (generic_env_rejects_non_numeric md)
                  (conj (generic_env_rejects_negative md) (generic_env_rejects_too_long md)))).
Qed.
(** exactly when a value is accepted: set, non-empty, an integer literal for int(), not negative *)
Theorem C05_generic_env_ok_iff : forall md v n,
  generic_period_of_env md v = Ok n <-> exists s, v = Some s /\ s <> nil /\ int_of_ascii md s = Some n /\ 0 <= n.
Proof. exact generic_env_ok_iff. Qed.

(** non-vacuity / the literal forms int() accepts and rejects (Proofs/C05Env.v [env_examples], [limit_instance],
    evaluated by the kernel): "365", "0", "+7", " 42 ", "\t42\n", "1_000", "00012", "-0" accepted with 365, 0, 7, 42, 42, 1000, 12, 0;
    "1__0", "_1", "1_", "0x10", "1e3", "1.5", "-1", "+ 1", "1 2", " ", "\x1c42", "abc", "" and the unset variable rejected *)
Theorem C05_generic_env_examples :
  decimal_literal 365 = s365 /\ decimal_literal 0 = (48 :: nil)%list /\
  generic_threshold 4300 (Some s365) = Ok 365 /\
  generic_period_of_env 4300 (Some (97 :: 98 :: 99 :: nil)%list) = Err EValue /\
  generic_period_of_env 4300 (Some (45 :: 51 :: 54 :: 53 :: nil)%list) = Err EValue /\
  generic_period_of_env 4300 (Some (repeat 57 4301)) = Err EValue.
Proof.
  exact (conj (proj1 env_examples) (conj (proj1 (proj2 env_examples)) (conj (proj1 (proj2 (proj2 env_examples)))
        (conj (proj1 rejects_instances) (conj (proj2 rejects_instances) (proj1 limit_instance)))))).
Qed.

Print Assumptions C05_generic_env_accepts.
Print Assumptions C05_decimal_literal_is_n.
Print Assumptions C05_generic_env_accepts_digits.
Print Assumptions C05_generic_env_rejects.
Print Assumptions C05_generic_env_ok_iff.
Print Assumptions C05_generic_env_examples.

(** SOURCE TIE (fee split).  Both transactions derived from an acquisition with a crypto fee get their timestamp from
    f"{transaction.timestamp}" (str(datetime): microseconds and offset kept), as re-read from the source on every run
    (Generated.gen_split_in_args / gen_split_fee_args) and interpreted by Model/SplitGen.v: the lot and the artificial fee
    disposal carry the instant of the row.  A re-serialisation without the sub-second part stops compiling here. *)
From RP2V Require Import Model.Txn Model.Parser Model.SplitGen Proofs.SplitGenProofs.
Theorem C05_source_tie_fee_split_timestamps :
  forall a r, split_in_gen a = split_in a /\ fee_out_gen a r = fee_out a r.
Proof. exact split_pair_agrees. Qed.
Print Assumptions C05_source_tie_fee_split_timestamps.
