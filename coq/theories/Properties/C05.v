(** Property C05 -- long-term vs short-term classification follows the holding period.
    This file contains only the property statements, each closed by [exact] of a lemma
    proved elsewhere, and the axioms they rest on. *)
From RP2V Require Import Base.Prelude Base.Time Base.Dec Model.Types Model.Generated Proofs.C05Proofs.
Open Scope Z_scope.

(** long-term exactly when the whole days elapsed reach the country's threshold *)
Theorem C05_threshold : forall period ev lot,
  gl_is_long period ev (Some lot) = true <->
  period * US_PER_DAY <= utc_us (t_ts ev) - utc_us (i_ts lot).
Proof. exact is_long_iff. Qed.

(** income events (no lot) are always short-term *)
Theorem C05_income_short : forall period ev, gl_is_long period ev None = false.
Proof. exact is_long_earn. Qed.

(** the flag depends only on the two instants, whatever their time zones / other fields *)
Theorem C05_instants_only : forall period ev ev' lot lot',
  utc_us (t_ts ev) = utc_us (t_ts ev') -> utc_us (i_ts lot) = utc_us (i_ts lot') ->
  gl_is_long period ev (Some lot) = gl_is_long period ev' (Some lot').
Proof. exact is_long_instants_only. Qed.

Theorem C05_us_es_365 : forall env, country_period US env = 365 /\ country_period ES env = 365.
Proof. exact period_us_es. Qed.

Theorem C05_generic_configured : forall env, country_period GENERIC env = env.
Proof. exact period_generic. Qed.

Theorem C05_jp_ie_never : forall c env ev lot,
  c = JP \/ c = IE -> ts_in_range (t_ts ev) -> ts_in_range (i_ts lot) ->
  gl_is_long (country_period c env) ev (Some lot) = false.
Proof. exact never_long_jp_ie. Qed.

Print Assumptions C05_threshold.
Print Assumptions C05_income_short.
Print Assumptions C05_instants_only.
Print Assumptions C05_us_es_365.
Print Assumptions C05_generic_configured.
Print Assumptions C05_jp_ie_never.
