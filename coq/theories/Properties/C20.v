(** Property C20 -- stub, replaced below *)
From RP2V Require Import Base.Prelude Model.Generated Model.JpReport.
Theorem C20_stub : gen_jp_first_row + 1 = gen_jp_transaction_row_start.
Proof. reflexivity. Qed.
Print Assumptions C20_stub.
