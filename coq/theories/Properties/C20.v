(** Property C20 -- Japanese tax report: one calculation sheet per asset-year listing that year's
    transactions once, one summary sheet per year with one line per asset pointing at that
    asset-year's results, opening balances chained to the most recent earlier year sheet.

    Statements only; proofs are in Proofs/Jp*.v.  The theorems speak about the report the model
    (Model/JpReport.v; the Legend sheet: Model/JpLegend.v) produces with the two structural facts of the source as the translator reads
    them from the working tree: [gen_jp_years_sorted] (the per-asset loop handles the years in ascending
    order) and [gen_jp_prev_existing_year] (the opening balance names the sheet of the year handled
    just before).  On a tree without the repair of finding F5 both are [false], Proofs/JpProofs.v
    (code_years_sorted / code_prev_existing; likewise code_intra_yen_guard for finding F14) no longer compiles and neither does this file; the
    [C20_refuted_*] witnesses (Proofs/JpRefuted.v, independent of the flags) say what fails then.

    Reading guide: rows and columns count from 0 in [cell_at]; spreadsheet references count rows
    from 1, columns A = 0 ... I = 8 (code point 73), G = 6 (code point 71).  [gen_jp_first_row] = 21 is the
    first transaction row, [em_row_index e] = 21 + number of rows of that sheet. *)
From Coq Require Import List ZArith Bool Lia Permutation Sorted.
From RP2V Require Import Base.Prelude Base.Time Base.Dec Base.Sorting Base.Assoc Model.Types Model.Generated Model.Txn
  Model.Pipeline Model.Computed Model.Grid Model.ReportInput Model.TaxReport Model.JpReport Model.JpLegend
  Proofs.JpOps Proofs.JpSheet Proofs.JpYears Proofs.JpSummary Proofs.JpNames Proofs.JpProofs Proofs.JpRefuted Proofs.JpLegend.
Import ListNotations.
Open Scope Z_scope.

(** the report = the yearly summary sheets followed by one calculation sheet per emission (asset-year), for the
    transactions visible in the date window; -f together with -t is refused (finding F7, property C16) *)
Theorem C20_report_shape : forall lang i r,
  jp_report lang gen_jp_intra_yen_guard_on_crypto gen_jp_years_sorted gen_jp_prev_existing_year i = Ok r ->
  exists l, computed_all i (rp_assets i) = Ok l /\ map fst l = rp_assets i /\
    (rp_from i = MIN_DAY \/ rp_to i = MAX_DAY) /\
    let ems := flat_map (fun ac => asset_emissions lang gen_jp_intra_yen_guard_on_crypto (rp_exchanges i) gen_jp_years_sorted gen_jp_prev_existing_year
                                                   (ra_name (fst ac)) (chain_of (snd ac))) l in
    r = summary_sheets lang gen_jp_intra_yen_guard_on_crypto (rp_exchanges i) ems
        ++ map (asset_sheet lang gen_jp_intra_yen_guard_on_crypto (rp_exchanges i)) ems.
Proof. exact (fun lang => jp_report_shape lang gen_jp_intra_yen_guard_on_crypto gen_jp_years_sorted gen_jp_prev_existing_year). Qed.

(** ... and the generator produces it for every input the engine accepts, whatever the amounts (in particular for a transfer
    whose lost amount is worth less than 5e-14 yen: no cell is ever handed None), unless both -f and -t are given *)
Theorem C20_report_produced : forall lang i l,
  computed_all i (rp_assets i) = Ok l -> (rp_from i = MIN_DAY \/ rp_to i = MAX_DAY) ->
  exists r, jp_report lang gen_jp_intra_yen_guard_on_crypto gen_jp_years_sorted gen_jp_prev_existing_year i = Ok r.
Proof. exact (fun lang => jp_report_total lang gen_jp_years_sorted gen_jp_prev_existing_year). Qed.

(** one sheet per calendar year (of the transaction's own local timestamp) in which the asset has a visible
    transaction -- purchases, disposals or transfers, with or without fee --, in ascending year order *)
Theorem C20_one_sheet_per_asset_year : forall lang yg exs asset txs,
  let ems := asset_emissions lang yg exs gen_jp_years_sorted gen_jp_prev_existing_year asset txs in
  StronglySorted Z.lt (map em_year ems) /\
  (forall y, In y (map em_year ems) <-> exists t, In t txs /\ local_year (t_ts t) = y) /\
  (forall e, In e ems -> sw_name (asset_sheet lang yg exs e) = tax_sheet_name lang asset (em_year e)).
Proof.
  intros lang yg exs asset txs. split; [apply AE_years_sorted|]. split; [apply AE_year_iff|].
  intros e He. destruct (AE_in lang yg exs asset txs e He) as [Ha _]. cbn. rewrite Ha. reflexivity.
Qed.

(** the names "<asset>_<year>" of all calculation sheets of a report are pairwise distinct *)
Theorem C20_sheet_names_distinct : forall lang yg exs (l : list (rasset * computed)),
  NoDup (map (fun ac => ra_name (fst ac)) l) ->
  (forall ac t, In ac l -> In t (chain_of (snd ac)) -> 1 <= local_year (t_ts t) <= 9999) ->
  NoDup (map (fun e => sw_name (asset_sheet lang yg exs e))
             (all_emissions lang yg gen_jp_years_sorted gen_jp_prev_existing_year exs l)).
Proof. exact all_emissions_names_nodup. Qed.

(** the sheet of (asset, y) lists exactly the transactions of year y that have a row (all acquisitions and
    disposals, and the transfers that lost something on the way), each once, in time order: the k-th of them
    fills row 21 + k, and what the sheet finally shows in that row is that transaction's cells *)
Theorem C20_transactions_once : forall lang yg exs asset txs e,
  In e (asset_emissions lang yg exs gen_jp_years_sorted gen_jp_prev_existing_year asset txs) ->
  let kept := em_kept lang yg exs e in
  Permutation kept (filter (fun t => (local_year (t_ts t) =? em_year e) && has_row lang yg exs t) txs) /\
  StronglySorted (fun t1 t2 => t_us t1 <= t_us t2) kept /\
  (NoDup txs -> NoDup kept) /\
  em_row_index lang yg exs e = gen_jp_first_row + Z.of_nat (length kept) /\
  forall k t, nth_error kept k = Some t ->
    forall w, In w (row_cells (gen_jp_first_row + Z.of_nat k) (process lang yg exs t)) ->
      cell_at (sw_writes (asset_sheet lang yg exs e)) (gen_jp_first_row + Z.of_nat k) (cw_col w) = cw_val w.
Proof. exact AE_rows. Qed.

(** which transactions have a row *)
Theorem C20_which_rows : forall lang yg exs,
  (forall a, has_row lang yg exs (TIn a) = true) /\ (forall a, has_row lang yg exs (TOut a) = true) /\
  (forall a, has_row lang yg exs (TIntra a) = dgtb (of_grid (x_crypto_sent a - x_crypto_received a)) dzero).
Proof. intros. split; [|split]; intros; [apply has_row_in|apply has_row_out|apply has_row_intra]. Qed.

(** what a row shows: month, day, exchange, type, purchased amount / yen, sold amount / yen, fee (columns A..I) *)
Theorem C20_row_of_acquisition : forall lang yg exs row a,
  row_cells row (process lang yg exs (TIn a)) =
  let yen := dmul (of_grid (i_crypto_in a)) (of_grid (i_spot a)) in
  [cw row 0 (PInt (month_of (i_ts a))); cw row 1 (PInt (dom_of (i_ts a))); cw row 2 (PStr (exch_name exs (i_exch a)));
   cw row 3 (PStr (type_text (i_type a))); cw row 4 (PNum (of_grid (i_crypto_in a))); cw row 5 (PNum yen)]
  ++ (if ttype_in (i_type a) gen_jp_income_types then [cw row 6 (PNum dzero); cw row 7 (PNum yen)] else [])
  ++ [cw row 8 (PNum (fee_in_yen (i_crypto_fee a) (i_spot a) (i_fiat_fee a)))].
Proof. exact row_cells_in. Qed.

Theorem C20_row_of_disposal : forall lang yg exs row a,
  row_cells row (process lang yg exs (TOut a)) =
  let yen := dmul (of_grid (o_crypto_out_no_fee a)) (of_grid (o_spot a)) in
  [cw row 0 (PInt (month_of (o_ts a))); cw row 1 (PInt (dom_of (o_ts a))); cw row 2 (PStr (exch_name exs (o_exch a)));
   cw row 3 (PStr (type_text (o_type a))); cw row 6 (PNum (of_grid (o_crypto_out_with_fee a)));
   cw row 7 (if ttype_eqb (o_type a) DONATE then donation_text yen else PNum yen);
   cw row 8 (PNum (fee_in_yen (o_crypto_fee a) (o_spot a) (o_fiat_fee a)))].
Proof. exact row_cells_out. Qed.

Theorem C20_row_of_transfer_fee : forall lang exs row a,
  has_row lang gen_jp_intra_yen_guard_on_crypto exs (TIntra a) = true ->
  row_cells row (process lang gen_jp_intra_yen_guard_on_crypto exs (TIntra a)) =
  let fee := of_grid (x_crypto_sent a - x_crypto_received a) in
  let yen := dmul fee (of_grid (x_spot a)) in
  [cw row 0 (PInt (month_of (x_ts a))); cw row 1 (PInt (dom_of (x_ts a))); cw row 2 (PStr (gen_jp_transfer lang));
   cw row 3 (PStr (type_text FEE)); cw row 6 (PNum fee); cw row 7 (PNum yen); cw row 8 (PNum dzero)].
Proof. exact row_cells_intra_code. Qed.

(** no write and no inserted row lies outside a sheet *)
Theorem C20_sheets_within_capacity : forall lang yg exs ems s, In s (report_of lang yg exs ems) -> sheet_ok s = true.
Proof. exact report_sheets_ok. Qed.

(** one summary sheet per year in which some asset has a sheet *)
Theorem C20_one_summary_per_year : forall lang yg exs ems,
  let years := map fst (ss_sheets (summary_state lang yg exs ems)) in
  summary_sheets lang yg exs ems =
    map (fun yo => sheet_of (summary_sheet_name lang (fst yo)) gen_jp_tmpl_summary_rows gen_jp_tmpl_summary_cols (snd yo))
        (ss_sheets (summary_state lang yg exs ems)) /\
  NoDup years /\ (forall y, In y years <-> In y (map em_year ems)).
Proof. intros lang yg exs ems. split; [reflexivity|]. apply summary_years. Qed.

(** the summary of year y has one line per asset-year sheet of that year, in generation (= asset) order from row 7;
    its four references (average unit price, end balance amount / yen, net income) name that asset-year's own
    sheet and point at cells that sheet fills with its result formulas *)
Theorem C20_summary_line : forall lang yg exs ems y j e,
  nth_error (filter (fun e => em_year e =? y) ems) j = Some e ->
  exists s, In s (summary_sheets lang yg exs ems) /\ sw_name s = summary_sheet_name lang y /\
    let row := gen_jp_summary_start + Z.of_nat j in
    let nm := tax_sheet_name lang (em_asset e) (em_year e) in
    let r := em_row_index lang yg exs e in
    em_year e = y /\ sw_name (asset_sheet lang yg exs e) = nm /\
    cell_at (sw_writes s) row 0 = PStr (em_asset e) /\
    cell_at (sw_writes s) row 3 = sheet_ref nm 71 (r + 9 + 1) /\
    cell_at (sw_writes s) row 4 = sheet_ref nm 73 (r + 8 + 1) /\
    cell_at (sw_writes s) row 5 = sheet_ref nm 73 (r + 9 + 1) /\
    cell_at (sw_writes s) row 6 = sheet_ref nm 73 (r + 17 + 1) /\
    (forall dr col, In (dr, col) [(9, 6); (8, 8); (9, 8); (17, 8)] ->
       exists f, cell_at (sw_writes (asset_sheet lang yg exs e)) (r + dr) col = PFormula f).
Proof. exact summary_line. Qed.

(** the opening-balance cells (column E, rows r + 8 / r + 9) of the sheet of (asset, y): literal 0 when the asset has
    no sheet for an earlier year; otherwise references to the closing-balance cells (column I, rows r' + 8 / r' + 9) of
    the sheet of the greatest earlier year y' of the same asset that has a sheet -- whether or not y' = y - 1 *)
Theorem C20_opening_balance_chain : forall lang yg exs asset txs e,
  let ems := asset_emissions lang yg exs gen_jp_years_sorted gen_jp_prev_existing_year asset txs in
  In e ems ->
  let s := asset_sheet lang yg exs e in
  let r := em_row_index lang yg exs e in
  ((forall e', In e' ems -> em_year e <= em_year e') ->
     cell_at (sw_writes s) (r + 8) 4 = PInt 0 /\ cell_at (sw_writes s) (r + 9) 4 = PInt 0) /\
  (forall e', In e' ems -> em_year e' < em_year e ->
     (forall e'', In e'' ems -> em_year e'' < em_year e -> em_year e'' <= em_year e') ->
     let r' := em_row_index lang yg exs e' in
     cell_at (sw_writes s) (r + 8) 4 = sheet_ref (tax_sheet_name lang asset (em_year e')) 73 (r' + 8 + 1) /\
     cell_at (sw_writes s) (r + 9) 4 = sheet_ref (tax_sheet_name lang asset (em_year e')) 73 (r' + 9 + 1) /\
     sw_name (asset_sheet lang yg exs e') = tax_sheet_name lang asset (em_year e') /\
     (exists f, cell_at (sw_writes (asset_sheet lang yg exs e')) (r' + 8) 8 = PFormula f) /\
     (exists f, cell_at (sw_writes (asset_sheet lang yg exs e')) (r' + 9) 8 = PFormula f)).
Proof. exact opening_balance_chain. Qed.

(** the row arithmetic of the source fits the shipped templates (blank rows where rows are inserted, the template's own
    labels on the totals lines and on the balance rows) *)
Theorem C20_layout_fits_template :
  (forallb (fun rc => negb ((gen_jp_first_row - 1 <=? fst rc) && (fst rc <=? gen_jp_first_row + 1))) gen_jp_tmpl_asset_cells = true /\
   has_label gen_jp_tmpl_asset_cells (gen_jp_first_row + 2) 0 = true /\
   has_label gen_jp_tmpl_asset_cells (gen_jp_first_row + 8) 0 = true /\ has_label gen_jp_tmpl_asset_cells (gen_jp_first_row + 9) 0 = true /\
   has_label gen_jp_tmpl_asset_cells (gen_jp_first_row + 7) 4 = true /\ has_label gen_jp_tmpl_asset_cells (gen_jp_first_row + 7) 8 = true /\
   has_label gen_jp_tmpl_asset_cells (gen_jp_first_row + 16) 8 = true) /\
  (forallb (fun rc => negb ((gen_jp_summary_start - 1 <=? fst rc) && (fst rc <=? gen_jp_summary_start + 1))) gen_jp_tmpl_summary_cells = true /\
   has_label gen_jp_tmpl_summary_cells (gen_jp_summary_start + 2) 0 = true /\
   has_label gen_jp_tmpl_summary_cells (gen_jp_summary_start - 2) 0 = true) /\
  gen_jp_transaction_row_start = gen_jp_first_row + 1.
Proof. exact (conj jp_asset_layout_fits_template (conj jp_summary_layout_fits_template jp_row_start_consistent)). Qed.

(** ---- the code as it was (finding F5): first-seen year order and a reference hard-wired to year - 1 *)
Theorem C20_refuted_unordered : exists i r,
  jp_report 0 false false false i = Ok r /\
  map sw_name r = [summary_sheet_name 0 2019; summary_sheet_name 0 2021; summary_sheet_name 0 2020; nm 2019; nm 2021; nm 2020] /\
  cell r (nm 2021) 30 4 = sheet_ref (nm 2020) 73 32 /\ cell r (nm 2020) 30 8 = closing_formula 31 /\
  cell r (nm 2020) 30 4 = sheet_ref (nm 2019) 73 31 /\ cell r (nm 2019) 31 8 = closing_formula 32.
Proof. exists unordered_input, (report_of_input false false false unordered_input). exact refuted_unordered. Qed.

Theorem C20_refuted_gap : exists i r,
  jp_report 0 false false false i = Ok r /\
  map sw_name r = [summary_sheet_name 0 2019; summary_sheet_name 0 2021; nm 2019; nm 2021] /\
  cell r (nm 2021) 30 4 = sheet_ref (nm 2020) 73 31 /\ has_sheet r (nm 2020) = false.
Proof. exists gap_input, (report_of_input false false false gap_input). exact refuted_gap. Qed.

(** finding F14: the yen value of a transfer's lost amount guarded by its own 13-decimal comparison *)
Theorem C20_refuted_dust_fee_crash : exists i,
  jp_report 0 false true true i = Err EValue /\
  exists r, jp_report 0 true true true i = Ok r /\
    map sw_name r = [summary_sheet_name 0 2019; nm 2019] /\
    cell r (nm 2019) 22 6 = PNum (of_grid 1) /\ cell r (nm 2019) 22 7 = PNum (dmul (of_grid 1) (of_grid 1000)).
Proof.
  exists dust_input. destruct refuted_dust_fee_crash as [H1 H2]. split; [exact H1|].
  exists (report_of_input true true true dust_input). exact H2.
Qed.

(** ---- non-vacuity: on the same two inputs the report with the facts of the current source is produced, has three
    (two) asset-year emissions, and the chain reads 2019 <- 2020 <- 2021 (2019 <- 2021 over the gap) *)
Example C20_example_unordered : exists r,
  jp_report 0 gen_jp_intra_yen_guard_on_crypto gen_jp_years_sorted gen_jp_prev_existing_year unordered_input = Ok r /\
  map sw_name r = [summary_sheet_name 0 2019; summary_sheet_name 0 2020; summary_sheet_name 0 2021; nm 2019; nm 2020; nm 2021] /\
  cell r (nm 2019) 31 4 = PInt 0 /\
  cell r (nm 2020) 30 4 = sheet_ref (nm 2019) 73 32 /\ cell r (nm 2019) 31 8 = closing_formula 32 /\
  cell r (nm 2021) 30 4 = sheet_ref (nm 2020) 73 31 /\ cell r (nm 2020) 30 8 = closing_formula 31.
Proof. rewrite code_years_sorted, code_prev_existing, code_intra_yen_guard. exists (report_of_input true true true unordered_input). exact repaired_unordered. Qed.

Example C20_example_dust_fee : exists r,
  jp_report 0 gen_jp_intra_yen_guard_on_crypto gen_jp_years_sorted gen_jp_prev_existing_year dust_input = Ok r /\
  cell r (nm 2019) 22 7 = PNum (dmul (of_grid 1) (of_grid 1000)).
Proof.
  rewrite code_years_sorted, code_prev_existing, code_intra_yen_guard. exists (report_of_input true true true dust_input).
  destruct refuted_dust_fee_crash as [_ [H1 [_ [_ H2]]]]. split; assumption.
Qed.

Example C20_example_gap : exists r,
  jp_report 0 gen_jp_intra_yen_guard_on_crypto gen_jp_years_sorted gen_jp_prev_existing_year gap_input = Ok r /\
  map sw_name r = [summary_sheet_name 0 2019; summary_sheet_name 0 2021; nm 2019; nm 2021] /\
  cell r (nm 2021) 30 4 = sheet_ref (nm 2019) 73 31 /\ cell r (nm 2019) 30 8 = closing_formula 31.
Proof. rewrite code_years_sorted, code_prev_existing, code_intra_yen_guard. exists (report_of_input true true true gap_input). exact repaired_gap. Qed.

(** ---- the Legend sheet (Model/JpLegend.v, Proofs/JpLegend.v).  The JP generator gets its output file from the same
    [_initialize_output_file] as the other generators: the whole file is [jp_report_full] = the Legend sheet, then the sheets of
    [jp_report] above (all theorems of this file about the report apply to the tail) *)
Theorem C20_file_is_legend_then_report : forall lang yg ys pe i out,
  jp_report_full lang yg ys pe i = Ok out <->
  exists lg r, jp_legend lang i = Ok lg /\ jp_report lang yg ys pe i = Ok r /\ out = lg :: r.
Proof. exact jp_report_full_iff. Qed.

(** the file is produced under the hypotheses of C20_report_produced (the legend never fails: every shipped template has the
    "Accounting Method" row, and a one-entry schedule is printed by value -- repair of finding F10, read from the source) *)
Theorem C20_file_produced : forall lang i l,
  computed_all i (rp_assets i) = Ok l -> (rp_from i = MIN_DAY \/ rp_to i = MAX_DAY) ->
  exists lg r, jp_report_full lang gen_jp_intra_yen_guard_on_crypto gen_jp_years_sorted gen_jp_prev_existing_year i = Ok (lg :: r) /\
    jp_legend lang i = Ok lg /\
    jp_report lang gen_jp_intra_yen_guard_on_crypto gen_jp_years_sorted gen_jp_prev_existing_year i = Ok r.
Proof. exact jp_report_full_total. Qed.

(** the Legend states the method and the filters actually used: it carries the translated name "Legend", has the size of the
    template's legend sheet, holds the template's cells (labels) followed by three writes; the cell next to "Accounting Method"
    finally holds the method string of the schedule, the two cells below the from / to date actually passed or "non-specified"
    (last write wins: in the shipped JP templates these three cells hold placeholder texts that are overwritten); cell (r, 0) is a
    template label; no write lies outside the sheet (finite fact per generation language over the regenerated template geometry) *)
Theorem C20_legend_states_method_and_filters : forall lang i s, jp_legend lang i = Ok s ->
  exists r m, gen_jp_legend_method_row lang = Some r /\ legend_method true (rp_sched i) = Ok m /\
    sw_name s = gen_jp_legend_name lang /\ sw_rows s = gen_jp_legend_rows lang /\ sw_cols s = gen_jp_legend_cols lang /\
    sw_writes s = jp_legend_labels lang ++ [cw r 1 (PStr m); cw (r + 1) 1 (day_cell MIN_DAY (rp_from i)); cw (r + 2) 1 (day_cell MAX_DAY (rp_to i))] /\
    sheet_ok s = true /\
    cell_at (sw_writes s) r 1 = PStr m /\
    cell_at (sw_writes s) (r + 1) 1 = (if rp_from i =? MIN_DAY then PStr s_nonspec else PDay (rp_from i)) /\
    cell_at (sw_writes s) (r + 2) 1 = (if rp_to i =? MAX_DAY then PStr s_nonspec else PDay (rp_to i)) /\
    cell_at (sw_writes s) r 0 = PLabel.
Proof. exact jp_legend_facts. Qed.
(** the method string: the single method whatever year it is registered under, otherwise "y:M" / "y0->y:M" per entry *)
Theorem C20_legend_method_string : forall sched, exists m, legend_method true sched = Ok m /\
  (forall y me, sched = [(y, me)] -> m = meth_upper me) /\
  ((length sched <> 1)%nat -> m = join_comma (sched_parts 1970 sched)).
Proof. exact jp_legend_method_by_value. Qed.
Theorem C20_legend_template_fits : forall lang, jp_legend_fits lang = true.
Proof. exact jp_legend_fits_all. Qed.
(** with C20_sheets_within_capacity: no write of the file lies outside its sheet *)
Theorem C20_file_within_capacity : forall lang yg ys pe i out, jp_report_full lang yg ys pe i = Ok out ->
  forall s, In s out -> sheet_ok s = true.
Proof. exact jp_report_full_sheets_ok. Qed.
(** non-vacuity: the gap-year input (BTC bought 2019 and 2021) with the schedule [2019: HIFO] and the from-date 2019-01-01 (day
    17897): the first sheet is the Legend, it says HIFO / 2019-01-01 / non-specified; four more sheets follow *)
Theorem C20_legend_nonvacuous : exists lg r,
  jp_report_full 0 gen_jp_intra_yen_guard_on_crypto gen_jp_years_sorted gen_jp_prev_existing_year ex_legend_input = Ok (lg :: r) /\
  sw_name lg = gen_jp_legend_name 0 /\ (length r = 4)%nat /\ sheet_ok lg = true /\
  exists row, gen_jp_legend_method_row 0 = Some row /\
    cell_at (sw_writes lg) row 1 = PStr (meth_upper Hifo) /\ cell_at (sw_writes lg) (row + 1) 1 = PDay 17897 /\
    cell_at (sw_writes lg) (row + 2) 1 = PStr s_nonspec /\ cell_at (sw_writes lg) row 0 = PLabel.
Proof. exact jp_legend_example. Qed.

Print Assumptions C20_report_shape.
Print Assumptions C20_report_produced.
Print Assumptions C20_one_sheet_per_asset_year.
Print Assumptions C20_sheet_names_distinct.
Print Assumptions C20_transactions_once.
Print Assumptions C20_which_rows.
Print Assumptions C20_row_of_acquisition.
Print Assumptions C20_row_of_disposal.
Print Assumptions C20_row_of_transfer_fee.
Print Assumptions C20_sheets_within_capacity.
Print Assumptions C20_one_summary_per_year.
Print Assumptions C20_summary_line.
Print Assumptions C20_opening_balance_chain.
Print Assumptions C20_layout_fits_template.
Print Assumptions C20_refuted_unordered.
Print Assumptions C20_refuted_gap.
Print Assumptions C20_refuted_dust_fee_crash.
Print Assumptions C20_file_is_legend_then_report.
Print Assumptions C20_file_produced.
Print Assumptions C20_legend_states_method_and_filters.
Print Assumptions C20_legend_method_string.
Print Assumptions C20_legend_template_fits.
Print Assumptions C20_file_within_capacity.
Print Assumptions C20_legend_nonvacuous.
