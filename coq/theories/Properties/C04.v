(** Property C04 -- proceeds, cost basis and gain of every fraction are arithmetically exact. *)
From RP2V Require Import Base.Prelude Base.Time Base.Dec Model.Types Model.Generated Model.Txn Model.Computed Model.ComputedSpec Model.NumberSpec
  Proofs.DecProofs Proofs.C04Proofs Proofs.FiatSumProofs Proofs.C04Reassembly.
From Coq Require Import QArith Qabs.
Open Scope Z_scope.

(** proceeds = taxable fiat value x fraction amount / total outgoing amount; cost basis = lot cost
    including fee x fraction amount / lot amount; gain = proceeds - cost basis (formulas re-derived
    from gain_loss.py on every run) *)
Theorem C04_proceeds_formula : forall ev amt,
  gl_proceeds ev amt = ddiv (dmul (t_fiat_taxable ev) (of_grid amt)) (of_grid (t_balance_change ev)).
Proof. exact proceeds_formula. Qed.
Theorem C04_cost_formula : forall ev l amt,
  gl_cost_basis ev (Some l) amt = ddiv (dmul (i_fiat_in_with_fee l) (of_grid amt)) (of_grid (i_crypto_in l)).
Proof. exact cost_formula. Qed.
Theorem C04_income_zero_cost : forall ev amt, gl_cost_basis ev None amt = Some dzero.
Proof. exact cost_income. Qed.
Theorem C04_gain_formula : forall ev lot amt,
  gl_gain ev lot amt = olift2 dsub (gl_proceeds ev amt) (gl_cost_basis ev lot amt).
Proof. exact gain_formula. Qed.

(** taxable fiat value: sale value excluding fee; fee value for fee-only events and transfer fees;
    fiat value (with fee) for income *)
Theorem C04_taxable_value_out : forall a,
  t_fiat_taxable (TOut a) = if ttype_eqb (o_type a) FEE then o_fiat_fee a else o_fiat_out_no_fee a.
Proof. exact taxable_value_out. Qed.
Theorem C04_taxable_value_transfer : forall a, t_fiat_taxable (TIntra a) = x_fiat_fee a.
Proof. exact taxable_value_intra. Qed.
Theorem C04_taxable_value_income : forall a, is_earn_type (i_type a) = true -> t_fiat_taxable (TIn a) = i_fiat_in_with_fee a.
Proof. exact taxable_value_income. Qed.

(** every figure agrees with exact rational arithmetic to 1.1e-30 relative (<< 1e-15) *)
Theorem C04_proceeds_accuracy : forall ev amt r, gl_proceeds ev amt = Some r ->
  (Qabs (to_q r - to_q (t_fiat_taxable ev) * to_q (of_grid amt) / to_q (of_grid (t_balance_change ev)))
   <= (11 # (10 ^ 31)) * Qabs (to_q (t_fiat_taxable ev) * to_q (of_grid amt) / to_q (of_grid (t_balance_change ev))))%Q.
Proof. exact proceeds_accuracy. Qed.
Theorem C04_cost_accuracy : forall ev l amt r, gl_cost_basis ev (Some l) amt = Some r ->
  (Qabs (to_q r - to_q (i_fiat_in_with_fee l) * to_q (of_grid amt) / to_q (of_grid (i_crypto_in l)))
   <= (11 # (10 ^ 31)) * Qabs (to_q (i_fiat_in_with_fee l) * to_q (of_grid amt) / to_q (of_grid (i_crypto_in l))))%Q.
Proof. exact cost_accuracy. Qed.
Theorem C04_gain_accuracy : forall ev lot amt p c gn,
  gl_proceeds ev amt = Some p -> gl_cost_basis ev lot amt = Some c -> gl_gain ev lot amt = Some gn ->
  (Qabs (to_q gn - (to_q p - to_q c)) <= EPS * Qabs (to_q p - to_q c))%Q.
Proof. exact gain_accuracy. Qed.

(** the pieces add back to the whole (exact arithmetic; with C02: an event's fractions sum to its
    total amount, a fully consumed lot's fractions to the lot amount) *)
Theorem C04_reassembly : forall (F A : Q) (xs : list Q),
  (~ A == 0 -> sumQ xs == A -> sumQ (map (fun x => F * x / A) xs) == F)%Q.
Proof. exact reassembly_exact. Qed.

(** ... and in the decimal arithmetic the code uses.  [prorated F A x r]: x > 0 and r is the computed (F * x) / A
    (31-digit multiply, then 31-digit divide).  For parts x_1..x_n that sum to A > 0 (C02: an event's fractions; a fully
    consumed lot's fractions):
    - the EXACT RATIONAL SUM of the computed decimals r_i is within 1.1e-30 * |F| of F, whatever n
      ([qsum] = exact sum of the values, [C11] = 1.1e-30);
    - their 31-digit left-to-right sum ([dsum], what the yearly summary computes, C06) is within n * 2.2e-30 * |F|
      ([C22] = 2.2e-30 = rounding of each addition 1e-30 * (1 + 1.1e-30) plus the 1.1e-30 above; [nq n] = n as a rational;
      the side condition 2 n EPS <= 1 says n <= 1e30). *)
Theorem C04_reassembly_rational_sum_of_computed : forall F A xs rs,
  0 < A -> sumZ xs = A -> Forall2 (prorated F A) xs rs ->
  (Qabs (qsum rs - to_q F) <= C11 * Qabs (to_q F))%Q /\ (qabs_sum rs <= (1 + C11) * Qabs (to_q F))%Q.
Proof. exact prorate_reassembly_q. Qed.
Theorem C04_reassembly_decimal_sum : forall F A xs rs,
  0 < A -> sumZ xs = A -> Forall2 (prorated F A) xs rs ->
  (2 * nq (length rs) * EPS <= 1)%Q ->
  (Qabs (to_q (dsum rs) - to_q F) <= nq (length rs) * C22 * Qabs (to_q F))%Q.
Proof. exact prorate_reassembly_dec. Qed.
(** the rounding of a 31-digit left-to-right sum in closed form: n * 1e-30 * (sum of the magnitudes) *)
Theorem C04_decimal_sum_error : forall l, (2 * nq (length l) * EPS <= 1)%Q ->
  (Qabs (to_q (dsum l) - qsum l) <= nq (length l) * (2 * EPS) * qabs_sum l)%Q.
Proof. exact dsum_error_closed. Qed.

(** an event's fractions add back to its taxable fiat value; a fully consumed lot's fractions to its full cost
    ([g_proceeds], [g_cost]: the figures of a fraction, Model/Computed.v; [odflt]: they are defined here) *)
Theorem C04_proceeds_add_back : forall e b, b <> [] ->
  (forall g, In g b -> g_ev g = e /\ 0 < g_amt g) -> amt_sum b = t_balance_change e ->
  let rs := map (fun g => odflt (g_proceeds g)) b in
  let Fq := to_q (t_fiat_taxable e) in
  (Qabs (qsum rs - Fq) <= C11 * Qabs Fq)%Q /\
  ((2 * nq (length b) * EPS <= 1)%Q -> (Qabs (to_q (dsum rs) - Fq) <= nq (length b) * C22 * Qabs Fq)%Q).
Proof. exact proceeds_reassembly. Qed.
Theorem C04_cost_adds_back : forall a b, b <> [] ->
  (forall g, In g b -> g_lot g = Some a /\ 0 < g_amt g) -> amt_sum b = i_crypto_in a ->
  let rs := map (fun g => odflt (g_cost g)) b in
  let Cq := to_q (i_fiat_in_with_fee a) in
  (Qabs (qsum rs - Cq) <= C11 * Qabs Cq)%Q /\
  ((2 * nq (length b) * EPS <= 1)%Q -> (Qabs (to_q (dsum rs) - Cq) <= nq (length b) * C22 * Qabs Cq)%Q).
Proof. exact cost_reassembly. Qed.
(** Non-vacuity (Proofs/C04Reassembly.v, history A of Proofs/L4Examples.v): [proceeds_instance] (the sale of row 5, split over two
    lots), [cost_instance] (the lot of row 1, consumed by two sales), [reassembly_budget], [reassembly_values]. *)

(** exchange-supplied fiat values are used in place of amount x spot price *)
Theorem C04_supplied_values_out : forall r o, mk_out r = Ok o ->
  (forall v, ro_fiat_out_no_fee r = Some v -> o_fiat_out_no_fee o = of_grid v) /\
  (forall v, ro_fiat_fee r = Some v -> o_fiat_fee o = of_grid v) /\
  (forall v, ro_crypto_out_with_fee r = Some v -> o_crypto_out_with_fee o = v) /\
  (ro_fiat_out_no_fee r = None -> o_fiat_out_no_fee o = dmul (of_grid (ro_crypto_out_no_fee r)) (of_grid (ro_spot r))) /\
  (ro_fiat_fee r = None -> o_fiat_fee o = dmul (of_grid (ro_crypto_fee r)) (of_grid (ro_spot r))) /\
  (ro_crypto_out_with_fee r = None -> o_crypto_out_with_fee o = ro_crypto_out_no_fee r + ro_crypto_fee r).
Proof. exact out_supplied_wins. Qed.
Theorem C04_supplied_values_in : forall r a, mk_in r = Ok a ->
  (forall v, ri_fiat_in_with_fee r = Some v -> i_fiat_in_with_fee a = of_grid v) /\
  (forall v, ri_fiat_in_no_fee r = Some v -> i_fiat_in_no_fee a = of_grid v) /\
  (ri_fiat_in_no_fee r = None -> i_fiat_in_no_fee a = dmul (of_grid (ri_crypto_in r)) (of_grid (ri_spot r))) /\
  (ri_fiat_in_with_fee r = None -> i_fiat_in_with_fee a = dadd (i_fiat_in_no_fee a) (i_fiat_fee a)).
Proof. exact in_supplied_wins. Qed.

(** no binary floating point enters: 31-digit decimal context, FloatOperation trap armed *)
Theorem C04_decimal_context : gen_prec = PREC /\ gen_float_trap = true /\ gen_crypto_decimals = CRYPTO_DECIMALS.
Proof. exact decimal_context. Qed.

Print Assumptions C04_proceeds_accuracy.
Print Assumptions C04_cost_accuracy.
Print Assumptions C04_gain_accuracy.
Print Assumptions C04_reassembly.
Print Assumptions C04_reassembly_rational_sum_of_computed.
Print Assumptions C04_reassembly_decimal_sum.
Print Assumptions C04_decimal_sum_error.
Print Assumptions C04_proceeds_add_back.
Print Assumptions C04_cost_adds_back.
Print Assumptions C04_supplied_values_out.
Print Assumptions C04_supplied_values_in.
Print Assumptions C04_decimal_context.

(** SOURCE TIE (fee split).  The keyword arguments of the InTransaction(...) that ods_parser._create_and_process_transaction
    re-creates for an acquisition with a crypto fee are re-read from the source on every run (Generated.gen_split_in_args:
    parameter -> where its value comes from); interpreted by Model/SplitGen.v they give the model's [split_in]: every fiat
    value (fiat_in_no_fee, fiat_in_with_fee, fiat_fee) is the one derived by the first construction, the crypto fee is
    dropped.  A dropped keyword (fiat_in_with_fee then falls back to no_fee + fee) stops compiling here. *)
From RP2V Require Import Model.Parser Model.SplitGen Proofs.SplitGenProofs.
Theorem C04_source_tie_fee_split_values : forall a, split_in_gen a = split_in a.
Proof. exact split_in_gen_agrees. Qed.
Print Assumptions C04_source_tie_fee_split_values.
