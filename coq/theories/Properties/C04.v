(** Property C04 -- proceeds, cost basis and gain of every fraction are arithmetically exact. *)
From RP2V Require Import Base.Prelude Base.Time Base.Dec Model.Types Model.Generated Model.Txn Proofs.DecProofs Proofs.C04Proofs.
From Coq Require Import QArith Qabs.
Open Scope Z_scope.

(** proceeds = taxable fiat value x fraction amount / total outgoing amount; cost basis = lot cost
    including fee x fraction amount / lot amount; gain = proceeds - cost basis (formulas re-derived
    from gain_loss.py on every run) *)
Theorem C04_proceeds_formula : forall ev amt,
  gl_proceeds ev amt = ddiv (dmul (t_fiat_taxable ev) (of_grid amt)) (of_grid (t_balance_change ev)).
Proof. exact proceeds_formula. Qed.
Theorem C04_cost_formula : forall ev l amt,
  gl_cost_basis ev (Some l) amt = ddiv (dmul (i_fiat_in_with_fee l) (of_grid amt)) (of_grid (i_crypto_in l)).
Proof. exact cost_formula. Qed.
Theorem C04_income_zero_cost : forall ev amt, gl_cost_basis ev None amt = Some dzero.
Proof. exact cost_income. Qed.
Theorem C04_gain_formula : forall ev lot amt,
  gl_gain ev lot amt = olift2 dsub (gl_proceeds ev amt) (gl_cost_basis ev lot amt).
Proof. exact gain_formula. Qed.

(** taxable fiat value: sale value excluding fee; fee value for fee-only events and transfer fees;
    fiat value (with fee) for income *)
Theorem C04_taxable_value_out : forall a,
  t_fiat_taxable (TOut a) = if ttype_eqb (o_type a) FEE then o_fiat_fee a else o_fiat_out_no_fee a.
Proof. exact taxable_value_out. Qed.
Theorem C04_taxable_value_transfer : forall a, t_fiat_taxable (TIntra a) = x_fiat_fee a.
Proof. exact taxable_value_intra. Qed.
Theorem C04_taxable_value_income : forall a, is_earn_type (i_type a) = true -> t_fiat_taxable (TIn a) = i_fiat_in_with_fee a.
Proof. exact taxable_value_income. Qed.

(** every figure agrees with exact rational arithmetic to 1.1e-30 relative (<< 1e-15) *)
Theorem C04_proceeds_accuracy : forall ev amt r, gl_proceeds ev amt = Some r ->
  (Qabs (to_q r - to_q (t_fiat_taxable ev) * to_q (of_grid amt) / to_q (of_grid (t_balance_change ev)))
   <= (11 # (10 ^ 31)) * Qabs (to_q (t_fiat_taxable ev) * to_q (of_grid amt) / to_q (of_grid (t_balance_change ev))))%Q.
Proof. exact proceeds_accuracy. Qed.
Theorem C04_cost_accuracy : forall ev l amt r, gl_cost_basis ev (Some l) amt = Some r ->
  (Qabs (to_q r - to_q (i_fiat_in_with_fee l) * to_q (of_grid amt) / to_q (of_grid (i_crypto_in l)))
   <= (11 # (10 ^ 31)) * Qabs (to_q (i_fiat_in_with_fee l) * to_q (of_grid amt) / to_q (of_grid (i_crypto_in l))))%Q.
Proof. exact cost_accuracy. Qed.
Theorem C04_gain_accuracy : forall ev lot amt p c gn,
  gl_proceeds ev amt = Some p -> gl_cost_basis ev lot amt = Some c -> gl_gain ev lot amt = Some gn ->
  (Qabs (to_q gn - (to_q p - to_q c)) <= EPS * Qabs (to_q p - to_q c))%Q.
Proof. exact gain_accuracy. Qed.

(** the pieces add back to the whole (exact arithmetic; with C02: an event's fractions sum to its
    total amount, a fully consumed lot's fractions to the lot amount) *)
Theorem C04_reassembly : forall (F A : Q) (xs : list Q),
  (~ A == 0 -> sumQ xs == A -> sumQ (map (fun x => F * x / A) xs) == F)%Q.
Proof. exact reassembly_exact. Qed.

(** exchange-supplied fiat values are used in place of amount x spot price *)
Theorem C04_supplied_values_out : forall r o, mk_out r = Ok o ->
  (forall v, ro_fiat_out_no_fee r = Some v -> o_fiat_out_no_fee o = of_grid v) /\
  (forall v, ro_fiat_fee r = Some v -> o_fiat_fee o = of_grid v) /\
  (forall v, ro_crypto_out_with_fee r = Some v -> o_crypto_out_with_fee o = v) /\
  (ro_fiat_out_no_fee r = None -> o_fiat_out_no_fee o = dmul (of_grid (ro_crypto_out_no_fee r)) (of_grid (ro_spot r))) /\
  (ro_fiat_fee r = None -> o_fiat_fee o = dmul (of_grid (ro_crypto_fee r)) (of_grid (ro_spot r))) /\
  (ro_crypto_out_with_fee r = None -> o_crypto_out_with_fee o = ro_crypto_out_no_fee r + ro_crypto_fee r).
Proof. exact out_supplied_wins. Qed.
Theorem C04_supplied_values_in : forall r a, mk_in r = Ok a ->
  (forall v, ri_fiat_in_with_fee r = Some v -> i_fiat_in_with_fee a = of_grid v) /\
  (forall v, ri_fiat_in_no_fee r = Some v -> i_fiat_in_no_fee a = of_grid v) /\
  (ri_fiat_in_no_fee r = None -> i_fiat_in_no_fee a = dmul (of_grid (ri_crypto_in r)) (of_grid (ri_spot r))) /\
  (ri_fiat_in_with_fee r = None -> i_fiat_in_with_fee a = dadd (i_fiat_in_no_fee a) (i_fiat_fee a)).
Proof. exact in_supplied_wins. Qed.

(** no binary floating point enters: 31-digit decimal context, FloatOperation trap armed *)
Theorem C04_decimal_context : gen_prec = PREC /\ gen_float_trap = true /\ gen_crypto_decimals = CRYPTO_DECIMALS.
Proof. exact decimal_context. Qed.

Print Assumptions C04_proceeds_accuracy.
Print Assumptions C04_cost_accuracy.
Print Assumptions C04_gain_accuracy.
Print Assumptions C04_reassembly.
Print Assumptions C04_supplied_values_out.
Print Assumptions C04_supplied_values_in.
Print Assumptions C04_decimal_context.
