(** Property C10 -- date filters only hide rows; they never change the figures shown.

    Model: [compute period from_day to_day allow exs hos t fs] of Model/Computed.v (ComputedData.__init__):
    [t] are the transactions (all of them), [fs] the fractions produced by the matcher, [from_day]/[to_day] the
    window (day numbers in local time, both inclusive).  NOTE the signature: the matcher's output [fs] is an
    *argument* -- the window enters only after matching ([compute_tax], Model/ComputedSpec.v, is the composition
    "match, then aggregate": lot matching always starts from the beginning of the history).
    The filtered views are [iter_window]: abstract_entry_set.py's iterator, which skips entries dated before
    the from-date and *stops* at the first entry dated after the to-date.
    [window_view day from to all view]: every row of [view] is a row of [all] dated inside the window, and [view] is
    an initial segment of the rows of [all] dated in the window (same order).
    [dates_monotone t]: local dates never decrease with the instant (true when all timestamps carry one UTC offset).
    Vocabulary: Model/ComputedSpec.v.  Proofs: Proofs/FilterProofs.v, Proofs/ComputedProofs.v, Proofs/C10Proofs.v. *)
From Coq Require Import List ZArith Bool Lia Sorted.
From RP2V Require Import Base.Prelude Base.Time Base.Dec Base.Assoc Model.Types Model.Generated Model.Txn Model.Matcher Model.MatchWf Model.Pipeline
  Model.Computed Model.ComputedSpec Model.NumberSpec Proofs.FilterProofs Proofs.ComputedProofs Proofs.C10Proofs
  Proofs.PipelineWf Proofs.NumberingProofs Proofs.NumberingLift Proofs.NumberingExamples
  Proofs.DecProofs Proofs.FiatSumProofs Proofs.C04Reassembly Proofs.PriceProofs Proofs.SoldPctProofs.
From Coq Require Import QArith Qabs.
Open Scope Z_scope.
Import ListNotations.
Open Scope Z_scope.

(** "the reports show ... the transactions and gain/loss fractions whose own calendar date lies in the window (both
    bounds inclusive)": unconditionally, nothing outside the window is shown and what is shown is an
    initial segment of the rows dated in the window; [evs] are the taxable events, [cd_all_gls] the detail table *)
Theorem C10_views_inside_window : forall period from_day to_day allow exs hos t fs cd,
  compute period from_day to_day allow exs hos t fs = Ok cd ->
  exists evs, taxable_events t = Ok evs /\
    window_view in_day from_day to_day (t_ins t) (cd_ins cd) /\
    window_view out_day from_day to_day (t_outs t) (cd_outs cd) /\
    window_view intra_day from_day to_day (t_intras t) (cd_intras cd) /\
    window_view txn_day from_day to_day evs (cd_events cd) /\
    window_view g_day from_day to_day (cd_all_gls cd) (cd_gls cd).
Proof. exact c10_views. Qed.

(** "show exactly the transactions and gain/loss fractions whose own calendar date lies in the window": when the
    lists are sorted by time (as [build] produces them) and local dates are monotone in time *)
Theorem C10_views_exactly_the_window : forall period from_day to_day allow exs hos t fs cd,
  time_sorted t -> dates_monotone t ->
  compute period from_day to_day allow exs hos t fs = Ok cd ->
  exists evs, taxable_events t = Ok evs /\
    cd_ins cd = filter (fun a => in_window from_day to_day (in_day a)) (t_ins t) /\
    cd_outs cd = filter (fun a => in_window from_day to_day (out_day a)) (t_outs t) /\
    cd_intras cd = filter (fun a => in_window from_day to_day (intra_day a)) (t_intras t) /\
    cd_events cd = filter (fun x => in_window from_day to_day (txn_day x)) evs /\
    cd_gls cd = filter (fun g => in_window from_day to_day (g_day g)) (cd_all_gls cd).
Proof. exact c10_views_exact. Qed.

Theorem C10_built_lists_are_time_sorted : forall h t, build h = Ok t -> time_sorted t.
Proof. exact build_time_sorted. Qed.

Theorem C10_one_offset_is_monotone : forall t off,
  (forall x, In x (replay_order t) -> off_s (t_ts x) = off) -> dates_monotone t.
Proof. exact same_offset_monotone. Qed.

(** ... and without monotone dates the sentence is false for the code as it is (finding F9): history [h9] of
    Proofs/L4Examples.v, to-date 2020-12-31: the sale dated 2020-12-31 (written at -12:00) is hidden because an
    earlier instant (written at +14:00) is already dated 2021-01-01 *)
Theorem C10_to_date_refuted : exists period from_day to_day exs hos t fs cd a,
  compute period from_day to_day false exs hos t fs = Ok cd /\
  In a (t_outs t) /\ from_day <= out_day a <= to_day /\ ~ In a (cd_outs cd).
Proof. exact c10_to_date_refuted. Qed.

(** "every figure shown for them - pairing, amounts, proceeds, cost basis, gain - is identical to the unfiltered run":
    a shown fraction [g] is an element of the other run's detail table -- the same event, the same lot, the same
    amount, hence the same [g_proceeds g], [g_cost g], [g_gain g], [g_long period g], which are functions of [g]
    alone -- and the detail table, its running sums and the running sums of the transaction tables are the same
    under any two windows.  [all_fractions t fs] is the detail table as a function of the transactions and the
    matcher's output only. *)
Theorem C10_figures_identical : forall period from_day to_day allow exs hos t fs cd from_day' to_day' allow' cd',
  compute period from_day to_day allow exs hos t fs = Ok cd ->
  compute period from_day' to_day' allow' exs hos t fs = Ok cd' ->
  all_fractions t fs = Some (cd_all_gls cd) /\
  cd_all_gls cd = cd_all_gls cd' /\ cd_gl_running cd = cd_gl_running cd' /\
  cd_in_running cd = cd_in_running cd' /\ cd_out_running cd = cd_out_running cd' /\ cd_intra_running cd = cd_intra_running cd' /\
  window_view g_day from_day to_day (cd_all_gls cd') (cd_gls cd).
Proof. exact c10_window_independent. Qed.

(** the unfiltered run (any window containing every fraction) shows the whole detail table *)
Theorem C10_unfiltered_shows_all : forall period from_day to_day allow exs hos t fs cd,
  compute period from_day to_day allow exs hos t fs = Ok cd ->
  (forall g, In g (cd_all_gls cd) -> from_day <= g_day g <= to_day) -> cd_gls cd = cd_all_gls cd.
Proof. exact c10_unfiltered_shows_all. Qed.

(** "lot matching always starts from the beginning of the history, not from the window start": in the whole
    computation the two runs aggregate the very same matcher output *)
Theorem C10_matching_ignores_window : forall period from_day to_day allow exs hos sched t cd from_day' to_day' allow' cd',
  compute_tax period from_day to_day allow exs hos sched t = Ok cd ->
  compute_tax period from_day' to_day' allow' exs hos sched t = Ok cd' ->
  exists fs, fractions_of gen_always_repush sched t = Ok fs /\
    compute period from_day to_day allow exs hos t fs = Ok cd /\
    compute period from_day' to_day' allow' exs hos t fs = Ok cd'.
Proof. exact c10_matching_ignores_window. Qed.

(** "Balances, average price and fraction counts reflect all history up to the to-date": they are the
    functions [balances], [price_per_unit], [labelled] of the to-date alone (see C07 for what [balances] sums);
    the "k of n" labels of the shown fractions are those of the list [L] numbered over every fraction up to the
    to-date, restricted to the from-date; two runs that differ in the from-date only agree on all of them *)
Theorem C10_from_date_does_not_enter : forall period from_day from_day' to_day allow exs hos t fs cd cd',
  compute period from_day to_day allow exs hos t fs = Ok cd ->
  compute period from_day' to_day allow exs hos t fs = Ok cd' ->
  cd_balances cd = cd_balances cd' /\ cd_price cd = cd_price cd' /\
  balances allow to_day exs hos t = Ok (cd_balances cd) /\ price_per_unit to_day (t_ins t) = Ok (cd_price cd) /\
  exists L, labelled to_day (cd_all_gls cd) = Ok L /\ map lab_gl L = take_until g_day to_day (cd_all_gls cd) /\
    (let W := filter (fun x => from_day <=? g_day (lab_gl x)) L in
     map lab_gl W = cd_gls cd /\ map lab_ev W = cd_evfrac cd /\ map lab_lot W = cd_lotfrac cd) /\
    (let W' := filter (fun x => from_day' <=? g_day (lab_gl x)) L in
     map lab_gl W' = cd_gls cd' /\ map lab_ev W' = cd_evfrac cd' /\ map lab_lot W' = cd_lotfrac cd').
Proof. exact c10_from_day_independent. Qed.

(** "yearly summary lines cover whole years starting with the from-date's year": the summary is that of the run
    with an earlier (or no) from-date minus the lines of the years before the from-date's year; the lines that
    remain are unchanged, i.e. they still sum every fraction of their year up to the to-date, also those dated
    before the from-date (C06_line_is_sum: the from-date does not occur in the sums) *)
Theorem C10_yearly_whole_years : forall period from_day from_day' to_day allow exs hos t fs cd cd',
  compute period from_day to_day allow exs hos t fs = Ok cd ->
  compute period from_day' to_day allow exs hos t fs = Ok cd' ->
  year_of_day from_day' <= year_of_day from_day ->
  cd_yearly cd = filter (fun l => year_of_day from_day <=? y_year l) (cd_yearly cd').
Proof. exact c10_yearly_whole_years. Qed.

(** * "fraction counts reflect all history up to the to-date": functional specification of the numbering
    ([numbering] / [num_step] of Model/Computed.v = GainLossSet._sort_entries; vocabulary: Model/NumberSpec.v;
    proofs: Proofs/NumberingProofs.v, Proofs/NumberingLift.v; examples: Proofs/NumberingExamples.v).

    [cut] = the fractions (sorted by event instant) up to the first one dated after the to-date.
    [ev_count r l] / [lot_count r l] = number of fractions of [l] of the taxable event / acquired lot with sheet row [r].
    The event numbering keeps one running amount and index and never looks at the event of a fraction, so it needs
    [ev_blocks cut]: the list is a concatenation of blocks, one per event, each a non-empty run of fractions of that
    event with positive amounts summing to the event's crypto_balance_change, different blocks = different rows
    (without it fractions are silently mis-numbered: [numbering_needs_blocks]).  The lot numbering keeps per-lot
    dictionaries and checks itself: [lots_ok]. *)

(** the k-th fraction carries the number of EARLIER fractions of the cut with the same event (lot); the tables hold the
    number of fractions of each event (lot) in the cut -- also for lots not fully consumed (count taken from the
    pending table) -- and no entry for rows without fractions *)
Theorem C10_numbering_spec : forall to_day gls evf lotf evt lott,
  let cut := take_until g_day to_day gls in
  ev_blocks cut -> numbering to_day gls = Ok (evf, lotf, evt, lott) ->
  length evf = length cut /\ length lotf = length cut /\
  (forall r, aget_d O r evt = ev_count r cut) /\ (forall r, aget_d O r lott = lot_count r cut) /\
  forall k g, nth_error cut k = Some g ->
    nth_error evf k = Some (ev_count (ev_row g) (firstn k cut)) /\
    nth_error lotf k = Some (match g_lot g with None => None | Some a => Some (lot_count (i_row a) (firstn k cut)) end) /\
    aget (ev_row g) evt = Some (ev_count (ev_row g) cut) /\
    (forall a, g_lot g = Some a -> aget (i_row a) lott = Some (lot_count (i_row a) cut)).
Proof. exact numbering_labels. Qed.

(** when it succeeds and when it fails (always with the RP2ValueError of a sanity check): on event blocks the run
    succeeds exactly when, at every fraction, the running total taken from its lot does not exceed the lot's amount and
    a lot whose total has reached its amount gets no later fraction *)
Theorem C10_numbering_succeeds_iff : forall to_day gls,
  let cut := take_until g_day to_day gls in
  ev_blocks cut ->
  (lots_ok cut -> exists evt lott,
     numbering to_day gls = Ok (ev_idx cut, lot_idx cut, evt, lott) /\
     count_table (fun r => ev_count r cut) evt /\ count_table (fun r => lot_count r cut) lott) /\
  (~ lots_ok cut -> numbering to_day gls = Err EValue).
Proof. exact numbering_blocks. Qed.
Theorem C10_numbering_errors_are_value_errors : forall to_day gls e, numbering to_day gls = Err e -> e = EValue.
Proof. exact numbering_err_kind. Qed.
(** with positive amounts and one lot per row, [lots_ok] says: no lot is over-consumed *)
Theorem C10_lots_ok_meaning : forall l, (forall g, In g l -> 0 < g_amt g) -> lot_rows_consistent l -> (lots_ok l <-> lots_within l).
Proof. exact lots_ok_iff_within. Qed.
(** the lot labels need no hypothesis at all: whenever the numbering succeeds they are right and [lots_ok] holds *)
Theorem C10_lot_labels_unconditional : forall to_day gls evf lotf evt lott,
  let cut := take_until g_day to_day gls in
  numbering to_day gls = Ok (evf, lotf, evt, lott) ->
  lots_ok cut /\ lotf = lot_idx cut /\ count_table (fun r => lot_count r cut) lott.
Proof. exact numbering_lot_labels. Qed.

(** the to-date cut never splits an event (all fractions of an event carry the event's date), so the housekeeping for
    "the last non-exhausted taxable event" finds nothing pending; what it would do otherwise: credit the pending count
    to the event of the last fraction THAT HAS A LOT -- right if that is the pending event, RP2ValueError if it is an
    earlier event, no entry if no fraction has a lot *)
Theorem C10_cut_keeps_events_whole : forall to_day l, ev_blocks l -> ev_blocks (take_until g_day to_day l).
Proof. exact take_until_ev_blocks. Qed.
Theorem C10_partial_event_quirk : forall to_day gls l c e,
  take_until g_day to_day gls = l ++ c ->
  ev_blocks l -> ev_partial_block e c -> (forall g, In g l -> ev_row g <> t_row e) -> lots_ok (l ++ c) ->
  match fold_left last_lot (l ++ c) None with
  | Some g =>
    if ev_row g =? t_row e
    then exists evt lott, numbering to_day gls = Ok (ev_idx (l ++ c), lot_idx (l ++ c), evt, lott) /\
           count_table (fun r => ev_count r (l ++ c)) evt /\ count_table (fun r => lot_count r (l ++ c)) lott
    else numbering to_day gls = Err EValue
  | None =>
    exists evt lott, numbering to_day gls = Ok (ev_idx (l ++ c), lot_idx (l ++ c), evt, lott) /\
      count_table (fun r => ev_count r l) evt /\ aget (t_row e) evt = None /\ count_table (fun r => lot_count r (l ++ c)) lott
  end.
Proof. exact numbering_partial_event. Qed.

(** lifted to [compute]: the labels (index, count) shown for the k-th fraction of a windowed run are those of its
    position j among ALL fractions up to the to-date ([cut] does not depend on the from-date), not among the shown ones *)
Theorem C10_fraction_counts_reflect_history : forall period from_day to_day allow exs hos t fs cd,
  compute period from_day to_day allow exs hos t fs = Ok cd ->
  let cut := take_until g_day to_day (cd_all_gls cd) in
  ev_blocks cut ->
  length (cd_evfrac cd) = length (cd_gls cd) /\ length (cd_lotfrac cd) = length (cd_gls cd) /\
  cd_gls cd = filter (fun g => from_day <=? g_day g) cut /\
  forall k g, nth_error (cd_gls cd) k = Some g ->
    exists j, nth_error cut j = Some g /\ length (filter (fun g => from_day <=? g_day g) (firstn j cut)) = k /\
      nth_error (cd_evfrac cd) k = Some (ev_label cut j g) /\
      nth_error (cd_lotfrac cd) k = Some (lot_label cut j g).
Proof. exact compute_fraction_labels. Qed.

(** the matcher's output has the block structure (and never over-consumes a lot), so on a history built from the
    sheet the numbering succeeds for every to-date with the specified result ... *)
Theorem C10_matcher_output_is_event_blocks : forall sched t evs fs gls,
  taxable_events t = Ok evs -> wf (t_ins t) sched (map event_of evs) ->
  fractions_of gen_always_repush sched t = Ok fs -> all_fractions t fs = Some gls ->
  ev_blocks gls /\ gls = match resolve_all evs (t_ins t) fs with Some l => l | None => [] end.
Proof. exact matcher_fractions_blocks. Qed.
Theorem C10_numbering_never_fails_after_matching : forall sched t evs fs gls to_day,
  taxable_events t = Ok evs -> wf (t_ins t) sched (map event_of evs) ->
  fractions_of gen_always_repush sched t = Ok fs -> all_fractions t fs = Some gls ->
  let cut := take_until g_day to_day gls in
  exists evt lott, numbering to_day gls = Ok (ev_idx cut, lot_idx cut, evt, lott) /\
    count_table (fun r => ev_count r cut) evt /\ count_table (fun r => lot_count r cut) lott.
Proof. exact matcher_numbering_total. Qed.
(** ... and end to end, for the whole computation on a parser-built history (hypotheses = those of C01/C02:
    [pipeline_wf]): the 'k/n' labels of the reports *)
Theorem C10_fraction_counts_end_to_end : forall h sched t period from_day to_day allow exs hos cd,
  build h = Ok t -> in_rows_increasing h -> amounts_positive h ->
  (forall evs, taxable_events t = Ok evs -> hist_same_instant_same_year evs /\ hist_sched_covers sched evs) ->
  NoDup (map fst sched) ->
  compute_tax period from_day to_day allow exs hos sched t = Ok cd ->
  let cut := take_until g_day to_day (cd_all_gls cd) in
  ev_blocks (cd_all_gls cd) /\ ev_blocks cut /\ lots_ok cut /\
  cd_gls cd = filter (fun g => from_day <=? g_day g) cut /\
  forall k g, nth_error (cd_gls cd) k = Some g ->
    exists j, nth_error cut j = Some g /\ length (filter (fun g => from_day <=? g_day g) (firstn j cut)) = k /\
      nth_error (cd_evfrac cd) k = Some (ev_label cut j g) /\
      nth_error (cd_lotfrac cd) k = Some (lot_label cut j g).
Proof. exact compute_tax_fraction_labels. Qed.

(** * "average price reflects all history up to the to-date": total fiat cost including fees of the acquisitions seen up to
    the to-date (31-digit left-to-right sum) divided by their total amount (exact), 0 when there is none; the acquisitions
    seen are exactly those dated up to the to-date when dates are monotone; the from-date does not occur *)
Theorem C10_average_price_spec : forall to_day ins d, price_per_unit to_day ins = Ok d ->
  let l := take_until in_day to_day ins in
  match l with
  | [] => d = dzero
  | _ => ddiv (dsum (map i_fiat_in_with_fee l)) (of_grid (sumZ (map i_crypto_in l))) = Some d
  end.
Proof. exact price_spec. Qed.
Theorem C10_average_price_all_history : forall to_day ins, day_sorted in_day ins ->
  take_until in_day to_day ins = filter (fun a => in_day a <=? to_day) ins.
Proof. exact price_all_history. Qed.
Theorem C10_average_price_accuracy : forall to_day ins d, price_per_unit to_day ins = Ok d ->
  let l := take_until in_day to_day ins in
  l <> [] ->
  let S := dsum (map i_fiat_in_with_fee l) in
  let C := of_grid (sumZ (map i_crypto_in l)) in
  (Qabs (to_q d - to_q S / to_q C) <= EPS * Qabs (to_q S / to_q C))%Q /\
  ((2 * nq (length l) * EPS <= 1)%Q ->
   (Qabs (to_q S - qsum (map i_fiat_in_with_fee l)) <= nq (length l) * (2 * EPS) * qabs_sum (map i_fiat_in_with_fee l))%Q).
Proof. exact price_accuracy. Qed.

(** the in-lot sold percentage (cited by C13) is the one figure that DOES depend on the window, by construction: for a lot
    dated inside the window it is the 31-digit sum of amount / lot amount over the SHOWN fractions taken from it
    ([sold_from from to r g]: [g] is taken from the lot of row [r] and that lot is dated in the window); lots dated
    outside the window have no entry *)
Theorem C10_sold_percentage_over_shown_fractions : forall period from_day to_day allow exs hos t fs cd,
  compute period from_day to_day allow exs hos t fs = Ok cd ->
  forall r, aget r (cd_sold_pct cd) = match filter (sold_from from_day to_day r) (cd_gls cd) with
                                      | [] => None
                                      | mine => Some (dsum (map lot_pct mine))
                                      end.
Proof. exact compute_sold_pct. Qed.

(** Non-vacuity (Proofs/C10Proofs.v, history A of Proofs/L4Examples.v: unfiltered run [cdA], window 2020-05-01 ..
    2020-07-07 [cdA_win], to-date only [cdA_to]; evaluated by the kernel): [tA_time_sorted], [tA_dates_monotone],
    [c10_views_instance], [c10_independent_instance], [c10_from_instance] instantiate the theorems above;
    [c10_example_window]: the window shows 4 of 7 fractions, a lot bought before the window is consumed inside it,
    the labels are "1 of 2", "2 of 2" for the sale split over two lots, the balances differ from the unfiltered
    run's (to-date) and the summary has the three 2020 lines that have a fraction up to the to-date.
    Numbering (Proofs/NumberingExamples.v): [labels_instance] instantiates C10_fraction_counts_end_to_end on history A with
    the window above ([hA_rows_increasing], [hA_amounts_positive], [hA_events_ok] discharge its hypotheses);
    [labels_values]: the specified labels of the 4 fractions up to the to-date, equal to cd_evfrac / cd_lotfrac;
    [labels_pending_lot]; [numbering_needs_blocks]: interleaved events are mis-numbered without an error;
    [numbering_overdrawn_lot]: event blocks, [lots_ok] false, RP2ValueError; [numbering_partial_quirks]: the three cases of
    C10_partial_event_quirk.  Average price (Proofs/PriceProofs.v): [price_instance] (history A: 2150 / 16); sold percentage
    (Proofs/SoldPctProofs.v): [sold_pct_instance], [sold_pct_window]. *)

Print Assumptions C10_views_inside_window.
Print Assumptions C10_views_exactly_the_window.
Print Assumptions C10_built_lists_are_time_sorted.
Print Assumptions C10_one_offset_is_monotone.
Print Assumptions C10_to_date_refuted.
Print Assumptions C10_figures_identical.
Print Assumptions C10_unfiltered_shows_all.
Print Assumptions C10_matching_ignores_window.
Print Assumptions C10_from_date_does_not_enter.
Print Assumptions C10_yearly_whole_years.
Print Assumptions C10_numbering_spec.
Print Assumptions C10_numbering_succeeds_iff.
Print Assumptions C10_numbering_errors_are_value_errors.
Print Assumptions C10_lots_ok_meaning.
Print Assumptions C10_lot_labels_unconditional.
Print Assumptions C10_cut_keeps_events_whole.
Print Assumptions C10_partial_event_quirk.
Print Assumptions C10_fraction_counts_reflect_history.
Print Assumptions C10_matcher_output_is_event_blocks.
Print Assumptions C10_numbering_never_fails_after_matching.
Print Assumptions C10_fraction_counts_end_to_end.
Print Assumptions C10_average_price_spec.
Print Assumptions C10_average_price_all_history.
Print Assumptions C10_average_price_accuracy.
Print Assumptions C10_sold_percentage_over_shown_fractions.

(** ------------------------------------------------------------------------------------------------------------
    No date window makes the computation fail (Proofs/ComputeTotal.v).  On the matcher's output for a history built by the
    constructors ([matched_history]: [build h = Ok t], IN rows in sheet order, events of one instant in one local year, the
    schedule covers every event year with distinct years, [fractions_of gen_always_repush sched t = Ok fs]) [compute] returns a
    result for EVERY from-date / to-date when negative balances are allowed, and otherwise fails only with the negative-balance
    error of C08 (the balance replay is the one stage whose outcome depends on the to-date). *)
From RP2V Require Import Model.TotalSpec Proofs.ComputeTotal Proofs.L4Examples Proofs.ComputeTotalExamples.

Theorem C10_every_window_computes : forall sched h t fs, matched_history sched h t fs ->
  forall period from_day to_day exs hos, exists cd, compute period from_day to_day true exs hos t fs = Ok cd.
Proof. exact compute_total_allow. Qed.

Theorem C10_window_failure_is_the_balance_guard : forall sched h t fs, matched_history sched h t fs ->
  forall period from_day to_day allow exs hos e,
  compute period from_day to_day allow exs hos t fs = Err e -> e = ENegBalance /\ allow = false.
Proof. exact compute_only_error. Qed.

(** the average price is defined for every to-date when the acquisitions are positive, and is 0 (no division) when the to-date
    lies before the first acquisition *)
Theorem C10_average_price_defined : forall to_day ins, (forall a, In a ins -> 0 < i_crypto_in a) -> exists d, price_per_unit to_day ins = Ok d.
Proof. exact price_total. Qed.
Theorem C10_average_price_before_first_acquisition : forall to_day ins,
  (forall a, In a ins -> to_day < local_day (i_ts a)) -> price_per_unit to_day ins = Ok dzero.
Proof. exact price_before_first_acquisition. Qed.

(** non-vacuity: history A is a [matched_history]; with the to-date 2016-07-18 (before its first acquisition) the run succeeds,
    shows nothing and reports the average price 0 *)
Theorem C10_every_window_nonvacuous :
  matched_history schedA hA tA fsA /\
  exists cd, compute 365 0 17000 false exsA hosA tA fsA = Ok cd /\ cd_price cd = dzero /\ cd_gls cd = [] /\ cd_balances cd = [] /\ cd_yearly cd = [].
Proof. exact (conj hA_matched to_date_before_first_acquisition). Qed.

Print Assumptions C10_every_window_computes.
Print Assumptions C10_window_failure_is_the_balance_guard.
Print Assumptions C10_average_price_defined.
Print Assumptions C10_average_price_before_first_acquisition.
Print Assumptions C10_every_window_nonvacuous.

(** Source tie (regenerated on every run).  What the window does in ComputedData.__init__, read from computed_data.py and
    abstract_entry_set.py by the translator (Model/GeneratedTie.v; interpreters in Model/ComputedGen.v): the yearly summary is
    computed from the UNFILTERED fractions with the to-date cut and filtered by `y.year >= from_date.year`; the sold percentage
    runs over the filtered fractions; the average price over the unfiltered acquisitions up to the to-date -- these are the
    hand-written [yearly_list], [sold_pct_add] fold and [price_per_unit].  The two flags: `duplicate` re-sorts its copy
    unconditionally (`_force_sort`: the fraction numbering is recomputed under the window's to-date, which is what
    [numbering to_day] in [compute] models; the `_check_sort` variant is not modelled) and both `duplicate` calls precede the
    yearly summary.  An edit that changes any of this makes this theorem stop compiling (Proofs/ComputedGen*.v). *)
From RP2V Require Import Model.GeneratedTie Model.ComputedGen Proofs.ComputedGenProofs.
Theorem C10_source_tie_window_views :
  ((forall period from_day to_day gls, yearly_list_gen period from_day to_day gls = yearly_list period to_day (year_of_day from_day) gls) /\
   (forall from_day to_day gls,
      sold_pct_gen from_day to_day gls = fold_left (sold_pct_add from_day to_day) (iter_window g_day from_day to_day gls) (Ok [])) /\
   (forall from_day to_day ins, price_per_unit_gen from_day to_day ins = price_per_unit to_day ins)) /\
  gen_duplicate_force_sorts = true /\ gen_cd_duplicate_before_yearly = true.
Proof. exact window_views_gen_agree. Qed.
Print Assumptions C10_source_tie_window_views.

(** Source tie (regenerated on every run): the window itself.  `EntrySetIterator` and `AbstractEntrySet.duplicate` / `__iter__`
    are re-read from abstract_entry_set.py as tables (Model/GeneratedTie.v, fragment entry_set: per entry the tests in source
    order - which date of the entry, which bound, which comparison, stop or skip -, the optional skipping loop of `__init__`,
    the statements of `duplicate` with `_force_sort` inlined) and interpreted by Model/EntrySetGen.v.  For the current source:
    a loop over `s.duplicate(from_date, to_date)` sees exactly [iter_window] on the entry's OWN calendar day
    (`timestamp.date()`), the to-date test first and STOPPING the traversal (finding F9), the from-date test only skipping; and
    the copy has always been re-sorted under its own to-date, whatever the state of the original (so the fraction numbering
    of the view is [numbering to_day]).  A window on the UTC day or on instants, an upper bound without the sub-second tail, a
    from-date test on the leading entries only, or a `duplicate` that sorts only "if not sorted yet" stops compiling here
    (Proofs/EntrySetGenProofs.v). *)
From RP2V Require Import Model.EntrySetGen Proofs.EntrySetGenProofs.
Theorem C10_source_tie_entry_window :
  (forall (A : Type) (ts : A -> tstamp) from_arg to_arg (st : es_state) (l : list A),
     window_view_gen ts from_arg to_arg st l = (iter_window (fun x => local_day (ts x)) from_arg to_arg l, Some to_arg)) /\
  (forall t, it_key_val gen_es_sort_key t = utc_us t).
Proof. exact (conj window_copy_gen_agrees es_sort_key_is_instant). Qed.
Print Assumptions C10_source_tie_entry_window.
