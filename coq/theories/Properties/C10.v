(** Property C10 -- INTERIM statement file: the unbounded theorems for this property are being
    proved (Proofs/YearlyProofs.v, BalanceProofs.v, FilterProofs.v); it currently pins the
    constants the model takes from the source. *)
From RP2V Require Import Base.Prelude Base.Dec Model.Types Model.Generated.
Open Scope Z_scope.
Theorem C10_constants : gen_balance_mask_digits = 10 /\ gen_crypto_decimals = 13.
Proof. split; reflexivity. Qed.
Print Assumptions C10_constants.
