(** Property C16 -- every supported option combination runs to completion on every valid input.

    PARTIAL.  Proved here, over the control-flow model of a run (Model/MainRun.v, mirroring
    rp2_main._rp2_main_internal) and the tables regenerated from the working tree on every run
    (country tables, template / catalogue / plugin inventory, the flags of fragment l6_flags):
    templates exist for every (country, generator of that country, language the country ships), and a
    supported, valid run exits 0 having written exactly the configured reports.

    First half of this file: the report generators enter MainRun as "succeeds unless a known failure
    condition holds", the conditions being facts about the input supplied from outside.
    Second half (COMPOSITION, Model/RunCompose.v, Proofs/RunCompose.v): the same loop runs the four
    executable report MODELS (full report, tax report us / ie, open positions, jp) on one [rinput];
    every configured report is produced, in discovery order, and the facts MainRun needs (asset computes,
    negative balance, taxable types in the window, hidden summary year, holders with a balance) are
    COMPUTED from the rinput by the report models ([inp_of_rinput]); MainRun's generator predicate is
    shown to agree with the modelled generators.  What remains assumed is spelled out at
    [C16_reports_all_produced] / [C16_run_total_of_models].  Everything below RP2's own control flow
    (ezodf, lxml, gettext, the file system) is established only by the correspondence over real CLI runs
    (harness/props/c16.py) and the cell-by-cell comparisons of C13 / C14 / C15 / C20.

    This file contains only statements closed by [exact] of lemmas proved in Proofs/C16Proofs.v,
    Proofs/RunCompose.v, Proofs/RunComposeExamples.v. *)
From RP2V Require Import Base.Prelude Base.Sorting Model.Types.
From RP2V Require Import Model.Generated Model.MainRun Proofs.RunLemmas.
From RP2V Require Import Proofs.C16Proofs.
From RP2V Require Import Base.Time Base.Dec Base.Assoc Model.Txn Model.Pipeline Model.Computed Model.Grid Model.ReportInput
  Model.FullReport Model.TaxReport Model.OpenPos Model.JpReport Model.RunCompose
  Proofs.FullReportProofs Proofs.FullReportWitness Proofs.OpenPosProofs Proofs.RunCompose Proofs.RunComposeExamples.
Open Scope Z_scope.

(** For every language for which a country ships at least one template: the catalogue exists and every
    generator of the country has a template containing its legend sheet. *)
Theorem C16_template_exists : forall c lang g,
  In lang (country_langs_from_inventory c) -> In g (country_generators c) ->
  template_exists c g lang = true /\ template_usable c g lang = true /\ In lang locale_inventory.
Proof. exact template_exists_all. Qed.

(** Every entry point except rp2_jp ships its default language ... *)
Theorem C16_default_language_shipped : forall c, c <> JP -> shipped c (country_default_language c) = true.
Proof. exact default_language_shipped. Qed.

(** ... rp2_jp does not (finding F6: no template for `ja`) -- with default options it exits 1. *)
Theorem C16_refuted_jp_default_language :
  shipped JP (country_default_language JP) = false /\ run JP opts0 cfg0 [facts0] = (1, []).
Proof. exact (conj jp_default_language_not_shipped run_refuted_jp_default_language). Qed.

(** Generator discovery finds exactly the generators the country configures. *)
Theorem C16_discovery_exact : forall c,
  (forall g, In g (discovery c) <-> In g (country_generators c)) /\ undiscovered c = [] /\
  length (discovery c) = length (country_generators c).
Proof. exact discovery_spec. Qed.

(** Main statement.  [supported]: -m is one of the country's choices, the language is shipped, from <= to.
    [valid_run]: -m and [accounting_methods] not both given, schedule entries name existing methods, every
    processed asset parses and computes (negative balances only with -n) and its taxable events have
    taxable types.  [known_conditions_absent]: not (jp with both -f and -t) (F7); at most 21 holders with
    balances per asset (F12).  The hypotheses F2 / F4 / F10 once needed are discharged from the regenerated
    flags (lemmas summary_link_guarded, ie_types_cover, single_schedule_any_year): on a tree without those
    repairs this file does not compile. *)
Theorem C16_run_total_partial : forall c o cf inp,
  supported c o -> valid_run c o cf inp -> known_conditions_absent c o cf inp ->
  run c o cf inp = (0, map (output_name o (expected_label c o cf)) (discovery c)).
Proof. exact run_total. Qed.

Theorem C16_all_reports_written_partial : forall c o cf inp g,
  supported c o -> valid_run c o cf inp -> known_conditions_absent c o cf inp -> In g (country_generators c) ->
  fst (run c o cf inp) = 0 /\ In (output_name o (expected_label c o cf) g) (snd (run c o cf inp)).
Proof. exact run_total_all_reports. Qed.

(** The two remaining hypotheses are necessary for the code as it is (findings F7, F12). *)
Theorem C16_refuted_jp_from_and_to :
  exists files, run JP {| o_method := None; o_lang := Some s_en; o_from := 18628; o_to := 18992; o_asset := None; o_neg := false;
                          o_prefix := []; o_plugin := false |} cfg0 [facts0] = (1, files) /\ length files = 2%nat.
Proof. exact run_refuted_jp_from_and_to. Qed.

Theorem C16_refuted_22_holders :
  exists files, run US opts0 cfg0 [{| af_name := btc; af_present := true; af_negative := false; af_event_types := [];
                                       af_hidden_year := false; af_holders := 22 |}] = (1, files) /\ length files = 1%nat.
Proof. exact run_refuted_22_holders. Qed.

(** ------------------------------------------------------------------------------------------------------------
    COMPOSITION with the report models.  [run_reports c v i] (Model/RunCompose.v) runs, in the discovery order of MainRun, the
    modelled generator of every configured report on the rinput [i] -- [full_report code_flags], [tax_report] with the
    regenerated US / IE tables, [open_positions], [jp_report] with the structural facts read from the source -- and stops at
    the first failure; [v : renv] = language codes and the full-report template sizes / translations (universally quantified).

    [reports_ok_hyps v i] (Proofs/RunCompose.v), hypotheses taken from the statements of the per-report theorems:
      roh_holders  at most [max_holders] = 21 holders with a balance per asset                       (F12; C13_tax_sheet_capacity)
      roh_window   not (rp2_jp with both -f and -t)                                                  (F7;  C20_report_produced)
      roh_types    every fraction's event type is one a taxable event can have                       (C14_us/ie_report_produced)
      roh_side     [reports_side_hyps]: the full-report template holds the input-independent cells ([fenv_fits]); open
                   positions: catalogue + template for the language, the model's single-method lookup ([method_lookup_ok]: the
                   model of Model/OpenPos.v still keys a one-entry schedule by 1970 -- stricter than the repaired source), the
                   13-decimal comparisons of the first pass / unit style are defined (sizes), every listed asset has an account
                   with a positive balance (C15_no_lookup_fails; follows from the C07 reconciliation, which finding F8 breaks --
                   kept as a hypothesis); tax report: every fraction's row can be built ([mk_items]: figures and lot labels
                   defined, C14_report_produced).
    Not needed any more: legend method lookup (F10 repair, C13_legend_methods), summary-year lookup (F2 repair,
    C19_summary_lookup_never_fails), IE routing (F4 repair, C14_ie_routing_total), capacities of In-Out / tax-report / JP / open
    positions sheets (C13_in_out_sheet_capacity, C14_data_sheets_within_capacity, C20_sheets_within_capacity, C15_capacity).
    All of [reports_ok_hyps] is decidable: [reports_ok_b] is a sound checker. *)

(** every configured report is produced, in order, none fails *)
Theorem C16_reports_all_produced : forall v i cs,
  computed_all i (rp_assets i) = Ok cs -> reports_ok_hyps v i ->
  exists l, run_reports (rp_country i) v i = Ok l /\ map fst l = discovery (rp_country i) /\
            forall g sheets, In (g, sheets) l -> run_gen v i g = inl sheets.
Proof. exact run_reports_total. Qed.

(** a single generator needs only its own condition *)
Theorem C16_report_of_each_generator : forall v i cs g,
  computed_all i (rp_assets i) = Ok cs -> reports_side_hyps v i -> In g (discovery (rp_country i)) ->
  gen_condition_absent i g -> exists sheets, run_gen v i g = inl sheets.
Proof. exact run_gen_total_of_condition. Qed.

(** ... and no write of a produced report leaves its sheet *)
Theorem C16_reports_within_capacity : forall v i g sheets, run_gen v i g = inl sheets -> within_capacity g sheets.
Proof. exact run_gen_within_capacity. Qed.

(** MainRun's input facts derived from the report models.  (a) the compute stage: "every processed asset computes, negative
    balances only with -n" on the derived facts holds exactly when ComputedData exists for every asset *)
Theorem C16_asset_stage_derived : forall c o cf i, run_matches c o cf i ->
  (forallb (asset_computes o (inp_of_rinput i)) (assets_to_process o cf) = true <-> exists cs, computed_all i (rp_assets i) = Ok cs).
Proof. exact assets_stage_iff. Qed.

(** (b) what MainRun tests about the input for generator g is exactly the known condition of g stated on the rinput *)
Theorem C16_generator_condition_derived : forall c o cf i cs g,
  run_matches c o cf i -> computed_all i (rp_assets i) = Ok cs ->
  (jp_window_rejected o g = false /\ generator_fails_on_input g (inp_of_rinput i) = false) <-> gen_condition_absent i g.
Proof. exact mainrun_condition_iff. Qed.

(** (c) MainRun predicts success for g  =>  the modelled generator returns its report (under [reports_side_hyps] only) *)
Theorem C16_generator_outcome_of_models : forall c o cf lang s v i cs g f,
  run_matches c o cf i -> computed_all i (rp_assets i) = Ok cs -> reports_side_hyps v i -> In g (discovery c) ->
  run_generator c o lang s (inp_of_rinput i) g = Some f ->
  exists sheets, run_gen v i g = inl sheets.
Proof. exact gen_outcome_of_models. Qed.

(** (d) and conversely, for every generator but the full report (for which only the witness below shows that more than 21
    holders overflow), given the facts of L6 alone (usable template, defined file-name label) *)
Theorem C16_generator_outcome_iff : forall c o cf lang s v i cs g label,
  run_matches c o cf i -> computed_all i (rp_assets i) = Ok cs -> reports_side_hyps v i -> In g (discovery c) ->
  g <> GFullReport -> template_usable c g lang = true -> method_label s = Some label ->
  (run_generator c o lang s (inp_of_rinput i) g = Some (output_name o label g) <-> exists sheets, run_gen v i g = inl sheets).
Proof. exact gen_outcome_iff. Qed.

(** Main statement, composed: [valid_run'] = options / configuration and rinput describe the same run ([run_matches]), -m and
    [accounting_methods] not both given, schedule entries name existing methods, ComputedData exists for every asset.  The run
    exits 0 with exactly the expected files, the modelled generators produce exactly those reports; [valid_run] and
    [known_conditions_absent] of C16_run_total_partial are derived, not assumed. *)
Theorem C16_run_total_of_models : forall c o cf v i,
  supported c o -> valid_run' c o cf i -> reports_ok_hyps v i ->
  run c o cf (inp_of_rinput i) = (0, map (output_name o (expected_label c o cf)) (discovery c)) /\
  exists l, run_reports c v i = Ok l /\ map fst l = discovery c /\
            map (fun gs => output_name o (expected_label c o cf) (fst gs)) l = snd (run c o cf (inp_of_rinput i)).
Proof. exact run_total_of_models. Qed.

(** the hypotheses can be checked by computation *)
Theorem C16_hypotheses_decidable : forall v i, reports_ok_b v i = true -> reports_ok_hyps v i.
Proof. exact reports_ok_b_sound. Qed.

(** non-vacuity: the two-asset input [ex2_i] (AAA: BUY, SELL; BBB: BUY, INTEREST, SELL) meets the hypotheses under rp2_us and
    rp2_ie, and all reports of the country come out *)
Theorem C16_composition_nonvacuous_us :
  ((exists cs, computed_all ex2_i (rp_assets ex2_i) = Ok cs /\ length cs = 2%nat) /\ reports_ok_hyps (wv 0) ex2_i) /\
  (exists l, run_reports US (wv 0) ex2_i = Ok l /\
     map (fun gs => (fst gs, length (snd gs))) l = [(GOpenPositions, 3%nat); (GFullReport, 6%nat); (GTaxUS, 3%nat)]) /\
  (supported US opts0 /\ run_matches US opts0 cfg2 ex2_i /\
   (o_method opts0 = None \/ cf_sched cfg2 = []) /\ Forall (fun e => str_in (snd e) method_plugins = true) (cf_sched cfg2)).
Proof. exact (conj ex2_us_hyps (conj ex2_us_reports ex2_run_matches)). Qed.
Theorem C16_composition_nonvacuous_ie :
  ((exists cs, computed_all ex2_ie (rp_assets ex2_ie) = Ok cs /\ length cs = 2%nat) /\ reports_ok_hyps (wv 3) ex2_ie) /\
  (exists l, run_reports IE (wv 3) ex2_ie = Ok l /\
     map (fun gs => (fst gs, length (snd gs))) l = [(GOpenPositions, 3%nat); (GFullReport, 6%nat); (GTaxIE, 3%nat)]).
Proof. exact (conj ex2_ie_hyps ex2_ie_reports). Qed.

(** the two remaining conditions are necessary for the report models too.  F12: 22 holders with a balance -- open_positions is
    written, the full report stage fails with IndexError, the tax report is never started; everything else assumed holds *)
Theorem C16_composed_refuted_22_holders : exists sheets files,
  run_reports_trace US (wv 0) (w_holders 22) = ([(GOpenPositions, sheets)], Some (GFullReport, GFIndexError)) /\
  run_reports US (wv 0) (w_holders 22) = Err EInternal /\
  map (fun ac => holders_with_balance (w_holders 22) (snd ac)) (computed_list (w_holders 22)) = [22] /\
  side_hyps_b (wv 0) (w_holders 22) = true /\
  generator_fails_on_input GFullReport (inp_of_rinput (w_holders 22)) = true /\
  run US opts0 cfg0 (inp_of_rinput (w_holders 22)) = (1, files) /\ length files = 1%nat.
Proof. exact compose_refuted_22_holders. Qed.

(** F7: rp2_jp with both dates -- open_positions and the full report are written, then the JP stage refuses *)
Theorem C16_composed_refuted_jp_from_and_to : exists s1 s2 files,
  run_reports_trace JP (wv 0) (w_jp 18628 18992) = ([(GOpenPositions, s1); (GFullReport, s2)], Some (GTaxJP, GFErr EInternal)) /\
  run_reports JP (wv 0) (w_jp 18628 18992) = Err EInternal /\
  side_hyps_b (wv 0) (w_jp 18628 18992) = true /\
  run JP o_jp_both cfg0 (inp_of_rinput (w_jp 18628 18992)) = (1, files) /\ length files = 2%nat.
Proof. exact compose_refuted_jp_from_and_to. Qed.

Print Assumptions C16_template_exists.
Print Assumptions C16_default_language_shipped.
Print Assumptions C16_refuted_jp_default_language.
Print Assumptions C16_discovery_exact.
Print Assumptions C16_run_total_partial.
Print Assumptions C16_all_reports_written_partial.
Print Assumptions C16_refuted_jp_from_and_to.
Print Assumptions C16_refuted_22_holders.
Print Assumptions C16_reports_all_produced.
Print Assumptions C16_report_of_each_generator.
Print Assumptions C16_reports_within_capacity.
Print Assumptions C16_asset_stage_derived.
Print Assumptions C16_generator_condition_derived.
Print Assumptions C16_generator_outcome_of_models.
Print Assumptions C16_generator_outcome_iff.
Print Assumptions C16_run_total_of_models.
Print Assumptions C16_hypotheses_decidable.
Print Assumptions C16_composition_nonvacuous_us.
Print Assumptions C16_composition_nonvacuous_ie.
Print Assumptions C16_composed_refuted_22_holders.
Print Assumptions C16_composed_refuted_jp_from_and_to.
