(** Property C16 -- every supported option combination runs to completion on every valid input.

    PARTIAL.  Proved here, over the control-flow model of a run (Model/MainRun.v, mirroring
    rp2_main._rp2_main_internal) and the tables regenerated from the working tree on every run
    (country tables, template / catalogue / plugin inventory, the flags of fragment l6_flags):
    templates exist for every (country, generator of that country, language the country ships), and a
    supported, valid run exits 0 having written exactly the configured reports.  The report
    generators themselves enter as "succeeds unless a known failure condition holds"; that this is
    what the real generators do (and everything below RP2's own control flow: ezodf, lxml, gettext,
    the file system) is established only by the correspondence over real CLI runs (harness/props/c16.py).

    This file contains only statements closed by [exact] of lemmas proved in Proofs/C16Proofs.v. *)
From RP2V Require Import Base.Prelude Base.Sorting Model.Types.
From RP2V Require Import Model.Generated Model.MainRun Proofs.RunLemmas.
From RP2V Require Import Proofs.C16Proofs.
Open Scope Z_scope.

(** For every language for which a country ships at least one template: the catalogue exists and every
    generator of the country has a template containing its legend sheet. *)
Theorem C16_template_exists : forall c lang g,
  In lang (country_langs_from_inventory c) -> In g (country_generators c) ->
  template_exists c g lang = true /\ template_usable c g lang = true /\ In lang locale_inventory.
Proof. exact template_exists_all. Qed.

(** Every entry point except rp2_jp ships its default language ... *)
Theorem C16_default_language_shipped : forall c, c <> JP -> shipped c (country_default_language c) = true.
Proof. exact default_language_shipped. Qed.

(** ... rp2_jp does not (finding F6: no template for `ja`) -- with default options it exits 1. *)
Theorem C16_refuted_jp_default_language :
  shipped JP (country_default_language JP) = false /\ run JP opts0 cfg0 [facts0] = (1, []).
Proof. exact (conj jp_default_language_not_shipped run_refuted_jp_default_language). Qed.

(** Generator discovery finds exactly the generators the country configures. *)
Theorem C16_discovery_exact : forall c,
  (forall g, In g (discovery c) <-> In g (country_generators c)) /\ undiscovered c = [] /\
  length (discovery c) = length (country_generators c).
Proof. exact discovery_spec. Qed.

(** Main statement.  [supported]: -m is one of the country's choices, the language is shipped, from <= to.
    [valid_run]: -m and [accounting_methods] not both given, schedule entries name existing methods, every
    processed asset parses and computes (negative balances only with -n) and its taxable events have
    taxable types.  [known_conditions_absent]: not (jp with both -f and -t) (F7); at most 21 holders with
    balances per asset (F12).  The hypotheses F2 / F4 / F10 once needed are discharged from the regenerated
    flags (lemmas summary_link_guarded, ie_types_cover, single_schedule_any_year): on a tree without those
    repairs this file does not compile. *)
Theorem C16_run_total_partial : forall c o cf inp,
  supported c o -> valid_run c o cf inp -> known_conditions_absent c o cf inp ->
  run c o cf inp = (0, map (output_name o (expected_label c o cf)) (discovery c)).
Proof. exact run_total. Qed.

Theorem C16_all_reports_written_partial : forall c o cf inp g,
  supported c o -> valid_run c o cf inp -> known_conditions_absent c o cf inp -> In g (country_generators c) ->
  fst (run c o cf inp) = 0 /\ In (output_name o (expected_label c o cf) g) (snd (run c o cf inp)).
Proof. exact run_total_all_reports. Qed.

(** The two remaining hypotheses are necessary for the code as it is (findings F7, F12). *)
Theorem C16_refuted_jp_from_and_to :
  exists files, run JP {| o_method := None; o_lang := Some s_en; o_from := 18628; o_to := 18992; o_asset := None; o_neg := false;
                          o_prefix := []; o_plugin := false |} cfg0 [facts0] = (1, files) /\ length files = 2%nat.
Proof. exact run_refuted_jp_from_and_to. Qed.

Theorem C16_refuted_22_holders :
  exists files, run US opts0 cfg0 [{| af_name := btc; af_present := true; af_negative := false; af_event_types := [];
                                       af_hidden_year := false; af_holders := 22 |}] = (1, files) /\ length files = 1%nat.
Proof. exact run_refuted_22_holders. Qed.

Print Assumptions C16_template_exists.
Print Assumptions C16_default_language_shipped.
Print Assumptions C16_refuted_jp_default_language.
Print Assumptions C16_discovery_exact.
Print Assumptions C16_run_total_partial.
Print Assumptions C16_all_reports_written_partial.
Print Assumptions C16_refuted_jp_from_and_to.
Print Assumptions C16_refuted_22_holders.
