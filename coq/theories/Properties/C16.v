(** Property C16 -- every supported option combination runs to completion on every valid input.

    PARTIAL.  Proved here, over the control-flow model of a run (Model/MainRun.v, mirroring
    rp2_main._rp2_main_internal) and the tables regenerated from the working tree on every run
    (country tables, template / catalogue / plugin inventory, the flags of fragment l6_flags):
    templates exist for every (country, generator of that country, language the country ships), and a
    supported, valid run exits 0 having written exactly the configured reports.

    First half of this file: the report generators enter MainRun as "succeeds unless a known failure
    condition holds", the conditions being facts about the input supplied from outside.
    Second half (COMPOSITION, Model/RunCompose.v, Proofs/RunCompose.v): the same loop runs the four
    executable report MODELS (full report, tax report us / ie, open positions, jp) on one [rinput];
    every configured report is produced, in discovery order, and the facts MainRun needs (asset computes,
    negative balance, taxable types in the window, hidden summary year, holders with a balance) are
    COMPUTED from the rinput by the report models ([inp_of_rinput]); MainRun's generator predicate is
    shown to agree with the modelled generators.  What remains assumed is spelled out at
    [C16_reports_all_produced] / [C16_run_total_of_models].  Everything below RP2's own control flow
    (ezodf, lxml, gettext, the file system) is established only by the correspondence over real CLI runs
    (harness/props/c16.py) and the cell-by-cell comparisons of C13 / C14 / C15 / C20.

    This file contains only statements closed by [exact] of lemmas proved in Proofs/C16Proofs.v,
    Proofs/RunCompose.v, Proofs/RunComposeExamples.v. *)
From RP2V Require Import Base.Prelude Base.Sorting Model.Types.
From RP2V Require Import Model.Generated Model.MainRun Proofs.RunLemmas.
From RP2V Require Import Proofs.C16Proofs.
From RP2V Require Import Base.Time Base.Dec Base.Assoc Model.Txn Model.Pipeline Model.Computed Model.Grid Model.ReportInput
  Model.FullReport Model.TaxReport Model.OpenPos Model.JpReport Model.RunCompose
  Proofs.FullReportProofs Proofs.FullReportWitness Proofs.OpenPosProofs Proofs.RunCompose Proofs.RunComposeExamples.
Open Scope Z_scope.

(** For every language for which a country ships at least one template: the catalogue exists and every
    generator of the country has a template containing its legend sheet. *)
Theorem C16_template_exists : forall c lang g,
  In lang (country_langs_from_inventory c) -> In g (country_generators c) ->
  template_exists c g lang = true /\ template_usable c g lang = true /\ In lang locale_inventory.
Proof. exact template_exists_all. Qed.

(** Every entry point except rp2_jp ships its default language ... *)
Theorem C16_default_language_shipped : forall c, c <> JP -> shipped c (country_default_language c) = true.
Proof. exact default_language_shipped. Qed.

(** ... rp2_jp does not (finding F6: no template for `ja`) -- with default options it exits 1. *)
Theorem C16_refuted_jp_default_language :
  shipped JP (country_default_language JP) = false /\ run JP opts0 cfg0 [facts0] = (1, []).
Proof. exact (conj jp_default_language_not_shipped run_refuted_jp_default_language). Qed.

(** Generator discovery finds exactly the generators the country configures. *)
Theorem C16_discovery_exact : forall c,
  (forall g, In g (discovery c) <-> In g (country_generators c)) /\ undiscovered c = [] /\
  length (discovery c) = length (country_generators c).
Proof. exact discovery_spec. Qed.

(** Main statement.  [supported]: -m is one of the country's choices, the language is shipped, from <= to.
    [valid_run]: -m and [accounting_methods] not both given, schedule entries name existing methods, every
    processed asset parses and computes (negative balances only with -n) and its taxable events have
    taxable types.  [known_conditions_absent]: not (jp with both -f and -t) (F7); at most 21 holders with
    balances per asset (F12).  The hypotheses F2 / F4 / F10 once needed are discharged from the regenerated
    flags (lemmas summary_link_guarded, ie_types_cover, single_schedule_any_year): on a tree without those
    repairs this file does not compile. *)
Theorem C16_run_total_partial : forall c o cf inp,
  supported c o -> valid_run c o cf inp -> known_conditions_absent c o cf inp ->
  run c o cf inp = (0, map (output_name o (expected_label c o cf)) (discovery c)).
Proof. exact run_total. Qed.

Theorem C16_all_reports_written_partial : forall c o cf inp g,
  supported c o -> valid_run c o cf inp -> known_conditions_absent c o cf inp -> In g (country_generators c) ->
  fst (run c o cf inp) = 0 /\ In (output_name o (expected_label c o cf) g) (snd (run c o cf inp)).
Proof. exact run_total_all_reports. Qed.

(** The two remaining hypotheses are necessary for the code as it is (findings F7, F12). *)
Theorem C16_refuted_jp_from_and_to :
  exists files, run JP {| o_method := None; o_lang := Some s_en; o_from := 18628; o_to := 18992; o_asset := None; o_neg := false;
                          o_prefix := []; o_plugin := false |} cfg0 [facts0] = (1, files) /\ length files = 2%nat.
Proof. exact run_refuted_jp_from_and_to. Qed.

Theorem C16_refuted_22_holders :
  exists files, run US opts0 cfg0 [{| af_name := btc; af_present := true; af_negative := false; af_event_types := [];
                                       af_hidden_year := false; af_holders := 22 |}] = (1, files) /\ length files = 1%nat.
Proof. exact run_refuted_22_holders. Qed.

(** ------------------------------------------------------------------------------------------------------------
    COMPOSITION with the report models.  [run_reports c v i] (Model/RunCompose.v) runs, in the discovery order of MainRun, the
    modelled generator of every configured report on the rinput [i] -- [full_report code_flags], [tax_report] with the
    regenerated US / IE tables, [open_positions], [jp_report] with the structural facts read from the source -- and stops at
    the first failure; [v : renv] = language codes and the full-report template sizes / translations (universally quantified).

    [reports_ok_hyps v i] (Proofs/RunCompose.v), hypotheses taken from the statements of the per-report theorems:
      roh_holders  at most [max_holders] = 21 holders with a balance per asset                       (F12; C13_tax_sheet_capacity)
      roh_window   not (rp2_jp with both -f and -t)                                                  (F7;  C20_report_produced)
      roh_types    every fraction's event type is one a taxable event can have                       (C14_us/ie_report_produced)
      roh_side     [reports_side_hyps]: the full-report template holds the input-independent cells ([fenv_fits]); open
                   positions: catalogue + template for the language, the model's single-method lookup ([method_lookup_ok]: the
                   model of Model/OpenPos.v still keys a one-entry schedule by 1970 -- stricter than the repaired source), the
                   13-decimal comparisons of the first pass / unit style are defined (sizes), every listed asset has an account
                   with a positive balance (C15_no_lookup_fails; follows from the C07 reconciliation, which finding F8 breaks --
                   kept as a hypothesis); tax report: every fraction's row can be built ([mk_items]: figures and lot labels
                   defined, C14_report_produced).
    Not needed any more: legend method lookup (F10 repair, C13_legend_methods), summary-year lookup (F2 repair,
    C19_summary_lookup_never_fails), IE routing (F4 repair, C14_ie_routing_total), capacities of In-Out / tax-report / JP / open
    positions sheets (C13_in_out_sheet_capacity, C14_data_sheets_within_capacity, C20_sheets_within_capacity, C15_capacity).
    All of [reports_ok_hyps] is decidable: [reports_ok_b] is a sound checker. *)

(** every configured report is produced, in order, none fails *)
Theorem C16_reports_all_produced : forall v i cs,
  computed_all i (rp_assets i) = Ok cs -> reports_ok_hyps v i ->
  exists l, run_reports (rp_country i) v i = Ok l /\ map fst l = discovery (rp_country i) /\
            forall g sheets, In (g, sheets) l -> run_gen v i g = inl sheets.
Proof. exact run_reports_total. Qed.

(** a single generator needs only its own condition *)
Theorem C16_report_of_each_generator : forall v i cs g,
  computed_all i (rp_assets i) = Ok cs -> reports_side_hyps v i -> In g (discovery (rp_country i)) ->
  gen_condition_absent i g -> exists sheets, run_gen v i g = inl sheets.
Proof. exact run_gen_total_of_condition. Qed.

(** ... and no write of a produced report leaves its sheet *)
Theorem C16_reports_within_capacity : forall v i g sheets, run_gen v i g = inl sheets -> within_capacity g sheets.
Proof. exact run_gen_within_capacity. Qed.

(** MainRun's input facts derived from the report models.  (a) the compute stage: "every processed asset computes, negative
    balances only with -n" on the derived facts holds exactly when ComputedData exists for every asset *)
Theorem C16_asset_stage_derived : forall c o cf i, run_matches c o cf i ->
  (forallb (asset_computes o (inp_of_rinput i)) (assets_to_process o cf) = true <-> exists cs, computed_all i (rp_assets i) = Ok cs).
Proof. exact assets_stage_iff. Qed.

(** (b) what MainRun tests about the input for generator g is exactly the known condition of g stated on the rinput *)
Theorem C16_generator_condition_derived : forall c o cf i cs g,
  run_matches c o cf i -> computed_all i (rp_assets i) = Ok cs ->
  (jp_window_rejected o g = false /\ generator_fails_on_input g (inp_of_rinput i) = false) <-> gen_condition_absent i g.
Proof. exact mainrun_condition_iff. Qed.

(** (c) MainRun predicts success for g  =>  the modelled generator returns its report (under [reports_side_hyps] only) *)
Theorem C16_generator_outcome_of_models : forall c o cf lang s v i cs g f,
  run_matches c o cf i -> computed_all i (rp_assets i) = Ok cs -> reports_side_hyps v i -> In g (discovery c) ->
  run_generator c o lang s (inp_of_rinput i) g = Some f ->
  exists sheets, run_gen v i g = inl sheets.
Proof. exact gen_outcome_of_models. Qed.

(** (d) and conversely, for every generator but the full report (for which only the witness below shows that more than 21
    holders overflow), given the facts of L6 alone (usable template, defined file-name label) *)
Theorem C16_generator_outcome_iff : forall c o cf lang s v i cs g label,
  run_matches c o cf i -> computed_all i (rp_assets i) = Ok cs -> reports_side_hyps v i -> In g (discovery c) ->
  g <> GFullReport -> template_usable c g lang = true -> method_label s = Some label ->
  (run_generator c o lang s (inp_of_rinput i) g = Some (output_name o label g) <-> exists sheets, run_gen v i g = inl sheets).
Proof. exact gen_outcome_iff. Qed.

(** Main statement, composed: [valid_run'] = options / configuration and rinput describe the same run ([run_matches]), -m and
    [accounting_methods] not both given, schedule entries name existing methods, ComputedData exists for every asset.  The run
    exits 0 with exactly the expected files, the modelled generators produce exactly those reports; [valid_run] and
    [known_conditions_absent] of C16_run_total_partial are derived, not assumed. *)
Theorem C16_run_total_of_models : forall c o cf v i,
  supported c o -> valid_run' c o cf i -> reports_ok_hyps v i ->
  run c o cf (inp_of_rinput i) = (0, map (output_name o (expected_label c o cf)) (discovery c)) /\
  exists l, run_reports c v i = Ok l /\ map fst l = discovery c /\
            map (fun gs => output_name o (expected_label c o cf) (fst gs)) l = snd (run c o cf (inp_of_rinput i)).
Proof. exact run_total_of_models. Qed.

(** the hypotheses can be checked by computation *)
Theorem C16_hypotheses_decidable : forall v i, reports_ok_b v i = true -> reports_ok_hyps v i.
Proof. exact reports_ok_b_sound. Qed.

(** non-vacuity: the two-asset input [ex2_i] (AAA: BUY, SELL; BBB: BUY, INTEREST, SELL) meets the hypotheses under rp2_us and
    rp2_ie, and all reports of the country come out *)
Theorem C16_composition_nonvacuous_us :
  ((exists cs, computed_all ex2_i (rp_assets ex2_i) = Ok cs /\ length cs = 2%nat) /\ reports_ok_hyps (wv 0) ex2_i) /\
  (exists l, run_reports US (wv 0) ex2_i = Ok l /\
     map (fun gs => (fst gs, length (snd gs))) l = [(GOpenPositions, 3%nat); (GFullReport, 6%nat); (GTaxUS, 3%nat)]) /\
  (supported US opts0 /\ run_matches US opts0 cfg2 ex2_i /\
   (o_method opts0 = None \/ cf_sched cfg2 = []) /\ Forall (fun e => str_in (snd e) method_plugins = true) (cf_sched cfg2)).
Proof. exact (conj ex2_us_hyps (conj ex2_us_reports ex2_run_matches)). Qed.
Theorem C16_composition_nonvacuous_ie :
  ((exists cs, computed_all ex2_ie (rp_assets ex2_ie) = Ok cs /\ length cs = 2%nat) /\ reports_ok_hyps (wv 3) ex2_ie) /\
  (exists l, run_reports IE (wv 3) ex2_ie = Ok l /\
     map (fun gs => (fst gs, length (snd gs))) l = [(GOpenPositions, 3%nat); (GFullReport, 6%nat); (GTaxIE, 3%nat)]).
Proof. exact (conj ex2_ie_hyps ex2_ie_reports). Qed.

(** the two remaining conditions are necessary for the report models too.  F12: 22 holders with a balance -- open_positions is
    written, the full report stage fails with IndexError, the tax report is never started; everything else assumed holds *)
Theorem C16_composed_refuted_22_holders : exists sheets files,
  run_reports_trace US (wv 0) (w_holders 22) = ([(GOpenPositions, sheets)], Some (GFullReport, GFIndexError)) /\
  run_reports US (wv 0) (w_holders 22) = Err EInternal /\
  map (fun ac => holders_with_balance (w_holders 22) (snd ac)) (computed_list (w_holders 22)) = [22] /\
  side_hyps_b (wv 0) (w_holders 22) = true /\
  generator_fails_on_input GFullReport (inp_of_rinput (w_holders 22)) = true /\
  run US opts0 cfg0 (inp_of_rinput (w_holders 22)) = (1, files) /\ length files = 1%nat.
Proof. exact compose_refuted_22_holders. Qed.

(** F7: rp2_jp with both dates -- open_positions and the full report are written, then the JP stage refuses *)
Theorem C16_composed_refuted_jp_from_and_to : exists s1 s2 files,
  run_reports_trace JP (wv 0) (w_jp 18628 18992) = ([(GOpenPositions, s1); (GFullReport, s2)], Some (GTaxJP, GFErr EInternal)) /\
  run_reports JP (wv 0) (w_jp 18628 18992) = Err EInternal /\
  side_hyps_b (wv 0) (w_jp 18628 18992) = true /\
  run JP o_jp_both cfg0 (inp_of_rinput (w_jp 18628 18992)) = (1, files) /\ length files = 2%nat.
Proof. exact compose_refuted_jp_from_and_to. Qed.

Print Assumptions C16_template_exists.
Print Assumptions C16_default_language_shipped.
Print Assumptions C16_refuted_jp_default_language.
Print Assumptions C16_discovery_exact.
Print Assumptions C16_run_total_partial.
Print Assumptions C16_all_reports_written_partial.
Print Assumptions C16_refuted_jp_from_and_to.
Print Assumptions C16_refuted_22_holders.
Print Assumptions C16_reports_all_produced.
Print Assumptions C16_report_of_each_generator.
Print Assumptions C16_reports_within_capacity.
Print Assumptions C16_asset_stage_derived.
Print Assumptions C16_generator_condition_derived.
Print Assumptions C16_generator_outcome_of_models.
Print Assumptions C16_generator_outcome_iff.
Print Assumptions C16_run_total_of_models.
Print Assumptions C16_hypotheses_decidable.
Print Assumptions C16_composition_nonvacuous_us.
Print Assumptions C16_composition_nonvacuous_ie.
Print Assumptions C16_composed_refuted_22_holders.
Print Assumptions C16_composed_refuted_jp_from_and_to.

(** ------------------------------------------------------------------------------------------------------------
    TOTALITY OF THE COMPUTATION ("ComputedData exists"; Model/TotalSpec.v, Proofs/ComputeTotal.v, Proofs/RunComposeTotal.v).
    [C16_run_total_of_models] above still assumes [exists cs, computed_all i (rp_assets i) = Ok cs].  Below that assumption is
    replaced by hypotheses about the INPUT.

    [matched_history sched h t fs]: [build h = Ok t] (the constructors accepted every row, row ids distinct per table, the IN
    table not empty); [in_rows_increasing h] (IN rows in sheet order); events of one instant lie in one local year (F13) and
    the schedule has an entry at or before every event year, with distinct years (the two genuine restrictions of C01 / C02);
    and [fractions_of gen_always_repush sched t = Ok fs]: the fractions are what the matcher produced.
    [never_overdrawn to_day t]: no debit up to the to-date leaves the debited account more than 5e-11 below zero (the exact C08
    condition); [holders_ok t]: holder indices below 100000 (the account encoding of the model).

    Stage by stage: duplicate row ids among the taxable events are excluded because the matcher ran; the matcher names only
    events / lots it was given (resolve_all); the numbering sanity checks never fire (C10); every divisor -- the event's amount
    (proceeds), the lot's amount (cost basis, sold percentage), the total crypto_in up to the to-date (average price; no division
    when there is none) -- is positive, because a successful matcher run has only positive event amounts
    ([C16_matcher_accepts_only_positive_amounts]: in particular no STAKING acquisition of amount <= 0, which the constructor
    lets through and rp2 rejects in the matcher stage as the model does) and the constructors make every other amount positive. *)
From RP2V Require Import Model.Matcher Model.MatchSpec Model.ComputedSpec Model.TotalSpec Proofs.PipelineWf Proofs.ComputeTotal
  Proofs.L4Examples Proofs.ComputeTotalExamples Proofs.RunComposeTotal.

(** ComputedData exists for every window: with -n always, without -n when no debit overdraws its account *)
Theorem C16_computed_data_exists : forall sched h t fs, matched_history sched h t fs ->
  forall period from_day to_day allow exs hos,
  allow = true \/ (holders_ok t /\ never_overdrawn to_day t) ->
  exists cd, compute period from_day to_day allow exs hos t fs = Ok cd.
Proof. exact compute_total. Qed.

(** exactly when it does not: the negative-balance error on an overdraft without -n, and nothing else *)
Theorem C16_computation_fails_exactly_on_overdraft : forall sched h t fs, matched_history sched h t fs ->
  forall period from_day to_day exs hos, holders_ok t ->
  (exists cd, compute period from_day to_day true exs hos t fs = Ok cd /\
     (never_overdrawn to_day t -> compute period from_day to_day false exs hos t fs = Ok cd)) /\
  (forall allow, compute period from_day to_day allow exs hos t fs = Err ENegBalance <-> allow = false /\ some_overdraft to_day t) /\
  (forall allow, (exists cd, compute period from_day to_day allow exs hos t fs = Ok cd) <-> allow = true \/ never_overdrawn to_day t).
Proof. exact compute_err_exact. Qed.
Theorem C16_computation_only_error : forall sched h t fs, matched_history sched h t fs ->
  forall period from_day to_day allow exs hos e,
  compute period from_day to_day allow exs hos t fs = Err e -> e = ENegBalance /\ allow = false.
Proof. exact compute_only_error. Qed.

(** matching + aggregation on a built history ([built_history]: as above without the matcher's result, with
    [no_nonpositive_staking] as a hypothesis; [evs] = its taxable events, i.e. row ids are distinct across the tables): it fails
    in exactly two ways -- the lots run out at some disposal ([lots_exhausted]; rp2: "Total in-transaction crypto value < total
    taxable crypto value"), or an account is overdrawn without -n *)
Theorem C16_compute_tax_outcome : forall sched h t evs, built_history sched h t -> taxable_events t = Ok evs ->
  forall period from_day to_day allow exs hos, holders_ok t ->
  (compute_tax period from_day to_day allow exs hos sched t = Err EExhausted <-> lots_exhausted t evs) /\
  (compute_tax period from_day to_day allow exs hos sched t = Err ENegBalance <->
     ~ lots_exhausted t evs /\ allow = false /\ some_overdraft to_day t) /\
  ((exists cd, compute_tax period from_day to_day allow exs hos sched t = Ok cd) <->
     ~ lots_exhausted t evs /\ (allow = true \/ never_overdrawn to_day t)) /\
  (forall e, compute_tax period from_day to_day allow exs hos sched t = Err e -> e = EExhausted \/ e = ENegBalance).
Proof. exact compute_tax_outcome. Qed.

(** a history the matcher accepted has only positive event amounts, hence no STAKING acquisition of amount <= 0 *)
Theorem C16_matcher_accepts_only_positive_amounts : forall ar lots sched evs fs,
  run_matcher ar lots sched evs = Ok fs -> forall e, In e evs -> 0 < e_amt e.
Proof. exact matcher_ok_events_positive. Qed.
Theorem C16_matched_history_has_no_nonpositive_staking : forall sched h t fs,
  build h = Ok t -> fractions_of gen_always_repush sched t = Ok fs -> no_nonpositive_staking h.
Proof. exact matched_no_nonpositive_staking. Qed.

(** the multi-asset report input.  [input_from_rows i]: every asset of [i] has [matched_history (rp_sched i) h (ra_txs a)
    (ra_fracs a)] for some raw history [h], and [rp_allow i = true] or the asset is never overdrawn up to [rp_to i] *)
Theorem C16_computed_data_exists_for_every_asset : forall i, input_from_rows i ->
  exists cs, computed_all i (rp_assets i) = Ok cs /\ map fst cs = rp_assets i.
Proof. exact computed_all_total. Qed.
Theorem C16_compute_stage_fails_only_on_overdraft : forall c v i e,
  (forall a, In a (rp_assets i) -> asset_from_rows i a /\ holders_ok (ra_txs a)) ->
  computed_all i (rp_assets i) = Err e ->
  run_reports c v i = Err ENegBalance /\ e = ENegBalance /\ rp_allow i = false /\
  exists a, In a (rp_assets i) /\ some_overdraft (rp_to i) (ra_txs a).
Proof. exact run_reports_compute_stage_error. Qed.

(** Main statement, composed, with hypotheses about the input only (plus the per-report conditions [reports_ok_hyps]) *)
Theorem C16_run_total_of_models_from_rows : forall c o cf v i,
  supported c o -> run_matches c o cf i -> (o_method o = None \/ cf_sched cf = []) ->
  Forall (fun e => str_in (snd e) method_plugins = true) (cf_sched cf) ->
  input_from_rows i -> reports_ok_hyps v i ->
  run c o cf (inp_of_rinput i) = (0, map (output_name o (expected_label c o cf)) (discovery c)) /\
  exists l, run_reports c v i = Ok l /\ map fst l = discovery c /\
            map (fun gs => output_name o (expected_label c o cf) (fst gs)) l = snd (run c o cf (inp_of_rinput i)).
Proof. exact run_total_of_models_from_rows. Qed.
Theorem C16_reports_all_produced_from_rows : forall v i,
  input_from_rows i -> reports_ok_hyps v i ->
  exists l, run_reports (rp_country i) v i = Ok l /\ map fst l = discovery (rp_country i) /\
            forall g sheets, In (g, sheets) l -> run_gen v i g = inl sheets.
Proof. exact reports_all_produced_from_rows. Qed.

(** non-vacuity (Proofs/ComputeTotalExamples.v, Proofs/RunComposeTotal.v, evaluated by the kernel): history A of L4Examples.v is a
    [matched_history] ([hA_matched]; instances [hA_compute_total_allow], [hA_compute_total_strict], [hA_err_exact],
    [hA_tax_outcome]); [hB'] (buy 1 on E0, buy 5 on E1, sell 2 from E0) is matched, overdrawn, and gets exactly the three
    outcomes ([hB'_outcomes]); history B itself exhausts the lots ([tB_exhausted]); the two-asset input [ex2_i] meets
    [input_from_rows] with the raw rows decoded from [ex2_code], and the composed statement applies to it ... *)
Theorem C16_from_rows_nonvacuous :
  input_from_rows ex2_i /\ reports_ok_hyps (wv 0) ex2_i /\
  exists files l, run US opts0 cfg2 (inp_of_rinput ex2_i) = (0, files) /\ length files = 3%nat /\
                  run_reports US (wv 0) ex2_i = Ok l /\ map fst l = discovery US.
Proof. exact ex2_run_total_from_rows. Qed.
(** ... an overdrawn single-asset input is rejected by the compute stage before any generator runs ... *)
Theorem C16_overdrawn_input_rejected : exists e, computed_all exB_i (rp_assets exB_i) = Err e /\ run_reports US (wv 0) exB_i = Err ENegBalance.
Proof. exact exB_rejected. Qed.
(** ... and the corner cases: a STAKING acquisition of amount 0 / below 0 builds and is rejected by the matcher with a value
    error in every position tried (alone, after a BUY, before a BUY, followed by a sale); a positive one computes *)
Theorem C16_nonpositive_staking_rejected_by_matcher :
  outcome (mkh [r_in 3 18000 0 0 STAKING (10 * U) 0] []) = (Some EValue, Some EValue) /\
  outcome (mkh [r_in 3 18000 0 0 BUY (10 * U) U; r_in 4 18100 0 0 STAKING (10 * U) 0] []) = (Some EValue, Some EValue) /\
  outcome (mkh [r_in 3 18000 0 0 BUY (10 * U) U; r_in 4 18100 0 0 STAKING (10 * U) (- U / 2)] []) = (Some EValue, Some EValue) /\
  outcome (mkh [r_in 3 18000 0 0 BUY (10 * U) U; r_in 4 18100 0 0 STAKING (10 * U) (- U / 2)] [r_out 9 18200 0 0 SELL (20 * U) (U / 4) 0])
    = (Some EValue, Some EValue) /\
  outcome (mkh [r_in 3 18000 0 0 STAKING (10 * U) (- U)] []) = (Some EValue, Some EValue) /\
  outcome (mkh [r_in 3 18000 0 0 STAKING (10 * U) (- U); r_in 4 18100 0 0 BUY (10 * U) U] []) = (Some EValue, Some EValue) /\
  outcome (mkh [r_in 3 18000 0 0 STAKING (10 * U) U] []) = (None, None).
Proof. exact staking_nonpositive_rejected. Qed.

Print Assumptions C16_computed_data_exists.
Print Assumptions C16_computation_fails_exactly_on_overdraft.
Print Assumptions C16_computation_only_error.
Print Assumptions C16_compute_tax_outcome.
Print Assumptions C16_matcher_accepts_only_positive_amounts.
Print Assumptions C16_matched_history_has_no_nonpositive_staking.
Print Assumptions C16_computed_data_exists_for_every_asset.
Print Assumptions C16_compute_stage_fails_only_on_overdraft.
Print Assumptions C16_run_total_of_models_from_rows.
Print Assumptions C16_reports_all_produced_from_rows.
Print Assumptions C16_from_rows_nonvacuous.
Print Assumptions C16_overdrawn_input_rejected.
Print Assumptions C16_nonpositive_staking_rejected_by_matcher.

(** ------------------------------------------------------------------------------------------------------------
    END TO END (Model/EndToEnd.v, Proofs/EndToEndFront.v, Proofs/EndToEnd.v, Proofs/EndToEndExamples.v): from the CELLS of the
    input workbook and the sections of the configuration file to the exit status and the produced reports.

    [rp2_model c o secs ts workbook v envp : Z * list (gen_id * list sheetw)] is the literal composition of the layer models:
    [ConfigModel.front_end] ([validate_config], [options_check], every sheet parsed by [parse_sheet] first) with the continuation
    [back_end] = [txs_of_parsed] (InputData) ; [fractions_of gen_always_repush sched] (the matcher) per asset ; the [rinput]
    assembled in sorted asset order with window / -n / long-term period / schedule from options + configuration ;
    [run_reports] (ComputedData, then the generator models in discovery order) together with [MainRun.run] on the facts computed
    from that rinput.  [o] : MainRun.options, [secs] : the tokenised INI file, [ts] : the timestamp oracle, [v] : renv,
    [envp] : the long-term period rp2_generic reads from its environment. *)
From RP2V Require Import Model.Parser Model.Render Model.TableOrderSpec Model.ConfigModel Model.EndToEnd
  Model.MatchWf Proofs.FaultsCtor Proofs.EndToEndFront Proofs.EndToEnd Proofs.EndToEndAnyRows Proofs.EndToEndExamples.

(** REJECTION.  Each cause is its own disjunct: the configuration is invalid; an option check fails; the sheet of some processed
    asset (after any accepted ones) is missing or rejected by the parser; the front end accepts everything and for some asset
    -- its transactions a [built_history] -- the lots run out at a disposal; or some account is overdrawn up to the to-date
    without -n.  Then the exit status is non-zero and there is NO report.  (Chains C12_no_report_on_rejection,
    C16_compute_tax_outcome and the C08 condition [some_overdraft].) *)
Theorem C16_end_to_end_rejection : forall c o secs ts workbook v envp,
  cause_config secs \/ cause_options c o secs \/ cause_sheet c o secs ts workbook \/
  cause_lots_exhausted c o secs ts workbook \/ cause_overdraft c o secs ts workbook ->
  fst (rp2_model c o secs ts workbook v envp) <> 0 /\ snd (rp2_model c o secs ts workbook v envp) = [].
Proof. exact E2E_rejection. Qed.

(** ... more generally: whatever makes matching + aggregation ([compute_tax] under the run's period / window / -n / schedule)
    fail for one asset of an accepted workbook; and the overdraft for ANY parsed sheet (crypto-fee acquisitions included) *)
Theorem C16_end_to_end_compute_tax_fails : forall c o secs ts workbook v envp s assets ps,
  validate_config secs = Ok s -> options_check c (l1_options o) (Ok s) = (0, assets) ->
  parse_all (pcfg_of s ts) assets workbook 0 = Ok ps ->
  forall sched a p t, e2e_sched c o s = Some sched -> In (a, p) ps -> txs_of_parsed p = Ok t ->
  is_err (compute_tax (country_period c envp) (o_from o) (o_to o) (o_neg o) (cs_exchanges s) (cs_holders s) sched t) ->
  fst (rp2_model c o secs ts workbook v envp) <> 0 /\ snd (rp2_model c o secs ts workbook v envp) = [].
Proof. exact e2e_compute_tax_fails. Qed.
Theorem C16_end_to_end_overdrawn_any_sheet : forall c o secs ts workbook v envp s assets ps,
  validate_config secs = Ok s -> options_check c (l1_options o) (Ok s) = (0, assets) ->
  parse_all (pcfg_of s ts) assets workbook 0 = Ok ps ->
  forall sched a p t fs cd, e2e_sched c o s = Some sched -> In (a, p) ps -> txs_of_parsed p = Ok t ->
  fractions_of gen_always_repush sched t = Ok fs -> holders_ok t ->
  compute (country_period c envp) (o_from o) (o_to o) true (cs_exchanges s) (cs_holders s) t fs = Ok cd ->
  o_neg o = false -> some_overdraft (o_to o) t ->
  fst (rp2_model c o secs ts workbook v envp) <> 0 /\ snd (rp2_model c o secs ts workbook v envp) = [].
Proof. exact e2e_overdrawn_any_sheet. Qed.

(** ... and exhausted lots for any parsed sheet whose matcher input is well formed (no [hist]; [C16_expected_sheet_wf] below) *)
Theorem C16_end_to_end_lots_exhausted_any_rows : forall c o secs ts workbook v envp s assets ps sched a p t evs,
  front_accepts c o secs ts workbook s assets ps -> e2e_sched c o s = Some sched -> In (a, p) ps ->
  txs_of_parsed p = Ok t -> taxable_events t = Ok evs -> wf (t_ins t) sched (map event_of evs) -> lots_exhausted t evs ->
  rp2_model c o secs ts workbook v envp = (1, []).
Proof. exact e2e_lots_exhausted_any_rows. Qed.

(** THE SEAM (front half).  Valid configuration, passed option checks, every processed asset's sheet the rendering of
    well-formed tables ([rendered_workbook]: [wf_blocks], pairwise distinct table types in any order, any column layout, any junk,
    blank rows), the typed rows yielding the transactions [ps] ([expected_all], at least one acquisition per asset): the run IS the
    back end applied to [ps] -- transactions computed from the typed rows alone. *)
Theorem C16_end_to_end_seam : forall c o secs ts workbook v envp s assets sheet trailing ps,
  validate_config secs = Ok s -> options_check c (l1_options o) (Ok s) = (0, assets) ->
  rendered_workbook (pcfg_of s ts) workbook sheet trailing assets ->
  expected_all (pcfg_of s ts) sheet assets 0 = Ok ps -> (forall a p, In (a, p) ps -> pa_ins p <> []) ->
  rp2_model c o secs ts workbook v envp = back_end c o v envp s ps.
Proof. exact e2e_seam. Qed.

(** the back half, for ANY accepted workbook (crypto-fee acquisitions included): ComputedData exists for every asset of the
    assembled rinput + [reports_ok_hyps] => exit 0, exactly the configured reports in discovery order, each within capacity, and
    the file names MainRun writes are those of the reports *)
Theorem C16_end_to_end_back_half : forall c o secs ts workbook v envp s assets ps i,
  front_accepts c o secs ts workbook s assets ps ->
  supported c o -> (o_method o = None \/ cs_methods s = []) ->
  Forall (fun e => str_in (snd e) method_plugins = true) (cs_methods s) ->
  e2e_input c o envp s ps = Some i -> (exists cs, computed_all i (rp_assets i) = Ok cs) -> reports_ok_hyps v i ->
  exists l, rp2_model c o secs ts workbook v envp = (0, l) /\ map fst l = discovery c /\
            (forall g sheets, In (g, sheets) l -> run_gen v i g = inl sheets /\ within_capacity g sheets) /\
            MainRun.run c o (l6_config s) (inp_of_rinput i) = (0, map (report_file c o s) l).
Proof. exact e2e_success_of_computed. Qed.

(** the row conditions of [built_history] that FOLLOW from the sheet (h = [sheet_hist cfg blocks], the raw rows the typed rows
    resolve to; no crypto-fee acquisition): the parsed transactions are the constructors applied to the raw rows and the id
    counter does not move; the row ids are the sheet rows of the tables' data rows; hence IN rows in increasing order, ids
    distinct across the tables, InputData accepts the sets *)
Theorem C16_sheet_rows_are_constructor_inputs : forall cfg counter blocks p,
  expected cfg counter blocks = Ok p -> no_crypto_fee (sheet_hist cfg blocks) ->
  build (sheet_hist cfg blocks) = txs_of_parsed p /\ pa_counter p = counter /\
  map_result mk_in (h_ins (sheet_hist cfg blocks)) = Ok (pa_ins p) /\
  map_result mk_out (h_outs (sheet_hist cfg blocks)) = Ok (pa_outs p) /\
  map_result mk_intra (h_intras (sheet_hist cfg blocks)) = Ok (pa_intras p).
Proof. exact build_of_expected. Qed.
Theorem C16_sheet_in_rows_increasing : forall cfg asset counter blocks p,
  wf_blocks cfg asset 1 blocks -> expected cfg counter blocks = Ok p -> no_crypto_fee (sheet_hist cfg blocks) ->
  in_rows_increasing (sheet_hist cfg blocks).
Proof. exact sheet_in_rows_increasing. Qed.
Theorem C16_sheet_distinct_row_ids : forall cfg asset counter blocks p,
  wf_blocks cfg asset 1 blocks -> expected cfg counter blocks = Ok p -> no_crypto_fee (sheet_hist cfg blocks) ->
  FromRowsSpec.distinct_row_ids (sheet_hist cfg blocks).
Proof. exact sheet_distinct_row_ids. Qed.
Theorem C16_sheet_build_succeeds : forall cfg asset counter blocks p,
  wf_blocks cfg asset 1 blocks -> expected cfg counter blocks = Ok p -> pa_ins p <> [] -> no_crypto_fee (sheet_hist cfg blocks) ->
  exists t, build (sheet_hist cfg blocks) = Ok t /\ txs_of_parsed p = Ok t.
Proof. exact sheet_build_ok. Qed.
(** ... and the holder indices of the built transactions are indices into the configured holder list *)
Theorem C16_sheet_holders_ok : forall cfg l t,
  Z.of_nat (length (pc_holders cfg)) <= 100000 -> build (hist_of_rows cfg l) = Ok t -> holders_ok t.
Proof. exact sheet_holders_ok. Qed.

(** SUCCESS.  Valid configuration; supported options ([supported]: -m a choice of the country, language shipped, from <= to, no
    -l); -m and [accounting_methods] not both given, schedule entries name existing methods, distinct schedule years; -a (if
    given) a configured asset; every processed asset's sheet the rendering of well-formed tables ([rendered_workbook]) whose typed
    rows construct with at least one acquisition; [sheet_rows_ok] for every sheet -- what REMAINS a hypothesis about the rows:
    no acquisition with a crypto fee (covered by [C16_end_to_end_success_any_rows] below), STAKING amounts positive, one instant
    one local year (F13), the
    schedule covers every event year, the lots never run out, and -n or no overdraft up to the to-date; at most 100000
    configured holders; [reports_ok_hyps] on the resulting rinput.
    Then: exit 0; exactly the configured reports of the country in discovery order, each produced by its generator model on the
    rinput [i] and within sheet capacity; MainRun's control flow exits 0 having written exactly their files; and the
    transactions [i] holds are, asset by asset in sorted order, [txs_of_parsed] of [expected] of the rendered blocks (the cells of
    the sheet) = [build] of the sheet's raw rows, with the matcher's fractions. *)
Theorem C16_end_to_end_success : forall c o secs ts workbook v envp s sheet trailing,
  validate_config secs = Ok s ->
  supported c o ->
  (o_method o = None \/ cs_methods s = []) ->
  Forall (fun e => str_in (snd e) method_plugins = true) (cs_methods s) ->
  NoDup (map fst (cs_methods s)) ->
  (forall a, o_asset o = Some a -> In a (cs_assets s)) ->
  Z.of_nat (length (cs_holders s)) <= 100000 ->
  rendered_workbook (pcfg_of s ts) workbook sheet trailing (run_assets o s) ->
  (forall a, In a (run_assets o s) -> exists p, expected (pcfg_of s ts) 0 (sheet a) = Ok p /\ pa_ins p <> []) ->
  (forall sched a, e2e_sched c o s = Some sched -> In a (run_assets o s) ->
                   sheet_rows_ok sched (o_neg o) (o_to o) (sheet_hist (pcfg_of s ts) (sheet a))) ->
  (forall ps i, expected_all (pcfg_of s ts) sheet (run_assets o s) 0 = Ok ps -> e2e_input c o envp s ps = Some i -> reports_ok_hyps v i) ->
  exists ps i l,
    expected_all (pcfg_of s ts) sheet (run_assets o s) 0 = Ok ps /\
    e2e_input c o envp s ps = Some i /\
    rp2_model c o secs ts workbook v envp = (0, l) /\
    map fst l = discovery c /\
    (forall g sheets, In (g, sheets) l -> run_gen v i g = inl sheets /\ within_capacity g sheets) /\
    MainRun.run c o (l6_config s) (inp_of_rinput i) = (0, map (report_file c o s) l) /\
    Forall2 (fun ra ap => ra_name ra = fst ap /\
                          expected (pcfg_of s ts) 0 (sheet (fst ap)) = Ok (snd ap) /\
                          txs_of_parsed (snd ap) = Ok (ra_txs ra) /\
                          build (sheet_hist (pcfg_of s ts) (sheet (fst ap))) = Ok (ra_txs ra) /\
                          fractions_of gen_always_repush (rp_sched i) (ra_txs ra) = Ok (ra_fracs ra))
            (rp_assets i) (sort_leb by_name ps).
Proof. exact E2E_success. Qed.

(** SUCCESS FOR ANY ROWS THE PARSER ACCEPTS (crypto-fee acquisitions included; Proofs/EndToEndAnyRows.v).  No [hist]: the
    well-formedness of the matcher input ([MatchWf.wf]) is proved directly for the transactions [expected] gives for a well-formed
    sheet -- sheet rows numbered in order, the artificial ids of fee disposals in [counter', counter), below every sheet row and
    pairwise distinct, every amount positive (acquisitions: unless STAKING), holder indices inside the configured list -- and
    [compute] is total on a well-formed matcher input up to the balance guard.  [ps] = [expected_all] of the sheets (the artificial-id
    counter threaded through the assets); [parsed_rows_ok] = what remains a hypothesis about each expected sheet: STAKING amounts
    positive, one instant one local year (F13), the schedule covers every event year, the lots never run out, -n or no overdraft. *)
Theorem C16_end_to_end_success_any_rows : forall c o secs ts workbook v envp s sheet trailing ps,
  validate_config secs = Ok s ->
  supported c o ->
  (o_method o = None \/ cs_methods s = []) ->
  Forall (fun e => str_in (snd e) method_plugins = true) (cs_methods s) ->
  NoDup (map fst (cs_methods s)) ->
  (forall a, o_asset o = Some a -> In a (cs_assets s)) ->
  Z.of_nat (length (cs_holders s)) <= 100000 ->
  rendered_workbook (pcfg_of s ts) workbook sheet trailing (run_assets o s) ->
  expected_all (pcfg_of s ts) sheet (run_assets o s) 0 = Ok ps -> (forall a p, In (a, p) ps -> pa_ins p <> []) ->
  (forall sched a p, e2e_sched c o s = Some sched -> In (a, p) ps -> parsed_rows_ok sched (o_neg o) (o_to o) p) ->
  (forall i, e2e_input c o envp s ps = Some i -> reports_ok_hyps v i) ->
  exists i l,
    e2e_input c o envp s ps = Some i /\
    rp2_model c o secs ts workbook v envp = (0, l) /\
    map fst l = discovery c /\
    (forall g sheets, In (g, sheets) l -> run_gen v i g = inl sheets /\ within_capacity g sheets) /\
    MainRun.run c o (l6_config s) (inp_of_rinput i) = (0, map (report_file c o s) l) /\
    Forall2 (fun ra ap => ra_name ra = fst ap /\ txs_of_parsed (snd ap) = Ok (ra_txs ra) /\
                          fractions_of gen_always_repush (rp_sched i) (ra_txs ra) = Ok (ra_fracs ra))
            (rp_assets i) (sort_leb by_name ps).
Proof. exact E2E_success_any_rows. Qed.

(** its two ingredients: the matcher input of an expected sheet is well formed ([sheet_sets_ok p t]: InputData accepted the sets,
    lots sorted / distinct / not empty, every amount positive, the taxable events defined -- all derived from [wf_blocks]) ... *)
Theorem C16_expected_sheet_sets : forall cfg, Z.of_nat (length (pc_holders cfg)) <= 100000 ->
  forall asset counter blocks p,
  counter <= 0 -> wf_blocks cfg asset 1 blocks -> expected cfg counter blocks = Ok p -> pa_ins p <> [] ->
  pa_counter p <= counter /\ exists t, sheet_sets_ok p t.
Proof. exact expected_sheet_sets. Qed.
Theorem C16_expected_sheet_wf : forall p t sched evs,
  sheet_sets_ok p t -> taxable_events t = Ok evs ->
  (forall x, In x (pa_ins p) -> i_type x = STAKING -> 0 < i_crypto_in x) ->
  hist_same_instant_same_year evs -> hist_sched_covers sched evs -> NoDup (map fst sched) ->
  wf (t_ins t) sched (map event_of evs).
Proof. exact sheet_sets_wf. Qed.
(** ... and ComputedData exists for every well-formed matcher input the matcher succeeded on (no [hist] needed) *)
Theorem C16_computed_data_exists_wf : forall sched t evs fs,
  taxable_events t = Ok evs -> wf (t_ins t) sched (map event_of evs) -> fractions_of gen_always_repush sched t = Ok fs ->
  forall period from_day to_day allow exs hos,
  allow = true \/ (holders_ok t /\ never_overdrawn to_day t) ->
  exists cd, compute period from_day to_day allow exs hos t fs = Ok cd.
Proof. exact compute_total_wf. Qed.

(** the file-name view of the run is [ConfigModel.front_end] itself with the named reports of the back end *)
Theorem C16_end_to_end_is_front_end : forall c o secs ts workbook v envp,
  exists f, rp2_files c o secs ts workbook v envp =
            (fst (rp2_model c o secs ts workbook v envp), map f (snd (rp2_model c o secs ts workbook v envp))).
Proof. exact rp2_model_files. Qed.

(** non-vacuity (Proofs/EndToEndExamples.v, evaluated by the kernel): a two-asset workbook for rp2_us (configuration "BBB,AAA" with
    the permuted column maps of Proofs/ParserExample.v; rendered sheets with junk, blank rows, an empty INTRA table) meets every
    hypothesis of [C16_end_to_end_success]; the rinput assembled from its cells is the encoded input [ex2_i] of
    [C16_from_rows_nonvacuous]; exit 0 with the three US reports ... *)
Theorem C16_end_to_end_nonvacuous :
  validate_config ok_secs = Ok ok_s /\ supported US opts0 /\
  rendered_workbook (pcfg_of ok_s ok_ts) ok_workbook ok_sheet ok_trailing (run_assets opts0 ok_s) /\
  (forall a, In a (run_assets opts0 ok_s) ->
     sheet_rows_ok ok_sched (o_neg opts0) (o_to opts0) (sheet_hist (pcfg_of ok_s ok_ts) (ok_sheet a))) /\
  e2e_input US opts0 0 ok_s ok_ps = Some ex2_i /\ reports_ok_hyps (wv 0) ex2_i /\
  exists l, rp2_model US opts0 ok_secs ok_ts ok_workbook (wv 0) 0 = (0, l) /\
            map (fun gs => (fst gs, length (snd gs))) l = [(GOpenPositions, 3%nat); (GFullReport, 6%nat); (GTaxUS, 3%nat)] /\
            (forall g sheets, In (g, sheets) l -> run_gen (wv 0) ex2_i g = inl sheets /\ within_capacity g sheets) /\
            map ra_name (rp_assets ex2_i) = [s_AAA; s_BBB] /\
            map (fun a => txs_of_parsed (snd a)) (sort_leb by_name ok_ps) = map (fun ra => Ok (ra_txs ra)) (rp_assets ex2_i).
Proof. exact e2e_success_nonvacuous. Qed.
(** ... the same workbook without the TABLE END row of AAA's last table: [cause_sheet] holds, exit 1, no report; AAA selling 3 of
    the 2 bought: [cause_lots_exhausted]; AAA bought on one exchange and sold on another: [cause_overdraft], and exit 0 with -n *)
Theorem C16_end_to_end_rejection_nonvacuous :
  (cause_sheet US opts0 ok_secs ok_ts bad_workbook /\ rp2_model US opts0 ok_secs ok_ts bad_workbook (wv 0) 0 = (1, [])) /\
  (cause_lots_exhausted US opts0 ok_secs ok_ts x_workbook /\ rp2_model US opts0 ok_secs ok_ts x_workbook (wv 0) 0 = (1, [])) /\
  (cause_overdraft US opts0 od_secs ok_ts od_workbook /\ rp2_model US opts0 od_secs ok_ts od_workbook (wv 0) 0 = (1, []) /\
   exists l, rp2_model US opts_n od_secs ok_ts od_workbook (wv 0) 0 = (0, l) /\ map fst l = discovery US).
Proof. exact (conj e2e_rejection_nonvacuous (conj e2e_lots_exhausted_nonvacuous e2e_overdraft_nonvacuous)). Qed.

(** ... and an acquisition WITH a crypto fee (the case [C16_end_to_end_success] leaves out; AAA's sheet has the fee cell of
    Proofs/ParserExample.v, tables in the order OUT, IN): the parser's split gives the artificial fee disposal -1; the seam and the
    back half compose -- ComputedData exists and [reports_ok_hyps] holds for the assembled rinput (by computation), exit 0 with
    the three US reports *)
Theorem C16_end_to_end_crypto_fee_nonvacuous :
  map (fun ap => (fst ap, map i_row (pa_ins (snd ap)), map o_row (pa_outs (snd ap)), pa_counter (snd ap))) fee_ps =
    [(s_BBB, [3; 4], [9], 0); (s_AAA, [8], [4; -1], -1)] /\
  rp2_model US opts0 ok_secs ok_ts fee_workbook (wv 0) 0 = back_end US opts0 (wv 0) 0 ok_s fee_ps /\
  e2e_input US opts0 0 ok_s fee_ps = Some fee_i /\
  (exists cs, computed_all fee_i (rp_assets fee_i) = Ok cs) /\ reports_ok_hyps (wv 0) fee_i /\
  exists l, rp2_model US opts0 ok_secs ok_ts fee_workbook (wv 0) 0 = (0, l) /\ map fst l = discovery US /\
            (forall g sheets, In (g, sheets) l -> run_gen (wv 0) fee_i g = inl sheets /\ within_capacity g sheets).
Proof. exact e2e_crypto_fee_nonvacuous. Qed.

(** ... and that workbook meets every hypothesis of [C16_end_to_end_success_any_rows]; the fee disposal -1 and the sale are both
    matched to the lot of sheet row 8 *)
Theorem C16_end_to_end_any_rows_nonvacuous :
  (forall a p, In (a, p) fee_ps -> parsed_rows_ok ok_sched (o_neg opts0) (o_to opts0) p) /\
  map (fun f => (f_ev f, f_lot f)) fee_fs_AAA = [(-1, Some 8); (4, Some 8)] /\
  exists i l, e2e_input US opts0 0 ok_s fee_ps = Some i /\
              rp2_model US opts0 ok_secs ok_ts fee_workbook (wv 0) 0 = (0, l) /\ map fst l = discovery US.
Proof. exact e2e_any_rows_nonvacuous. Qed.

Print Assumptions C16_end_to_end_rejection.
Print Assumptions C16_end_to_end_lots_exhausted_any_rows.
Print Assumptions C16_end_to_end_success_any_rows.
Print Assumptions C16_expected_sheet_sets.
Print Assumptions C16_expected_sheet_wf.
Print Assumptions C16_computed_data_exists_wf.
Print Assumptions C16_end_to_end_any_rows_nonvacuous.
Print Assumptions C16_end_to_end_crypto_fee_nonvacuous.
Print Assumptions C16_end_to_end_compute_tax_fails.
Print Assumptions C16_end_to_end_overdrawn_any_sheet.
Print Assumptions C16_end_to_end_seam.
Print Assumptions C16_end_to_end_back_half.
Print Assumptions C16_sheet_rows_are_constructor_inputs.
Print Assumptions C16_sheet_in_rows_increasing.
Print Assumptions C16_sheet_distinct_row_ids.
Print Assumptions C16_sheet_build_succeeds.
Print Assumptions C16_sheet_holders_ok.
Print Assumptions C16_end_to_end_success.
Print Assumptions C16_end_to_end_is_front_end.
Print Assumptions C16_end_to_end_nonvacuous.
Print Assumptions C16_end_to_end_rejection_nonvacuous.

(** Source tie (regenerated on every run): the AVL key on the STRING level.  With the format read from accounting_engine.py
    (Model/GeneratedTie.v, fragment avl_key) and Python's `str` order ([str_leb]), keys of one timestamp compare as the numbers
    their ids spell whenever the ids are decimal and have at most `width` digits (row 9 before row 10: the fill goes in FRONT of
    the id), and each of them is <= the max-disambiguator key of that timestamp, so no lot of the event's own instant is missed
    by the lookup, whatever the number of rows of the input (Proofs/AvlKeyStr.v; no calendar reasoning involved). *)
From RP2V Require Import Model.GeneratedTie Model.AvlKeyGen Proofs.AvlKeyStr.
Theorem C16_source_tie_avl_key_strings :
  (forall t a b, is_digits a -> is_digits b -> (length a <= Z.to_nat gen_ak_width)%nat -> (length b <= Z.to_nat gen_ak_width)%nat ->
     str_leb (avl_key_gen t a) (avl_key_gen t b) = (str_num a <=? str_num b)) /\
  (forall t a, is_digits a -> (length a <= Z.to_nat gen_ak_width)%nat -> str_leb (avl_key_gen t a) (avl_lookup_key_gen t) = true).
Proof. exact avl_key_strings_gen_agree. Qed.
Print Assumptions C16_source_tie_avl_key_strings.
