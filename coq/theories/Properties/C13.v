(** Property C13 -- INTERIM statement file (constants only); replaced by the theorems on the full-report model. *)
From RP2V Require Import Base.Prelude Base.Dec Model.Types Model.Generated.
Open Scope Z_scope.
Theorem C13_constants : gen_full_min_rows = 40 /\ gen_header_height = 3.
Proof. split; reflexivity. Qed.
Print Assumptions C13_constants.
