(** Property C13 -- the full report shows every transaction and fraction once, with the computed values.
    Statements only (proofs: Proofs/FullReportLayout.v, FullReportProofs.v, FullReportCompute.v, FullReportWitness.v,
    FullReportTotal.v, FullReportSummary.v).

    They are about [Model/FullReport.v], the model of rp2_full_report.Generator.generate as its sequence of
    [_fill_cell] calls; table constants and column layouts are read from the source on every run (Generated.v,
    fragment full_report).  [writes_at ws r c = [w]] says: of all cell writes of the sheet, exactly one hits cell
    (r, c), and it is w -- nothing is written twice, nothing overwrites it.  That the .ods file holds these cells
    is established by the cell-by-cell comparison of the check, not here. *)
From RP2V Require Import Base.Prelude Base.Time Base.Dec Base.Assoc Model.Types Model.Generated Model.Txn Model.Matcher
  Model.Pipeline Model.Computed Model.Grid Model.ReportInput Model.FullReport
  Proofs.FullReportLayout Proofs.FullReportProofs Proofs.FullReportCompute Proofs.FullReportCapacity Proofs.FullReportLabels
  Proofs.FullReportWitness Proofs.FullReportWitnessCap Proofs.FullReportTotal Proofs.FullReportSummary.
Open Scope Z_scope.

(** the column layouts the statements below range over are the documented ones *)
Theorem C13_layout_in_out :
  map (fun x : fcol => (fst (fst x), snd x)) gen_full_cols_in =
    [(0, F_in_sold); (1, F_ts); (2, F_asset); (3, F_exch); (4, F_holder); (5, F_type); (6, F_spot); (7, F_in_crypto); (8, F_in_running);
     (9, F_fiat_fee); (10, F_in_fiat_no_fee); (11, F_in_fiat_with_fee); (12, F_taxable); (13, F_blank); (14, F_uid); (15, F_notes)] /\
  map (fun x : fcol => (fst (fst x), snd x)) gen_full_cols_out =
    [(0, F_blank); (1, F_ts); (2, F_asset); (3, F_exch); (4, F_holder); (5, F_type); (6, F_spot); (7, F_out_crypto); (8, F_crypto_fee);
     (9, F_out_running); (10, F_out_fee_running); (11, F_out_fiat); (12, F_fiat_fee); (13, F_taxable); (14, F_uid); (15, F_notes)] /\
  map (fun x : fcol => (fst (fst x), snd x)) gen_full_cols_intra =
    [(0, F_blank); (1, F_ts); (2, F_asset); (3, F_x_from_exch); (4, F_x_from_holder); (5, F_x_to_exch); (6, F_x_to_holder); (7, F_spot);
     (8, F_x_sent); (9, F_x_received); (10, F_crypto_fee); (11, F_x_fee_running); (12, F_fiat_fee); (13, F_taxable); (14, F_uid); (15, F_notes)].
Proof. repeat split. Qed.

Theorem C13_layout_tax :
  map (fun x : fcol => (fst (fst x), snd x)) gen_full_cols_gls =
    [(0, F_y_year); (1, F_asset); (2, F_y_gain); (3, F_cap_type); (4, F_y_type); (5, F_y_crypto); (6, F_y_fiat); (7, F_y_cost)] /\
  map (fun x : fcol => (fst (fst x), snd x)) gen_full_cols_sum = map (fun x : fcol => (fst (fst x), snd x)) gen_full_cols_gls /\
  map (fun x : fcol => (fst (fst x), snd x)) gen_full_cols_bal =
    [(0, F_exch); (1, F_holder); (2, F_asset); (3, F_b_acquired); (4, F_b_sent); (5, F_b_received); (6, F_b_final)] /\
  map (fun x : fcol => (fst (fst x), snd x)) gen_full_cols_tot =
    [(0, F_total_label); (1, F_holder); (2, F_blank); (3, F_blank); (4, F_blank); (5, F_blank); (6, F_total_value)] /\
  map (fun x : fcol => (fst (fst x), snd x)) (gen_full_cols_det ++ gen_full_cols_det_lot) =
    [(0, F_g_amount); (1, F_asset); (2, F_g_running); (3, F_g_gain); (4, F_cap_type); (5, F_ev_ts); (6, F_ev_type); (7, F_ev_pct);
     (8, F_ev_fiat); (9, F_ev_spot); (10, F_ev_uid); (11, F_ev_note); (12, F_lot_ts); (13, F_lot_pct); (14, F_lot_fiat); (15, F_lot_fee);
     (16, F_lot_cost); (17, F_lot_spot); (18, F_lot_uid); (19, F_lot_note)] /\
  gen_full_avg_cells = [(0, false); (1, false); (2, false); (3, true)].
Proof. repeat split. Qed.

(** In-Out sheet: the j-th in / out / intra transaction of the window (time-sorted, as ComputedData holds them) is
    written on row [table start + j] and nowhere else interferes: one write per column, carrying its field *)
Theorem C13_in_transaction_row : forall env inp x j t col lk f,
  nth_error (cd_ins (ac_c x)) j = Some t -> In (col, lk, f) gen_full_cols_in ->
  writes_at (sw_writes (inout_sheet env inp x)) (il_in (inout_rows_of (ac_c x)) + Z.of_nat j) col
  = [cw (il_in (inout_rows_of (ac_c x)) + Z.of_nat j) col (in_field env inp x j t lk f)].
Proof. exact inout_in_at. Qed.
Theorem C13_out_transaction_row : forall env inp x j t col lk f,
  nth_error (cd_outs (ac_c x)) j = Some t -> In (col, lk, f) gen_full_cols_out ->
  writes_at (sw_writes (inout_sheet env inp x)) (il_out (inout_rows_of (ac_c x)) + Z.of_nat j) col
  = [cw (il_out (inout_rows_of (ac_c x)) + Z.of_nat j) col (out_field env inp x j t lk f)].
Proof. exact inout_out_at. Qed.
Theorem C13_intra_transaction_row : forall env inp x j t col lk f,
  nth_error (cd_intras (ac_c x)) j = Some t -> In (col, lk, f) gen_full_cols_intra ->
  writes_at (sw_writes (inout_sheet env inp x)) (il_intra (inout_rows_of (ac_c x)) + Z.of_nat j) col
  = [cw (il_intra (inout_rows_of (ac_c x)) + Z.of_nat j) col (intra_field env inp x j t lk f)].
Proof. exact inout_intra_at. Qed.

(** every table starts 3 rows (title + 2 header rows) below the end of the previous one or lower: the row ranges of
    the three tables are disjoint, so rows of different transactions are different rows *)
Theorem C13_in_out_rows : forall c,
  3 <= il_in (inout_rows_of c) /\
  il_in (inout_rows_of c) + Z.of_nat (length (cd_ins c)) + 3 <= il_out (inout_rows_of c) /\
  il_out (inout_rows_of c) + Z.of_nat (length (cd_outs c)) + 3 <= il_intra (inout_rows_of c).
Proof. exact inout_rows_values. Qed.

(** running sums and sold percentage shown are ComputedData's (dictionary lookups by transaction id) *)
Theorem C13_in_figures : forall env inp x j t lk,
  in_field env inp x j t lk F_in_crypto = PNum (of_grid (i_crypto_in t)) /\
  in_field env inp x j t lk F_in_running = PNum (of_grid (fst (find3 (i_row t) (cd_in_running (ac_c x))))) /\
  in_field env inp x j t lk F_in_fiat_with_fee = PNum (i_fiat_in_with_fee t) /\
  in_field env inp x j t lk F_ts = PTs (i_ts t) /\
  in_field env inp x j t lk F_in_sold =
    (let p := aget_d dzero (i_row t) (cd_sold_pct (ac_c x)) in if deqb p dzero && negb (Nat.eqb j 0) then PEmpty else PNum p).
Proof. intros. repeat split. Qed.

(** Tax sheet: yearly lines, balances, per-holder totals, average price, one row per fraction of the window *)
Theorem C13_yearly_line_row : forall env inp x lm j y col lk f,
  nth_error (cd_yearly (ac_c x)) j = Some y -> In (col, lk, f) gen_full_cols_gls ->
  writes_at (sw_writes (tax_sheet env inp x lm)) (tl_gls (tax_layout_of inp x) + Z.of_nat j) col
  = [cw (tl_gls (tax_layout_of inp x) + Z.of_nat j) col (yearly_field env x j y lk f)].
Proof. exact tax_yearly_at. Qed.
Theorem C13_balance_row : forall env inp x lm j b col lk f,
  nth_error (cd_balances (ac_c x)) j = Some b -> In (col, lk, f) gen_full_cols_bal ->
  writes_at (sw_writes (tax_sheet env inp x lm)) (tl_bal (tax_layout_of inp x) + Z.of_nat j) col
  = [cw (tl_bal (tax_layout_of inp x) + Z.of_nat j) col (bal_field inp x j b lk f)].
Proof. exact tax_balance_at. Qed.
Theorem C13_holder_total_row : forall env inp x lm j t col lk f,
  nth_error (holder_totals inp (cd_balances (ac_c x))) j = Some t -> In (col, lk, f) gen_full_cols_tot ->
  writes_at (sw_writes (tax_sheet env inp x lm)) (tl_tot (tax_layout_of inp x) + Z.of_nat j) col
  = [cw (tl_tot (tax_layout_of inp x) + Z.of_nat j) col (total_field inp x j t lk f)].
Proof. exact tax_total_at. Qed.
Theorem C13_average_price_cell : forall env inp x lm,
  writes_at (sw_writes (tax_sheet env inp x lm)) (tl_avg (tax_layout_of inp x) + 3) 0
  = [cw (tl_avg (tax_layout_of inp x) + 3) 0 (PNum (cd_price (ac_c x)))].
Proof. exact avg_price_cell. Qed.
Theorem C13_fraction_row : forall env inp x lm j d col lk f,
  nth_error (drows (ac_c x)) j = Some d -> In (col, lk, f) (det_cols d) ->
  writes_at (sw_writes (tax_sheet env inp x lm)) (tl_det (tax_layout_of inp x) + Z.of_nat j) col
  = [cw (tl_det (tax_layout_of inp x) + Z.of_nat j) col (det_field env inp x lm j d lk f)].
Proof. exact tax_detail_at. Qed.

(** what a fraction's row shows: amount, proceeds, cost basis, gain, LONG/SHORT of [computed], and the labels
    "k/n: a of b ASSET" with (k - 1, n) = ComputedData's (fraction index, number of fractions) of the event / lot *)
Theorem C13_fraction_figures : forall env inp x lm j (g : gl) ei en lotlab,
  let d : drow := (g, ((ei, en), lotlab)) in
  det_field env inp x lm j d L_none F_g_amount = PNum (of_grid (g_amt g)) /\
  det_field env inp x lm j d L_none F_g_gain = pnum_o (g_gain g) /\
  det_field env inp x lm j d L_none F_cap_type = cap_type env (g_long (rp_period inp) g) /\
  det_field env inp x lm j d L_none F_ev_fiat = pnum_o (g_proceeds g) /\
  det_field env inp x lm j d L_none F_ev_note = PStr (note (S ei) en (g_amt g) (t_balance_change (g_ev g)) (ac_name x)) /\
  (forall l li ln, g_lot g = Some l -> lotlab = Some (li, ln) ->
     det_field env inp x lm j d L_none F_lot_cost = pnum_o (g_cost g) /\
     det_field env inp x lm j d L_none F_lot_note = PStr (note (S li) ln (g_amt g) (in_crypto_balance_change l) (ac_name x))).
Proof. exact fraction_figures. Qed.

(** [writes_at .. = [w]] (the theorems above) determines what the sheet finally holds in that cell *)
Theorem C13_final_content_in_out : forall env inp x r c w, 0 <= c < 1024 ->
  writes_at (sw_writes (inout_sheet env inp x)) r c = [w] -> cell_at (sw_writes (inout_sheet env inp x)) r c = cw_val w.
Proof. exact inout_final. Qed.
Theorem C13_final_content_tax : forall env inp x lm r c w, 0 <= c < 1024 ->
  writes_at (sw_writes (tax_sheet env inp x lm)) r c = [w] -> cell_at (sw_writes (tax_sheet env inp x lm)) r c = cw_val w.
Proof. exact tax_final. Qed.

(** Summary sheet: one line per yearly line of every asset, in asset order *)
Theorem C13_summary_line_row : forall env x ym r k y col lk f,
  nth_error (cd_yearly (ac_c x)) k = Some y -> In (col, lk, f) gen_full_cols_sum ->
  writes_at (summary_writes env x ym r) (r + Z.of_nat k) col = [cw (r + Z.of_nat k) col (summary_field env x ym k y lk f)].
Proof. exact summary_line_at. Qed.

(** a successful run consists of Legend, Summary (header + the lines of all assets, consecutively from row 3) and,
    per asset in order, its In-Out and Tax sheet ([sheets_from]: x_k's Tax sheet is written with the row map left by
    x_1 .. x_k, see C19); each asset sheet passed the capacity check *)
Theorem C13_report_shape : forall env inp sheets, full_report code_flags env inp = ROk sheets ->
  exists acs methods, computed_all inp (rp_assets inp) = Ok acs /\ legend_methods code_flags (rp_sched inp) = ROk methods /\
    let xs := actxs 0 acs (fe_extra env) in
    exists scap,
    sheets = {| sw_name := tr env gen_full_msg_legend; sw_rows := fe_legend_rows env; sw_cols := fe_legend_cols env;
                sw_writes := legend_writes inp methods |}
             :: {| sw_name := tr env gen_full_msg_summary; sw_rows := scap; sw_cols := fe_summary_cols env;
                   sw_writes := fst (fill_header 0 gen_full_hdr_sum) ++ summary_all env inp gen_header_height xs |}
             :: sheets_from code_flags env inp [] xs
    /\ Forall (fun s => sheet_ok s = true) (sheets_from code_flags env inp [] xs).
Proof. exact (full_report_shape code_flags). Qed.

(** no write leaves the In-Out sheet (sized MIN_ROWS + all transactions of the asset) ... *)
Theorem C13_in_out_sheet_capacity : forall env inp x period from_day to_day allow exs hos fs,
  compute period from_day to_day allow exs hos (ac_txs x) fs = Ok (ac_c x) ->
  sheet_ok (inout_sheet env inp x) = true.
Proof. exact inout_capacity. Qed.
(** ... nor the Tax sheet, as long as at most [max_holders] = MIN_ROWS - 19 = 21 distinct holders have a balance: the
    sheet has MIN_ROWS(40) + yearly + balances + fractions rows, 19 fixed rows + one total row per holder are written
    besides those (finding F12); one holder more and the model -- like the implementation -- ends in IndexError *)
Theorem C13_tax_sheet_capacity : forall env inp x lm period from_day to_day allow exs hos fs,
  compute period from_day to_day allow exs hos (ac_txs x) fs = Ok (ac_c x) ->
  Z.of_nat (length (holder_totals inp (cd_balances (ac_c x)))) <= max_holders ->
  sheet_ok (tax_sheet env inp x lm) = true.
Proof. exact tax_capacity. Qed.
Theorem C13_max_holders : tax_fixed = 19 /\ max_holders = gen_full_min_rows - 19.
Proof. exact max_holders_val. Qed.
Theorem C13_tax_sheet_overflow_refuted : forall fl, full_report fl wenv (w_holders (S (Z.to_nat max_holders))) = RIndexError.
Proof. exact f12_overflow. Qed.
Theorem C13_tax_sheet_max_holders_fit : exists l, full_report fixed_flags wenv (w_holders (Z.to_nat max_holders)) = ROk l /\ length l = 4%nat.
Proof. exact f12_fits. Qed.

(** the labels: (k - 1, n) printed on the row of a fraction are the (index, count) that GainLossSet's numbering
    assigns to it among all fractions dated up to the to-date (not among the fractions shown) *)
Theorem C13_labels_are_numbering : forall period from_day to_day allow exs hos t fs c,
  compute period from_day to_day allow exs hos t fs = Ok c ->
  exists evf lotf evt lott,
    numbering to_day (cd_all_gls c) = Ok (evf, lotf, evt, lott) /\
    forall j d, nth_error (drows c) j = Some d ->
      exists p, nth_error (take_until g_day to_day (cd_all_gls c)) p = Some (fst d) /\
                nth_error evf p = Some (fst (fst (snd d))) /\
                snd (fst (snd d)) = aget_d O (t_row (g_ev (fst d))) evt /\
                snd (snd d) = match g_lot (fst d), nth_error lotf p with
                              | Some l, Some (Some i) => Some (i, aget_d O (i_row l) lott)
                              | _, _ => None
                              end.
Proof. exact labels_are_numbering. Qed.

(** Legend: the method string is the single method (whatever year it is registered under) or the list "y:M" /
    "y0->y:M"; it is written next to "Accounting Method", the from / to dates (or "non-specified") below it.
    Holds for the source as repaired (F10); on a tree that looks the single method up under 1970 it does not compile. *)
Theorem C13_legend_methods : forall sched, exists s, legend_methods code_flags sched = ROk s /\
  (forall y m, sched = [(y, m)] -> s = meth_name m) /\
  ((length sched <> 1)%nat -> s = join s_comma (sched_items MIN_YEAR sched)).
Proof. intro sched. exact (legend_methods_ok code_flags sched eq_refl). Qed.
Theorem C13_legend_refuted_keyed_by_1970 : legend_methods as_published [(2019, Hifo)] = RKeyError.
Proof. exact f10_key_error. Qed.
Theorem C13_legend_cells : forall inp methods,
  writes_at (legend_writes inp methods) gen_full_legend_method_row 1 = [cw gen_full_legend_method_row 1 (PStr methods)] /\
  writes_at (legend_writes inp methods) (gen_full_legend_method_row + 1) 1
    = [cw (gen_full_legend_method_row + 1) 1 (if rp_from inp =? MIN_DAY then PStr s_non_specified else PDay (rp_from inp))] /\
  writes_at (legend_writes inp methods) (gen_full_legend_method_row + 2) 1
    = [cw (gen_full_legend_method_row + 2) 1 (if rp_to inp =? MAX_DAY then PStr s_non_specified else PDay (rp_to inp))].
Proof. exact legend_cells. Qed.

(** ---- Legend and Summary capacity; absolute Summary rows; every item of the window on exactly one row (Proofs/FullReportSummary.v,
    Proofs/FullReportTotal.v)

    EVERY sheet of a produced report passes [sheet_ok], the Legend and the Summary included: the Legend page and its three variable
    cells lie inside the template's Legend sheet ([fe_legend_rows] x [fe_legend_cols]); the Summary sheet has the template's rows
    plus one appended row per yearly line of every asset ([total_lines]: the [append_rows(new_lines)] calls), and the header and
    every line written lie inside it *)
Theorem C13_all_sheets_within_capacity : forall env inp sheets, full_report code_flags env inp = ROk sheets ->
  exists acs methods, computed_all inp (rp_assets inp) = Ok acs /\ legend_methods code_flags (rp_sched inp) = ROk methods /\
    let xs := actxs 0 acs (fe_extra env) in
    sheets = {| sw_name := tr env gen_full_msg_legend; sw_rows := fe_legend_rows env; sw_cols := fe_legend_cols env;
                sw_writes := legend_writes inp methods |}
             :: {| sw_name := tr env gen_full_msg_summary; sw_rows := fe_summary_rows env + total_lines xs; sw_cols := fe_summary_cols env;
                   sw_writes := fst (fill_header 0 gen_full_hdr_sum) ++ summary_all env inp gen_header_height xs |}
             :: sheets_from code_flags env inp [] xs
    /\ Forall (fun s => sheet_ok s = true) sheets.
Proof. exact (full_report_sheets_ok code_flags). Qed.
Theorem C13_total_lines_counts_yearly_lines : forall xs, total_lines xs = Z.of_nat (length (flat_map (fun x => cd_yearly (ac_c x)) xs)).
Proof. exact total_lines_flat. Qed.

(** ... and the report IS produced (the composed totality lemma of C16, whose Summary invariant is "next free row <= capacity"):
    for ComputedData of every asset, a template that holds the input-independent cells ([fenv_fits]: Legend page, Summary header and
    columns) and at most [max_holders] = 21 holders with a balance per asset (finding F12), no write of the report leaves its sheet *)
Theorem C13_report_produced_within_capacity : forall env inp acs, fenv_fits env = true ->
  computed_all inp (rp_assets inp) = Ok acs ->
  (forall ac, In ac acs -> Z.of_nat (length (holder_totals inp (cd_balances (snd ac)))) <= max_holders) ->
  exists sheets, full_report code_flags env inp = ROk sheets /\ Forall (fun s => sheet_ok s = true) sheets /\
    exists legend summary rest, sheets = legend :: summary :: rest /\
      sw_rows legend = fe_legend_rows env /\ sw_cols legend = fe_legend_cols env /\
      sw_rows summary = fe_summary_rows env + total_lines (actxs 0 acs (fe_extra env)) /\ sw_cols summary = fe_summary_cols env.
Proof. exact full_report_total_within. Qed.

(** ABSOLUTE position of the Summary lines.  The Summary sheet is the second sheet; the asset contexts [xs] follow the assets of the
    input in the input's order (the run hands them over sorted by name); the k-th yearly line of the j-th asset is written at row
      header height (3) + number of yearly lines of the assets before it ([lines_before xs j]) + k,
    each of its cells exactly once; all Summary writes lie in rows [0, 3 + number of all yearly lines) *)
Theorem C13_summary_line_absolute_row : forall env inp sheets, full_report code_flags env inp = ROk sheets ->
  exists acs ssum, computed_all inp (rp_assets inp) = Ok acs /\ nth_error sheets 1 = Some ssum /\
    sw_name ssum = tr env gen_full_msg_summary /\
    let xs := actxs 0 acs (fe_extra env) in
    map ac_name xs = map ra_name (rp_assets inp) /\
    sw_rows ssum = fe_summary_rows env + total_lines xs /\
    box 0 (gen_header_height + total_lines xs) 0 gen_full_max_columns (sw_writes ssum) /\
    forall j x k y col lk f,
      nth_error xs j = Some x -> nth_error (cd_yearly (ac_c x)) k = Some y -> In (col, lk, f) gen_full_cols_sum ->
      writes_at (sw_writes ssum) (gen_header_height + lines_before xs j + Z.of_nat k) col
      = [cw (gen_header_height + lines_before xs j + Z.of_nat k) col (summary_field env x (ym_of inp x) k y lk f)].
Proof. exact (report_summary_lines code_flags). Qed.
Theorem C13_lines_before : forall xs j, lines_before xs j = total_lines (firstn j xs).
Proof. reflexivity. Qed.

(** what such a cell holds: the figure of the yearly line, and (C19) its link -- to the first detail row of the line's year in the
    asset's Tax sheet, plain when no fraction of that year is shown.  Hypothesis as in C19: calendar years do not decrease along the
    instant-sorted fractions shown (finding F9 for mixed UTC offsets) *)
Theorem C13_summary_line_cell_linked : forall env inp xs j x k y col lk f,
  nth_error xs j = Some x -> nth_error (cd_yearly (ac_c x)) k = Some y -> In (col, lk, f) gen_full_cols_sum ->
  nondecr 1 (map g_year (cd_gls (ac_c x))) -> 0 < y_year y ->
  writes_at (summary_sheet_writes env inp xs) (gen_header_height + lines_before xs j + Z.of_nat k) col
  = [cw (gen_header_height + lines_before xs j + Z.of_nat k) col
        (match first_idx (y_year y) (map g_year (cd_gls (ac_c x))) with
         | Some i => PLink (tax_name env (ac_name x)) (tl_det (tax_layout_of inp x) + Z.of_nat i + 1) (summary_field env x [] k y L_none f)
         | None => summary_field env x [] k y L_none f
         end)].
Proof. exact summary_line_absolute_linked. Qed.
Theorem C13_summary_line_figures : forall env x k y,
  summary_field env x [] k y L_none F_y_year = PInt (y_year y) /\
  summary_field env x [] k y L_none F_asset = PStr (ac_name x) /\
  summary_field env x [] k y L_none F_y_gain = PNum (y_gain y) /\
  summary_field env x [] k y L_none F_cap_type = cap_type env (y_long y) /\
  summary_field env x [] k y L_none F_y_type = PStr (type_text env (y_type y)) /\
  summary_field env x [] k y L_none F_y_crypto = PNum (of_grid (y_crypto y)) /\
  summary_field env x [] k y L_none F_y_fiat = PNum (y_fiat y) /\
  summary_field env x [] k y L_none F_y_cost = PNum (y_cost y).
Proof. exact summary_figures. Qed.

(** different (asset, yearly line) pairs have different Summary rows; in particular the rows of different assets are disjoint *)
Theorem C13_summary_rows_distinct : forall xs j x k j' x' k',
  nth_error xs j = Some x -> (k < length (cd_yearly (ac_c x)))%nat ->
  nth_error xs j' = Some x' -> (k' < length (cd_yearly (ac_c x')))%nat ->
  lines_before xs j + Z.of_nat k = lines_before xs j' + Z.of_nat k' -> j = j' /\ k = k'.
Proof. exact summary_rows_injective. Qed.
Theorem C13_summary_rows_of_assets_disjoint : forall xs j x k j' x' k',
  nth_error xs j = Some x -> (k < length (cd_yearly (ac_c x)))%nat ->
  nth_error xs j' = Some x' -> (k' < length (cd_yearly (ac_c x')))%nat -> j <> j' ->
  lines_before xs j + Z.of_nat k <> lines_before xs j' + Z.of_nat k'.
Proof. exact summary_rows_of_assets_disjoint. Qed.

(** THE COLLECTED STATEMENT.  An item of the window is [WItem kind j i]: the i-th in / out / intra transaction, yearly line, balance,
    holder total, fraction ([KIn] .. [KFraction]) of the j-th asset as ComputedData holds them (window only, time order), or the
    Summary line of its i-th yearly line ([KSummary]).  [item_row_cells xs it = Some (sheet, row, cells)] gives its sheet ([SSummary],
    [SInOut j], [STax j]; position in the file [sheet_index]), its 0-based row and the cells of that row (defined for exactly the
    items that exist: C13_item_positions).  For a produced report:
      - every item's row carries it: every cell of the row is written exactly once, with the item's field (the per-table theorems);
      - exactly one row: two items with the same sheet and row are the same item, and an item's row is none of the static rows
        ([static_row]: title + two header rows above each table, the four rows of the average-price block, the Summary header);
      - CONVERSE, no extra rows: every write of the Summary sheet and of every In-Out / Tax sheet lies on a static row or is one of
        the cells of the row of an item -- by the two facts above, of exactly one item.  (From the model's write lists; that the
        .ods holds nothing else is the [check_extra] half of the cell-by-cell comparison.) *)
Theorem C13_every_window_row_once : forall env inp sheets, full_report code_flags env inp = ROk sheets ->
  exists acs, computed_all inp (rp_assets inp) = Ok acs /\
    let xs := actxs 0 acs (fe_extra env) in
    map ac_name xs = map ra_name (rp_assets inp) /\ map ac_c xs = map snd acs /\
    length sheets = (2 + 2 * length xs)%nat /\
    (forall it sid r cells, item_row_cells code_flags env inp xs it = Some (sid, r, cells) ->
       exists sh, nth_error sheets (sheet_index sid) = Some sh /\ cells <> [] /\
                  forall w, In w cells -> cw_row w = r /\ writes_at (sw_writes sh) r (cw_col w) = [w]) /\
    (forall it it' sid r cells cells', item_row_cells code_flags env inp xs it = Some (sid, r, cells) ->
       item_row_cells code_flags env inp xs it' = Some (sid, r, cells') -> it = it') /\
    (forall it sid r cells, item_row_cells code_flags env inp xs it = Some (sid, r, cells) -> static_row inp xs sid r = false) /\
    (forall sid sh w, sid <> SLegend -> nth_error sheets (sheet_index sid) = Some sh -> In w (sw_writes sh) ->
       static_row inp xs sid (cw_row w) = true \/
       exists it cells, item_row_cells code_flags env inp xs it = Some (sid, cw_row w, cells) /\ In w cells).
Proof. intros env inp sheets. exact (every_window_row_once code_flags env inp sheets eq_refl). Qed.
(** where each kind of item is: sheet and row (the table starts of C13_in_out_rows / the Tax layout), and the item exists *)
Theorem C13_item_positions : forall fl env inp xs kd j i sid r cells, item_row_cells fl env inp xs (WItem kd j i) = Some (sid, r, cells) ->
  exists x, nth_error xs j = Some x /\
    let IL := inout_rows_of (ac_c x) in let TL := tax_layout_of inp x in let n := Z.of_nat i in
    match kd with
    | KIn => sid = SInOut j /\ r = il_in IL + n /\ (i < length (cd_ins (ac_c x)))%nat
    | KOut => sid = SInOut j /\ r = il_out IL + n /\ (i < length (cd_outs (ac_c x)))%nat
    | KIntra => sid = SInOut j /\ r = il_intra IL + n /\ (i < length (cd_intras (ac_c x)))%nat
    | KYearly => sid = STax j /\ r = tl_gls TL + n /\ (i < length (cd_yearly (ac_c x)))%nat
    | KBalance => sid = STax j /\ r = tl_bal TL + n /\ (i < length (cd_balances (ac_c x)))%nat
    | KTotal => sid = STax j /\ r = tl_tot TL + n /\ (i < length (holder_totals inp (cd_balances (ac_c x))))%nat
    | KFraction => sid = STax j /\ r = tl_det TL + n /\ (i < length (drows (ac_c x)))%nat
    | KSummary => sid = SSummary /\ r = gen_header_height + lines_before xs j + n /\ (i < length (cd_yearly (ac_c x)))%nat
    end.
Proof. exact item_inv. Qed.
(** every position in the file is the position of some sheet id (Legend 0, Summary 1, In-Out of asset j 2 + 2j, its Tax 3 + 2j) *)
Theorem C13_every_sheet_has_an_id : forall n, exists sid, sheet_index sid = n.
Proof. exact sheet_index_onto. Qed.
(** non-vacuity: the two-asset input of the C19 witnesses -- the report is produced, the second asset's first Summary line sits
    below the lines of the first asset, its first fraction is on its own Tax sheet, every sheet passes [sheet_ok] *)
Theorem C13_window_rows_nonvacuous :
  exists sheets acs, full_report fixed_flags wenv w_f3 = ROk sheets /\ computed_all w_f3 (rp_assets w_f3) = Ok acs /\
    let xs := actxs 0 acs (fe_extra wenv) in
    length xs = 2%nat /\
    (exists sid r cells, item_row_cells fixed_flags wenv w_f3 xs (WItem KSummary 1 0) = Some (sid, r, cells) /\
        sid = SSummary /\ r = gen_header_height + lines_before xs 1 /\ 0 < lines_before xs 1 /\ cells <> []) /\
    (exists sid r cells, item_row_cells fixed_flags wenv w_f3 xs (WItem KFraction 1 0) = Some (sid, r, cells) /\ sid = STax 1) /\
    Forall (fun s => sheet_ok s = true) sheets.
Proof. exact summary_position_example. Qed.

Print Assumptions C13_layout_in_out.
Print Assumptions C13_layout_tax.
Print Assumptions C13_in_transaction_row.
Print Assumptions C13_out_transaction_row.
Print Assumptions C13_intra_transaction_row.
Print Assumptions C13_in_out_rows.
Print Assumptions C13_in_figures.
Print Assumptions C13_yearly_line_row.
Print Assumptions C13_balance_row.
Print Assumptions C13_holder_total_row.
Print Assumptions C13_average_price_cell.
Print Assumptions C13_fraction_row.
Print Assumptions C13_fraction_figures.
Print Assumptions C13_final_content_in_out.
Print Assumptions C13_final_content_tax.
Print Assumptions C13_summary_line_row.
Print Assumptions C13_report_shape.
Print Assumptions C13_in_out_sheet_capacity.
Print Assumptions C13_tax_sheet_capacity.
Print Assumptions C13_tax_sheet_overflow_refuted.
Print Assumptions C13_tax_sheet_max_holders_fit.
Print Assumptions C13_max_holders.
Print Assumptions C13_labels_are_numbering.
Print Assumptions C13_legend_methods.
Print Assumptions C13_legend_refuted_keyed_by_1970.
Print Assumptions C13_legend_cells.
Print Assumptions C13_all_sheets_within_capacity.
Print Assumptions C13_total_lines_counts_yearly_lines.
Print Assumptions C13_report_produced_within_capacity.
Print Assumptions C13_summary_line_absolute_row.
Print Assumptions C13_lines_before.
Print Assumptions C13_summary_line_cell_linked.
Print Assumptions C13_summary_line_figures.
Print Assumptions C13_summary_rows_distinct.
Print Assumptions C13_summary_rows_of_assets_disjoint.
Print Assumptions C13_every_window_row_once.
Print Assumptions C13_item_positions.
Print Assumptions C13_every_sheet_has_an_id.
Print Assumptions C13_window_rows_nonvacuous.

(** Source tie (regenerated on every run).  The running sums the full report prints (get_crypto_in_running_sum,
    ..._in_fee_..., ..._out_..., ..._out_fee_..., ..._intra_fee_..., ..._gain_loss_...) computed from the tables the translator
    reads from the loops of ComputedData.__init__ (Model/GeneratedTie.v [gen_run_*]: the set iterated, no cut, the attribute
    added to an accumulator that is ZERO before the loop and stored after the addition; interpreter [run_gen] of
    Model/ComputedGen.v) are the [running] sums of [compute] (cd_in_running, cd_out_running, cd_intra_running, cd_gl_running).
    An edit that accumulates another attribute (e.g. crypto_taxable_amount for crypto_out_no_fee) or iterates another set
    makes this theorem stop compiling (Proofs/ComputedGenRunning.v). *)
From RP2V Require Import Model.GeneratedTie Model.ComputedGen Proofs.ComputedGenRunning.
Theorem C13_source_tie_running_sums :
  (forall from_day to_day ins, run_in_gen from_day to_day ins = running i_crypto_in 0 ins) /\
  (forall from_day to_day ins, run_in_fee_gen from_day to_day ins = running i_crypto_fee 0 ins) /\
  (forall from_day to_day outs, run_out_gen from_day to_day outs = running o_crypto_out_no_fee 0 outs) /\
  (forall from_day to_day outs, run_out_fee_gen from_day to_day outs = running o_crypto_fee 0 outs) /\
  (forall from_day to_day xs, run_intra_fee_gen from_day to_day xs = running x_crypto_fee 0 xs) /\
  (forall from_day to_day gls, run_gl_gen from_day to_day gls = running g_amt 0 gls).
Proof. exact running_sums_gen_agree. Qed.
Print Assumptions C13_source_tie_running_sums.

(** Source tie (regenerated on every run): which rows of the three transaction sheets and of the gain/loss sheet are in the
    window.  The per-entry tests of `EntrySetIterator.__next__`, re-read from abstract_entry_set.py (Model/GeneratedTie.v,
    fragment entry_set) and interpreted by Model/EntrySetGen.v, select exactly the [iter_window] views [compute] puts into
    cd_ins / cd_outs / cd_intras / cd_gls: every entry is tested (not only the leading ones) on its own calendar day, against
    both bounds.  Proofs/EntrySetGenProofs.v. *)
From RP2V Require Import Model.EntrySetGen Proofs.EntrySetGenProofs.
Theorem C13_source_tie_window_rows :
  (forall from_day to_day (ins : list intx),
     iter_window_gen i_ts from_day to_day ins = iter_window (fun a => local_day (i_ts a)) from_day to_day ins) /\
  (forall from_day to_day (outs : list outtx),
     iter_window_gen o_ts from_day to_day outs = iter_window (fun a => local_day (o_ts a)) from_day to_day outs) /\
  (forall from_day to_day (xs : list intratx),
     iter_window_gen x_ts from_day to_day xs = iter_window (fun a => local_day (x_ts a)) from_day to_day xs) /\
  (forall from_day to_day (gls : list gl),
     iter_window_gen (fun g => t_ts (g_ev g)) from_day to_day gls = iter_window g_day from_day to_day gls).
Proof.
  exact (conj (iter_window_gen_agrees i_ts) (conj (iter_window_gen_agrees o_ts) (conj (iter_window_gen_agrees x_ts)
        (iter_window_gen_agrees (fun g => t_ts (g_ev g)))))).
Qed.
Print Assumptions C13_source_tie_window_rows.
