(** Property C08 -- histories that overdraw an account are rejected unless -n is given.

    Model: [balances allow to_day exs hos t] / [compute ... allow ...] of Model/Computed.v; [allow] is the
    -n switch (Configuration.allow_negative_balances).  After every out-transaction and every transfer the
    code tests the debited account: [quantize(1e-10) of the balance <> 0 and balance < 0 and not allow]
    ([goes_negative], mask digits read from balance.py by the translator).  Amounts are integers in units of
    1e-11 coins, so 1e-10 is 10 units; the test is [balance < -5] units (BalanceProofs.goes_negative_iff_gen:
    half-even rounding to 1e-10 is zero exactly on [-5, 5]).
    [shown] below is what the replay sees: [take_until txn_day to_day (replay_order t)]; a "moment" is a prefix
    of it; [balance_after ex ho q] is the running balance of account (ex, ho) after the prefix [q];
    [overdrawn_at tol p x] says that right after [x] (which follows the prefix [p]) the account debited by [x] is more
    than [tol] units below zero.  Vocabulary: Model/ComputedSpec.v.  Proofs: Proofs/BalanceProofs.v, Proofs/C08Proofs.v. *)
From Coq Require Import List ZArith Bool Lia.
From RP2V Require Import Base.Prelude Base.Time Base.Dec Model.Types Model.Generated Model.Matcher Model.MatchWf Model.Pipeline Model.Computed Model.ComputedSpec
  Proofs.BalanceProofs Proofs.C08Proofs Proofs.C08Compute.
Import ListNotations.
Open Scope Z_scope.

(** the tolerance test of the code, numerically *)
Theorem C08_tolerance : forall bal, goes_negative bal = true <-> bal < -5.
Proof. exact goes_negative_iff_gen. Qed.

(** exact characterisation: without -n the history is rejected iff at some moment a debit leaves the debited
    account more than 5e-11 below zero (transient overdrafts included: the statement is over prefixes) *)
Theorem C08_rejected_iff : forall to_day exs hos t, holders_ok t ->
  (balances false to_day exs hos t = Err ENegBalance <->
   exists p x r, take_until txn_day to_day (replay_order t) = p ++ x :: r /\ overdrawn_at 5 p x).
Proof. exact c08_rejected_iff. Qed.

(** this is the only way the balance computation fails, and never with -n *)
Theorem C08_only_error : forall to_day exs hos t allow e, balances allow to_day exs hos t = Err e -> e = ENegBalance /\ allow = false.
Proof. exact c08_only_error. Qed.

(** "rejected with an error naming the account": the rejection happens at the first such debit, and the account
    reported ([first_negative], the account of the error message) is the account debited by it, whose running
    balance is then below -5e-11 *)
Theorem C08_first_overdraft_named : forall to_day exs hos t, holders_ok t ->
  forall e, balances false to_day exs hos t = Err e ->
  exists p x r ex ho, take_until txn_day to_day (replay_order t) = p ++ x :: r /\
    debited x = Some (ex, ho) /\ balance_after ex ho (p ++ [x]) < -5 /\
    (forall p1 y p2, p = p1 ++ y :: p2 -> ~ overdrawn_at 5 p1 y) /\
    first_negative false {| bs_acq := []; bs_sent := []; bs_recv := []; bs_final := [] |}
                   (take_until txn_day to_day (replay_order t)) = Some (ex, ho).
Proof. exact c08_first_overdraft. Qed.

(** "a history in which any account's running balance drops below zero by more than 1e-10 at any moment is rejected":
    any account, any prefix (credits are non-negative, as the constructors guarantee for everything but negative
    STAKING income, which the matcher rejects) *)
Theorem C08_overdraft_rejected : forall to_day exs hos t, holders_ok t ->
  credits_nonneg (take_until txn_day to_day (replay_order t)) ->
  (exists q r ex ho, take_until txn_day to_day (replay_order t) = q ++ r /\ balance_after ex ho q < -10) ->
  balances false to_day exs hos t = Err ENegBalance.
Proof. exact c08_overdraft_rejected. Qed.

(** "A history in which no account ever goes negative is never rejected for this reason" *)
Theorem C08_never_negative_accepted : forall to_day exs hos t, holders_ok t ->
  (forall q r ex ho, take_until txn_day to_day (replay_order t) = q ++ r -> 0 <= balance_after ex ho q) ->
  exists bl, balances false to_day exs hos t = Ok bl.
Proof. exact c08_never_negative_accepted. Qed.

(** neither too strict: dust of up to 5e-11 below zero after a debit is tolerated *)
Theorem C08_within_tolerance_accepted : forall to_day exs hos t, holders_ok t ->
  (forall p x r, take_until txn_day to_day (replay_order t) = p ++ x :: r -> ~ overdrawn_at 5 p x) ->
  exists bl, balances false to_day exs hos t = Ok bl.
Proof. exact c08_never_overdrawn_accepted. Qed.

(** "with -n the run proceeds and reports the negative balance": never rejected, every final balance is the
    account's net flow (whatever its sign) *)
Theorem C08_allowed_reports : forall to_day exs hos t, holders_ok t ->
  exists bl, balances true to_day exs hos t = Ok bl /\
    forall b, In b bl -> b_final b = balance_after (b_exch b) (b_holder b) (take_until txn_day to_day (replay_order t)).
Proof. exact c08_allowed_reports. Qed.

(** the switch changes nothing else: on a history that is accepted both settings give the same table, and in the
    whole computation ([compute]) the guard is the only place where the switch matters -- "no report is produced":
    the run without -n returns the error instead of a result *)
Theorem C08_switch_irrelevant_when_accepted : forall to_day exs hos t bl,
  balances false to_day exs hos t = Ok bl -> balances true to_day exs hos t = Ok bl.
Proof. exact c08_switch_irrelevant_when_accepted. Qed.

Theorem C08_compute_switch : forall period from_day to_day exs hos t fs cd,
  compute period from_day to_day true exs hos t fs = Ok cd ->
  (forall bl, balances false to_day exs hos t = Ok bl -> compute period from_day to_day false exs hos t fs = Ok cd) /\
  (forall e, balances false to_day exs hos t = Err e -> compute period from_day to_day false exs hos t fs = Err ENegBalance).
Proof. exact c08_compute_switch. Qed.

(** end to end, for the aggregation [compute] and for matching + aggregation [compute_tax]: the negative-balance error can only
    come from the balance replay (every other stage fails with another error kind), it is raised at the first overdraft and
    names the overdrawn account ([first_negative] = the account of the message, [acct_name] its "exchange_holder" text);
    a history that is otherwise fine is rejected without -n exactly when some debit overdraws, and computed identically otherwise *)
Theorem C08_compute_names_overdrawn_account : forall period from_day to_day allow exs hos t fs, holders_ok t ->
  compute period from_day to_day allow exs hos t fs = Err ENegBalance ->
  allow = false /\
  exists p x r ex ho, take_until txn_day to_day (replay_order t) = p ++ x :: r /\
    debited x = Some (ex, ho) /\ balance_after ex ho (p ++ [x]) < -5 /\
    (forall p1 y p2, p = p1 ++ y :: p2 -> ~ overdrawn_at 5 p1 y) /\
    first_negative false {| bs_acq := []; bs_sent := []; bs_recv := []; bs_final := [] |}
                   (take_until txn_day to_day (replay_order t)) = Some (ex, ho).
Proof. exact compute_names_overdrawn_account. Qed.

Theorem C08_compute_rejects_exactly_overdrafts : forall period from_day to_day exs hos t fs cd, holders_ok t ->
  compute period from_day to_day true exs hos t fs = Ok cd ->
  (compute period from_day to_day false exs hos t fs = Err ENegBalance <->
   exists p x r, take_until txn_day to_day (replay_order t) = p ++ x :: r /\ overdrawn_at 5 p x) /\
  ((forall p x r, take_until txn_day to_day (replay_order t) = p ++ x :: r -> ~ overdrawn_at 5 p x) ->
   compute period from_day to_day false exs hos t fs = Ok cd).
Proof. exact compute_rejects_overdraft. Qed.

Theorem C08_compute_tax_names_overdrawn_account : forall period from_day to_day allow exs hos sched t evs, holders_ok t ->
  taxable_events t = Ok evs -> wf (t_ins t) sched (map event_of evs) ->
  compute_tax period from_day to_day allow exs hos sched t = Err ENegBalance ->
  allow = false /\
  (exists fs, fractions_of gen_always_repush sched t = Ok fs) /\
  exists p x r ex ho, take_until txn_day to_day (replay_order t) = p ++ x :: r /\
    debited x = Some (ex, ho) /\ balance_after ex ho (p ++ [x]) < -5 /\
    (forall p1 y p2, p = p1 ++ y :: p2 -> ~ overdrawn_at 5 p1 y) /\
    first_negative false {| bs_acq := []; bs_sent := []; bs_recv := []; bs_final := [] |}
                   (take_until txn_day to_day (replay_order t)) = Some (ex, ho).
Proof. exact compute_tax_names_overdrawn_account. Qed.

(** Non-vacuity (Proofs/C08Proofs.v and Proofs/L4Examples.v, evaluated by the kernel): history B (buy 1, sell 2, buy 5:
    transient overdraft, final balance +4) meets the hypotheses of C08_overdraft_rejected ([tB_holders_ok],
    [tB_credits_nonneg], [tB_overdrawn]) and is rejected ([c08_overdraft_instance], [c08_first_instance],
    [tB_rejected]: account E0/H0 is named), accepted with -n ([tB_final_positive]) and reports -1 coin when the to-date
    lies before the refill ([tB_negative_reported]); dust: 5e-11 below zero accepted, 6e-11 rejected ([dust_5_accepted],
    [dust_6_rejected]); history A is accepted under both settings ([c08_accepted_instance]); Proofs/C08Compute.v:
    [tB_compute_rejected], [tB_compute_named] (instance of C08_compute_names_overdrawn_account), [tB_account_name] ("E0_H0"). *)

Print Assumptions C08_tolerance.
Print Assumptions C08_rejected_iff.
Print Assumptions C08_only_error.
Print Assumptions C08_first_overdraft_named.
Print Assumptions C08_overdraft_rejected.
Print Assumptions C08_never_negative_accepted.
Print Assumptions C08_within_tolerance_accepted.
Print Assumptions C08_allowed_reports.
Print Assumptions C08_switch_irrelevant_when_accepted.
Print Assumptions C08_compute_switch.
Print Assumptions C08_compute_names_overdrawn_account.
Print Assumptions C08_compute_rejects_exactly_overdrafts.
Print Assumptions C08_compute_tax_names_overdrawn_account.

(** ------------------------------------------------------------------------------------------------------------
    Without the premise "the run with -n succeeds" (Proofs/ComputeTotal.v).  [C08_compute_rejects_exactly_overdrafts] above
    assumes that the computation goes through when negative balances are allowed.  On the matcher's output for a history built
    by the constructors ([matched_history sched h t fs]: [build h = Ok t], IN rows in sheet order, events of one instant in one
    local year, the schedule covers every event year with distinct years, [fractions_of gen_always_repush sched t = Ok fs]) that
    premise is a theorem: every other stage of [compute] succeeds, for every window.  So the overdraft guard is the ONLY way
    the computation fails, and it fails exactly on an overdraft without -n. *)
From RP2V Require Import Model.MatchSpec Model.TotalSpec Proofs.PipelineWf Proofs.ComputeTotal Proofs.L4Examples Proofs.ComputeTotalExamples.

Theorem C08_guard_is_the_only_failure : forall sched h t fs, matched_history sched h t fs ->
  forall period from_day to_day allow exs hos e,
  compute period from_day to_day allow exs hos t fs = Err e -> e = ENegBalance /\ allow = false.
Proof. exact compute_only_error. Qed.

Theorem C08_rejected_exactly_on_overdraft : forall sched h t fs, matched_history sched h t fs ->
  forall period from_day to_day exs hos, holders_ok t ->
  (exists cd, compute period from_day to_day true exs hos t fs = Ok cd /\
     (never_overdrawn to_day t -> compute period from_day to_day false exs hos t fs = Ok cd)) /\
  (forall allow, compute period from_day to_day allow exs hos t fs = Err ENegBalance <-> allow = false /\ some_overdraft to_day t) /\
  (forall allow, (exists cd, compute period from_day to_day allow exs hos t fs = Ok cd) <-> allow = true \/ never_overdrawn to_day t).
Proof. exact compute_err_exact. Qed.

(** the same for matching + aggregation: besides the overdraft the only failure is the matcher running out of lots *)
Theorem C08_compute_tax_outcome : forall sched h t evs, built_history sched h t -> taxable_events t = Ok evs ->
  forall period from_day to_day allow exs hos, holders_ok t ->
  (compute_tax period from_day to_day allow exs hos sched t = Err EExhausted <-> lots_exhausted t evs) /\
  (compute_tax period from_day to_day allow exs hos sched t = Err ENegBalance <->
     ~ lots_exhausted t evs /\ allow = false /\ some_overdraft to_day t) /\
  ((exists cd, compute_tax period from_day to_day allow exs hos sched t = Ok cd) <->
     ~ lots_exhausted t evs /\ (allow = true \/ never_overdrawn to_day t)) /\
  (forall e, compute_tax period from_day to_day allow exs hos sched t = Err e -> e = EExhausted \/ e = ENegBalance).
Proof. exact compute_tax_outcome. Qed.

(** non-vacuity (Proofs/ComputeTotalExamples.v): [hB'] = buy 1 on E0, buy 5 on E1, sell 2 from E0 -- enough lots for the matcher,
    but the selling account is overdrawn: rejected without -n when the to-date includes the sale, computed with -n, computed
    without -n for a to-date before the sale *)
Theorem C08_guard_only_failure_nonvacuous :
  matched_history schedA hB' tB' fsB' /\ holders_ok tB' /\
  compute 365 0 100000 false exsA hosA tB' fsB' = Err ENegBalance /\
  (exists cd, compute 365 0 100000 true exsA hosA tB' fsB' = Ok cd) /\
  (exists cd, compute 365 0 18005 false exsA hosA tB' fsB' = Ok cd).
Proof. exact (conj hB'_matched (conj tB'_holders_ok hB'_outcomes)). Qed.

Print Assumptions C08_guard_is_the_only_failure.
Print Assumptions C08_rejected_exactly_on_overdraft.
Print Assumptions C08_compute_tax_outcome.
Print Assumptions C08_guard_only_failure_nonvacuous.

(** Source tie (regenerated on every run).  [bal_step_gen] (Model/BalanceGen.v) executes, for one transaction, the statements
    the translator reads from the loop body of balance.py (Model/GeneratedTie.v [gen_bal_program]): the stores in source order
    and then the test [not is_equal_within_precision(final[from], ZERO, mask) and final[from] < ZERO and not allow -> raise] on
    the value just stored.  It is the hand-written [bal_step] whose guard the theorems above are about; an edit that moves the
    test before the stores, tests another value or drops it makes this theorem stop compiling (Proofs/BalanceGenProofs.v). *)
From RP2V Require Import Model.GeneratedTie Model.BalanceGen Proofs.BalanceGenProofs.
Theorem C08_source_tie_overdraft_guard :
  forall (allow : bool) (st : result balst) (t : txn), bal_step_gen allow st t = bal_step allow st t.
Proof. exact bal_step_gen_agrees. Qed.
Print Assumptions C08_source_tie_overdraft_guard.
