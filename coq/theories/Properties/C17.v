(** Property C17 -- results depend only on the input: deterministic, order- and asset-independent.

    PARTIAL.  Proved here, over the model:
    (1) permuting the rows inside the IN / OUT / INTRA tables (each row keeps its id and is permuted along)
        leaves the constructed, time-sorted transaction sets, the taxable events and the gain/loss fractions
        unchanged, provided the instants within each table are pairwise distinct (uniqueness of stable
        sorting); the order of the three tables inside a sheet does not exist in the model's input ([hist] has
        one list per table) -- that the parser collects the tables independently of their order is only
        corresponded;
    (2) asset independence: in the model the per-asset result is by construction a function of that asset's
        sheet, the configuration and the artificial-id counter (Parser.parse_sheet, Pipeline.fractions_of take
        nothing else).  The counter -- the only state shared between the assets of one run; it starts at 0 and
        only decreases, the statement needs c <= 1 = the first sheet row -- only shifts the ids of the artificial
        FEE rows (in the out-transactions and in the row-id -> (unique id, notes) table alike); those ids lie below the counter's start value and are pairwise
        distinct; and the matcher treats the row id of an event as an opaque label, so a renaming of event ids
        shows up in the fractions as that renaming and nothing else;
    (3) where a Python set reaches the output it passes through a sort whose key is injective on the set:
        the configured assets (sorted by name) and the yearly summary lines (key injective on
        (year, type, long/short)); any iteration order of the set gives the same list.
    Only corresponded (harness/props/c17.py): repeated runs, PYTHONHASHSEED, files already present in the
    output directory, the report writers (L5) under permutations and asset subsets, row-id renaming
    end to end.  The class-level row dictionary of rp2_full_report (finding F3) makes the *reports* of one
    asset depend on the other assets processed before it; that is outside this model and is caught by the
    correspondence run. *)
From Coq Require Import Permutation.
From RP2V Require Import Base.Prelude Base.Time Base.Dec.
From RP2V Require Import Base.Sorting Model.Types Model.Generated.
From RP2V Require Import Model.Txn Model.Matcher Model.Pipeline.
From RP2V Require Import Model.Parser Model.Computed Model.MainRun.
From RP2V Require Import Proofs.YearlyProofs Proofs.C17Proofs.
Open Scope Z_scope.

(** (1) *)
Theorem C17_build_perm_invariant : forall h h' t,
  hist_perm h h' -> distinct_instants h -> build h = Ok t -> build h' = Ok t.
Proof. exact build_perm_invariant. Qed.

Theorem C17_pipeline_perm_invariant : forall b sched h h',
  hist_perm h h' -> distinct_instants h ->
  (forall r, pipeline b sched h = Ok r <-> pipeline b sched h' = Ok r) /\
  ((exists e, pipeline b sched h = Err e) <-> (exists e, pipeline b sched h' = Err e)).
Proof. exact pipeline_perm_invariant. Qed.

(** (2) *)
Theorem C17_counter_only_renames_artificial_ids : forall cfg asset c d rows, c <= 1 ->
  match parse_sheet cfg asset c rows with
  | Err e => parse_sheet cfg asset (c + d) rows = Err e
  | Ok p => exists real arts,
      pa_outs p = real ++ arts /\
      parse_sheet cfg asset (c + d) rows =
        Ok {| pa_ins := pa_ins p; pa_outs := real ++ map (shift_out d) arts; pa_intras := pa_intras p; pa_counter := pa_counter p + d;
              pa_meta := shift_meta d c (pa_meta p) |}
  end.
Proof. exact counter_only_renames_artificial_ids. Qed.

Theorem C17_artificial_ids_below_counter : forall cfg asset c rows p,
  parse_parts cfg asset c rows = Ok p ->
  pp_counter p <= c /\ Forall (fun o => pp_counter p <= o_row o < c) (pp_art p) /\ NoDup (map o_row (pp_art p)).
Proof. exact artificial_ids_below_counter. Qed.

Theorem C17_matcher_event_renaming : forall (rho : Z -> Z) ar lots sched evs,
  run_matcher ar lots sched (map (ren_ev rho) evs) = map_res (map (ren_frac rho)) (run_matcher ar lots sched evs).
Proof. exact matcher_event_renaming. Qed.

(** end to end for one asset: if the out-transactions of an asset carry other ids (the artificial FEE rows do when other
    assets were processed before), the fractions are the same up to that renaming -- provided the renaming leaves the
    rows of acquisitions and transfers alone and is injective on the rows of the taxable events *)
Theorem C17_fractions_up_to_out_row_renaming : forall (rho : Z -> Z) t,
  (forall a, In a (t_ins t) -> rho (i_row a) = i_row a) ->
  (forall a, In a (t_intras t) -> rho (x_row a) = x_row a) ->
  (forall x y, In x (map t_row (taxable_unsorted t)) -> In y (map t_row (taxable_unsorted t)) -> rho x = rho y -> x = y) ->
  forall b sched, fractions_of b sched (ren_txs rho t) = map_res (map (ren_frac rho)) (fractions_of b sched t).
Proof. exact fractions_out_renaming. Qed.

(** (3) *)
Theorem C17_assets_order_independent : forall l l', Permutation l l' -> sort_leb str_leb l = sort_leb str_leb l'.
Proof. exact assets_order_independent. Qed.

Theorem C17_run_config_order_independent : forall c o cf cf' inp,
  Permutation (cf_assets cf) (cf_assets cf') -> cf_sched cf = cf_sched cf' -> MainRun.run c o cf inp = MainRun.run c o cf' inp.
Proof. exact run_config_order_independent. Qed.

Theorem C17_yearly_lines_order_independent : forall period gls m l',
  lines period gls = Ok m -> Permutation (map snd m) l' ->
  sort_by (fun l => - yline_key l) l' = sort_by (fun l => - yline_key l) (map snd m).
Proof. exact yearly_lines_order_independent. Qed.

Print Assumptions C17_build_perm_invariant.
Print Assumptions C17_pipeline_perm_invariant.
Print Assumptions C17_counter_only_renames_artificial_ids.
Print Assumptions C17_artificial_ids_below_counter.
Print Assumptions C17_matcher_event_renaming.
Print Assumptions C17_fractions_up_to_out_row_renaming.
Print Assumptions C17_assets_order_independent.
Print Assumptions C17_run_config_order_independent.
Print Assumptions C17_yearly_lines_order_independent.

(** * (1b) Tables reordered within a sheet -- PROVED (supersedes the remark under (1) above that the order of the tables is
    only corresponded).  Vocabulary: Model/Render.v ([block]: one table with the blank rows before it, keyword / header / data /
    TABLE END rows; [render_sheet]; [wf_blocks]; [expected]), Model/TableOrderSpec.v:
    [same_tables bl1 bl2]: the two sheets hold the same tables -- same type, same typed rows in the same order -- in any order
    of the tables, with any blank rows between them, any junk in unmapped columns, any row widths;
    [renamed_by rho p1 p2]: the three transaction sets of [p2] are those of [p1] with every row id [r] replaced by [rho r], the
    artificial-id counter is the same, the table row id -> (unique_id, notes) holds the renamed entries (as a permutation: its
    order follows the sheet), and [rho] is a [table_renaming]: it fixes every id <= 0 (the artificial ids of the fee
    disposals), sends sheet rows to sheet rows, keeps the order of the rows within each table, identifies no two rows;
    [same_up_to_rows p1 p2] := exists rho, renamed_by rho p1 p2;
    [txs_of_parsed]: duplicate-id check, IN set not empty, the three sets sorted by instant -- the second half of [Pipeline.build]
    ([C17_build_is_constructors_then_sets]); [rn_txs], [rn_txn], [rn_frac]: the renaming applied to transaction sets, taxable events,
    fractions (event id and lot id).
    Artificial fee ids: they are allocated counting down from the counter in sheet order of the acquisitions with a crypto fee;
    moving whole tables does not change the order inside the IN table, so corresponding fee disposals get the SAME id
    ([C17_same_up_to_rows_forget], last clause); needed: the counter starts at or below 1 (it starts at 0 and only decreases), so
    that artificial ids are <= 0 and cannot collide with sheet rows.
    The property text demands pairwise distinct timestamps for reordering; for reordering whole TABLES the theorems need no such
    hypothesis: the order inside each table is unchanged, and the event list is built table by table (in, out, intra) whatever
    the order in the sheet. *)
From RP2V Require Import Model.Render Model.TableOrderSpec Proofs.ParserSpec Proofs.ParserExample Proofs.TableOrder Proofs.TableOrderExample.

(** the parser: the two rendered sheets parse, and their results are equal up to row ids *)
Theorem C17_table_order_parse_invariant : forall cfg asset ai counter bl1 bl2 tr1 tr2 p1,
  str_index asset (pc_assets cfg) 0 = Some ai ->
  wf_blocks cfg asset 1 bl1 -> wf_blocks cfg asset 1 bl2 ->
  NoDup (map (fun b => tab_code (b_tab b)) bl1) -> same_tables bl1 bl2 ->
  (forall r, In r tr1 -> is_blank_row r = true) -> (forall r, In r tr2 -> is_blank_row r = true) ->
  counter <= 1 -> expected cfg counter bl1 = Ok p1 -> pa_ins p1 <> [] ->
  parse_sheet cfg asset counter (render_sheet cfg asset bl1 tr1) = Ok p1 /\
  exists p2, parse_sheet cfg asset counter (render_sheet cfg asset bl2 tr2) = Ok p2 /\ same_up_to_rows p1 p2.
Proof. exact table_order_parse_invariant. Qed.

(** "up to row ids": equal after forgetting the ids ([rn_* (fun _ => 0)]), same counter, and the artificial fee disposals
    (ids <= 0) coincide including their ids *)
Theorem C17_same_up_to_rows_forget : forall p1 p2, same_up_to_rows p1 p2 ->
  map (rn_in (fun _ => 0)) (pa_ins p1) = map (rn_in (fun _ => 0)) (pa_ins p2) /\
  map (rn_out (fun _ => 0)) (pa_outs p1) = map (rn_out (fun _ => 0)) (pa_outs p2) /\
  map (rn_intra (fun _ => 0)) (pa_intras p1) = map (rn_intra (fun _ => 0)) (pa_intras p2) /\
  pa_counter p1 = pa_counter p2 /\
  filter (fun o => o_row o <=? 0) (pa_outs p1) = filter (fun o => o_row o <=? 0) (pa_outs p2).
Proof. exact same_up_to_rows_forget. Qed.

(** the matcher, as the code has it, under a renaming of the row ids of the LOTS that keeps their order (and the dummy id 0):
    same pairing, same amounts, the fractions name the renamed lots -- for every input, well-formed or not *)
Theorem C17_matcher_lot_renaming : forall (rho : Z -> Z) ar lots, rho 0 = 0 -> mono_on rho (0 :: map i_row lots) ->
  forall sched evs,
  run_matcher ar (map (rn_in rho) lots) sched evs = rn_res (map (rn_lot rho)) (run_matcher ar lots sched evs).
Proof. exact matcher_lot_renaming. Qed.

(** the pipeline under a renaming of ALL row ids (order-preserving on the acquisitions, injective on the taxable events) *)
Theorem C17_pipeline_row_renaming : forall (rho : Z -> Z) t, rho 0 = 0 -> mono_on rho (0 :: map i_row (t_ins t)) ->
  inj_on rho (map t_row (taxable_unsorted t)) ->
  taxable_events (rn_txs rho t) = rn_res (map (rn_txn rho)) (taxable_events t) /\
  forall b sched, fractions_of b sched (rn_txs rho t) = rn_res (map (rn_frac rho)) (fractions_of b sched t).
Proof. exact pipeline_row_renaming. Qed.

Theorem C17_build_is_constructors_then_sets : forall h, build h =
  match map_result mk_in (h_ins h) with
  | Err e => Err e
  | Ok ins => match map_result mk_out (h_outs h) with
              | Err e => Err e
              | Ok outs => match map_result mk_intra (h_intras h) with Err e => Err e | Ok intras => txs_of_lists ins outs intras end
              end
  end.
Proof. exact build_txs_of_lists. Qed.

(** MAIN STATEMENT, composed: two sheets holding the same tables in different orders give -- parser, time-sorted sets, taxable
    events, gain/loss fractions, under every schedule, success and failure alike -- the same results up to ONE renaming of
    sheet rows *)
Theorem C17_table_order_pipeline_invariant : forall cfg asset ai counter bl1 bl2 tr1 tr2 p1,
  str_index asset (pc_assets cfg) 0 = Some ai ->
  wf_blocks cfg asset 1 bl1 -> wf_blocks cfg asset 1 bl2 ->
  NoDup (map (fun b => tab_code (b_tab b)) bl1) -> same_tables bl1 bl2 ->
  (forall r, In r tr1 -> is_blank_row r = true) -> (forall r, In r tr2 -> is_blank_row r = true) ->
  counter <= 1 -> expected cfg counter bl1 = Ok p1 -> pa_ins p1 <> [] ->
  parse_sheet cfg asset counter (render_sheet cfg asset bl1 tr1) = Ok p1 /\
  exists p2 rho,
    parse_sheet cfg asset counter (render_sheet cfg asset bl2 tr2) = Ok p2 /\ renamed_by rho p1 p2 /\
    txs_of_parsed p2 = rn_res (rn_txs rho) (txs_of_parsed p1) /\
    forall t1, txs_of_parsed p1 = Ok t1 ->
      taxable_events (rn_txs rho t1) = rn_res (map (rn_txn rho)) (taxable_events t1) /\
      forall b sched, fractions_of b sched (rn_txs rho t1) = rn_res (map (rn_frac rho)) (fractions_of b sched t1).
Proof. exact table_order_pipeline_invariant. Qed.

(** non-vacuity (Proofs/TableOrderExample.v): the sheet of Proofs/ParserExample.v (OUT, IN, INTRA; an acquisition with a crypto
    fee) and the same tables as IN, INTRA, OUT with other blank rows, keyword spelling, junk and widths: IN rows 8, 9 become 5, 6,
    the sale 4 becomes 17, the transfer 15 becomes 10, the artificial fee disposal keeps the id -1; the HIFO fractions are the
    same under that renaming *)
Theorem C17_table_order_nonvacuous :
  expected ex_cfg 0 ex_blocks = Ok ex_p1 /\ expected ex_cfg 0 ex_blocks2 = Ok ex_p2 /\
  map i_row (pa_ins ex_p1) = [8; 9] /\ map o_row (pa_outs ex_p1) = [4; -1] /\ map x_row (pa_intras ex_p1) = [15] /\
  map i_row (pa_ins ex_p2) = [5; 6] /\ map o_row (pa_outs ex_p2) = [17; -1] /\ map x_row (pa_intras ex_p2) = [10] /\
  exists rho,
    parse_sheet ex_cfg ex_asset 0 (render_sheet ex_cfg ex_asset ex_blocks [[CEmpty]]) = Ok ex_p1 /\
    parse_sheet ex_cfg ex_asset 0 (render_sheet ex_cfg ex_asset ex_blocks2 []) = Ok ex_p2 /\
    renamed_by rho ex_p1 ex_p2 /\ txs_of_parsed ex_p2 = Ok (rn_txs rho ex_t1) /\
    fractions_of gen_always_repush ex_sched (rn_txs rho ex_t1) = Ok (map (rn_frac rho) ex_fs1) /\
    map (fun f => (f_ev f, f_lot f)) ex_fs1 = [(9, None); (4, Some 8); (-1, Some 8)] /\
    map (fun f => (f_ev f, f_lot f)) (map (rn_frac rho) ex_fs1) = [(6, None); (17, Some 5); (-1, Some 5)].
Proof. exact table_order_nonvacuous. Qed.

Print Assumptions C17_table_order_parse_invariant.
Print Assumptions C17_same_up_to_rows_forget.
Print Assumptions C17_matcher_lot_renaming.
Print Assumptions C17_pipeline_row_renaming.
Print Assumptions C17_build_is_constructors_then_sets.
Print Assumptions C17_table_order_pipeline_invariant.
Print Assumptions C17_table_order_nonvacuous.

(** Source tie (regenerated on every run): the order keys of the matcher depend on the input only through the instant and the
    row.  Read from accounting_engine.py, abstract_accounting_method.py and the method plugins as data (Model/GeneratedTie.v,
    fragment avl_key; interpreter Model/AvlKeyGen.v): the AVL key of a lot ranks as (UTC instant in microseconds, row) - the
    offset a timestamp was written with and everything below the second both count the way the model says -, the lookup key as
    (instant of the event, 10^12 - 1), and the heap key of every feature-based method, with the NamedTuple's field order
    applied, is [meth_sort_key] (ties on the first component broken by acquisition time, then row).
    Proofs/AvlKeyGenProofs.v. *)
From RP2V Require Import Model.GeneratedTie Model.AvlKeyGen Proofs.AvlKeyGenProofs.
Theorem C17_source_tie_order_keys :
  (forall l, ak_inserted l = Some (utc_us (i_ts l), i_row l)) /\
  (forall te, ak_looked_up te = Some (utc_us te, ak_max_num)) /\
  (forall m l, meth_kind m = Feature -> sk_key_gen m l = Some (meth_sort_key m l)).
Proof. exact order_keys_gen_depend_on_instant_and_row. Qed.
Print Assumptions C17_source_tie_order_keys.
