(** Property C17 -- results depend only on the input: deterministic, order- and asset-independent.

    PARTIAL.  Proved here, over the model:
    (1) permuting the rows inside the IN / OUT / INTRA tables (each row keeps its id and is permuted along)
        leaves the constructed, time-sorted transaction sets, the taxable events and the gain/loss fractions
        unchanged, provided the instants within each table are pairwise distinct (uniqueness of stable
        sorting); the order of the three tables inside a sheet does not exist in the model's input ([hist] has
        one list per table) -- that the parser collects the tables independently of their order is only
        corresponded;
    (2) asset independence: in the model the per-asset result is by construction a function of that asset's
        sheet, the configuration and the artificial-id counter (Parser.parse_sheet, Pipeline.fractions_of take
        nothing else).  The counter -- the only state shared between the assets of one run; it starts at 0 and
        only decreases, the statement needs c <= 1 = the first sheet row -- only shifts the ids of the artificial
        FEE rows (in the out-transactions and in the row-id -> (unique id, notes) table alike); those ids lie below the counter's start value and are pairwise
        distinct; and the matcher treats the row id of an event as an opaque label, so a renaming of event ids
        shows up in the fractions as that renaming and nothing else;
    (3) where a Python set reaches the output it passes through a sort whose key is injective on the set:
        the configured assets (sorted by name) and the yearly summary lines (key injective on
        (year, type, long/short)); any iteration order of the set gives the same list.
    Only corresponded (harness/props/c17.py): repeated runs, PYTHONHASHSEED, files already present in the
    output directory, the report writers (L5) under permutations and asset subsets, row-id renaming
    end to end.  The class-level row dictionary of rp2_full_report (finding F3) makes the *reports* of one
    asset depend on the other assets processed before it; that is outside this model and is caught by the
    correspondence run. *)
From Coq Require Import Permutation.
From RP2V Require Import Base.Prelude Base.Time Base.Dec.
From RP2V Require Import Base.Sorting Model.Types Model.Generated.
From RP2V Require Import Model.Txn Model.Matcher Model.Pipeline.
From RP2V Require Import Model.Parser Model.Computed Model.MainRun.
From RP2V Require Import Proofs.YearlyProofs Proofs.C17Proofs.
Open Scope Z_scope.

(** (1) *)
Theorem C17_build_perm_invariant : forall h h' t,
  hist_perm h h' -> distinct_instants h -> build h = Ok t -> build h' = Ok t.
Proof. exact build_perm_invariant. Qed.

Theorem C17_pipeline_perm_invariant : forall b sched h h',
  hist_perm h h' -> distinct_instants h ->
  (forall r, pipeline b sched h = Ok r <-> pipeline b sched h' = Ok r) /\
  ((exists e, pipeline b sched h = Err e) <-> (exists e, pipeline b sched h' = Err e)).
Proof. exact pipeline_perm_invariant. Qed.

(** (2) *)
Theorem C17_counter_only_renames_artificial_ids : forall cfg asset c d rows, c <= 1 ->
  match parse_sheet cfg asset c rows with
  | Err e => parse_sheet cfg asset (c + d) rows = Err e
  | Ok p => exists real arts,
      pa_outs p = real ++ arts /\
      parse_sheet cfg asset (c + d) rows =
        Ok {| pa_ins := pa_ins p; pa_outs := real ++ map (shift_out d) arts; pa_intras := pa_intras p; pa_counter := pa_counter p + d;
              pa_meta := shift_meta d c (pa_meta p) |}
  end.
Proof. exact counter_only_renames_artificial_ids. Qed.

Theorem C17_artificial_ids_below_counter : forall cfg asset c rows p,
  parse_parts cfg asset c rows = Ok p ->
  pp_counter p <= c /\ Forall (fun o => pp_counter p <= o_row o < c) (pp_art p) /\ NoDup (map o_row (pp_art p)).
Proof. exact artificial_ids_below_counter. Qed.

Theorem C17_matcher_event_renaming : forall (rho : Z -> Z) ar lots sched evs,
  run_matcher ar lots sched (map (ren_ev rho) evs) = map_res (map (ren_frac rho)) (run_matcher ar lots sched evs).
Proof. exact matcher_event_renaming. Qed.

(** end to end for one asset: if the out-transactions of an asset carry other ids (the artificial FEE rows do when other
    assets were processed before), the fractions are the same up to that renaming -- provided the renaming leaves the
    rows of acquisitions and transfers alone and is injective on the rows of the taxable events *)
Theorem C17_fractions_up_to_out_row_renaming : forall (rho : Z -> Z) t,
  (forall a, In a (t_ins t) -> rho (i_row a) = i_row a) ->
  (forall a, In a (t_intras t) -> rho (x_row a) = x_row a) ->
  (forall x y, In x (map t_row (taxable_unsorted t)) -> In y (map t_row (taxable_unsorted t)) -> rho x = rho y -> x = y) ->
  forall b sched, fractions_of b sched (ren_txs rho t) = map_res (map (ren_frac rho)) (fractions_of b sched t).
Proof. exact fractions_out_renaming. Qed.

(** (3) *)
Theorem C17_assets_order_independent : forall l l', Permutation l l' -> sort_leb str_leb l = sort_leb str_leb l'.
Proof. exact assets_order_independent. Qed.

Theorem C17_run_config_order_independent : forall c o cf cf' inp,
  Permutation (cf_assets cf) (cf_assets cf') -> cf_sched cf = cf_sched cf' -> MainRun.run c o cf inp = MainRun.run c o cf' inp.
Proof. exact run_config_order_independent. Qed.

Theorem C17_yearly_lines_order_independent : forall period gls m l',
  lines period gls = Ok m -> Permutation (map snd m) l' ->
  sort_by (fun l => - yline_key l) l' = sort_by (fun l => - yline_key l) (map snd m).
Proof. exact yearly_lines_order_independent. Qed.

Print Assumptions C17_build_perm_invariant.
Print Assumptions C17_pipeline_perm_invariant.
Print Assumptions C17_counter_only_renames_artificial_ids.
Print Assumptions C17_artificial_ids_below_counter.
Print Assumptions C17_matcher_event_renaming.
Print Assumptions C17_fractions_up_to_out_row_renaming.
Print Assumptions C17_assets_order_independent.
Print Assumptions C17_run_config_order_independent.
Print Assumptions C17_yearly_lines_order_independent.
