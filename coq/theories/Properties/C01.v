(** Property C01 -- disposals consume lots in the order the accounting method prescribes.
    INTERIM: the ordering theorem is being proved (Proofs/MatcherRefine.v, Proofs/SpecProps.v);
    until then this file pins the facts the translator-derived tables must satisfy. *)
From RP2V Require Import Base.Prelude Base.Time Base.Dec Model.Types Model.Generated Model.Matcher Model.MatchSpec.
Open Scope Z_scope.

(** the generated sort keys are the ranking of the property text *)
Theorem C01_keys_are_spec_ranks : forall lots m i,
  m <> Fifo -> meth_sort_key m (lotn lots i) = spec_rank lots m i.
Proof. intros lots m i H. destruct m; try congruence; reflexivity. Qed.

Theorem C01_kinds : meth_kind Fifo = Chrono true /\ meth_kind Lifo = Feature /\ meth_kind Hifo = Feature /\ meth_kind Lofo = Feature.
Proof. repeat split; reflexivity. Qed.

(** the feature-based seek pushes the selected lot back unconditionally (without this the
    heap loses a lot that was selected while an income event was current) *)
Theorem C01_always_repush : gen_always_repush = true.
Proof. reflexivity. Qed.

Print Assumptions C01_keys_are_spec_ranks.
Print Assumptions C01_kinds.
Print Assumptions C01_always_repush.
