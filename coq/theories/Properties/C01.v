(** Property C01 -- disposals consume lots in the order the accounting method prescribes.
    Statements only; proofs are in Proofs/ (MatcherRefine: the faithful matcher model equals the
    greedy specification; SpecProps: the specification takes every fraction from the best-ranked
    lot with unconsumed balance). *)
From RP2V Require Import Base.Prelude Base.Time Base.Dec Model.Types Model.Generated Model.Matcher Model.MatchSpec
  Model.MatchWf Model.FracSpec Proofs.MatcherRefine Proofs.MatcherProps.
Open Scope Z_scope.

(** the matcher as the code has it (re-push flag, sort keys and method kinds are read from the
    source on every run) computes exactly the greedy best-ranked-lot specification *)
Theorem C01_matcher_is_greedy_spec : forall lots sched evs,
  wf lots sched evs -> run_matcher gen_always_repush lots sched evs = spec_run lots sched evs.
Proof. exact code_matcher_is_spec. Qed.

(** every fraction with a lot is taken from the lot that the method in force for the disposal's
    local year ranks first among all lots acquired at or before the disposal that still have
    unconsumed balance (balance = amount acquired minus all earlier fractions of that lot, whatever
    method took them: remaining balances carry over across method changes); a better-ranked lot
    is passed over only when fully consumed *)
Theorem C01_order : forall lots sched evs, wf lots sched evs ->
  forall fs, run_matcher gen_always_repush lots sched evs = Ok fs ->
  forall k f lr, nth_error fs k = Some f -> f_lot f = Some lr ->
  exists e i y m,
    In e evs /\ e_row e = f_ev f /\ e_earn e = false /\
    (i < length lots)%nat /\ i_row (lotn lots i) = lr /\
    meth_for sched (e_year e) None = Some (y, m) /\
    lot_us lots i <= e_us e /\
    0 < f_amt f <= rem_after lots (firstn k fs) i /\
    (forall j, (j < length lots)%nat -> j <> i -> lot_us lots j <= e_us e ->
               0 < rem_after lots (firstn k fs) j ->
               key_ltb (spec_rank lots m i) (spec_rank lots m j) = true).
Proof. exact m_order. Qed.

(** the ranking is the one of the property text *)
Theorem C01_ranking : forall lots i,
  spec_rank lots Fifo i = (utc_us (i_ts (lotn lots i)), Z.of_nat i, 0) /\
  spec_rank lots Lifo i = (0, - utc_us (i_ts (lotn lots i)), - i_row (lotn lots i)) /\
  spec_rank lots Hifo i = (- i_spot (lotn lots i), utc_us (i_ts (lotn lots i)), i_row (lotn lots i)) /\
  spec_rank lots Lofo i = (i_spot (lotn lots i), utc_us (i_ts (lotn lots i)), i_row (lotn lots i)).
Proof. intros; repeat split. Qed.

Print Assumptions C01_matcher_is_greedy_spec.
Print Assumptions C01_order.
Print Assumptions C01_ranking.

(** * From the rows: the same statement for a history BUILT FROM INPUT ROWS, in terms of transactions.
    [built_history sched h t] (Proofs/ComputeTotal.v): [build h = Ok t] (the constructors accepted every row, row ids distinct
    per table, the IN table not empty; the three sets sorted by instant), the IN rows in sheet order ([in_rows_increasing]), no
    STAKING acquisition of an amount <= 0, events of one instant in one local year (finding F13), the schedule has an entry at or
    before the year of every taxable event and its years are distinct.  The well-formedness [wf] of the matcher input is DERIVED
    from these ([pipeline_wf]), no longer a hypothesis.  [lot_balance fs a] = crypto_in of [a] minus the fractions of [fs] taken
    from [a]; [ranks_before m a b] (Model/FromRowsSpec.v) spells the ranking out per method.
    Every fraction with a lot is taken from the acquisition that the method in force for the disposal's local year ranks first
    among all acquisitions of [t] made at or before the disposal's instant that still have unconsumed balance. *)
From RP2V Require Import Base.Sorting Model.Txn Model.Pipeline Model.FromRowsSpec Proofs.L4Examples Proofs.ComputeTotal Proofs.FromRows Proofs.FromRowsExamples.

Theorem C01_order_from_rows : forall sched h t, built_history sched h t ->
  forall fs, fractions_of gen_always_repush sched t = Ok fs ->
  forall k f lr, nth_error fs k = Some f -> f_lot f = Some lr ->
  exists evs x a y m,
    taxable_events t = Ok evs /\ In x evs /\ t_row x = f_ev f /\ t_is_earning x = false /\
    In a (t_ins t) /\ i_row a = lr /\
    meth_for sched (local_year (t_ts x)) None = Some (y, m) /\
    in_us a <= t_us x /\
    0 < f_amt f <= lot_balance (firstn k fs) a /\
    (forall b, In b (t_ins t) -> b <> a -> in_us b <= t_us x -> 0 < lot_balance (firstn k fs) b -> ranks_before m a b).
Proof. exact order_from_rows. Qed.

(** the ranking, per method: oldest first (FIFO; among equal instants the earlier sheet row); newest first (LIFO; among equal
    instants the later sheet row); highest / lowest spot price first (HIFO / LOFO; among equal prices the older lot) *)
Theorem C01_ranking_from_rows : forall a b,
  (ranks_before Fifo a b <-> in_us a < in_us b \/ (in_us a = in_us b /\ i_row a < i_row b)) /\
  (ranks_before Lifo a b <-> in_us b < in_us a \/ (in_us b = in_us a /\ i_row b < i_row a)) /\
  (ranks_before Hifo a b <-> i_spot b < i_spot a \/ (i_spot a = i_spot b /\ (in_us a < in_us b \/ (in_us a = in_us b /\ i_row a < i_row b)))) /\
  (ranks_before Lofo a b <-> i_spot a < i_spot b \/ (i_spot a = i_spot b /\ (in_us a < in_us b \/ (in_us a = in_us b /\ i_row a < i_row b)))).
Proof. exact ranking_from_rows. Qed.

(** non-vacuity (Proofs/FromRowsExamples.v): history A of L4Examples.v is a [built_history] under FIFO and under HIFO; under HIFO
    the sale of row 4 is taken from the 200-priced lot of row 2 while the older lot of row 1 still has balance *)
Theorem C01_from_rows_nonvacuous :
  built_history schedA hA tA /\ built_history schedH hA tA /\ fractions_of gen_always_repush schedH tA = Ok fsA_hifo /\
  exists f, nth_error fsA_hifo 1 = Some f /\ f_lot f = Some 2 /\
  exists a b, In a (t_ins tA) /\ In b (t_ins tA) /\ i_row a = 2 /\ i_row b = 1 /\ 0 < lot_balance (firstn 1 fsA_hifo) b /\
              in_us b < in_us a /\ ranks_before Hifo a b.
Proof. exact hA_from_rows_nonvacuous. Qed.

Print Assumptions C01_order_from_rows.
Print Assumptions C01_ranking_from_rows.
Print Assumptions C01_from_rows_nonvacuous.

(** SOURCE TIE (tax engine).  What the two iterators handed to the accounting engine run over is re-read from
    tax_engine._create_unfiltered_gain_and_loss_set on every run (Generated.gen_te_event_iter / gen_te_lot_iter), together
    with the scan of the taxable events and the four branches of the loop; interpreted by Model/TaxEngineGen.v this is
    [fractions_of]: the lots among which the method ranks are ALL acquisitions of the input, in time order. *)
From RP2V Require Import Model.Txn Model.Pipeline Model.TaxEngineGen Proofs.TaxEngineGenProofs.
Theorem C01_source_tie_tax_engine_wiring :
  forall ar sched t, fractions_of_gen ar sched t = fractions_of ar sched t.
Proof. exact fractions_of_gen_agrees. Qed.
Print Assumptions C01_source_tie_tax_engine_wiring.

(** SOURCE TIE (lot order keys).  The two keys that decide which lot a disposal takes are re-read from the source on every run
    as data (Model/GeneratedTie.v, fragment avl_key; interpreter Model/AvlKeyGen.v): the heap key of the feature-based methods -
    the field order of the NamedTuple `AcquiredLotSortKey` and the value each plugin's `sort_key` gives to each field, positional
    or by keyword - is the triple [meth_sort_key] the matcher model pops by; and the AVL lookup of
    `get_acquired_lot_for_taxable_event` (key = UTC time as `%Y%m%d%H%M%S.%f`, `_`, id zero-filled in front to 12; greatest key
    <= the max-disambiguator key of the event) is [Matcher.to_index]: the position of the lot with the greatest (instant, row)
    among the lots acquired at or before the event, for rows of at most 12 digits.  Regrouping the fields of the key tuple,
    formatting the wall-clock time, dropping `%f` or padding behind the id stops compiling here (Proofs/AvlKeyGenProofs.v). *)
From RP2V Require Import Model.GeneratedTie Model.AvlKeyGen Proofs.AvlKeyGenProofs.
Theorem C01_source_tie_lot_order_keys :
  (forall m l, meth_kind m = Feature -> sk_key_gen m l = Some (meth_sort_key m l)) /\
  (forall lots te, Forall (fun x => 0 <= i_row x <= ak_max_num) lots -> to_index_gen lots te = Some (to_index lots (utc_us te))).
Proof. exact lot_order_keys_gen_agree. Qed.
Print Assumptions C01_source_tie_lot_order_keys.
