(** Property C01 -- disposals consume lots in the order the accounting method prescribes.
    Statements only; proofs are in Proofs/ (MatcherRefine: the faithful matcher model equals the
    greedy specification; SpecProps: the specification takes every fraction from the best-ranked
    lot with unconsumed balance). *)
From RP2V Require Import Base.Prelude Base.Time Base.Dec Model.Types Model.Generated Model.Matcher Model.MatchSpec
  Model.MatchWf Model.FracSpec Proofs.MatcherRefine Proofs.MatcherProps.
Open Scope Z_scope.

(** the matcher as the code has it (re-push flag, sort keys and method kinds are read from the
    source on every run) computes exactly the greedy best-ranked-lot specification *)
Theorem C01_matcher_is_greedy_spec : forall lots sched evs,
  wf lots sched evs -> run_matcher gen_always_repush lots sched evs = spec_run lots sched evs.
Proof. exact code_matcher_is_spec. Qed.

(** every fraction with a lot is taken from the lot that the method in force for the disposal's
    local year ranks first among all lots acquired at or before the disposal that still have
    unconsumed balance (balance = amount acquired minus all earlier fractions of that lot, whatever
    method took them: remaining balances carry over across method changes); a better-ranked lot
    is passed over only when fully consumed *)
Theorem C01_order : forall lots sched evs, wf lots sched evs ->
  forall fs, run_matcher gen_always_repush lots sched evs = Ok fs ->
  forall k f lr, nth_error fs k = Some f -> f_lot f = Some lr ->
  exists e i y m,
    In e evs /\ e_row e = f_ev f /\ e_earn e = false /\
    (i < length lots)%nat /\ i_row (lotn lots i) = lr /\
    meth_for sched (e_year e) None = Some (y, m) /\
    lot_us lots i <= e_us e /\
    0 < f_amt f <= rem_after lots (firstn k fs) i /\
    (forall j, (j < length lots)%nat -> j <> i -> lot_us lots j <= e_us e ->
               0 < rem_after lots (firstn k fs) j ->
               key_ltb (spec_rank lots m i) (spec_rank lots m j) = true).
Proof. exact m_order. Qed.

(** the ranking is the one of the property text *)
Theorem C01_ranking : forall lots i,
  spec_rank lots Fifo i = (utc_us (i_ts (lotn lots i)), Z.of_nat i, 0) /\
  spec_rank lots Lifo i = (0, - utc_us (i_ts (lotn lots i)), - i_row (lotn lots i)) /\
  spec_rank lots Hifo i = (- i_spot (lotn lots i), utc_us (i_ts (lotn lots i)), i_row (lotn lots i)) /\
  spec_rank lots Lofo i = (i_spot (lotn lots i), utc_us (i_ts (lotn lots i)), i_row (lotn lots i)).
Proof. intros; repeat split. Qed.

Print Assumptions C01_matcher_is_greedy_spec.
Print Assumptions C01_order.
Print Assumptions C01_ranking.
