(** Tax report (US, IE): the Legend sheet of a produced report.
    The generator never touches it after [_initialize_output_file]: sizing skips it, every fraction is routed to a data sheet,
    pruning keeps it.  So the report holds exactly one sheet named "Legend": the template's legend sheet (its static cells as
    labels) plus the three cells written next to "Accounting Method" -- the method string and the two date filters.  The finite
    fact [legend_fits] (checked by computation on the regenerated template geometry and method row) puts all of them inside
    the sheet and makes the three cells the only writes to their positions. *)
From RP2V Require Import Base.Prelude Base.Time Base.Dec Base.Sorting Base.Assoc Model.Types Model.Generated Model.Txn
  Model.Matcher Model.Pipeline Model.Computed Model.Grid Model.ReportInput Model.TaxReport Proofs.AssocProofs
  Proofs.FullReportLayout Proofs.TaxReportProofs.
Open Scope Z_scope.

Lemma filter_filter_imp {A} (p q : A -> bool) l : (forall x, p x = true -> q x = true) -> filter p (filter q l) = filter p l.
Proof.
  intro H. induction l as [|x t IH]; cbn [filter]; [reflexivity|].
  destruct (q x) eqn:Q; cbn [filter]; [rewrite IH; reflexivity|].
  destruct (p x) eqn:P; [rewrite (H x P) in Q; discriminate|exact IH].
Qed.

(** among elements with pairwise distinct keys, the ones selected by [p] -- all with the key of [a] -- are [a] alone *)
Lemma nodup_filter_singleton {A B} (f : A -> B) (p : A -> bool) : forall l a, NoDup (map f l) -> In a l -> p a = true ->
  (forall b, In b l -> p b = true -> f b = f a) -> filter p l = [a].
Proof.
  induction l as [|x t IH]; intros a ND Hin Pa Hk; [destruct Hin|].
  cbn [map] in ND. inversion ND as [|? ? Hni ND']; subst. cbn [filter]. destruct Hin as [->|Hin].
  - rewrite Pa. f_equal. apply filter_nil. intros b Hb. destruct (p b) eqn:Pb; [|reflexivity].
    exfalso. apply Hni. rewrite <- (Hk b (or_intror Hb) Pb). apply in_map. exact Hb.
  - destruct (p x) eqn:Px.
    + exfalso. apply Hni. rewrite (Hk x (or_introl eq_refl) Px). apply in_map. exact Hin.
    + apply IH; auto. intros b Hb Pb. apply Hk; [right; exact Hb|exact Pb].
Qed.

Lemma omap_filter_In {A B} (f : A -> option B) : forall l x y, In x l -> f x = Some y -> In y (omap_filter f l).
Proof.
  induction l as [|a t IH]; intros x y Hin Hf; [destruct Hin|]. cbn [omap_filter]. destruct Hin as [->|Hin].
  - rewrite Hf. left. reflexivity.
  - destruct (f a); [right|]; eapply IH; eassumption.
Qed.

Section Legend.
Variable T : trtables.
Hypothesis G : tables_good T.

(** the legend sheet as [_initialize_output_file] leaves it *)
Definition legend_sheet (tp : trtemplate) (lw : list cellw) : sheetw :=
  {| sw_name := s_Legend; sw_rows := tp_rows tp; sw_cols := tp_cols tp; sw_writes := label_writes tp ++ lw |}.

Lemma is_legend_ext s d ws : is_legend (ext s d ws) = is_legend s.
Proof. reflexivity. Qed.

Lemma size_sheets_legend count l l' : size_sheets T count l = Ok l' -> filter is_legend l' = filter is_legend l.
Proof.
  intro H. destruct (size_sheets_spec T count l l' H) as [-> _]. clear H.
  induction l as [|s l IH]; cbn [map filter]; [reflexivity|]. rewrite is_legend_ext, IH. destruct (is_legend s) eqn:E; [|reflexivity].
  f_equal. unfold dsize. unfold is_legend in E. rewrite E. apply ext_id.
Qed.

Lemma add_writes_legend n ws : str_eqb n s_Legend = false -> forall l, filter is_legend (add_writes n ws l) = filter is_legend l.
Proof.
  intros Hn. induction l as [|s l IH]; cbn [add_writes]; [reflexivity|].
  destruct (str_eqb (sw_name s) n) eqn:E.
  - apply str_eqb_eq in E. cbn [filter].
    assert (L1 : is_legend {| sw_name := sw_name s; sw_rows := sw_rows s; sw_cols := sw_cols s; sw_writes := sw_writes s ++ ws |} = false)
      by (unfold is_legend; cbn [sw_name]; rewrite E; exact Hn).
    assert (L2 : is_legend s = false) by (unfold is_legend; rewrite E; exact Hn).
    rewrite L1, L2. reflexivity.
  - cbn [filter]. rewrite IH. reflexivity.
Qed.

Lemma place_legend st it st' : place T st it = Ok st' -> filter is_legend (ts_sheets st') = filter is_legend (ts_sheets st).
Proof.
  intro H. destruct (place_inv T st it st' H) as (n & s & r & Hn & _ & _ & _ & ->). cbn [ts_sheets].
  apply add_writes_legend. apply (data_name_not_legend T). exact (tg_targets T G _ _ Hn).
Qed.

Lemma place_all_legend : forall l st st', place_all T st l = Ok st' -> filter is_legend (ts_sheets st') = filter is_legend (ts_sheets st).
Proof.
  induction l as [|it l IH]; intros st st' H; cbn [place_all] in H; [inversion H; reflexivity|].
  destruct (place T st it) as [st1|] eqn:E; [|discriminate]. rewrite (IH _ _ H). exact (place_legend _ _ _ E).
Qed.

Lemma gen_asset_legend i st ac st' : gen_asset T i st ac = Ok st' -> filter is_legend (ts_sheets st') = filter is_legend (ts_sheets st).
Proof.
  unfold gen_asset. intro H.
  destruct (size_sheets T (type_count i (snd ac)) (ts_sheets st)) as [sized|] eqn:ES; [|discriminate].
  destruct (mk_items T (asset_sources i ac)) as [items|]; [|discriminate].
  rewrite (place_all_legend _ _ _ H). cbn [ts_sheets]. exact (size_sheets_legend _ _ _ ES).
Qed.

Lemma gen_assets_legend i : forall acs st st', gen_assets T i st acs = Ok st' -> filter is_legend (ts_sheets st') = filter is_legend (ts_sheets st).
Proof.
  induction acs as [|ac acs IH]; intros st st' H; cbn [gen_assets] in H; [inversion H; reflexivity|].
  destruct (gen_asset T i st ac) as [st1|] eqn:E; [|discriminate]. rewrite (IH _ _ H). exact (gen_asset_legend _ _ _ _ E).
Qed.

Lemma prune_legend rows l out : prune T rows l = Ok out -> filter is_legend out = filter is_legend l.
Proof.
  intro H. rewrite (prune_spec T rows l out H). apply filter_filter_imp. intros s ->. reflexivity.
Qed.

(** the initialised file holds exactly one sheet named "Legend": the one made from the template's __Legend_<plugin> sheet *)
Lemma init_legend lw : exists tp, In tp (tt_template T) /\ tp_name tp = legend_template_name T /\
  filter is_legend (omap_filter (init_sheet T lw) (tt_template T)) = [legend_sheet tp lw].
Proof.
  pose proof (tg_legend T G) as E. apply existsb_exists in E as (tp & Hin & Hn).
  exists tp. split; [exact Hin|]. split; [apply str_eqb_eq; exact Hn|].
  apply (nodup_filter_singleton sw_name).
  - rewrite init_names. exact (tg_nodup T G).
  - apply (omap_filter_In _ _ tp); [exact Hin|]. unfold init_sheet. rewrite Hn. reflexivity.
  - unfold is_legend, legend_sheet. cbn [sw_name]. apply str_eqb_refl.
  - intros b _ Pb. unfold is_legend in Pb. apply str_eqb_eq in Pb. exact Pb.
Qed.

(** the three legend cells *)
Definition legend_cells3 (r : Z) (m : str) (i : rinput) : list cellw :=
  [cw r 1 (PStr m); cw (r + 1) 1 (day_cell MIN_DAY (rp_from i)); cw (r + 2) 1 (day_cell MAX_DAY (rp_to i))].

Lemma legend_writes_inv i lw : legend_writes T i = Ok lw ->
  exists r m, tt_legend_method_row T = Some r /\ legend_method (tt_legend_single_by_value T) (rp_sched i) = Ok m /\ lw = legend_cells3 r m i.
Proof.
  unfold legend_writes. destruct (tt_legend_method_row T) as [r|]; [|discriminate].
  destruct (legend_method (tt_legend_single_by_value T) (rp_sched i)) as [m|]; [|discriminate].
  intro H. inversion H. exists r, m. repeat split.
Qed.

(** a produced report has exactly one sheet named "Legend"; it is the template's legend sheet (size and static cells) followed by
    the method string and the two date-filter cells of THIS run *)
Theorem legend_sheet_spec i out : tax_report T i = Ok out ->
  exists tp r m, In tp (tt_template T) /\ tp_name tp = legend_template_name T /\
    tt_legend_method_row T = Some r /\ legend_method (tt_legend_single_by_value T) (rp_sched i) = Ok m /\
    filter is_legend out = [legend_sheet tp (legend_cells3 r m i)].
Proof.
  intro H. unfold tax_report in H.
  destruct (computed_all i (rp_assets i)) as [acs|]; [|discriminate].
  destruct (init_sheets T i) as [sheets|] eqn:EI; [|discriminate].
  destruct (gen_assets T i {| ts_rows := init_rows T; ts_sheets := sheets |} acs) as [st|] eqn:EG; [|discriminate].
  destruct (prune T (ts_rows st) (ts_sheets st)) as [out'|] eqn:EP; [|discriminate].
  inversion H; subst out'. clear H.
  unfold init_sheets in EI. destruct (negb _) in EI; [discriminate|].
  destruct (legend_writes T i) as [lw|] eqn:EL; [|discriminate]. inversion EI; subst sheets. clear EI.
  destruct (legend_writes_inv i lw EL) as (r & m & Hr & Hm & ->).
  destruct (init_legend (legend_cells3 r m i)) as (tp & Hin & Hn & E).
  exists tp, r, m. repeat (split; [assumption|]).
  rewrite (prune_legend _ _ _ EP), (gen_assets_legend _ _ _ _ EG). cbn [ts_sheets]. exact E.
Qed.

(** ---------- capacity and "nothing else is written there": a finite fact about the template's legend sheet *)
Definition cell_in (rows cols : Z) (rc : Z * Z) : bool := (0 <=? fst rc) && (fst rc <? rows) && (0 <=? snd rc) && (snd rc <? cols).
Definition cell_is (r c : Z) (rc : Z * Z) : bool := (fst rc =? r) && (snd rc =? c).
Definition legend_fits_tp (tp : trtemplate) : bool :=
  forallb (cell_in (tp_rows tp) (tp_cols tp)) (tp_cells tp) && (tp_cols tp <=? 1024) &&
  match tt_legend_method_row T with
  | Some r => (0 <=? r) && (r + 2 <? tp_rows tp) && (1 <? tp_cols tp)                  (* the three cells are inside the sheet *)
              && existsb (cell_is r 0) (tp_cells tp)                                   (* next to a label ("Accounting Method") *)
              && negb (existsb (fun rc => (cell_is r 1 rc || cell_is (r + 1) 1 rc || cell_is (r + 2) 1 rc)) (tp_cells tp))   (* and empty in the template *)
  | None => false
  end.
Definition legend_fits : bool :=
  forallb (fun tp => negb (str_eqb (tp_name tp) (legend_template_name T)) || legend_fits_tp tp) (tt_template T).

Lemma label_writes_at tp r c : existsb (cell_is r c) (tp_cells tp) = false -> writes_at (label_writes tp) r c = [].
Proof.
  intro H. unfold writes_at, label_writes. apply filter_nil. intros w Hw. apply in_map_iff in Hw as (rc & <- & Hrc).
  unfold at_cell. cbn [cw cw_row cw_col]. destruct ((fst rc =? r) && (snd rc =? c)) eqn:E; [|reflexivity].
  exfalso. rewrite <- not_true_iff_false in H. apply H. apply existsb_exists. exists rc. split; [exact Hrc|exact E].
Qed.

Theorem legend_sheet_facts tp r m i : legend_fits = true -> In tp (tt_template T) -> tp_name tp = legend_template_name T ->
  tt_legend_method_row T = Some r ->
  let s := legend_sheet tp (legend_cells3 r m i) in
  sheet_ok s = true /\
  writes_at (sw_writes s) r 1 = [cw r 1 (PStr m)] /\
  writes_at (sw_writes s) (r + 1) 1 = [cw (r + 1) 1 (if rp_from i =? MIN_DAY then PStr s_nonspec else PDay (rp_from i))] /\
  writes_at (sw_writes s) (r + 2) 1 = [cw (r + 2) 1 (if rp_to i =? MAX_DAY then PStr s_nonspec else PDay (rp_to i))] /\
  cell_at (sw_writes s) r 1 = PStr m /\
  cell_at (sw_writes s) (r + 1) 1 = (if rp_from i =? MIN_DAY then PStr s_nonspec else PDay (rp_from i)) /\
  cell_at (sw_writes s) (r + 2) 1 = (if rp_to i =? MAX_DAY then PStr s_nonspec else PDay (rp_to i)) /\
  cell_at (sw_writes s) r 0 = PLabel.
Proof.
  intros F Hin Hn Hr. unfold legend_fits in F. rewrite forallb_forall in F. specialize (F tp Hin).
  rewrite Hn, str_eqb_refl in F. cbn [negb orb] in F. unfold legend_fits_tp in F. rewrite Hr in F.
  apply andb_true_iff in F as [F F3]. apply andb_true_iff in F as [F1 F2].
  apply andb_true_iff in F3 as [F3 F8]. apply andb_true_iff in F3 as [F3 F7]. apply andb_true_iff in F3 as [F3 F6].
  apply andb_true_iff in F3 as [F4 F5].
  apply Z.leb_le in F2, F4. apply Z.ltb_lt in F5, F6. apply negb_true_iff in F8.
  assert (N : forall r' , (r' = r \/ r' = r + 1 \/ r' = r + 2) -> existsb (cell_is r' 1) (tp_cells tp) = false).
  { intros r' Hr'. destruct (existsb (cell_is r' 1) (tp_cells tp)) eqn:E; [|reflexivity]. apply existsb_exists in E as (rc & Hrc & E).
    rewrite <- F8. symmetry. apply existsb_exists. exists rc. split; [exact Hrc|].
    destruct Hr' as [ -> | [ -> | -> ] ]; rewrite E; rewrite ?orb_true_r; reflexivity. }
  assert (Hbox : Forall (fun w => 0 <= cw_col w < 1024) (label_writes tp ++ legend_cells3 r m i)).
  { apply Forall_app. split.
    - apply Forall_forall. intros w Hw. unfold label_writes in Hw. apply in_map_iff in Hw as (rc & <- & Hrc). cbn [cw cw_col].
      rewrite forallb_forall in F1. specialize (F1 rc Hrc). unfold cell_in in F1.
      apply andb_true_iff in F1 as [F1 C2]. apply andb_true_iff in F1 as [_ C1]. apply Z.leb_le in C1. apply Z.ltb_lt in C2. lia.
    - unfold legend_cells3. repeat constructor; cbn [cw cw_col]; lia. }
  assert (W : forall r' v, (r' = r \/ r' = r + 1 \/ r' = r + 2) ->
              writes_at (legend_cells3 r m i) r' 1 = [cw r' 1 v] ->
              writes_at (label_writes tp ++ legend_cells3 r m i) r' 1 = [cw r' 1 v]).
  { intros r' v Hr' E. rewrite writes_at_app, (label_writes_at tp r' 1 (N r' Hr')), E. reflexivity. }
  assert (E0 : writes_at (legend_cells3 r m i) r 1 = [cw r 1 (PStr m)]).
  { unfold writes_at, legend_cells3, at_cell. cbn [filter cw cw_row cw_col]. rewrite !Z.eqb_refl. cbn [andb].
    replace (r + 1 =? r) with false by (symmetry; apply Z.eqb_neq; lia). replace (r + 2 =? r) with false by (symmetry; apply Z.eqb_neq; lia). reflexivity. }
  assert (E1 : writes_at (legend_cells3 r m i) (r + 1) 1 = [cw (r + 1) 1 (day_cell MIN_DAY (rp_from i))]).
  { unfold writes_at, legend_cells3, at_cell. cbn [filter cw cw_row cw_col]. rewrite !Z.eqb_refl. cbn [andb].
    replace (r =? r + 1) with false by (symmetry; apply Z.eqb_neq; lia). replace (r + 2 =? r + 1) with false by (symmetry; apply Z.eqb_neq; lia). reflexivity. }
  assert (E2 : writes_at (legend_cells3 r m i) (r + 2) 1 = [cw (r + 2) 1 (day_cell MAX_DAY (rp_to i))]).
  { unfold writes_at, legend_cells3, at_cell. cbn [filter cw cw_row cw_col]. rewrite !Z.eqb_refl. cbn [andb].
    replace (r =? r + 2) with false by (symmetry; apply Z.eqb_neq; lia). replace (r + 1 =? r + 2) with false by (symmetry; apply Z.eqb_neq; lia). reflexivity. }
  pose proof (W r _ (or_introl eq_refl) E0) as W0.
  pose proof (W (r + 1) _ (or_intror (or_introl eq_refl)) E1) as W1.
  pose proof (W (r + 2) _ (or_intror (or_intror eq_refl)) E2) as W2.
  cbv zeta. cbn [legend_sheet sw_writes]. unfold day_cell in *.
  split; [|split; [exact W0|split; [exact W1|split; [exact W2|split; [|split; [|split]]]]]].
  - apply box_sheet_ok. cbn [legend_sheet sw_rows sw_cols sw_writes]. unfold box. apply Forall_app. split.
    + apply Forall_forall. intros w Hw. unfold label_writes in Hw. apply in_map_iff in Hw as (rc & <- & Hrc). cbn [cw cw_row cw_col].
      rewrite forallb_forall in F1. specialize (F1 rc Hrc). unfold cell_in in F1.
      apply andb_true_iff in F1 as [F1 C4]. apply andb_true_iff in F1 as [F1 C3]. apply andb_true_iff in F1 as [C1 C2].
      apply Z.leb_le in C1, C3. apply Z.ltb_lt in C2, C4. lia.
    + unfold legend_cells3. repeat constructor; cbn [cw cw_row cw_col]; lia.
  - assert (C1 : 0 <= 1 < 1024) by lia. exact (cell_at_single _ r 1 _ C1 Hbox W0).
  - assert (C1 : 0 <= 1 < 1024) by lia. exact (cell_at_single _ (r + 1) 1 _ C1 Hbox W1).
  - assert (C1 : 0 <= 1 < 1024) by lia. exact (cell_at_single _ (r + 2) 1 _ C1 Hbox W2).
  - apply existsb_exists in F7 as (rc & Hrc & Erc). unfold cell_is in Erc. apply andb_true_iff in Erc as [A B]. apply Z.eqb_eq in A, B.
    apply cell_at_unique.
    + apply in_or_app. left. unfold label_writes. apply in_map_iff. exists rc. split; [rewrite A, B; reflexivity|exact Hrc].
    + intros w Hw K. apply in_app_or in Hw as [Hw|Hw].
      * unfold label_writes in Hw. apply in_map_iff in Hw as (rc' & <- & _). reflexivity.
      * exfalso. rewrite Forall_forall in Hbox. pose proof (Hbox w (in_or_app _ _ _ (or_intror Hw))) as Hc.
        apply FullReportLayout.cell_key_inj in K; [|exact Hc|lia]. destruct K as [_ K].
        unfold legend_cells3 in Hw. destruct Hw as [<-|[<-|[<-|[]]]]; cbn [cw cw_col] in K; lia.
Qed.

(** the report-level statement: capacity + content of the legend of a produced report *)
Theorem legend_of_report i out : legend_fits = true -> tax_report T i = Ok out ->
  exists s r m, filter is_legend out = [s] /\ In s out /\ sw_name s = s_Legend /\
    tt_legend_method_row T = Some r /\ legend_method (tt_legend_single_by_value T) (rp_sched i) = Ok m /\
    sheet_ok s = true /\
    writes_at (sw_writes s) r 1 = [cw r 1 (PStr m)] /\
    writes_at (sw_writes s) (r + 1) 1 = [cw (r + 1) 1 (if rp_from i =? MIN_DAY then PStr s_nonspec else PDay (rp_from i))] /\
    writes_at (sw_writes s) (r + 2) 1 = [cw (r + 2) 1 (if rp_to i =? MAX_DAY then PStr s_nonspec else PDay (rp_to i))] /\
    cell_at (sw_writes s) r 1 = PStr m /\
    cell_at (sw_writes s) (r + 1) 1 = (if rp_from i =? MIN_DAY then PStr s_nonspec else PDay (rp_from i)) /\
    cell_at (sw_writes s) (r + 2) 1 = (if rp_to i =? MAX_DAY then PStr s_nonspec else PDay (rp_to i)) /\
    cell_at (sw_writes s) r 0 = PLabel.
Proof.
  intros F H. destruct (legend_sheet_spec i out H) as (tp & r & m & Hin & Hn & Hr & Hm & E).
  exists (legend_sheet tp (legend_cells3 r m i)), r, m. split; [exact E|].
  split; [assert (X : In (legend_sheet tp (legend_cells3 r m i)) (filter is_legend out)) by (rewrite E; left; reflexivity);
          apply filter_In in X; exact (proj1 X)|].
  split; [reflexivity|]. split; [exact Hr|]. split; [exact Hm|].
  exact (legend_sheet_facts tp r m i F Hin Hn Hr).
Qed.

(** with the data sheets (TaxReportProofs.data_sheets_within_capacity): EVERY sheet of a produced report passes [sheet_ok] *)
Theorem all_sheets_within_capacity i out : append_ok T -> legend_fits = true -> tax_report T i = Ok out ->
  forall s, In s out -> sheet_ok s = true.
Proof.
  intros A F H s Hs. destruct (is_legend s) eqn:L; [|exact (data_sheets_within_capacity T G A i out H s Hs L)].
  destruct (legend_of_report i out F H) as (s' & r & m & E & _ & _ & _ & _ & Hok & _).
  assert (X : In s (filter is_legend out)) by (apply filter_In; split; assumption). rewrite E in X. destruct X as [<-|[]]. exact Hok.
Qed.
End Legend.

(** ---------- the method string *)
(** one entry: its method, whatever year it is registered under (source as repaired, F10); otherwise "y:M" / "y0->y:M" per entry *)
Lemma legend_method_by_value sched : exists m, legend_method true sched = Ok m /\
  (forall y me, sched = [(y, me)] -> m = meth_upper me) /\
  ((length sched <> 1)%nat -> m = join_comma (sched_parts 1970 sched)).
Proof.
  destruct sched as [|[y me] [|p t]].
  - eexists. split; [reflexivity|]. split; [intros; discriminate|reflexivity].
  - exists (meth_upper me). split; [reflexivity|]. split; [intros y' m' E; inversion E; reflexivity|intro X; exfalso; apply X; reflexivity].
  - eexists. split; [reflexivity|]. split; [intros; discriminate|reflexivity].
Qed.

(** ---------- the two plugins: finite facts over the regenerated template geometry + method row *)
Lemma us_legend_fits : legend_fits tax_tables_us = true.
Proof. vm_compute. reflexivity. Qed.
Lemma ie_legend_fits : legend_fits tax_tables_ie = true.
Proof. vm_compute. reflexivity. Qed.
Lemma us_by_value : tt_legend_single_by_value tax_tables_us = true.
Proof. reflexivity. Qed.
Lemma ie_by_value : tt_legend_single_by_value tax_tables_ie = true.
Proof. reflexivity. Qed.

(** non-vacuity: the two-asset example of TaxReportProofs.ex2_report -- schedule [1970: FIFO], no date filters *)
Example legend_example : exists i out s,
  rd_rinput ex2_code = Some (Ok i, []) /\ tax_report tax_tables_us i = Ok out /\ filter is_legend out = [s] /\
  sheet_ok s = true /\
  (exists r, tt_legend_method_row tax_tables_us = Some r /\
     cell_at (sw_writes s) r 1 = PStr (meth_upper Fifo) /\ cell_at (sw_writes s) (r + 1) 1 = PStr s_nonspec /\
     cell_at (sw_writes s) (r + 2) 1 = PStr s_nonspec /\ cell_at (sw_writes s) r 0 = PLabel).
Proof.
  remember (rd_rinput ex2_code) as r eqn:E. vm_compute in E. subst r.
  eexists. eexists. eexists. split; [reflexivity|]. split; [vm_compute; reflexivity|]. split; [vm_compute; reflexivity|].
  split; [vm_compute; reflexivity|]. eexists. split; [reflexivity|]. vm_compute. repeat split.
Qed.
