(** Parser-shaped histories give well-formed matcher inputs: [build] + [taxable_events]
    establish every clause of [MatchWf.wf] (the two genuine restrictions, F13 and the
    schedule cover, are hypotheses). *)
From RP2V Require Import Base.Prelude Base.Time Base.Dec Base.Sorting Model.Types Model.Generated Model.Txn
  Model.Matcher Model.MatchSpec Model.MatchWf Model.Pipeline Proofs.SortingProofs Proofs.C03Proofs.
From Coq Require Import Permutation Sorted ZifyBool.
Open Scope Z_scope.

(** * 1. "all ordered pairs are related": [StronglySorted] versus the index form *)

Section SS.
Context {A : Type}.

Lemma SS_nth (R : A -> A -> Prop) l :
  StronglySorted R l -> forall i j d, (i < j < length l)%nat -> R (nth i l d) (nth j l d).
Proof.
  induction 1 as [|x t Ht IH Hx]; intros i j d Hij; simpl in Hij; [lia|].
  destruct j as [|j]; [lia|]. destruct i as [|i]; simpl.
  - rewrite Forall_forall in Hx. apply Hx. apply nth_In. lia.
  - apply IH. lia.
Qed.

Lemma nth_SS (R : A -> A -> Prop) l :
  (forall i j d, (i < j < length l)%nat -> R (nth i l d) (nth j l d)) -> StronglySorted R l.
Proof.
  induction l as [|x t IH]; intros H; constructor.
  - apply IH. intros i j d Hij. apply (H (S i) (S j) d). simpl; lia.
  - apply Forall_forall. intros z Hz. destruct (In_nth _ _ x Hz) as [n [Hn Hnz]].
    specialize (H O (S n) x). simpl in H. rewrite Hnz in H. apply H. lia.
Qed.

Lemma SS_map {B} (f : A -> B) (R : B -> B -> Prop) l :
  StronglySorted (fun a b => R (f a) (f b)) l -> StronglySorted R (map f l).
Proof.
  induction 1 as [|x t Ht IH Hx]; simpl; constructor; auto.
  rewrite Forall_forall in *. intros y Hy. apply in_map_iff in Hy.
  destruct Hy as [z [<- Hz]]. auto.
Qed.

Lemma SS_unmap {B} (f : A -> B) (R : B -> B -> Prop) l :
  StronglySorted R (map f l) -> StronglySorted (fun a b => R (f a) (f b)) l.
Proof.
  induction l as [|x t IH]; simpl; intros H; [constructor|].
  inversion H as [|? ? Ht Hx]; subst. constructor; auto.
  rewrite Forall_forall in *. intros y Hy. apply Hx. apply in_map. exact Hy.
Qed.

Lemma SS_lt_NoDup (l : list Z) : StronglySorted Z.lt l -> NoDup l.
Proof.
  induction 1 as [|x t Ht IH Hx]; constructor; auto.
  intro Hin. rewrite Forall_forall in Hx. specialize (Hx x Hin). lia.
Qed.

(** a list that is "all [p]" followed by "all not [p]" has every [p] element before
    every non-[p] element *)
Lemma SS_app_pred (p : A -> bool) a b :
  (forall x, In x a -> p x = true) -> (forall x, In x b -> p x = false) ->
  StronglySorted (fun x y => p y = true -> p x = true) (a ++ b).
Proof.
  intros Ha Hb. induction a as [|x a IH]; simpl.
  - clear Ha. induction b as [|y b IHb]; constructor.
    + apply IHb. intros z Hz. apply Hb. right; exact Hz.
    + apply Forall_forall. intros z Hz Hp. rewrite (Hb z) in Hp by (right; exact Hz). discriminate Hp.
  - constructor.
    + apply IH. intros z Hz. apply Ha. right; exact Hz.
    + apply Forall_forall. intros z _ _. apply Ha. left; reflexivity.
Qed.
End SS.

(** * 2. the stable sort refines any order that held along the input list *)

Section Lex.
Context {A : Type} (key : A -> Z) (R : A -> A -> Prop).

Definition lexR (a b : A) : Prop := key a < key b \/ (key a = key b /\ R a b).

Lemma lexR_le a b : lexR a b -> key a <= key b.
Proof. intros [H|[H _]]; lia. Qed.

Lemma insert_by_lex x l :
  StronglySorted lexR l -> Forall (R x) l -> StronglySorted lexR (insert_by key x l).
Proof.
  induction l as [|y t IH]; intros HS HF; simpl.
  - constructor; constructor.
  - inversion HS as [|? ? HSt HFy]; subst. inversion HF as [|? ? HRy HFt]; subst.
    destruct (key x <=? key y) eqn:E.
    + constructor; [exact HS|]. constructor.
      * destruct (Z.eq_dec (key x) (key y)) as [Heq|Hne]; [right; auto | left; lia].
      * rewrite Forall_forall in *. intros z Hz.
        pose proof (lexR_le _ _ (HFy z Hz)) as Hle. specialize (HFt z Hz).
        destruct (Z.eq_dec (key x) (key z)) as [Heq|Hne]; [right; auto | left; lia].
    + constructor; [apply IH; auto|].
      apply Forall_forall. intros z Hz. apply insert_by_in in Hz. destruct Hz as [->|Hz].
      * left; lia.
      * rewrite Forall_forall in HFy. auto.
Qed.

Lemma sort_by_lex l : StronglySorted R l -> StronglySorted lexR (sort_by key l).
Proof.
  induction 1 as [|x t Ht IH Hx]; simpl; [constructor|].
  apply insert_by_lex; auto.
  rewrite Forall_forall in *. intros z Hz. apply sort_by_in in Hz. auto.
Qed.
End Lex.

(** * 3. [map_result] *)

Section MapResult.
Context {A B : Type} (f : A -> result B).

Lemma map_result_in : forall l l' y,
  map_result f l = Ok l' -> In y l' -> exists x, In x l /\ f x = Ok y.
Proof.
  induction l as [|x t IH]; simpl; intros l' y H Hy.
  - injection H as <-. destruct Hy.
  - destruct (f x) as [b|] eqn:Ex; [|discriminate H].
    destruct (map_result f t) as [ys|] eqn:Et; [|discriminate H].
    injection H as <-. destruct Hy as [<-|Hy].
    + exists x; auto.
    + destruct (IH ys y eq_refl Hy) as [x' [Hx' Hf]]. exists x'; auto.
Qed.

Lemma map_result_map {C} (ga : A -> C) (gb : B -> C) :
  (forall x y, f x = Ok y -> gb y = ga x) ->
  forall l l', map_result f l = Ok l' -> map gb l' = map ga l.
Proof.
  intros Hg. induction l as [|x t IH]; simpl; intros l' H.
  - injection H as <-. reflexivity.
  - destruct (f x) as [b|] eqn:Ex; [|discriminate H].
    destruct (map_result f t) as [ys|] eqn:Et; [|discriminate H].
    injection H as <-. simpl. rewrite (Hg _ _ Ex), (IH ys eq_refl). reflexivity.
Qed.
End MapResult.

(** * 4. what the constructors guarantee *)

(** destruct the innermost scrutinee of the head [match] of [lhs] in a goal
    [lhs = Ok _ -> _], discarding the [Err] branches *)
Ltac inner_scrut t :=
  lazymatch t with
  | match ?x with _ => _ end =>
    lazymatch x with
    | match _ with _ => _ end => inner_scrut x
    | _ => x
    end
  end.
Ltac crunch :=
  repeat match goal with
         | |- ?lhs = Ok _ -> _ =>
           let s := inner_scrut lhs in
           destruct s eqn:?; cbv beta iota;
           try (let HH := fresh "HH" in intro HH; discriminate HH)
         end.

Lemma mk_in_fields r a :
  mk_in r = Ok a ->
  i_row a = ri_row r /\ i_ts a = ri_ts r /\ i_crypto_in a = ri_crypto_in r /\ i_type a = ri_type r.
Proof.
  unfold mk_in. cbv zeta. crunch; intros [= <-]; cbn; auto.
Qed.

Lemma mk_out_pos r a : mk_out r = Ok a -> 0 < o_crypto_out_with_fee a.
Proof.
  unfold mk_out. cbv zeta. crunch; intros [= <-]; cbn [o_crypto_out_with_fee]; lia.
Qed.

Lemma mk_intra_fee r a :
  mk_intra r = Ok a ->
  0 <= x_crypto_fee a /\ exists spot, x_fiat_fee a = dmul (g (x_crypto_fee a)) (g spot).
Proof.
  unfold mk_intra. cbv zeta. crunch; intros [= <-]; cbn [x_crypto_fee x_fiat_fee];
    (split; [lia | eexists; reflexivity]).
Qed.

Lemma zero_fee_not_taxable spot : dgtb (dmul (g 0) (g spot)) dzero = false.
Proof. vm_compute. reflexivity. Qed.

(** a taxable transfer has a positive fee.  The script covers both shapes of IntraTransaction.is_taxable (fee > 0 on the
    grid; fiat value of the fee > 0 at 13 decimals), so that the well-formedness of the matcher input does not depend on
    which of the two the source has *)
Lemma mk_intra_taxable_pos r a :
  mk_intra r = Ok a -> intra_is_taxable a = true -> 0 < x_crypto_fee a.
Proof.
  intros H HT. destruct (mk_intra_fee _ _ H) as [Hge [spot Hf]].
  destruct (Z.eq_dec (x_crypto_fee a) 0) as [Hz|Hnz]; [|lia].
  exfalso. unfold intra_is_taxable in HT. rewrite ?Hf, Hz in HT. rewrite ?zero_fee_not_taxable in HT. discriminate HT.
Qed.

(** facts about the generated predicates, each by computation *)
Lemma earning_TIn a : t_is_earning (TIn a) = in_is_taxable a.
Proof. reflexivity. Qed.
Lemma earning_TOut a : t_is_earning (TOut a) = false.
Proof. reflexivity. Qed.
Lemma earning_TIntra a : t_is_earning (TIntra a) = false.
Proof. reflexivity. Qed.
Lemma change_TIn a : t_balance_change (TIn a) = i_crypto_in a.
Proof. reflexivity. Qed.
Lemma change_TOut a : t_balance_change (TOut a) = o_crypto_out_with_fee a.
Proof. reflexivity. Qed.
Lemma change_TIntra a : t_balance_change (TIntra a) = x_crypto_fee a.
Proof. reflexivity. Qed.

(** * 5. inversion of [build] *)

Lemma build_inv h t :
  build h = Ok t ->
  exists ins outs intras,
    map_result mk_in (h_ins h) = Ok ins /\ map_result mk_out (h_outs h) = Ok outs /\
    map_result mk_intra (h_intras h) = Ok intras /\
    has_dup (map i_row ins) = false /\ ins <> [] /\
    t_ins t = sort_by in_us ins /\ t_outs t = sort_by out_us outs /\ t_intras t = sort_by intra_us intras.
Proof.
  unfold build.
  destruct (map_result mk_in (h_ins h)) as [ins|] eqn:E1; [|discriminate].
  destruct (map_result mk_out (h_outs h)) as [outs|] eqn:E2; [|discriminate].
  destruct (map_result mk_intra (h_intras h)) as [intras|] eqn:E3; [|discriminate].
  destruct (has_dup (map i_row ins) || has_dup (map o_row outs) || has_dup (map x_row intras)) eqn:D;
    [discriminate|].
  destruct ins as [|a ins']; [discriminate|]. intros [= <-].
  exists (a :: ins'), outs, intras. cbn [t_ins t_outs t_intras].
  apply orb_false_iff in D. destruct D as [D _]. apply orb_false_iff in D. destruct D as [D _].
  repeat split; auto. discriminate.
Qed.

Lemma taxable_events_eq t evs :
  taxable_events t = Ok evs -> evs = sort_by t_us (taxable_unsorted t).
Proof.
  unfold taxable_events. destruct (has_dup _); [discriminate|]. intros [= <-]. reflexivity.
Qed.

(** * 6. the theorem *)

(* what the input layer guarantees about a history (sheet rows of the IN table are read top to
   bottom, so row numbers increase in insertion order), plus the two genuine restrictions *)
Definition in_rows_increasing (h : hist) : Prop :=
  forall i j d, (i < j < length (h_ins h))%nat -> ri_row (nth i (h_ins h) d) < ri_row (nth j (h_ins h) d).
Definition amounts_positive (h : hist) : Prop :=        (* excludes negative STAKING "income" *)
  forall r, In r (h_ins h) -> 0 < ri_crypto_in r.
Definition hist_same_instant_same_year (evs : list txn) : Prop :=
  forall e e', In e evs -> In e' evs -> t_us e = t_us e' -> local_year (t_ts e) = local_year (t_ts e').
Definition hist_sched_covers (sched : list (Z * meth)) (evs : list txn) : Prop :=
  forall e, In e evs -> exists y m, In (y, m) sched /\ y <= local_year (t_ts e).

Section Pipeline.
Variables (h : hist) (sched : list (Z * meth)) (t : txs) (evs : list txn).
Hypothesis Hbuild : build h = Ok t.
Hypothesis Hevs : taxable_events t = Ok evs.

Lemma in_lot_raw a : In a (t_ins t) -> exists r, In r (h_ins h) /\ mk_in r = Ok a.
Proof.
  destruct (build_inv _ _ Hbuild) as (ins & outs & intras & E1 & E2 & E3 & D & NE & T1 & T2 & T3).
  rewrite T1, sort_by_in. intro Hin. eapply map_result_in; eauto.
Qed.

Lemma in_out_raw a : In a (t_outs t) -> exists r, In r (h_outs h) /\ mk_out r = Ok a.
Proof.
  destruct (build_inv _ _ Hbuild) as (ins & outs & intras & E1 & E2 & E3 & D & NE & T1 & T2 & T3).
  rewrite T2, sort_by_in. intro Hin. eapply map_result_in; eauto.
Qed.

Lemma in_intra_raw a : In a (t_intras t) -> exists r, In r (h_intras h) /\ mk_intra r = Ok a.
Proof.
  destruct (build_inv _ _ Hbuild) as (ins & outs & intras & E1 & E2 & E3 & D & NE & T1 & T2 & T3).
  rewrite T3, sort_by_in. intro Hin. eapply map_result_in; eauto.
Qed.

Lemma pw_lots_sorted : in_rows_increasing h -> lots_sorted (t_ins t).
Proof.
  intros Hinc.
  destruct (build_inv _ _ Hbuild) as (ins & outs & intras & E1 & E2 & E3 & D & NE & T1 & T2 & T3).
  assert (HS : StronglySorted (fun a b => i_row a < i_row b) ins).
  { apply (SS_unmap i_row Z.lt).
    rewrite (map_result_map mk_in ri_row i_row) with (l := h_ins h); auto.
    - apply SS_map. apply nth_SS. exact Hinc.
    - intros x y Hxy. apply (mk_in_fields _ _ Hxy). }
  pose proof (sort_by_lex in_us _ _ HS) as HL. rewrite <- T1 in HL.
  intros i j Hij. exact (SS_nth _ _ HL i j dummy_lot Hij).
Qed.

Lemma pw_lots_distinct_rows : lots_distinct_rows (t_ins t).
Proof.
  destruct (build_inv _ _ Hbuild) as (ins & outs & intras & E1 & E2 & E3 & D & NE & T1 & T2 & T3).
  unfold lots_distinct_rows. rewrite T1.
  eapply Permutation_NoDup; [|apply has_dup_false_NoDup; exact D].
  apply Permutation_map, Permutation_sym, sort_by_perm.
Qed.

Lemma pw_lots_positive : amounts_positive h -> lots_positive (t_ins t).
Proof.
  intros Hpos i Hi. unfold lotn.
  destruct (in_lot_raw (nth i (t_ins t) dummy_lot)) as [r [Hr Hmk]]; [apply nth_In; exact Hi|].
  destruct (mk_in_fields _ _ Hmk) as (_ & _ & -> & _). apply Hpos, Hr.
Qed.

Lemma pw_lots_nonempty : lots_nonempty (t_ins t).
Proof.
  destruct (build_inv _ _ Hbuild) as (ins & outs & intras & E1 & E2 & E3 & D & NE & T1 & T2 & T3).
  unfold lots_nonempty. intro Hnil. apply NE.
  apply length_zero_iff_nil. rewrite <- (sort_by_length in_us), <- T1, Hnil. reflexivity.
Qed.

(** the sorted event list: by instant, and within one instant the earning events first *)
Definition ev_order (a b : event) : Prop :=
  e_us a < e_us b \/ (e_us a = e_us b /\ (e_earn b = true -> e_earn a = true)).

Lemma earning_split :
  exists a b, taxable_unsorted t = a ++ b /\
    (forall x, In x a -> t_is_earning x = true) /\ (forall x, In x b -> t_is_earning x = false).
Proof.
  unfold taxable_unsorted. eexists; eexists; split; [reflexivity|]. split.
  - intros x Hx. apply in_map_iff in Hx. destruct Hx as [a [<- Ha]].
    apply filter_In in Ha. rewrite earning_TIn. apply Ha.
  - intros x Hx. apply in_app_iff in Hx. destruct Hx as [Hx|Hx]; apply in_map_iff in Hx;
      destruct Hx as [a [<- _]]; [apply earning_TOut | apply earning_TIntra].
Qed.

Lemma evs_ordered : StronglySorted ev_order (map event_of evs).
Proof.
  rewrite (taxable_events_eq _ _ Hevs).
  destruct earning_split as (a & b & -> & Ha & Hb).
  apply SS_map.
  exact (sort_by_lex t_us _ _ (SS_app_pred t_is_earning a b Ha Hb)).
Qed.

Lemma pw_evs_sorted : evs_sorted (map event_of evs).
Proof.
  intros i j d Hij. pose proof (SS_nth _ _ evs_ordered i j d Hij) as [H|[H _]]; lia.
Qed.

Lemma pw_earn_first : earn_first (map event_of evs).
Proof.
  intros i j d Hij Heq. pose proof (SS_nth _ _ evs_ordered i j d Hij) as [H|[_ H]]; [lia | exact H].
Qed.

Lemma pw_evs_positive : amounts_positive h -> evs_positive (map event_of evs).
Proof.
  intros Hpos e He. apply in_map_iff in He. destruct He as [x [<- Hx]].
  cbn [event_of e_amt].
  apply (taxable_events_iff _ _ _ Hevs) in Hx.
  destruct Hx as [[a [-> [Ha _]]]|[[a [-> Ha]]|[a [-> [Ha HT]]]]].
  - rewrite change_TIn. destruct (in_lot_raw a Ha) as [r [Hr Hmk]].
    destruct (mk_in_fields _ _ Hmk) as (_ & _ & -> & _). apply Hpos, Hr.
  - rewrite change_TOut. destruct (in_out_raw a Ha) as [r [_ Hmk]]. eapply mk_out_pos; eauto.
  - rewrite change_TIntra. destruct (in_intra_raw a Ha) as [r [_ Hmk]]. eapply mk_intra_taxable_pos; eauto.
Qed.

Lemma pw_evs_distinct_rows : evs_distinct_rows (map event_of evs).
Proof.
  unfold evs_distinct_rows. rewrite map_map.
  exact (taxable_events_rows_distinct _ _ Hevs).
Qed.

Lemma pw_earn_is_lot : earn_is_lot (t_ins t) (map event_of evs).
Proof.
  intros e He Hearn. apply in_map_iff in He. destruct He as [x [<- Hx]].
  cbn [event_of e_earn e_row e_us e_amt] in *.
  apply (taxable_events_iff _ _ _ Hevs) in Hx.
  destruct Hx as [[a [-> [Ha _]]]|[[a [-> Ha]]|[a [-> [Ha HT]]]]].
  - destruct (In_nth _ _ dummy_lot Ha) as [i [Hi Hnth]].
    exists i. unfold lot_us, lotn. rewrite Hnth, change_TIn. auto.
  - rewrite earning_TOut in Hearn. discriminate Hearn.
  - rewrite earning_TIntra in Hearn. discriminate Hearn.
Qed.

Lemma pw_same_instant_same_year :
  hist_same_instant_same_year evs -> same_instant_same_year (map event_of evs).
Proof.
  intros H e e' He He' Heq.
  apply in_map_iff in He. destruct He as [x [<- Hx]].
  apply in_map_iff in He'. destruct He' as [x' [<- Hx']].
  cbn [event_of e_us e_year] in *. apply H; auto.
Qed.

Lemma pw_sched_covers : hist_sched_covers sched evs -> sched_covers sched (map event_of evs).
Proof.
  intros H e He. apply in_map_iff in He. destruct He as [x [<- Hx]].
  cbn [event_of e_year]. apply H, Hx.
Qed.
End Pipeline.

Theorem pipeline_wf : forall h sched t evs,
  build h = Ok t -> taxable_events t = Ok evs ->
  in_rows_increasing h -> amounts_positive h ->
  hist_same_instant_same_year evs -> hist_sched_covers sched evs -> NoDup (map fst sched) ->
  wf (t_ins t) sched (map event_of evs).
Proof.
  intros h sched t evs Hb He Hinc Hpos Hyear Hcov Hnd. unfold wf.
  split; [eapply pw_lots_sorted; eauto|].
  split; [eapply pw_lots_distinct_rows; eauto|].
  split; [eapply pw_lots_positive; eauto|].
  split; [eapply pw_lots_nonempty; eauto|].
  split; [eapply pw_evs_sorted; eauto|].
  split; [eapply pw_evs_positive; eauto|].
  split; [eapply pw_evs_distinct_rows; eauto|].
  split; [eapply pw_earn_first; eauto|].
  split; [eapply pw_earn_is_lot; eauto|].
  split; [eapply pw_same_instant_same_year; eauto|].
  split; [eapply pw_sched_covers; eauto|].
  exact Hnd.
Qed.

