(** Source tie of computed_data.py: average price per unit.
    For the tables generated from the CURRENT source (Model/GeneratedTie.v, fragment computed; interpreters in Model/ComputedGen.v).
    One file per concern, so that an edit of the source breaks exactly the lemmas about what it changed and the property
    files that cite them.  Overview: Proofs/ComputedGenProofs.v. *)
From Coq Require Import List ZArith Bool Lia.
From RP2V Require Import Base.Prelude Base.Time Base.Dec Base.Sorting Base.Assoc Model.Types Model.Generated Model.GeneratedTie
  Model.Txn Model.Matcher Model.Pipeline Model.Computed Model.ComputedGen.
Import ListNotations.
Open Scope Z_scope.

(** ---------- average price per unit *)
Lemma price_per_unit_gen_agrees (from_day to_day : Z) (ins : list intx) : price_per_unit_gen from_day to_day ins = price_per_unit to_day ins.
Proof. reflexivity. Qed.
