(** Non-vacuity of [parse_render]: a concrete configuration (non-identity column maps), a sheet with the tables
    in the order OUT, IN, INTRA, blank rows, junk in unmapped columns and an acquisition with a crypto fee meets
    every hypothesis of the theorem. *)
From RP2V Require Import Base.Prelude Base.Time Base.Dec Base.Sorting Model.Types Model.Generated Model.Txn Model.Parser Model.Render
  Proofs.ParserLookup Proofs.ParserRows Proofs.ParserSheet Proofs.ParserSpec.
Open Scope Z_scope.

Definition ex_ts : str := [50; 48; 50; 48].
Definition ex_cfg : pcfg :=
  {| pc_in := [(1, 0); (0, 2); (2, 1); (3, 3); (4, 4); (5, 6); (6, 5); (7, 8); (12, 9)];
     pc_out := [(0, 0); (1, 1); (2, 2); (3, 3); (4, 4); (5, 5); (6, 6); (7, 7)];
     pc_intra := [(7, 0); (1, 1); (2, 2); (3, 3); (4, 4); (5, 5); (6, 6); (0, 7); (8, 8)];
     pc_assets := [[66; 49]; [66; 50]]; pc_exchanges := [[69; 48]; [69; 49]]; pc_holders := [[72; 48]];
     pc_ts := [(ex_ts, TsAware {| utc_us := 1600000000000000; off_s := 3600 |})] |}.
Definition ex_asset : str := [66; 49].
Definition ex_junk : nat -> cell := fun c => if Nat.even c then CStr [84; 65; 66; 76; 69; 32; 69; 78; 68] else CNum 25 2.
Definition cs (l : list Z) := CStr l.
Definition ex_in1 : src_in :=
  {| si_ts := ex_ts; si_exch := [69; 49]; si_holder := [72; 48]; si_type := [66; 117; 121];        (* "Buy" *)
     si_spot := (100, 1); si_cin := (3, 2); si_cfee := Some (1, 1024); si_f1 := None; si_f2 := None; si_f3 := None;
     si_uid := CEmpty; si_notes := cs [110] |}.
Definition ex_in2 : src_in :=
  {| si_ts := ex_ts; si_exch := [69; 48]; si_holder := [72; 48]; si_type := [115; 116; 97; 107; 105; 110; 103];   (* "staking" *)
     si_spot := (7, 1); si_cin := (1, 4); si_cfee := None; si_f1 := None; si_f2 := None; si_f3 := None;
     si_uid := CEmpty; si_notes := CEmpty |}.
Definition ex_out1 : src_out :=
  {| so_ts := ex_ts; so_exch := [69; 48]; so_holder := [72; 48]; so_type := [83; 69; 76; 76];
     so_spot := (150, 1); so_nofee := (1, 8); so_fee := (0, 1); so_w := None; so_f1 := None; so_f2 := None;
     so_uid := CEmpty; so_notes := CEmpty |}.
Definition ex_x1 : src_intra :=
  {| sx_ts := ex_ts; sx_fe := [69; 48]; sx_fh := [72; 48]; sx_te := [69; 49]; sx_th := [72; 48];
     sx_spot := None; sx_sent := (1, 2); sx_recv := (1, 2); sx_uid := CEmpty; sx_notes := CEmpty |}.

Definition ex_hdr : list cell := [cs [104]; cs [104]; cs [104]; cs [104]; cs [104]; cs [104]; cs [104]; cs [104]; cs [104]; cs [104]].
Definition ex_blocks : list block :=
  [ {| b_tab := TabOut; b_gap := [[CEmpty; cs [120]]]; b_kw := [cs [111; 117; 116]]; b_hdr := ex_hdr;
       b_rows := [(SOut ex_out1, ex_junk)]; b_end := [cs TABLE_END; CNum 1 1]; b_width := 10 |};
    {| b_tab := TabIn; b_gap := []; b_kw := [cs [73; 78]; cs [73; 78]]; b_hdr := ex_hdr;
       b_rows := [(SIn ex_in1, ex_junk); (SIn ex_in2, ex_junk)]; b_end := [cs TABLE_END]; b_width := 11 |};
    {| b_tab := TabIntra; b_gap := [[]; [cs []]]; b_kw := [cs [73; 110; 116; 114; 97]]; b_hdr := ex_hdr;
       b_rows := [(SIntra ex_x1, ex_junk)]; b_end := [cs TABLE_END]; b_width := 9 |} ].

Ltac solve_header :=
  split; [repeat constructor; simpl; intuition lia
         | split; [intros f c H; simpl in H; repeat (destruct H as [H|H]; [inversion H; lia|]); contradiction | simpl; lia]].
Ltac solve_rows := intros rj H; simpl in H; repeat (destruct H as [H|H]; [subst rj; vm_compute; auto|]); contradiction.
Ltac solve_mand := intros f H; simpl in H; repeat (destruct H as [H|H]; [subst f; vm_compute; reflexivity|]); contradiction.
Ltac solve_gap := intros r H; simpl in H; repeat (destruct H as [H|H]; [subst r; reflexivity|]); contradiction.
Ltac solve_block :=
  constructor; simpl;
  [ solve_header | solve_mand | solve_gap | vm_compute; reflexivity | vm_compute; reflexivity | vm_compute; reflexivity
  | solve_rows | solve_rows | vm_compute; reflexivity ].

Lemma ex_wf : wf_blocks ex_cfg ex_asset 1 ex_blocks.
Proof.
  simpl. split; [solve_block | split; [solve_block | split; [solve_block | exact I]]].
Qed.

Definition ex_expected : result parsed := Eval vm_compute in expected ex_cfg 0 ex_blocks.

Example parse_render_nonvacuous :
  exists p, expected ex_cfg 0 ex_blocks = Ok p /\
            parse_sheet ex_cfg ex_asset 0 (render_sheet ex_cfg ex_asset ex_blocks [[CEmpty]]) = Ok p /\
            length (pa_ins p) = 2%nat /\ length (pa_outs p) = 2%nat /\ length (pa_intras p) = 1%nat /\ pa_counter p = -1 /\
            map i_row (pa_ins p) = [8; 9] /\ map o_row (pa_outs p) = [4; -1].
Proof.
  destruct (expected ex_cfg 0 ex_blocks) as [p|] eqn:E; [|vm_compute in E; discriminate].
  exists p. split; [reflexivity|]. split.
  - apply (parse_render ex_cfg ex_asset 0 0 ex_blocks [[CEmpty]] p).
    + vm_compute. reflexivity.
    + exact ex_wf.
    + simpl. repeat constructor; simpl; intuition discriminate.
    + intros r H. destruct H as [<-|[]]. reflexivity.
    + exact E.
    + vm_compute in E. inversion E. discriminate.
  - vm_compute in E. inversion E. vm_compute. repeat split; reflexivity.
Qed.
