(** The wiring of tax_engine.py that the translator reads on every run (Generated.v fragment `tax_engine`), interpreted
    by Model/TaxEngineGen.v, IS the hand-written model: [Pipeline.taxable_unsorted] / [taxable_events] (which sets are
    scanned, in which order, selected by is_taxable()), [Matcher.loop] (which GainLoss each branch builds and how it
    advances), and [Pipeline.fractions_of] (the matcher runs over the taxable-event set and over the UNFILTERED in-set).

    The proofs compute on the generated data: they hold for the source as it is.  A change of the scanned sets, of the
    selection predicate, of either iterator (e.g. a date-filtered copy of the in-set), or of a loop branch changes the
    data and this file stops compiling: a broken proof obligation of C01, C02, C03. *)
From RP2V Require Import Base.Prelude Base.Time Base.Dec Base.Sorting Model.Types Model.Generated Model.Txn
  Model.Matcher Model.MatchSpec Model.Pipeline Model.TaxEngineGen.
Open Scope Z_scope.

Lemma tax_engine_data :
  gen_te_scan = [TeIn; TeOut; TeIntra] /\ gen_te_filter = TePredTaxable /\
  gen_te_event_iter = TeTaxableSet /\ gen_te_lot_iter = TeInput TeIn.
Proof. repeat split; reflexivity. Qed.

Lemma tax_engine_branches :
  gen_te_earn = {| tb_amt := TeEvAmt; tb_lot := TeLotNone; tb_adv := AdvNextEvent; tb_adv_ev := TeZero; tb_adv_lot := TeLotAmt |} /\
  gen_te_eq = {| tb_amt := TeEvAmt; tb_lot := TeLotCur; tb_adv := AdvNextEventAndLot; tb_adv_ev := TeEvAmt; tb_adv_lot := TeLotAmt |} /\
  gen_te_lt = {| tb_amt := TeEvAmt; tb_lot := TeLotCur; tb_adv := AdvNextEvent; tb_adv_ev := TeEvAmt; tb_adv_lot := TeLotAmt |} /\
  gen_te_gt = {| tb_amt := TeLotAmt; tb_lot := TeLotCur; tb_adv := AdvLotForEvent; tb_adv_ev := TeEvAmt; tb_adv_lot := TeLotAmt |}.
Proof. repeat split; reflexivity. Qed.

(** ** _create_unfiltered_taxable_event_set *)
Lemma taxable_unsorted_gen_agrees : forall t, taxable_unsorted_gen t = taxable_unsorted t.
Proof.
  intros t. unfold taxable_unsorted_gen, taxable_unsorted. cbn [gen_te_scan flat_map scan_set].
  rewrite app_nil_r. reflexivity.
Qed.

Lemma taxable_events_gen_agrees : forall t, taxable_events_gen t = taxable_events t.
Proof. intros t. unfold taxable_events_gen, taxable_events. rewrite taxable_unsorted_gen_agrees. reflexivity. Qed.

(** ** the loop of _create_unfiltered_gain_and_loss_set *)
Lemma loop_gen_agrees :
  forall ar lots fuel s evs e l ea la out,
    loop_gen ar lots fuel s evs e l ea la out = loop ar lots fuel s evs e l ea la out.
Proof.
  intros ar lots fuel. induction fuel as [| f IH]; intros s evs e l ea la out; [reflexivity |].
  cbn [loop_gen loop]. destruct l as [li |]; [| reflexivity].
  destruct ((ea <? 0) || (la <? 0)); [reflexivity |].
  unfold branch_of.
  destruct (e_earn e).
  - cbn. destruct (ea <=? 0); [reflexivity |].
    destruct (next_event ar lots s evs (Some e) (Some li) 0 la) as [[| s' evs' e' l' ea' la'] | x]; try reflexivity. apply IH.
  - destruct (ea =? la); [| destruct (ea <? la)].
    + cbn. destruct (ea <=? 0); [reflexivity |].
      destruct (next_event_and_lot ar lots s evs (Some e) (Some li) ea la) as [[| s' evs' e' l' ea' la'] | x]; try reflexivity. apply IH.
    + cbn. destruct (ea <=? 0); [reflexivity |].
      destruct (next_event ar lots s evs (Some e) (Some li) ea la) as [[| s' evs' e' l' ea' la'] | x]; try reflexivity. apply IH.
    + cbn. destruct (la <=? 0); [reflexivity |].
      destruct (lot_for_event ar lots s e ea la) as [[[[s' i] ea'] la'] | x]; try reflexivity. apply IH.
Qed.

Lemma run_matcher_gen_agrees :
  forall ar lots sched evs, run_matcher_gen ar lots sched evs = run_matcher ar lots sched evs.
Proof.
  intros ar lots sched evs. unfold run_matcher_gen, run_matcher. destruct lots as [| l0 lots']; [reflexivity |].
  destruct (next_event_and_lot ar (l0 :: lots') (init_state (l0 :: lots') sched) evs None None 0 0) as [[| s evs' e l ea la] | x];
    try reflexivity.
  apply loop_gen_agrees.
Qed.

(** ** compute_tax up to the fractions: the event iterator runs over the taxable-event set just created, the lot
    iterator over input_data.unfiltered_in_transaction_set itself *)
Lemma fractions_of_gen_agrees :
  forall ar sched t, fractions_of_gen ar sched t = fractions_of ar sched t.
Proof.
  intros ar sched t. unfold fractions_of_gen, fractions_of. rewrite taxable_events_gen_agrees.
  destruct (taxable_events t) as [evs | e]; [| reflexivity].
  cbn [gen_te_lot_iter gen_te_event_iter lots_of events_of]. apply run_matcher_gen_agrees.
Qed.

(** the loop and the iterators together (what C02 needs: each branch takes min(event amount, lot amount) from the lot in
    flight, and the lots offered to the engine are ALL acquisitions of the input) *)
Lemma tax_engine_matcher_agrees :
  (forall ar lots fuel s evs e l ea la out,
     loop_gen ar lots fuel s evs e l ea la out = loop ar lots fuel s evs e l ea la out) /\
  (forall ar sched t, fractions_of_gen ar sched t = fractions_of ar sched t).
Proof. split; [exact loop_gen_agrees | exact fractions_of_gen_agrees]. Qed.

(** ** non-vacuity: one purchase, one sale of half of it, through the generated wiring *)
Definition ex_te_lot : intx :=
  {| i_row := 3; i_ts := {| utc_us := 1600000000000000; off_s := 0 |}; i_exch := 0; i_holder := 0; i_type := BUY;
     i_spot := 10000000000000; i_crypto_in := 200000000000; i_crypto_fee := 0;
     i_fiat_in_no_fee := (200, 0); i_fiat_in_with_fee := (200, 0); i_fiat_fee := (0, 0) |}.
Definition ex_te_sale : outtx :=
  {| o_row := 9; o_ts := {| utc_us := 1700000000000000; off_s := 0 |}; o_exch := 0; o_holder := 0; o_type := SELL;
     o_spot := 20000000000000; o_crypto_out_no_fee := 100000000000; o_crypto_fee := 0; o_crypto_out_with_fee := 100000000000;
     o_fiat_out_no_fee := (200, 0); o_fiat_fee := (0, 0); o_fiat_out_with_fee := (200, 0) |}.
Definition ex_te_txs : txs := {| t_ins := [ex_te_lot]; t_outs := [ex_te_sale]; t_intras := [] |}.

Example fractions_of_gen_example :
  fractions_of_gen true [(1970, Fifo)] ex_te_txs = Ok [{| f_ev := 9; f_lot := Some 3; f_amt := 100000000000 |}].
Proof. vm_compute. reflexivity. Qed.

Example taxable_unsorted_gen_example :
  taxable_unsorted_gen ex_te_txs = [TOut ex_te_sale].
Proof. vm_compute. reflexivity. Qed.
