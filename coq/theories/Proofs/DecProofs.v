(** Accuracy facts about the executable [decimal] model of [Base/Dec.v]
    (precision 31, ROUND_HALF_EVEN).  Stdlib only, no added hypotheses. *)
From Coq Require Import ZArith Bool Lia QArith Qabs Qpower Qfield Lqa.
From RP2V Require Import Base.Prelude Base.Dec.
Local Open Scope Z_scope.

(* ------------------------------------------------------------------ *)
(** * Powers of ten (integers) *)

Lemma p10_pos k : 0 < 10 ^ k \/ k < 0.
Proof. destruct (Z_lt_ge_dec k 0); [right; lia|left; apply Z.pow_pos_nonneg; lia]. Qed.

Lemma p10_gt0 k : 0 <= k -> 0 < 10 ^ k.
Proof. intros; apply Z.pow_pos_nonneg; lia. Qed.

Lemma p10_succ k : 0 <= k -> 10 ^ (k + 1) = 10 * 10 ^ k.
Proof. intros. rewrite Z.add_1_r. apply Z.pow_succ_r; lia. Qed.

Lemma p10_add a b : 0 <= a -> 0 <= b -> 10 ^ (a + b) = 10 ^ a * 10 ^ b.
Proof. intros; apply Z.pow_add_r; lia. Qed.

Lemma p10_lt a b : 0 <= b -> (a < b <-> 10 ^ a < 10 ^ b).
Proof. intros; apply Z.pow_lt_mono_r_iff; lia. Qed.

Lemma p10_lt_mono a b : 0 <= b -> a < b -> 10 ^ a < 10 ^ b.
Proof. intros H; apply (p10_lt a b H). Qed.

Lemma p10_lt_inv a b : 0 <= b -> 10 ^ a < 10 ^ b -> a < b.
Proof. intros H; apply (p10_lt a b H). Qed.

Lemma p10_le a b : a <= b -> 10 ^ a <= 10 ^ b.
Proof. intros; apply Z.pow_le_mono_r; lia. Qed.

(* ------------------------------------------------------------------ *)
(** * Number of digits *)

Lemma ndigits_pos_spec : forall fuel n acc, 0 <= n -> n < 2 ^ Z.of_nat fuel ->
  exists D, ndigits_pos fuel n acc = acc + D /\ 0 <= D /\ (n = 0 -> D = 0) /\
            (0 < n -> 1 <= D /\ 10 ^ (D - 1) <= n < 10 ^ D).
Proof.
  induction fuel as [|f IH]; intros n acc Hn Hlt.
  - change (2 ^ Z.of_nat 0) with 1 in Hlt. exists 0. cbn [ndigits_pos]. repeat split; lia.
  - cbn [ndigits_pos]. destruct (Z.eqb_spec n 0) as [->|Hnz].
    + exists 0. repeat split; lia.
    + assert (Hdiv : 0 <= n / 10) by (apply Z.div_pos; lia).
      assert (Hlt' : n / 10 < 2 ^ Z.of_nat f).
      { rewrite Nat2Z.inj_succ, Z.pow_succ_r in Hlt by lia.
        apply Z.div_lt_upper_bound; lia. }
      destruct (IH (n / 10) (acc + 1) Hdiv Hlt') as (D' & E & HD0 & Hz & Hp).
      exists (D' + 1). rewrite E. split; [lia|]. split; [lia|]. split; [lia|]. intros _.
      pose proof (Z.div_mod n 10 ltac:(lia)) as Hdm.
      pose proof (Z.mod_pos_bound n 10 ltac:(lia)) as Hmb.
      replace (D' + 1 - 1) with D' by lia.
      destruct (Z.eq_dec (n / 10) 0) as [Hq0|Hq0].
      * rewrite (Hz Hq0). rewrite Z.pow_0_r. change (10 ^ (0 + 1)) with 10. lia.
      * destruct Hp as (HD1 & Hlo & Hhi); [lia|].
        rewrite p10_succ by lia.
        replace (10 ^ D') with (10 * 10 ^ (D' - 1)) in *
          by (rewrite <- p10_succ by lia; f_equal; lia).
        lia.
Qed.

Lemma ndigits_zero : ndigits 0 = 0.
Proof. reflexivity. Qed.

Lemma ndigits_spec1 : forall n, n <> 0 ->
  1 <= ndigits n /\ 10 ^ (ndigits n - 1) <= Z.abs n < 10 ^ (ndigits n).
Proof.
  intros n Hn. unfold ndigits.
  assert (Ha : 0 < Z.abs n) by lia.
  destruct (ndigits_pos_spec (S (Z.to_nat (Z.log2 (Z.abs n)))) (Z.abs n) 0) as (D & E & _ & _ & Hp).
  - lia.
  - rewrite Nat2Z.inj_succ, Z2Nat.id by apply Z.log2_nonneg.
    apply Z.log2_spec; lia.
  - rewrite E. rewrite Z.add_0_l. apply Hp; lia.
Qed.

Lemma ndigits_spec : forall n, n <> 0 -> 10 ^ (ndigits n - 1) <= Z.abs n < 10 ^ (ndigits n).
Proof. intros n Hn; apply ndigits_spec1; exact Hn. Qed.

Lemma ndigits_nonneg n : 0 <= ndigits n.
Proof.
  destruct (Z.eq_dec n 0) as [->|H]; [rewrite ndigits_zero; lia|].
  pose proof (ndigits_spec1 n H); lia.
Qed.

Lemma ndigits_le_iff n p : 0 <= p -> (ndigits n <= p <-> Z.abs n < 10 ^ p).
Proof.
  intros Hp. destruct (Z.eq_dec n 0) as [->|H].
  - rewrite ndigits_zero. pose proof (p10_gt0 p Hp). simpl Z.abs. lia.
  - destruct (ndigits_spec1 n H) as (H1 & Hlo & Hhi). split; intros HH.
    + pose proof (p10_le _ _ HH). lia.
    + assert (10 ^ (ndigits n - 1) < 10 ^ p) by lia.
      apply p10_lt_inv in H0; lia.
Qed.

Lemma ndigits_gt_iff n p : 0 <= p -> (p < ndigits n <-> 10 ^ p <= Z.abs n).
Proof. intros Hp. pose proof (ndigits_le_iff n p Hp). lia. Qed.

Lemma ndigits_unique n d : 1 <= d -> 10 ^ (d - 1) <= Z.abs n < 10 ^ d -> ndigits n = d.
Proof.
  intros Hd [Hlo Hhi].
  assert (ndigits n <= d) by (apply ndigits_le_iff; lia).
  assert (d - 1 < ndigits n) by (apply ndigits_gt_iff; lia).
  lia.
Qed.

Lemma ndigits_abs n : ndigits (Z.abs n) = ndigits n.
Proof. unfold ndigits. rewrite Z.abs_involutive. reflexivity. Qed.

Lemma ndigits_opp n : ndigits (- n) = ndigits n.
Proof. unfold ndigits. rewrite Z.abs_opp. reflexivity. Qed.

(* ------------------------------------------------------------------ *)
(** * Half-even division *)

Lemma rhe_div_nonneg_cases n d s : 0 <= n -> 0 < d ->
  (rhe_div n d s = n / d /\ 2 * (n mod d) <= d /\
     (2 * (n mod d) = d -> s = false /\ Z.odd (n / d) = false))
  \/ (rhe_div n d s = n / d + 1 /\ d <= 2 * (n mod d) /\
     (2 * (n mod d) = d -> s = true \/ Z.odd (n / d) = true)).
Proof.
  intros Hn Hd. unfold rhe_div. rewrite (Z.abs_eq n Hn).
  destruct (Z.ltb_spec n 0) as [?|_]; [lia|].
  destruct (Z.gtb_spec (2 * (n mod d)) d) as [Hgt|Hle]; cbn [orb].
  - right. repeat split; lia.
  - destruct (Z.eqb_spec (2 * (n mod d)) d) as [Heq|Hne]; cbn [andb].
    + destruct s; cbn [orb].
      * right. repeat split; try lia; auto.
      * destruct (Z.odd (n / d)) eqn:Eo.
        -- right. repeat split; try lia; auto.
        -- left. repeat split; try lia.
    + left. repeat split; try lia.
Qed.

Lemma rhe_div_abs n d s :
  rhe_div n d s = if n <? 0 then - rhe_div (Z.abs n) d s else rhe_div (Z.abs n) d s.
Proof.
  unfold rhe_div. rewrite Z.abs_involutive.
  destruct (Z.ltb_spec (Z.abs n) 0) as [?|_]; [lia|].
  destruct (n <? 0); reflexivity.
Qed.

Lemma rhe_div_nonneg n d s : 0 <= n -> 0 < d -> 0 <= rhe_div n d s.
Proof.
  intros Hn Hd. pose proof (Z.div_pos n d Hn Hd).
  destruct (rhe_div_nonneg_cases n d s Hn Hd) as [(E & _)|(E & _)]; rewrite E; lia.
Qed.

Lemma rhe_div_abs_eq n d s : 0 < d -> Z.abs (rhe_div n d s) = rhe_div (Z.abs n) d s.
Proof.
  intros Hd. rewrite (rhe_div_abs n).
  pose proof (rhe_div_nonneg (Z.abs n) d s ltac:(lia) Hd).
  destruct (n <? 0); lia.
Qed.

Lemma rhe_div_half_nonneg n d s : 0 <= n -> 0 < d -> 2 * Z.abs (rhe_div n d s * d - n) <= d.
Proof.
  intros Hn Hd.
  pose proof (Z.div_mod n d ltac:(lia)) as Hdm.
  pose proof (Z.mod_pos_bound n d Hd) as Hmb.
  destruct (rhe_div_nonneg_cases n d s Hn Hd) as [(E & H1 & _)|(E & H1 & _)]; rewrite E.
  - replace (n / d * d - n) with (- (n mod d)) by lia. lia.
  - replace ((n / d + 1) * d - n) with (d - n mod d) by lia. lia.
Qed.

Lemma rhe_div_half : forall n d s, 0 < d -> 2 * Z.abs (rhe_div n d s * d - n) <= d.
Proof.
  intros n d s Hd. rewrite rhe_div_abs.
  pose proof (rhe_div_half_nonneg (Z.abs n) d s ltac:(lia) Hd) as H.
  destruct (Z.ltb_spec n 0).
  - replace (- rhe_div (Z.abs n) d s * d - n) with (- (rhe_div (Z.abs n) d s * d - Z.abs n)) by lia.
    rewrite Z.abs_opp. exact H.
  - rewrite (Z.abs_eq n) in * by lia. exact H.
Qed.

(** an exact quotient is returned unchanged *)
Lemma rhe_div_exact q d s : 0 < d -> rhe_div (q * d) d s = q.
Proof.
  intros Hd. rewrite rhe_div_abs.
  assert (E : rhe_div (Z.abs (q * d)) d s = Z.abs q).
  { rewrite Z.abs_mul, (Z.abs_eq d) by lia.
    destruct (rhe_div_nonneg_cases (Z.abs q * d) d s ltac:(nia) Hd) as [(E & _)|(_ & H & _)].
    - rewrite E. apply Z.div_mul; lia.
    - rewrite Z.mod_mul in H by lia. lia. }
  rewrite E. destruct (Z.ltb_spec (q * d) 0); nia.
Qed.

(* ------------------------------------------------------------------ *)
(** * Rounding to 31 digits *)

Lemma rnd_exact : forall m e, ndigits m <= PREC -> rnd (m, e) = (m, e).
Proof.
  intros m e H. unfold rnd.
  destruct (Z.leb_spec (ndigits m - PREC) 0); [reflexivity|lia].
Qed.

Lemma rnd_cases m e :
  (ndigits m <= PREC /\ rnd (m, e) = (m, e)) \/
  (0 < ndigits m - PREC /\
   rnd (m, e) = (rhe_div m (10 ^ (ndigits m - PREC)) false, e + (ndigits m - PREC))).
Proof.
  unfold rnd, pow10.
  destruct (Z.leb_spec (ndigits m - PREC) 0); [left|right]; split; auto; lia.
Qed.

(** integer form of the rounding error: the coefficient moves by at most half a unit
    of the last kept digit, and that is at most 5e-31 of |m| *)
Lemma rnd_int_error m k : k = ndigits m - PREC -> 0 < k ->
  2 * Z.abs (rhe_div m (10 ^ k) false * 10 ^ k - m) <= 10 ^ k /\
  10 ^ 30 * 10 ^ k <= Z.abs m.
Proof.
  intros Hk Hpos. split.
  - apply rhe_div_half. apply p10_gt0; lia.
  - assert (Hm : m <> 0).
    { intros ->. rewrite ndigits_zero in Hk. unfold PREC in Hk. lia. }
    destruct (ndigits_spec1 m Hm) as (_ & Hlo & _).
    replace (ndigits m - 1) with (30 + k) in Hlo by (unfold PREC in Hk; lia).
    rewrite p10_add in Hlo by lia. exact Hlo.
Qed.

(** [rnd_digits] as literally requested is false: rounding 99...9 (32 nines) carries into
    10^31, which the model keeps as a 32-digit coefficient (Python would renormalise to
    1000...0 (31 digits) with exponent + 1; same value). *)
Example rnd_digits_counterexample :
  ndigits (fst (rnd (10 ^ 32 - 1, 0))) = 32 /\ rnd (10 ^ 32 - 1, 0) = (10 ^ 31, 1).
Proof. vm_compute. split; reflexivity. Qed.

Lemma rnd_digits_abs : forall x, Z.abs (fst (rnd x)) <= 10 ^ PREC.
Proof.
  intros [m e]. destruct (rnd_cases m e) as [(H & ->)|(Hk & ->)]; cbn [fst].
  - apply ndigits_le_iff in H; unfold PREC in *; lia.
  - set (k := ndigits m - PREC) in *.
    assert (HP : 0 < 10 ^ k) by (apply p10_gt0; lia).
    rewrite rhe_div_abs_eq by exact HP.
    assert (Hm : Z.abs m < 10 ^ PREC * 10 ^ k).
    { rewrite <- p10_add by (unfold PREC; lia).
      apply ndigits_le_iff; [unfold PREC; lia|]. lia. }
    assert (Z.abs m / 10 ^ k < 10 ^ PREC).
    { apply Z.div_lt_upper_bound; [exact HP|]. lia. }
    destruct (rhe_div_nonneg_cases (Z.abs m) (10 ^ k) false ltac:(lia) HP) as [(E & _)|(E & _)];
      rewrite E; lia.
Qed.

Lemma rnd_digits : forall x,
  ndigits (fst (rnd x)) <= PREC \/ Z.abs (fst (rnd x)) = 10 ^ PREC.
Proof.
  intros x. pose proof (rnd_digits_abs x) as H.
  destruct (Z.eq_dec (Z.abs (fst (rnd x))) (10 ^ PREC)) as [E|NE]; [right; exact E|left].
  apply ndigits_le_iff; [unfold PREC; lia|lia].
Qed.

(** rounding is idempotent up to the carry case, and is the identity on short coefficients *)
Lemma rnd_digits_le32 : forall x, ndigits (fst (rnd x)) <= PREC + 1.
Proof.
  intros x. apply ndigits_le_iff; [unfold PREC; lia|].
  pose proof (rnd_digits_abs x).
  assert (10 ^ PREC < 10 ^ (PREC + 1)) by (apply p10_lt_mono; unfold PREC; lia). lia.
Qed.

(* ------------------------------------------------------------------ *)
(** * Exact rational value *)

Local Open Scope Q_scope.

Definition to_q (x : dec) : Q := inject_Z (fst x) * Qpower (10 # 1) (snd x).
Definition EPS : Q := 5 # (10 ^ 31).      (* half a unit in the 31st significant digit, relative *)

Notation ten := (10 # 1).

Lemma ten_nz : ~ ten == 0.
Proof. intro H; discriminate H. Qed.

Lemma tenp_pos e : 0 < ten ^ e.
Proof. apply Qpower_0_lt. reflexivity. Qed.

Lemma tenp_nz e : ~ ten ^ e == 0.
Proof. apply Qpower_not_0, ten_nz. Qed.

Lemma tenp_inj k : (0 <= k)%Z -> inject_Z (10 ^ k) == ten ^ k.
Proof. intros H. rewrite Zpower_Qpower by assumption. reflexivity. Qed.

Lemma inject_Z_minus a b : inject_Z (a - b) = inject_Z a - inject_Z b.
Proof. unfold Z.sub, Qminus. rewrite inject_Z_plus, inject_Z_opp. reflexivity. Qed.

Lemma inject_Z_nz z : z <> 0%Z -> ~ inject_Z z == 0.
Proof. intros H E. apply H. apply inject_Z_injective. exact E. Qed.

Lemma Qabs_inject_Z z : Qabs (inject_Z z) = inject_Z (Z.abs z).
Proof. reflexivity. Qed.

Lemma to_q_mk m e : to_q (m, e) = inject_Z m * ten ^ e.
Proof. reflexivity. Qed.

Lemma to_q_shift m k e : (0 <= k)%Z -> to_q ((m * 10 ^ k)%Z, e) == to_q (m, (e + k)%Z).
Proof.
  intros Hk. rewrite !to_q_mk, inject_Z_mult, (tenp_inj k Hk), Qpower_plus by apply ten_nz. ring.
Qed.

Lemma to_q_plus x y e : to_q ((x + y)%Z, e) == to_q (x, e) + to_q (y, e).
Proof. rewrite !to_q_mk, inject_Z_plus. ring. Qed.

Lemma to_q_minus x y e : to_q ((x - y)%Z, e) == to_q (x, e) - to_q (y, e).
Proof. rewrite !to_q_mk, inject_Z_minus. ring. Qed.

Lemma to_q_mult a b : to_q ((fst a * fst b)%Z, (snd a + snd b)%Z) == to_q a * to_q b.
Proof.
  destruct a as [m1 e1], b as [m2 e2]; cbn [fst snd].
  rewrite !to_q_mk, inject_Z_mult, Qpower_plus by apply ten_nz. ring.
Qed.

Lemma to_q_zero_iff x : to_q x == 0 <-> fst x = 0%Z.
Proof.
  destruct x as [m e]; cbn [fst]. rewrite to_q_mk. split.
  - intros H. destruct (Z.eq_dec m 0) as [E|NE]; [exact E|exfalso].
    apply Qmult_integral in H. destruct H as [H|H].
    + apply (inject_Z_nz m NE H).
    + apply (tenp_nz e H).
  - intros ->. ring.
Qed.

(** ** relative-error plumbing *)

Lemma EPS_nonneg : 0 <= EPS.
Proof. discriminate. Qed.

Lemma rel_zero x y : x == y -> Qabs (x - y) <= EPS * Qabs y.
Proof.
  intros H. assert (E : x - y == 0) by (rewrite H; ring). rewrite E.
  change (Qabs 0) with 0. apply Qmult_le_0_compat; [apply EPS_nonneg|apply Qabs_nonneg].
Qed.

Lemma rel_scale eps x y c :
  Qabs (x - y) <= eps * Qabs y -> Qabs (x * c - y * c) <= eps * Qabs (y * c).
Proof.
  intros H. assert (E : x * c - y * c == (x - y) * c) by ring.
  rewrite E, !Qabs_Qmult, Qmult_assoc.
  apply Qmult_le_compat_r; [exact H|apply Qabs_nonneg].
Qed.

Lemma rel_int A N : (Z.abs (A - N) * 10 ^ 31 <= 5 * Z.abs N)%Z ->
  Qabs (inject_Z A - inject_Z N) <= EPS * Qabs (inject_Z N).
Proof.
  intros H. rewrite <- inject_Z_minus, !Qabs_inject_Z.
  unfold Qle, EPS, Qmult, inject_Z. cbn [Qnum Qden].
  change (Z.pos (10 ^ 31 * 1)) with (10 ^ 31)%Z. lia.
Qed.

Lemma rel_frac A N D : (0 < D)%Z -> (Z.abs (A * D - N) * 10 ^ 31 <= 5 * Z.abs N)%Z ->
  Qabs (inject_Z A - inject_Z N / inject_Z D) <= EPS * Qabs (inject_Z N / inject_Z D).
Proof.
  intros HD H. apply rel_int in H.
  apply (rel_scale EPS _ _ (/ inject_Z D)) in H.
  assert (Dnz : ~ inject_Z D == 0) by (apply inject_Z_nz; lia).
  assert (E : inject_Z (A * D) * / inject_Z D == inject_Z A)
    by (rewrite inject_Z_mult; field; exact Dnz).
  rewrite E in H. exact H.
Qed.

(* ------------------------------------------------------------------ *)
(** * Rounding error *)

Lemma half_ulp_rel D P m : (2 * Z.abs D <= P)%Z -> (10 ^ 30 * P <= Z.abs m)%Z ->
  (Z.abs D * 10 ^ 31 <= 5 * Z.abs m)%Z.
Proof.
  intros H1 H2. change (10 ^ 31)%Z with (10 * 10 ^ 30)%Z.
  assert (HT : (0 < 10 ^ 30)%Z) by (apply p10_gt0; lia).
  set (T := (10 ^ 30)%Z) in *.
  assert ((2 * Z.abs D) * T <= P * T)%Z by (apply Z.mul_le_mono_nonneg_r; lia).
  lia.
Qed.

Lemma rnd_error : forall x, Qabs (to_q (rnd x) - to_q x) <= EPS * Qabs (to_q x).
Proof.
  intros [m e]. destruct (rnd_cases m e) as [(H & ->)|(Hk & ->)].
  - apply rel_zero; reflexivity.
  - set (k := (ndigits m - PREC)%Z) in *.
    destruct (rnd_int_error m k eq_refl Hk) as (H1 & H2).
    rewrite <- (to_q_shift _ k e) by lia. rewrite !to_q_mk.
    apply rel_scale, rel_int. eapply half_ulp_rel; eassumption.
Qed.

(** a rounded value equals its argument when the coefficient is short *)
Lemma rnd_exact_q m e : (ndigits m <= PREC)%Z -> to_q (rnd (m, e)) == to_q (m, e).
Proof. intros H. rewrite rnd_exact by exact H. reflexivity. Qed.

(* ------------------------------------------------------------------ *)
(** * The operations: exact result rounded once *)

Lemma align_value a b x y e : align a b = (x, y, e) ->
  to_q (x, e) == to_q a /\ to_q (y, e) == to_q b.
Proof.
  destruct a as [m1 e1], b as [m2 e2]. unfold align, pow10. intros H.
  injection H as <- <- <-. split.
  - rewrite to_q_shift by lia. replace (Z.min e1 e2 + (e1 - Z.min e1 e2))%Z with e1 by lia. reflexivity.
  - rewrite to_q_shift by lia. replace (Z.min e1 e2 + (e2 - Z.min e1 e2))%Z with e2 by lia. reflexivity.
Qed.

Lemma dadd_value : forall a b, exists x, to_q x == to_q a + to_q b /\ dadd a b = rnd x.
Proof.
  intros a b. unfold dadd. destruct (align a b) as [[x y] e] eqn:E.
  destruct (align_value a b x y e E) as (Hx & Hy).
  exists ((x + y)%Z, e). split; [|reflexivity].
  rewrite to_q_plus, Hx, Hy. reflexivity.
Qed.

Lemma dsub_value : forall a b, exists x, to_q x == to_q a - to_q b /\ dsub a b = rnd x.
Proof.
  intros a b. unfold dsub. destruct (align a b) as [[x y] e] eqn:E.
  destruct (align_value a b x y e E) as (Hx & Hy).
  exists ((x - y)%Z, e). split; [|reflexivity].
  rewrite to_q_minus, Hx, Hy. reflexivity.
Qed.

Lemma dmul_value : forall a b, exists x, to_q x == to_q a * to_q b /\ dmul a b = rnd x.
Proof.
  intros a b. exists ((fst a * fst b)%Z, (snd a + snd b)%Z). split; [|reflexivity].
  apply to_q_mult.
Qed.

Lemma rnd_error_of x v : to_q x == v -> Qabs (to_q (rnd x) - v) <= EPS * Qabs v.
Proof. intros <-. apply rnd_error. Qed.

Lemma dadd_error : forall a b,
  Qabs (to_q (dadd a b) - (to_q a + to_q b)) <= EPS * Qabs (to_q a + to_q b).
Proof. intros a b. destruct (dadd_value a b) as (x & Hx & ->). apply rnd_error_of, Hx. Qed.

Lemma dsub_error : forall a b,
  Qabs (to_q (dsub a b) - (to_q a - to_q b)) <= EPS * Qabs (to_q a - to_q b).
Proof. intros a b. destruct (dsub_value a b) as (x & Hx & ->). apply rnd_error_of, Hx. Qed.

Lemma dmul_error : forall a b,
  Qabs (to_q (dmul a b) - to_q a * to_q b) <= EPS * Qabs (to_q a * to_q b).
Proof. intros a b. destruct (dmul_value a b) as (x & Hx & ->). apply rnd_error_of, Hx. Qed.

(** ** exactness when the exact result fits in 31 digits *)

Lemma dadd_exact : forall a b,
  (let '(x, y, _) := align a b in ndigits (x + y) <= PREC)%Z -> to_q (dadd a b) == to_q a + to_q b.
Proof.
  intros a b. unfold dadd. destruct (align a b) as [[x y] e] eqn:E. intros H.
  destruct (align_value a b x y e E) as (Hx & Hy).
  rewrite rnd_exact_q by exact H. rewrite to_q_plus, Hx, Hy. reflexivity.
Qed.

Lemma dsub_exact : forall a b,
  (let '(x, y, _) := align a b in ndigits (x - y) <= PREC)%Z -> to_q (dsub a b) == to_q a - to_q b.
Proof.
  intros a b. unfold dsub. destruct (align a b) as [[x y] e] eqn:E. intros H.
  destruct (align_value a b x y e E) as (Hx & Hy).
  rewrite rnd_exact_q by exact H. rewrite to_q_minus, Hx, Hy. reflexivity.
Qed.

Lemma dmul_exact : forall a b,
  (ndigits (fst a * fst b) <= PREC)%Z -> to_q (dmul a b) == to_q a * to_q b.
Proof.
  intros a b H. unfold dmul. rewrite rnd_exact_q by exact H. apply to_q_mult.
Qed.

(* ------------------------------------------------------------------ *)
(** * The 1e-11 grid *)

Local Open Scope Z_scope.

Definition on_grid_small (u : Z) : Prop := Z.abs u < 10 ^ 29.

Lemma p31_29 : 10 ^ 31 = 100 * 10 ^ 29.
Proof. reflexivity. Qed.

Lemma align_grid u v : align (of_grid u) (of_grid v) = (u, v, -11).
Proof.
  unfold align, of_grid, pow10. change (Z.min (-11) (-11)) with (-11).
  change (-11 - -11) with 0. rewrite Z.pow_0_r, !Z.mul_1_r. reflexivity.
Qed.

(** general forms: only the result has to fit *)
Lemma grid_add_gen u v : Z.abs (u + v) < 10 ^ 31 -> dadd (of_grid u) (of_grid v) = of_grid (u + v).
Proof.
  intros H. unfold dadd. rewrite align_grid. apply rnd_exact.
  apply ndigits_le_iff; unfold PREC; lia.
Qed.

Lemma grid_sub_gen u v : Z.abs (u - v) < 10 ^ 31 -> dsub (of_grid u) (of_grid v) = of_grid (u - v).
Proof.
  intros H. unfold dsub. rewrite align_grid. apply rnd_exact.
  apply ndigits_le_iff; unfold PREC; lia.
Qed.

Lemma grid_add : forall u v, on_grid_small u -> on_grid_small v ->
  dadd (of_grid u) (of_grid v) = of_grid (u + v).
Proof.
  unfold on_grid_small. intros u v Hu Hv. apply grid_add_gen. rewrite p31_29.
  pose proof (p10_gt0 29 ltac:(lia)). lia.
Qed.

Lemma grid_sub : forall u v, on_grid_small u -> on_grid_small v ->
  dsub (of_grid u) (of_grid v) = of_grid (u - v).
Proof.
  unfold on_grid_small. intros u v Hu Hv. apply grid_sub_gen. rewrite p31_29.
  pose proof (p10_gt0 29 ltac:(lia)). lia.
Qed.

(** the 13-decimal quantisation of a grid difference is the difference times 100;
    it overflows the 31-digit coefficient (Python: InvalidOperation) iff |u - v| >= 10^29 *)
Lemma cmp13_grid_gen u v : Z.abs (u - v) < 10 ^ 31 ->
  cmp13 (of_grid u) (of_grid v) = if 10 ^ 29 <=? Z.abs (u - v) then None else Some ((u - v) * 100).
Proof.
  intros H. unfold cmp13. rewrite grid_sub_gen by exact H.
  unfold quant, of_grid, CRYPTO_DECIMALS, pow10.
  change (- (13) <=? -11) with true. cbv iota. change (-11 + 13) with 2. change (10 ^ 2) with 100.
  destruct (Z.gtb_spec (ndigits ((u - v) * 100)) PREC) as [Hg|Hg];
    destruct (Z.leb_spec (10 ^ 29) (Z.abs (u - v))) as [Hl|Hl]; try reflexivity; exfalso.
  - apply ndigits_gt_iff in Hg; [|unfold PREC; lia]. unfold PREC in Hg. rewrite p31_29 in Hg. lia.
  - apply ndigits_le_iff in Hg; [|unfold PREC; lia]. unfold PREC in Hg. rewrite p31_29 in Hg. lia.
Qed.

Lemma cmp13_grid u v : Z.abs (u - v) < 10 ^ 29 ->
  cmp13 (of_grid u) (of_grid v) = Some ((u - v) * 100).
Proof.
  intros H. rewrite cmp13_grid_gen by (rewrite p31_29; lia).
  destruct (Z.leb_spec (10 ^ 29) (Z.abs (u - v))); [lia|reflexivity].
Qed.

(** The comparison lemmas as literally requested (only [on_grid_small u], [on_grid_small v])
    are false: the difference of two amounts just below 1e18 needs 32 digits at 13 decimals. *)
Example grid_cmp_counterexample :
  let u := 10 ^ 29 - 1 in let v := - (10 ^ 29 - 1) in
  Z.abs u <? 10 ^ 29 = true /\ Z.abs v <? 10 ^ 29 = true /\
  dgt (of_grid u) (of_grid v) = None /\ dge (of_grid u) (of_grid v) = None /\
  deq (of_grid u) (of_grid v) = None.
Proof. vm_compute. repeat split; reflexivity. Qed.

(** corrected: the *difference* must be below 1e18 ... *)
Lemma grid_gt_diff : forall u v, Z.abs (u - v) < 10 ^ 29 ->
  dgt (of_grid u) (of_grid v) = Some (u >? v).
Proof.
  intros u v H. unfold dgt. rewrite cmp13_grid by exact H. cbn [option_map]. f_equal.
  destruct (Z.gtb_spec ((u - v) * 100) 0), (Z.gtb_spec u v); lia.
Qed.

Lemma grid_ge_diff : forall u v, Z.abs (u - v) < 10 ^ 29 ->
  dge (of_grid u) (of_grid v) = Some (u >=? v).
Proof.
  intros u v H. unfold dge. rewrite cmp13_grid by exact H. cbn [option_map]. f_equal.
  destruct (Z.geb_spec ((u - v) * 100) 0), (Z.geb_spec u v); lia.
Qed.

Lemma grid_eq_diff : forall u v, Z.abs (u - v) < 10 ^ 29 ->
  deq (of_grid u) (of_grid v) = Some (u =? v).
Proof.
  intros u v H. unfold deq. rewrite cmp13_grid by exact H. cbn [option_map]. f_equal.
  destruct (Z.eqb_spec ((u - v) * 100) 0), (Z.eqb_spec u v); lia.
Qed.

(** ... which holds e.g. for same-sign amounts (balances, lot amounts are >= 0) ... *)
Lemma grid_gt_nonneg : forall u v, 0 <= u -> 0 <= v -> on_grid_small u -> on_grid_small v ->
  dgt (of_grid u) (of_grid v) = Some (u >? v).
Proof. unfold on_grid_small; intros; apply grid_gt_diff; lia. Qed.

Lemma grid_ge_nonneg : forall u v, 0 <= u -> 0 <= v -> on_grid_small u -> on_grid_small v ->
  dge (of_grid u) (of_grid v) = Some (u >=? v).
Proof. unfold on_grid_small; intros; apply grid_ge_diff; lia. Qed.

Lemma grid_eq_nonneg : forall u v, 0 <= u -> 0 <= v -> on_grid_small u -> on_grid_small v ->
  deq (of_grid u) (of_grid v) = Some (u =? v).
Proof. unfold on_grid_small; intros; apply grid_eq_diff; lia. Qed.

(** ... or for amounts below 5e17 of either sign *)
Definition on_grid_half (u : Z) : Prop := 2 * Z.abs u < 10 ^ 29.

Lemma grid_gt : forall u v, on_grid_half u -> on_grid_half v ->
  dgt (of_grid u) (of_grid v) = Some (u >? v).
Proof. unfold on_grid_half; intros; apply grid_gt_diff; lia. Qed.

Lemma grid_ge : forall u v, on_grid_half u -> on_grid_half v ->
  dge (of_grid u) (of_grid v) = Some (u >=? v).
Proof. unfold on_grid_half; intros; apply grid_ge_diff; lia. Qed.

Lemma grid_eq : forall u v, on_grid_half u -> on_grid_half v ->
  deq (of_grid u) (of_grid v) = Some (u =? v).
Proof. unfold on_grid_half; intros; apply grid_eq_diff; lia. Qed.

(* ------------------------------------------------------------------ *)
(** * Division *)

Lemma ddiv_none : forall a b, ddiv a b = None <-> fst b = 0.
Proof.
  intros [m1 e1] [m2 e2]. unfold ddiv. cbn [fst].
  destruct (Z.eqb_spec m2 0) as [E|NE].
  - split; auto.
  - destruct (m1 =? 0); split; intros H; try discriminate H; contradiction.
Qed.

(** rounding a non-negative quotient with a sticky remainder:
    [q * d + r] (0 <= r < d) is the exact numerator over [d]; [P] is an even unit *)
Lemma rhe_sticky_half q d r P h : 0 <= q -> 0 < d -> 0 <= r < d -> P = 2 * h -> 0 < h ->
  let qq := rhe_div q P (negb (r =? 0)) in
  0 <= qq /\ 2 * Z.abs (qq * P * d - (q * d + r)) <= P * d.
Proof.
  intros Hq Hd Hr HP Hh qq.
  assert (HPpos : 0 < P) by lia.
  pose proof (Z.div_mod q P ltac:(lia)) as Hqeq.
  pose proof (Z.mod_pos_bound q P HPpos) as Hr0.
  pose proof (Z.div_pos q P Hq HPpos) as Hq0.
  split; [apply rhe_div_nonneg; assumption|].
  destruct (rhe_div_nonneg_cases q P (negb (r =? 0)) Hq HPpos) as [(E & H1 & H2)|(E & H1 & _)];
    unfold qq; rewrite E; clear E qq;
    set (q0 := q / P) in *; set (r0 := q mod P) in *; clearbody q0 r0; subst q.
  - replace (q0 * P * d - ((P * q0 + r0) * d + r)) with (- (r0 * d + r)) by ring.
    assert (0 <= r0 * d) by (apply Z.mul_nonneg_nonneg; lia).
    rewrite Z.abs_opp, Z.abs_eq by lia.
    destruct (Z.eq_dec (2 * r0) P) as [Eq|Ne].
    + destruct (H2 Eq) as (Hs & _).
      destruct (Z.eqb_spec r 0) as [->|?]; [|discriminate Hs].
      rewrite <- Eq. lia.
    + assert (r0 <= h - 1) by lia.
      assert (r0 * d <= (h - 1) * d) by (apply Z.mul_le_mono_nonneg_r; lia).
      subst P. lia.
  - replace ((q0 + 1) * P * d - ((P * q0 + r0) * d + r)) with ((P - r0) * d - r) by ring.
    assert (1 * d <= (P - r0) * d) by (apply Z.mul_le_mono_nonneg_r; lia).
    assert ((2 * (P - r0)) * d <= P * d) by (apply Z.mul_le_mono_nonneg_r; lia).
    rewrite Z.abs_eq by lia. lia.
Qed.

(** the integer core of [ddiv]: the comment "k >= 1 by choice of sh" is true (even k >= 2) *)
Lemma ddiv_core n d : 0 < n -> 0 < d ->
  let sh := Z.max 0 (PREC + 2 - (ndigits n - ndigits d)) in
  let num := n * 10 ^ sh in
  let q := num / d in let r := num mod d in
  let k := ndigits q - PREC in
  let qq := rhe_div q (10 ^ k) (negb (r =? 0)) in
  0 <= sh /\ 2 <= k /\ 0 <= qq /\ 0 < num /\
  2 * Z.abs (qq * 10 ^ k * d - num) <= 10 ^ k * d /\ 10 ^ 30 * (10 ^ k * d) <= num.
Proof.
  intros Hn Hd sh num q r k qq.
  destruct (ndigits_spec1 n ltac:(lia)) as (Hn1 & Hnlo & _).
  destruct (ndigits_spec1 d ltac:(lia)) as (Hd1 & _ & Hdhi).
  rewrite Z.abs_eq in Hnlo, Hdhi by lia.
  assert (Hsh0 : 0 <= sh) by apply Z.le_max_l.
  assert (Hsh1 : PREC + 2 - (ndigits n - ndigits d) <= sh) by apply Z.le_max_r.
  assert (Hnum : d * 10 ^ 32 <= num).
  { assert (10 ^ (ndigits d + 32) <= 10 ^ (ndigits n - 1 + sh)) by (apply p10_le; unfold PREC in *; lia).
    rewrite !p10_add in H by lia.
    assert (10 ^ (ndigits n - 1) * 10 ^ sh <= n * 10 ^ sh)
      by (apply Z.mul_le_mono_nonneg_r; [apply Z.lt_le_incl, p10_gt0|]; lia).
    assert (d * 10 ^ 32 <= 10 ^ ndigits d * 10 ^ 32)
      by (apply Z.mul_le_mono_nonneg_r; [apply Z.lt_le_incl, p10_gt0|]; lia).
    unfold num. lia. }
  assert (H32 : 0 < 10 ^ 32) by (apply p10_gt0; lia).
  assert (Hnumpos : 0 < num) by nia.
  assert (Hq : 10 ^ 32 <= q) by (apply Z.div_le_lower_bound; lia).
  assert (Hk : 2 <= k).
  { assert (32 < ndigits q) by (apply ndigits_gt_iff; lia). unfold k, PREC. lia. }
  pose proof (Z.div_mod num d ltac:(lia)) as Hnumeq.
  pose proof (Z.mod_pos_bound num d Hd) as Hr.
  fold q r in Hnumeq, Hr.
  assert (HP : 10 ^ k = 2 * (5 * 10 ^ (k - 1))).
  { replace k with (k - 1 + 1) at 1 by lia. rewrite p10_succ by lia. ring. }
  assert (Hh : 0 < 5 * 10 ^ (k - 1)) by (pose proof (p10_gt0 (k - 1) ltac:(lia)); lia).
  destruct (rhe_sticky_half q d r (10 ^ k) _ ltac:(lia) Hd Hr HP Hh) as (Hqq & Herr).
  fold qq in Hqq, Herr.
  replace (q * d + r) with num in Herr by lia.
  repeat split; try assumption; try lia.
  destruct (ndigits_spec1 q ltac:(lia)) as (_ & Hqlo & _).
  rewrite Z.abs_eq in Hqlo by lia.
  replace (ndigits q - 1) with (30 + k) in Hqlo by (unfold k, PREC; lia).
  rewrite p10_add in Hqlo by lia.
  assert (10 ^ 30 * 10 ^ k * d <= q * d) by (apply Z.mul_le_mono_nonneg_r; lia).
  lia.
Qed.

Local Open Scope Q_scope.

Lemma div_lift (sg qq k d num : Z) (s : Q) : (0 < d)%Z -> (0 <= k)%Z ->
  (Z.abs (qq * 10 ^ k * d - num) * 10 ^ 31 <= 5 * Z.abs num)%Z ->
  Qabs (inject_Z (sg * qq) * ten ^ k * s - inject_Z sg * (inject_Z num / inject_Z d) * s)
  <= EPS * Qabs (inject_Z sg * (inject_Z num / inject_Z d) * s).
Proof.
  intros Hd Hk H. apply (rel_frac _ _ _ Hd) in H.
  apply (rel_scale EPS _ _ (inject_Z sg * s)) in H.
  assert (E1 : inject_Z (qq * 10 ^ k) * (inject_Z sg * s) == inject_Z (sg * qq) * ten ^ k * s)
    by (rewrite !inject_Z_mult, (tenp_inj k Hk); ring).
  assert (E2 : inject_Z num / inject_Z d * (inject_Z sg * s)
               == inject_Z sg * (inject_Z num / inject_Z d) * s) by ring.
  rewrite E1, E2 in H. exact H.
Qed.

Lemma sign_quot m1 m2 : m1 <> 0%Z -> m2 <> 0%Z ->
  inject_Z m1 / inject_Z m2 ==
  inject_Z (if negb (Bool.eqb (m1 <? 0)%Z (m2 <? 0)%Z) then -1 else 1)
  * (inject_Z (Z.abs m1) / inject_Z (Z.abs m2)).
Proof.
  intros H1 H2. pose proof (inject_Z_nz m2 H2) as N2.
  destruct (Z.ltb_spec m1 0), (Z.ltb_spec m2 0); cbn [Bool.eqb negb];
    rewrite ?(Z.abs_eq m1), ?(Z.abs_eq m2), ?(Z.abs_neq m1), ?(Z.abs_neq m2) by lia;
    rewrite ?inject_Z_opp; change (inject_Z (-1)) with (-(1)); change (inject_Z 1) with 1;
    field; try exact N2.
Qed.

Lemma ddiv_error : forall a b r, ddiv a b = Some r ->
  Qabs (to_q r - to_q a / to_q b) <= EPS * Qabs (to_q a / to_q b).
Proof.
  intros [m1 e1] [m2 e2] r. unfold ddiv, pow10.
  destruct (Z.eqb_spec m2 0) as [|Hm2]; [discriminate|].
  pose proof (inject_Z_nz m2 Hm2) as N2.
  destruct (Z.eqb_spec m1 0) as [->|Hm1].
  - intros H; injection H as <-. apply rel_zero. rewrite !to_q_mk.
    change (inject_Z 0) with 0. field. split; [apply tenp_nz|exact N2].
  - pose proof (ddiv_core (Z.abs m1) (Z.abs m2) ltac:(lia) ltac:(lia)) as C.
    cbv zeta in C |- *.
    pose proof (sign_quot m1 m2 Hm1 Hm2) as SQ.
    set (neg := negb (Bool.eqb (m1 <? 0)%Z (m2 <? 0)%Z)) in *.
    set (n := Z.abs m1) in *. set (d := Z.abs m2) in *.
    set (sh := Z.max 0 (PREC + 2 - (ndigits n - ndigits d))) in *.
    set (num := (n * 10 ^ sh)%Z) in *.
    set (q := (num / d)%Z) in *. set (r0 := (num mod d)%Z) in *.
    set (k := (ndigits q - PREC)%Z) in *.
    set (qq := rhe_div q (10 ^ k) (negb (r0 =? 0)%Z)) in *.
    destruct C as (Hsh & Hk & Hqq & Hnum & Herr & Hlo).
    intros H; injection H as <-.
    set (sg := (if neg then -1 else 1)%Z) in *.
    assert (Esg : (if neg then (- qq)%Z else qq) = (sg * qq)%Z) by (unfold sg; destruct neg; lia).
    rewrite Esg.
    set (s := ten ^ (e1 - e2 - sh)).
    assert (E1 : to_q ((sg * qq)%Z, (e1 - e2 - sh + k)%Z) == inject_Z (sg * qq) * ten ^ k * s).
    { rewrite to_q_mk. unfold s. rewrite Qpower_plus by apply ten_nz. ring. }
    assert (E2 : to_q (m1, e1) / to_q (m2, e2) == inject_Z sg * (inject_Z num / inject_Z d) * s).
    { rewrite !to_q_mk. unfold s, num. rewrite !Qpower_minus by apply ten_nz.
      rewrite inject_Z_mult, (tenp_inj sh Hsh).
      assert (Dnz : ~ inject_Z d == 0) by (apply inject_Z_nz; unfold d; lia).
      assert (E : inject_Z m1 * ten ^ e1 / (inject_Z m2 * ten ^ e2)
                  == inject_Z m1 / inject_Z m2 * (ten ^ e1 / ten ^ e2))
        by (field; split; [apply tenp_nz|exact N2]).
      rewrite E, SQ. field. repeat split; try apply tenp_nz; exact Dnz. }
    rewrite E1, E2. apply div_lift; [unfold d; lia|lia|].
    apply (half_ulp_rel _ (10 ^ k * d)%Z); [exact Herr|].
    rewrite (Z.abs_eq num) by lia. exact Hlo.
Qed.

(* ------------------------------------------------------------------ *)
(** * The composite (F * x) / A *)

Lemma compose_err e1 e2 p P r i : 0 <= e1 -> 0 <= e2 ->
  Qabs (p - P) <= e1 * Qabs P -> Qabs (r - p * i) <= e2 * Qabs (p * i) ->
  Qabs (r - P * i) <= (e1 + e2 + e1 * e2) * Qabs (P * i).
Proof.
  intros He1 He2 H1 H2.
  assert (E : r - P * i == (r - p * i) + (p - P) * i) by ring.
  rewrite E. eapply Qle_trans; [apply Qabs_triangle|].
  rewrite !Qabs_Qmult in *.
  assert (Hp : Qabs p <= Qabs P + Qabs (p - P)).
  { assert (E' : p == P + (p - P)) by ring. rewrite E' at 1. apply Qabs_triangle. }
  pose proof (Qabs_nonneg i) as Hi. pose proof (Qabs_nonneg P) as HP.
  pose proof (Qabs_nonneg p) as Hpp.
  set (u := Qabs P) in *. set (v := Qabs i) in *. set (w := Qabs p) in *.
  set (d1 := Qabs (p - P)) in *. set (d2 := Qabs (r - p * i)) in *.
  clearbody u v w d1 d2.
  assert (A1 : d1 * v <= e1 * u * v) by (apply Qmult_le_compat_r; assumption).
  assert (A2 : w <= (1 + e1) * u) by lra.
  assert (A3 : w * v <= (1 + e1) * u * v) by (apply Qmult_le_compat_r; assumption).
  assert (A4 : e2 * (w * v) <= e2 * ((1 + e1) * u * v)).
  { rewrite !(Qmult_comm e2). apply Qmult_le_compat_r; assumption. }
  set (uv := u * v) in *.
  assert (Euv : (e1 + e2 + e1 * e2) * uv == e1 * uv + e2 * ((1 + e1) * uv)) by ring.
  rewrite Euv.
  assert (E3 : (1 + e1) * u * v == (1 + e1) * uv) by (unfold uv; ring).
  assert (E4 : e1 * u * v == e1 * uv) by (unfold uv; ring).
  rewrite E3 in A4. rewrite E4 in A1. lra.
Qed.

Lemma EPS2 : EPS + EPS + EPS * EPS <= 11 # (10 ^ 31).
Proof. vm_compute. discriminate. Qed.

Lemma muldiv_error : forall F x A r, ddiv (dmul F x) A = Some r ->
  Qabs (to_q r - to_q F * to_q x / to_q A) <= (11 # (10 ^ 31)) * Qabs (to_q F * to_q x / to_q A).
Proof.
  intros F x A r H.
  pose proof (ddiv_error _ _ _ H) as H2. pose proof (dmul_error F x) as H1.
  unfold Qdiv in *.
  pose proof (compose_err EPS EPS _ _ _ _ EPS_nonneg EPS_nonneg H1 H2) as H3.
  eapply Qle_trans; [exact H3|].
  apply Qmult_le_compat_r; [apply EPS2|apply Qabs_nonneg].
Qed.

(* ------------------------------------------------------------------ *)
(** * Audit *)
