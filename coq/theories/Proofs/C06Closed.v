(** C06, fiat figures in closed form: every yearly line is within n * 1e-30 * (sum of the magnitudes of its n fractions'
    figures) of the exact rational sum, and the grand totals within N * 1e-30 * (sum of the magnitudes of all N counted
    fractions' figures) -- a-priori bounds, instead of the a-posteriori partial-sum form of FiatSumProofs.v. *)
From Coq Require Import List ZArith Bool Lia QArith Qabs Lqa.
From RP2V Require Import Base.Prelude Base.Dec Base.Assoc Base.Sorting Base.Time Model.Types Model.Generated Model.Computed Model.ComputedSpec
  Proofs.DecProofs Proofs.FilterProofs Proofs.YearlyProofs Proofs.C06Proofs Proofs.FiatSumProofs Proofs.C04Reassembly Proofs.L4Examples.
Import ListNotations.
Local Open Scope Q_scope.

Lemma qabs_sum_map {A} (f : A -> dec) l : qabs_sum (map f l) == qsumf (fun x => Qabs (to_q (f x))) l.
Proof. induction l as [|x l IH]; cbn [map qabs_sum qsumf]; [reflexivity|]. rewrite IH. reflexivity. Qed.

(** all magnitudes at most B: the sum of magnitudes is at most n * B *)
Lemma qabs_sum_le_max l B : (forall x, In x l -> Qabs (to_q x) <= B) -> qabs_sum l <= nq (length l) * B.
Proof.
  induction l as [|x l IH]; intros H; cbn [qabs_sum length].
  - change (nq 0) with 0. lra.
  - rewrite nq_S. pose proof (H x (or_introl eq_refl)). specialize (IH (fun y Hy => H y (or_intror Hy))).
    assert (E : (nq (length l) + 1) * B == nq (length l) * B + B) by ring. rewrite E. lra.
Qed.

Lemma nq_le a b : (a <= b)%nat -> nq a <= nq b.
Proof. intros H. unfold nq. rewrite <- Zle_Qle. lia. Qed.

Lemma qsumf_le {B} (f g : B -> Q) Ls : (forall L, In L Ls -> f L <= g L) -> qsumf f Ls <= qsumf g Ls.
Proof.
  induction Ls as [|a Ls IH]; intros H; cbn [qsumf]; [lra|].
  pose proof (H a (or_introl eq_refl)). specialize (IH (fun L HL => H L (or_intror HL))). lra.
Qed.

Section Yearly.
Variables (period to_day from_year : Z) (gls : list gl) (yl : list yline).
Hypothesis H : yearly_list period to_day from_year gls = Ok yl.
Local Notation shown := (take_until g_day to_day gls).
Local Notation counted := (filter (fun g => (from_year <=? g_year g)%Z) (take_until g_day to_day gls)).

(** per line *)
Theorem c06_line_fiat_closed : forall L, In L yl ->
  let mine := filter (line_has_key period L) shown in
  let n := nq (length mine) in
  2 * n * EPS <= 1 ->
  Qabs (to_q (y_fiat L) - qsum (map (fun g => odflt (g_proceeds g)) mine)) <= n * (2 * EPS) * qabs_sum (map (fun g => odflt (g_proceeds g)) mine) /\
  Qabs (to_q (y_cost L) - qsum (map (fun g => odflt (g_cost g)) mine)) <= n * (2 * EPS) * qabs_sum (map (fun g => odflt (g_cost g)) mine) /\
  Qabs (to_q (y_gain L) - qsum (map (fun g => odflt (g_gain g)) mine)) <= n * (2 * EPS) * qabs_sum (map (fun g => odflt (g_gain g)) mine).
Proof.
  intros L HL mine n Hn. destruct (c06_line_is_sum _ _ _ _ _ H L HL) as (_ & _ & -> & -> & ->). fold mine.
  assert (Hl : forall fig : gl -> dec, nq (length (map fig mine)) = n) by (intros fig; unfold n; rewrite map_length; reflexivity).
  repeat split.
  - pose proof (dsum_error_closed (map (fun g => odflt (g_proceeds g)) mine)) as D. rewrite Hl in D. exact (D Hn).
  - pose proof (dsum_error_closed (map (fun g => odflt (g_cost g)) mine)) as D. rewrite Hl in D. exact (D Hn).
  - pose proof (dsum_error_closed (map (fun g => odflt (g_gain g)) mine)) as D. rewrite Hl in D. exact (D Hn).
Qed.

(** the fractions of a line are counted fractions *)
Lemma mine_counted L : In L yl -> filter (line_has_key period L) shown = filter (line_has_key period L) counted.
Proof.
  intros HL. destruct (c06_no_empty_line _ _ _ _ _ H L HL) as [Hy _].
  symmetry. apply filter_filter_implies.
  intros g K. apply line_has_key_iff in K. destruct K as (K & _). apply Z.leb_le. rewrite K. exact Hy.
Qed.

Lemma filter_length_le {A} (p : A -> bool) l : (length (filter p l) <= length l)%nat.
Proof. induction l as [|x l IH]; cbn [filter length]; [lia|]. destruct (p x); cbn [length]; lia. Qed.

(** the lines partition the counted fractions: any weight summed per line adds up to the weight of the whole *)
Lemma lines_partition_w (w : gl -> Q) :
  qsumf (fun L => qsumf w (filter (line_has_key period L) shown)) yl == qsumf w counted.
Proof.
  rewrite (qsumf_ext _ (fun L => qsumf w (filter (line_has_key period L) counted)) yl).
  - apply qsumf_group.
    + apply (c06_keys_distinct _ _ _ _ _ H).
    + intros g Hg. apply filter_In in Hg. destruct Hg as [Hg Hy].
      apply (c06_fraction_one_line _ _ _ _ _ H g Hg). apply Z.leb_le. exact Hy.
  - intros L HL. rewrite (mine_counted L HL). reflexivity.
Qed.

(** grand totals *)
Theorem c06_fiat_totals_closed :
  let N := nq (length counted) in
  2 * N * EPS <= 1 ->
  forall fig : gl -> dec,
    (forall L, In L yl -> Qabs (to_q (dsum (map fig (filter (line_has_key period L) shown))) - qsum (map fig (filter (line_has_key period L) shown)))
                          <= nq (length (filter (line_has_key period L) shown)) * (2 * EPS) * qabs_sum (map fig (filter (line_has_key period L) shown))) ->
    Qabs (qsumf (fun L => to_q (dsum (map fig (filter (line_has_key period L) shown)))) yl - qsum (map fig counted))
      <= N * (2 * EPS) * qabs_sum (map fig counted).
Proof.
  intros N HN fig Hline.
  rewrite <- (lines_partition period to_day from_year gls yl H fig).
  eapply Qle_trans; [apply (qsumf_abs_le _ _ (fun L => N * (2 * EPS) * qabs_sum (map fig (filter (line_has_key period L) shown))))|].
  - intros L HL. eapply Qle_trans; [apply (Hline L HL)|].
    apply Qmult_le_compat_r; [|apply qabs_sum_nonneg]. apply Qmult_le_compat_r; [|pose proof EPS_nonneg; lra].
    apply nq_le. rewrite (mine_counted L HL). apply filter_length_le.
  - rewrite qsumf_scale.
    rewrite (qsumf_ext _ (fun L => qsumf (fun g => Qabs (to_q (fig g))) (filter (line_has_key period L) shown)) yl)
      by (intros L _; apply qabs_sum_map).
    rewrite lines_partition_w, <- qabs_sum_map. apply Qle_refl.
Qed.

Theorem c06_fiat_totals_closed_all :
  let N := nq (length counted) in
  2 * N * EPS <= 1 ->
  Qabs (qsumf (fun L => to_q (y_fiat L)) yl - qsum (map (fun g => odflt (g_proceeds g)) counted)) <= N * (2 * EPS) * qabs_sum (map (fun g => odflt (g_proceeds g)) counted) /\
  Qabs (qsumf (fun L => to_q (y_cost L)) yl - qsum (map (fun g => odflt (g_cost g)) counted)) <= N * (2 * EPS) * qabs_sum (map (fun g => odflt (g_cost g)) counted) /\
  Qabs (qsumf (fun L => to_q (y_gain L)) yl - qsum (map (fun g => odflt (g_gain g)) counted)) <= N * (2 * EPS) * qabs_sum (map (fun g => odflt (g_gain g)) counted).
Proof.
  intros N HN.
  assert (Hbud : forall L, In L yl -> 2 * nq (length (filter (line_has_key period L) shown)) * EPS <= 1).
  { intros L HL. assert (Hle : nq (length (filter (line_has_key period L) shown)) <= N) by (apply nq_le; rewrite (mine_counted L HL); apply filter_length_le).
    pose proof EPS_nonneg. pose proof (nq_nonneg (length (filter (line_has_key period L) shown))).
    set (n := nq (length (filter (line_has_key period L) shown))) in *. nra. }
  assert (Hline : forall fig : gl -> dec, forall L, In L yl ->
            Qabs (to_q (dsum (map fig (filter (line_has_key period L) shown))) - qsum (map fig (filter (line_has_key period L) shown)))
            <= nq (length (filter (line_has_key period L) shown)) * (2 * EPS) * qabs_sum (map fig (filter (line_has_key period L) shown))).
  { intros fig L HL. pose proof (dsum_error_closed (map fig (filter (line_has_key period L) shown))) as D. rewrite map_length in D. apply D. apply Hbud. exact HL. }
  assert (Hfig : forall (fig : gl -> dec) (col : yline -> dec),
            (forall L, In L yl -> col L = dsum (map fig (filter (line_has_key period L) shown))) ->
            Qabs (qsumf (fun L => to_q (col L)) yl - qsum (map fig counted)) <= N * (2 * EPS) * qabs_sum (map fig counted)).
  { intros fig col Hcol.
    rewrite (qsumf_ext (fun L => to_q (col L)) (fun L => to_q (dsum (map fig (filter (line_has_key period L) shown)))) yl)
      by (intros L HL; rewrite (Hcol L HL); reflexivity).
    apply (c06_fiat_totals_closed HN fig (Hline fig)). }
  repeat split; apply Hfig; intros L HL; destruct (c06_line_is_sum _ _ _ _ _ H L HL) as (_ & _ & E1 & E2 & E3); assumption.
Qed.
End Yearly.

(** non-vacuity: history A, whole history *)
Example c06_closed_instance := c06_fiat_totals_closed_all 365 100000 1970 glsA ylA ylA_ok ltac:(vm_compute; discriminate).
Example c06_closed_bound_small :
  Qle_bool (nq 7 * (2 * EPS) * qabs_sum (map (fun g => odflt (g_proceeds g)) glsA)) (1 # 10 ^ 25) = true.
Proof. vm_compute. reflexivity. Qed.
