(** C09 on the aggregation layer.
    A. [to_date_equiv]: a run limited by a to-date equals the run on the history truncated at that date
       (time-sorted lists, local dates monotone in time).
    B. closed years: the yearly lines of years <= Y do not change when fractions of later years are appended;
       a history extended after an instant T keeps its detail table as a prefix (with the matcher's prefix
       stability: pairing, amounts and every per-fraction figure of the earlier events are unchanged). *)
From Coq Require Import List ZArith Bool Lia Permutation Sorted ZifyBool.
From RP2V Require Import Base.Prelude Base.Assoc Base.Sorting Base.Dec Base.Time Model.Types Model.Generated Model.Txn
  Model.Matcher Model.MatchSpec Model.MatchWf Model.FracSpec Model.Pipeline Model.Computed Model.ComputedSpec Model.StabilitySpec
  Proofs.AssocProofs Proofs.SortingProofs Proofs.FilterProofs Proofs.PipelineWf Proofs.C03Proofs Proofs.YearlyProofs Proofs.C06Proofs
  Proofs.ComputedProofs Proofs.C10Proofs.
Import ListNotations.
Open Scope Z_scope.

(** * generic list facts *)
Lemma find_filter {A} (p q : A -> bool) l x : find p l = Some x -> q x = true -> find p (filter q l) = Some x.
Proof.
  induction l as [|a l IH]; cbn [find filter]; [discriminate|].
  destruct (p a) eqn:Pa.
  - intros [= ->] Hq. rewrite Hq. cbn [find]. rewrite Pa. reflexivity.
  - intros H Hq. destruct (q a); [cbn [find]; rewrite Pa|]; apply IH; assumption.
Qed.

Lemma NoDup_has_dup l : NoDup l -> has_dup l = false.
Proof.
  induction 1 as [|x l Hni Hnd IH]; cbn [has_dup]; [reflexivity|]. rewrite IH, orb_false_r.
  destruct (existsb (Z.eqb x) l) eqn:E; [|reflexivity].
  apply existsb_exists in E. destruct E as (y & Hy & Heq). exfalso. apply Hni. assert (x = y) by lia. subst. exact Hy.
Qed.

Lemma NoDup_map_filter {A} (f : A -> Z) (q : A -> bool) l : NoDup (map f l) -> NoDup (map f (filter q l)).
Proof.
  induction l as [|x l IH]; cbn [map filter]; intros H; [constructor|].
  inversion H as [|? ? Hni Hnd]; subst. destruct (q x); [|apply IH; exact Hnd].
  cbn [map]. constructor; [|apply IH; exact Hnd].
  intros Hin. apply Hni. apply in_map_iff in Hin. destruct Hin as (y & Hy & Hin). apply filter_In in Hin.
  rewrite <- Hy. apply in_map. apply Hin.
Qed.

Lemma NoDup_map_inj_Z {A} (f : A -> Z) l a b : NoDup (map f l) -> In a l -> In b l -> f a = f b -> a = b.
Proof.
  induction l as [|x l IH]; intros Hnd Ha Hb Heq; [destruct Ha|].
  cbn [map] in Hnd. inversion Hnd as [|? ? Hni Hnd']; subst.
  destruct Ha as [->|Ha], Hb as [->|Hb]; [reflexivity| | |apply IH; assumption].
  - exfalso. apply Hni. rewrite Heq. apply in_map. exact Hb.
  - exfalso. apply Hni. rewrite <- Heq. apply in_map. exact Ha.
Qed.

Lemma filter_map_comm' {A B} (f : A -> B) (p : B -> bool) l : filter p (map f l) = map f (filter (fun x => p (f x)) l).
Proof. induction l as [|x l IH]; cbn [map filter]; [reflexivity|]. destruct (p (f x)); cbn [map]; rewrite IH; reflexivity. Qed.

Lemma fold_left_ext_in {A B} (f g : A -> B -> A) l : (forall x, In x l -> forall a, f a x = g a x) ->
  forall a, fold_left f l a = fold_left g l a.
Proof.
  induction l as [|x l IH]; intros H a; cbn [fold_left]; [reflexivity|].
  rewrite (H x (or_introl eq_refl)). apply IH. intros y Hy. apply H. right. exact Hy.
Qed.

(** on a date-sorted list the to-date cut of the rows dated up to the to-date is the identity *)
Lemma take_until_of_filter {A} (day : A -> Z) D D' l : D <= D' ->
  take_until day D' (filter (fun x => day x <=? D) l) = filter (fun x => day x <=? D) l.
Proof. intros H. apply take_until_all. intros x Hx. apply filter_In in Hx. lia. Qed.

Lemma cut_equiv {A} (day : A -> Z) D D' l : day_sorted day l -> D <= D' ->
  take_until day D' (filter (fun x => day x <=? D) l) = take_until day D l.
Proof. intros Hs H. rewrite take_until_of_filter by exact H. symmetry. apply take_until_filter. exact Hs. Qed.

Lemma window_equiv {A} (day : A -> Z) from_ D D' l : day_sorted day l -> D <= D' ->
  iter_window day from_ D' (filter (fun x => day x <=? D) l) = iter_window day from_ D l.
Proof. intros Hs H. rewrite !iter_window_take_until, cut_equiv by assumption. reflexivity. Qed.

Lemma iter_window_bound {A} (day : A -> Z) from_ D D' l : (forall x, In x l -> day x <= D) -> D <= D' ->
  iter_window day from_ D' l = iter_window day from_ D l.
Proof.
  intros H HD. induction l as [|x l IH]; cbn [iter_window]; [reflexivity|].
  pose proof (H x (or_introl eq_refl)). assert (E1 : (D' <? day x) = false) by lia. assert (E2 : (D <? day x) = false) by lia.
  rewrite E1, E2, IH by (intros y Hy; apply H; right; exact Hy). reflexivity.
Qed.

(** * A. truncating the history at a date *)
Section Trunc.
Variables (D : Z) (t : txs) (evs : list txn).
Hypothesis HE : taxable_events t = Ok evs.
Let t' := trunc_txs D t.

Lemma taxable_unsorted_trunc : taxable_unsorted t' = filter (fun x => txn_day x <=? D) (taxable_unsorted t).
Proof.
  unfold taxable_unsorted, t', trunc_txs. cbn [t_ins t_outs t_intras]. rewrite !filter_app, !filter_map_comm'.
  f_equal; [|f_equal]; f_equal; apply filter_filter_comm.
Qed.

Lemma taxable_events_trunc : taxable_events t' = Ok (filter (fun x => txn_day x <=? D) evs).
Proof.
  unfold taxable_events in *. rewrite taxable_unsorted_trunc.
  destruct (has_dup (map t_row (taxable_unsorted t))) eqn:Hd; [discriminate|]. injection HE as <-.
  rewrite (NoDup_has_dup _ (NoDup_map_filter t_row _ _ (has_dup_false_NoDup _ Hd))).
  rewrite sort_by_filter. reflexivity.
Qed.

Lemma replay_order_trunc : replay_order t' = filter (fun x => txn_day x <=? D) (replay_order t).
Proof.
  unfold replay_order, t', trunc_txs. cbn [t_ins t_outs t_intras]. rewrite sort_by_filter, !filter_app, !filter_map_comm'. reflexivity.
Qed.
End Trunc.

Section Equiv.
Variables (period from_day D D' : Z) (allow : bool) (exs hos : list str) (t : txs) (fs : list fraction) (evs : list txn) (gls : list gl).
Hypothesis Hts : time_sorted t.
Hypothesis Hmono : dates_monotone t.
Hypothesis HE : taxable_events t = Ok evs.
Hypothesis HG : all_fractions t fs = Some gls.
Hypothesis Hlots : lots_precede_events gls.
Hypothesis HD : D <= D'.
Let t' := trunc_txs D t.
Let fs' := trunc_fracs D evs fs.

Lemma resolved_sorted : exists gls0, resolve_all evs (t_ins t) fs = Some gls0 /\ gls = sort_by (fun g => t_us (g_ev g)) gls0.
Proof.
  unfold all_fractions in HG. rewrite HE in HG. destruct (resolve_all evs (t_ins t) fs) as [gls0|]; [|discriminate].
  injection HG as <-. exists gls0. auto.
Qed.

(** a lot used by a fraction is dated no later than the fraction's event *)
Lemma lot_day_le g a : In g gls -> g_lot g = Some a -> In a (t_ins t) -> in_day a <= g_day g.
Proof.
  intros Hg Ha Hin. pose proof (Hlots g a Hg Ha) as Hle.
  destruct (all_fractions_events t fs evs gls HE HG) as [Hev _].
  apply (Hmono (TIn a) (g_ev g)); [apply replay_in; exact Hin|apply (taxable_in_replay t evs _ HE); apply Hev; exact Hg|exact Hle].
Qed.

Lemma resolve_in_lot evs0 lots f g a : resolve evs0 lots f = Some g -> g_lot g = Some a -> In a lots.
Proof.
  unfold resolve. destruct (find_ev evs0 (f_ev f)); [|discriminate]. destruct (f_lot f) as [r|]; [|intros [= <-]; discriminate].
  destruct (find_lot lots r) as [a'|] eqn:F; [|discriminate]. intros [= <-]. cbn [g_lot]. intros [= <-].
  unfold find_lot in F. apply find_some in F. apply F.
Qed.

Lemma resolve_all_in_lot evs0 lots : forall fs0 gls0, resolve_all evs0 lots fs0 = Some gls0 ->
  forall g a, In g gls0 -> g_lot g = Some a -> In a lots.
Proof.
  induction fs0 as [|f fs0 IHf]; intros gls0 R g a Hin Ha; cbn [resolve_all] in R.
  - injection R as <-. destruct Hin.
  - destruct (resolve evs0 lots f) as [g0|] eqn:R0; [|discriminate].
    destruct (resolve_all evs0 lots fs0) as [gs|]; [|discriminate]. injection R as <-.
    destruct Hin as [->|Hin]; [exact (resolve_in_lot _ _ _ _ _ R0 Ha)|exact (IHf gs eq_refl g a Hin Ha)].
Qed.

Lemma resolve_all_trunc : forall fs0 gls0, resolve_all evs (t_ins t) fs0 = Some gls0 ->
  (forall g, In g gls0 -> In g gls) ->
  resolve_all (filter (fun x => txn_day x <=? D) evs) (t_ins t') (trunc_fracs D evs fs0) = Some (filter (fun g => g_day g <=? D) gls0).
Proof.
  induction fs0 as [|f fs0 IH]; intros gls0 H Hincl; cbn [resolve_all] in H.
  - injection H as <-. reflexivity.
  - destruct (resolve evs (t_ins t) f) as [g|] eqn:R; [|discriminate].
    destruct (resolve_all evs (t_ins t) fs0) as [gs|] eqn:RA; [|discriminate]. injection H as <-.
    specialize (IH gs eq_refl (fun x Hx => Hincl x (or_intror Hx))).
    unfold trunc_fracs in *. cbn [filter].
    assert (Hk : frac_kept D evs f = (g_day g <=? D)).
    { unfold frac_kept, resolve in *. destruct (find_ev evs (f_ev f)) as [e|]; [|discriminate].
      destruct (f_lot f) as [r|]; [destruct (find_lot (t_ins t) r); [|discriminate]|]; injection R as <-; reflexivity. }
    rewrite Hk. destruct (g_day g <=? D) eqn:Ed; [|exact IH].
    cbn [resolve_all]. rewrite IH.
    assert (R' : resolve (filter (fun x => txn_day x <=? D) evs) (t_ins t') f = Some g).
    { pose proof (fun a => resolve_in_lot _ _ _ _ a R) as Hlot.
      unfold resolve in *. destruct (find_ev evs (f_ev f)) as [e|] eqn:Fe; [|discriminate].
      assert (He : g_ev g = e) by (destruct (f_lot f) as [r|]; [destruct (find_lot (t_ins t) r); [|discriminate]|]; injection R as <-; reflexivity).
      unfold find_ev in *. rewrite (find_filter _ (fun x => txn_day x <=? D) _ _ Fe) by (rewrite <- He; exact Ed).
      destruct (f_lot f) as [r|]; [|exact R].
      destruct (find_lot (t_ins t) r) as [a|] eqn:Fl; [|discriminate].
      unfold find_lot in *. unfold t', trunc_txs. cbn [t_ins].
      rewrite (find_filter _ (fun a => in_day a <=? D) _ _ Fl); [exact R|].
      injection R as R. assert (Ha : g_lot g = Some a) by (rewrite <- R; reflexivity).
      pose proof (lot_day_le g a (Hincl g (or_introl eq_refl)) Ha (Hlot a Ha)). lia. }
    rewrite R'. reflexivity.
Qed.

Lemma gls_day_sorted : day_sorted g_day gls.
Proof. apply (c10_lists_day_sorted t fs evs gls Hts Hmono HE HG). Qed.

(** the detail table of the truncated history is the detail table cut at the to-date *)
Lemma all_fractions_trunc : all_fractions t' fs' = Some (take_until g_day D gls).
Proof.
  destruct resolved_sorted as (gls0 & R & Hg). unfold all_fractions.
  pose proof (taxable_events_trunc D t evs HE) as HT. fold t' in HT. rewrite HT.
  unfold fs'. rewrite (resolve_all_trunc fs gls0 R).
  - f_equal. rewrite <- sort_by_filter, <- Hg. symmetry. apply take_until_filter. exact gls_day_sorted.
  - intros g Hin. rewrite Hg. apply sort_by_in. exact Hin.
Qed.

Lemma cut_cut : take_until g_day D' (take_until g_day D gls) = take_until g_day D gls.
Proof. apply take_until_all. intros x Hx. apply (take_until_in g_day) in Hx. lia. Qed.

Lemma numbering_trunc : numbering D' (take_until g_day D gls) = numbering D gls.
Proof. unfold numbering. rewrite cut_cut. reflexivity. Qed.
Lemma yearly_trunc fy : yearly_list period D' fy (take_until g_day D gls) = yearly_list period D fy gls.
Proof. unfold yearly_list. rewrite cut_cut. reflexivity. Qed.

Lemma lists_day_sorted : day_sorted in_day (t_ins t) /\ day_sorted out_day (t_outs t) /\ day_sorted intra_day (t_intras t) /\ day_sorted txn_day evs.
Proof. destruct (c10_lists_day_sorted t fs evs gls Hts Hmono HE HG) as (A & B & C & E & _). auto. Qed.

Lemma replay_day_sorted : day_sorted txn_day (replay_order t).
Proof.
  apply (us_sorted_day_sorted t_us txn_day); [apply (sort_by_sorted t_us)|]. intros a b Ha Hb. apply Hmono; assumption.
Qed.

Lemma balances_trunc : balances allow D' exs hos t' = balances allow D exs hos t.
Proof.
  unfold balances. change (sort_by t_us (map TIn (t_ins t') ++ map TIntra (t_intras t') ++ map TOut (t_outs t'))) with (replay_order t').
  change (sort_by t_us (map TIn (t_ins t) ++ map TIntra (t_intras t) ++ map TOut (t_outs t))) with (replay_order t).
  unfold t'. rewrite replay_order_trunc.
  change (fun x : txn => local_day (t_ts x)) with txn_day.
  rewrite (cut_equiv txn_day D D' _ replay_day_sorted HD). reflexivity.
Qed.

Lemma price_trunc : price_per_unit D' (t_ins t') = price_per_unit D (t_ins t).
Proof.
  unfold price_per_unit, t', trunc_txs. cbn [t_ins]. change (fun a : intx => local_day (i_ts a)) with in_day.
  rewrite (cut_equiv in_day D D' _ (proj1 lists_day_sorted) HD). reflexivity.
Qed.

Lemma sold_trunc l : (forall g, In g l -> In g gls /\ g_day g <= D) -> forall acc,
  fold_left (sold_pct_add from_day D') l acc = fold_left (sold_pct_add from_day D) l acc.
Proof.
  intros Hl. apply fold_left_ext_in. intros g Hg acc. unfold sold_pct_add. destruct acc as [m|e]; [|reflexivity].
  destruct (g_lot g) as [a|] eqn:Ha; [|reflexivity].
  destruct (Hl g Hg) as [Hin Hd].
  assert (Hain : In a (t_ins t)).
  { destruct resolved_sorted as (gls0 & R & Hgs). rewrite Hgs in Hin. apply sort_by_in in Hin.
    exact (resolve_all_in_lot _ _ _ _ R g a Hin Ha). }
  pose proof (lot_day_le g a Hin Ha Hain) as Hle. fold (in_day a).
  assert (E1 : (D' <? in_day a) = false) by lia. assert (E2 : (D <? in_day a) = false) by lia. rewrite E1, E2. reflexivity.
Qed.

(** the run on the truncated history (with any later to-date, e.g. none) is the run with the to-date *)
Theorem to_date_equiv :
  compute period from_day D' allow exs hos t' fs' =
  match compute period from_day D allow exs hos t fs with Ok cd => Ok (restrict D t cd) | Err e => Err e end.
Proof.
  destruct resolved_sorted as (gls0 & R & Hg).
  pose proof (taxable_events_trunc D t evs HE) as HT. fold t' in HT.
  pose proof all_fractions_trunc as HA'. unfold all_fractions in HA'. rewrite HT in HA'.
  destruct lists_day_sorted as (S1 & S2 & S3 & S4).
  unfold compute. rewrite HT, HE, R.
  destruct (resolve_all (filter (fun x => txn_day x <=? D) evs) (t_ins t') fs') as [gls0'|]; [|discriminate].
  injection HA' as HA'. rewrite HA', <- Hg.
  rewrite numbering_trunc. destruct (numbering D gls) as [[[[evf lotf] evt] lott]|e]; [|reflexivity].
  rewrite yearly_trunc. destruct (yearly_list period D (year_of_day from_day) gls) as [yl|e]; [|reflexivity].
  rewrite balances_trunc. destruct (balances allow D exs hos t) as [bl|e]; [|reflexivity].
  rewrite price_trunc. destruct (price_per_unit D (t_ins t)) as [ppu|e]; [|reflexivity].
  rewrite cut_cut.
  assert (HW : iter_window g_day from_day D' (take_until g_day D gls) = iter_window g_day from_day D gls).
  { rewrite !iter_window_take_until, cut_cut. reflexivity. }
  rewrite HW.
  rewrite (sold_trunc (iter_window g_day from_day D gls)).
  2:{ intros g Hin. apply (iter_window_sublist g_day) in Hin. split; [apply Hin|lia]. }
  destruct (fold_left (sold_pct_add from_day D) (iter_window g_day from_day D gls) (Ok [])) as [sold|e]; [|reflexivity].
  unfold restrict. cbn [cd_events cd_gls cd_evfrac cd_lotfrac cd_gl_running cd_all_gls cd_yearly cd_balances cd_price cd_ins cd_outs
       cd_intras cd_in_running cd_out_running cd_intra_running cd_sold_pct].
  assert (HC : iter_window (fun x : gl * (nat * option nat) => g_day (fst x)) from_day D' (combine (take_until g_day D gls) (combine evf lotf)) =
               iter_window (fun x : gl * (nat * option nat) => g_day (fst x)) from_day D (combine (take_until g_day D gls) (combine evf lotf))).
  { apply iter_window_bound; [|exact HD]. intros x Hx. destruct x as [g lab]. apply in_combine_l in Hx. apply (take_until_in g_day) in Hx. cbn [fst]. lia. }
  f_equal. f_equal.
  - change (fun x : txn => local_day (t_ts x)) with txn_day. apply (window_equiv txn_day from_day D D' evs S4 HD).
  - rewrite HC. reflexivity.
  - rewrite HC. reflexivity.
  - change (fun a : intx => local_day (i_ts a)) with in_day. apply (window_equiv in_day from_day D D' _ S1 HD).
  - change (fun a : outtx => local_day (o_ts a)) with out_day. apply (window_equiv out_day from_day D D' _ S2 HD).
  - change (fun a : intratx => local_day (x_ts a)) with intra_day. apply (window_equiv intra_day from_day D D' _ S3 HD).
Qed.
End Equiv.

(** * A'. the same for the whole computation: the matcher on the truncated history yields the truncated fractions *)
From RP2V Require Import Proofs.SpecAux Proofs.SpecInv Proofs.SpecPrefix Proofs.SpecProps Proofs.MatcherRefine Proofs.MatcherProps.

Lemma day_sorted_split {A} (day : A -> Z) D l : day_sorted day l ->
  l = filter (fun x => day x <=? D) l ++ filter (fun x => D <? day x) l.
Proof.
  induction l as [|x l IH]; intros Hs; [reflexivity|]. apply day_sorted_inv in Hs. destruct Hs as [Hs Hall].
  cbn [filter]. destruct (day x <=? D) eqn:E.
  - assert (E2 : (D <? day x) = false) by lia. rewrite E2. cbn [app]. f_equal. apply IH. exact Hs.
  - assert (E2 : (D <? day x) = true) by lia. rewrite E2.
    rewrite (filter_none (fun y => day y <=? D) l), (filter_all (fun y => D <? day y) l); [reflexivity| |];
      intros y Hy; rewrite Forall_forall in Hall; specialize (Hall y Hy); lia.
Qed.

Lemma exists_separator (K R : list Z) : (forall k r, In k K -> In r R -> k < r) ->
  exists T, (forall k, In k K -> k <= T) /\ (forall r, In r R -> T < r).
Proof.
  induction K as [|k K IH]; intros H.
  - clear H. induction R as [|r R IHR]; [exists 0; split; intros ? []|].
    destruct IHR as (T & _ & HT). exists (Z.min T (r - 1)). split; [intros ? []|].
    intros r' [<-|Hr']; [lia|]. specialize (HT r' Hr'). lia.
  - destruct IH as (T & H1 & H2); [intros k' r Hk' Hr; apply H; [right; exact Hk'|exact Hr]|].
    exists (Z.max T k). split.
    + intros k' [<-|Hk']; [lia|]. specialize (H1 k' Hk'). lia.
    + intros r Hr. specialize (H2 r Hr). specialize (H k r (or_introl eq_refl) Hr). lia.
Qed.

Lemma find_ev_unique evs e : NoDup (map t_row evs) -> In e evs -> find_ev evs (t_row e) = Some e.
Proof.
  unfold find_ev. induction evs as [|x evs IH]; intros Hnd Hin; [destruct Hin|]. cbn [map] in Hnd. inversion Hnd as [|? ? Hni Hnd']; subst.
  cbn [find]. destruct (t_row x =? t_row e) eqn:E.
  - destruct Hin as [->|Hin]; [reflexivity|]. exfalso. apply Hni. assert (t_row x = t_row e) by lia. rewrite H. apply in_map. exact Hin.
  - destruct Hin as [->|Hin]; [lia|]. apply IH; assumption.
Qed.

Section EquivTax.
Variables (D : Z) (sched : list (Z * meth)) (t : txs) (evs : list txn).
Hypothesis Hts : time_sorted t.
Hypothesis Hmono : dates_monotone t.
Hypothesis HE : taxable_events t = Ok evs.
Let t' := trunc_txs D t.
Let evs' := filter (fun x => txn_day x <=? D) evs.
Hypothesis WF : wf (t_ins t) sched (map event_of evs).
Hypothesis WF' : wf (t_ins t') sched (map event_of evs').

Lemma us_strict x y : In x (replay_order t) -> In y (replay_order t) -> txn_day x <= D -> D < txn_day y -> t_us x < t_us y.
Proof.
  intros Hx Hy Dx Dy. destruct (Z_lt_le_dec (t_us x) (t_us y)) as [H|H]; [exact H|].
  pose proof (Hmono y x Hy Hx H). lia.
Qed.

Lemma ins_day_sorted : day_sorted in_day (t_ins t).
Proof.
  destruct Hts as (S1 & _). apply (us_sorted_day_sorted in_us in_day _ S1). intros a b Ha Hb. apply (Hmono (TIn a) (TIn b)); apply replay_in; assumption.
Qed.
Lemma evs_day_sorted : day_sorted txn_day evs.
Proof.
  apply (us_sorted_day_sorted t_us txn_day _ (taxable_us_sorted t evs HE)). intros a b Ha Hb.
  apply Hmono; apply (taxable_in_replay t evs); assumption.
Qed.

Theorem fractions_of_trunc fs : fractions_of gen_always_repush sched t = Ok fs ->
  fractions_of gen_always_repush sched t' = Ok (trunc_fracs D evs fs).
Proof.
  intros HF. unfold fractions_of in *. rewrite HE in HF. pose proof (taxable_events_trunc D t evs HE) as HT. fold t' in HT. fold evs' in HT. rewrite HT.
  set (ins2 := filter (fun a => D <? in_day a) (t_ins t)). set (evs2 := filter (fun x => D <? txn_day x) evs).
  assert (Hins : t_ins t = t_ins t' ++ ins2) by (apply (day_sorted_split in_day D); exact ins_day_sorted).
  assert (Hevs : evs = evs' ++ evs2) by (apply (day_sorted_split txn_day D); exact evs_day_sorted).
  (* an instant that separates the kept from the dropped *)
  destruct (exists_separator (map in_us (t_ins t') ++ map t_us evs') (map in_us ins2 ++ map t_us evs2)) as (T & HK & HR).
  { intros k r Hk Hr.
    assert (Hk' : exists x, In x (replay_order t) /\ txn_day x <= D /\ t_us x = k).
    { apply in_app_or in Hk. destruct Hk as [Hk|Hk]; apply in_map_iff in Hk; destruct Hk as (a & <- & Ha); apply filter_In in Ha; destruct Ha as [Ha Hd].
      - exists (TIn a). split; [apply replay_in; exact Ha|]. split; [unfold txn_day; cbn [t_ts]; fold (in_day a); lia|reflexivity].
      - exists a. split; [apply (taxable_in_replay t evs); assumption|]. split; [lia|reflexivity]. }
    assert (Hr' : exists y, In y (replay_order t) /\ D < txn_day y /\ t_us y = r).
    { apply in_app_or in Hr. destruct Hr as [Hr|Hr]; apply in_map_iff in Hr; destruct Hr as (a & <- & Ha); apply filter_In in Ha; destruct Ha as [Ha Hd].
      - exists (TIn a). split; [apply replay_in; exact Ha|]. split; [unfold txn_day; cbn [t_ts]; fold (in_day a); lia|reflexivity].
      - exists a. split; [apply (taxable_in_replay t evs); assumption|]. split; [lia|reflexivity]. }
    destruct Hk' as (x & Hx & Dx & <-). destruct Hr' as (y & Hy & Dy & <-). apply us_strict; assumption. }
  pose proof (m_prefix_stable (t_ins t') ins2 sched (map event_of evs') (map event_of evs2) T) as PS.
  rewrite <- Hins, <- map_app, <- Hevs in PS.
  assert (P1 : forall e, In e (map event_of evs') -> e_us e <= T).
  { intros e He. apply in_map_iff in He. destruct He as (x & <- & Hx). cbn [event_of e_us]. apply HK. apply in_or_app. right. apply (in_map t_us). exact Hx. }
  assert (P2 : forall e, In e (map event_of evs2) -> T < e_us e).
  { intros e He. apply in_map_iff in He. destruct He as (x & <- & Hx). cbn [event_of e_us]. apply HR. apply in_or_app. right. apply (in_map t_us). exact Hx. }
  assert (P3 : forall l, In l (t_ins t') -> utc_us (i_ts l) <= T).
  { intros l Hl. change (utc_us (i_ts l)) with (in_us l). apply HK. apply in_or_app. left. apply (in_map in_us). exact Hl. }
  assert (P4 : forall l, In l ins2 -> T < utc_us (i_ts l)).
  { intros l Hl. change (utc_us (i_ts l)) with (in_us l). apply HR. apply in_or_app. left. apply (in_map in_us). exact Hl. }
  specialize (PS P1 P2 P3 P4 WF' WF). rewrite HF in PS.
  destruct (run_matcher gen_always_repush (t_ins t') sched (map event_of evs')) as [fs1|x] eqn:R1; [|discriminate].
  destruct PS as (fs2 & -> & Hfs2). f_equal.
  assert (Hnd : NoDup (map t_row evs)) by exact (taxable_events_rows_distinct t evs HE).
  unfold trunc_fracs. rewrite filter_app. rewrite (filter_all _ fs1), (filter_none _ fs2); [symmetry; apply app_nil_r| |].
  - intros f Hf. destruct (Hfs2 f Hf) as (e & He & Hrow). apply in_map_iff in He. destruct He as (x & <- & Hx).
    cbn [event_of e_row] in Hrow. unfold frac_kept. rewrite <- Hrow.
    apply filter_In in Hx. destruct Hx as [Hx Hd]. rewrite (find_ev_unique evs x Hnd Hx). lia.
  - intros f Hf. destruct (m_only_events _ _ _ WF' fs1 R1 f Hf) as (e & He & Hrow & _). apply in_map_iff in He. destruct He as (x & <- & Hx).
    cbn [event_of e_row] in Hrow. unfold frac_kept. rewrite <- Hrow.
    apply filter_In in Hx. destruct Hx as [Hx Hd]. rewrite (find_ev_unique evs x Hnd Hx). exact Hd.
Qed.

(** the lots precede their events in the matcher's output *)
Lemma matcher_lots_precede fs gls : fractions_of gen_always_repush sched t = Ok fs -> all_fractions t fs = Some gls ->
  lots_precede_events gls.
Proof.
  intros HF HG g a Hg Ha. unfold fractions_of in HF. rewrite HE in HF.
  unfold all_fractions in HG. rewrite HE in HG. destruct (resolve_all evs (t_ins t) fs) as [gls0|] eqn:R; [|discriminate]. injection HG as <-.
  apply sort_by_in in Hg.
  assert (Hnd : NoDup (map t_row evs)) by exact (taxable_events_rows_distinct t evs HE).
  assert (Hndl : NoDup (map i_row (t_ins t))) by apply WF.
  (* the fraction g comes from *)
  assert (Hf : exists f k, nth_error fs k = Some f /\ resolve evs (t_ins t) f = Some g).
  { clear -R Hg. revert gls0 R Hg. induction fs as [|f fs0 IH]; intros gls0 R Hg; cbn [resolve_all] in R.
    - injection R as <-. destruct Hg.
    - destruct (resolve evs (t_ins t) f) as [g0|] eqn:R0; [|discriminate].
      destruct (resolve_all evs (t_ins t) fs0) as [gs|]; [|discriminate]. injection R as <-.
      destruct Hg as [->|Hg]; [exists f, O; split; [reflexivity|exact R0]|].
      destruct (IH gs eq_refl Hg) as (f' & k & Hk & Hr). exists f', (S k). split; assumption. }
  destruct Hf as (f & k & Hk & Hr).
  unfold resolve in Hr. destruct (find_ev evs (f_ev f)) as [x|] eqn:Fe; [|discriminate].
  destruct (f_lot f) as [lr|] eqn:Fl; [|injection Hr as <-; discriminate].
  destruct (find_lot (t_ins t) lr) as [a'|] eqn:Fa; [|discriminate]. injection Hr as <-. cbn [g_lot g_ev] in *. injection Ha as ->.
  destruct (m_order _ _ _ WF fs HF k f lr Hk Fl) as (e & i & y & m & He & Hrow & _ & Hi & Hir & _ & Hle & _).
  unfold find_ev in Fe. apply find_some in Fe. destruct Fe as [Hx Hxr].
  unfold find_lot in Fa. apply find_some in Fa. destruct Fa as [Hain Har].
  apply in_map_iff in He. destruct He as (x' & <- & Hx'). cbn [event_of e_row e_us] in *.
  assert (x' = x) by (apply (NoDup_map_inj_Z t_row evs); [exact Hnd|exact Hx'|exact Hx|lia]). subst x'.
  assert (lotn (t_ins t) i = a) by (apply (NoDup_map_inj_Z i_row (t_ins t)); [exact Hndl|apply nth_In; exact Hi|exact Hain|lia]).
  unfold lot_us in Hle. rewrite H in Hle. exact Hle.
Qed.
End EquivTax.

Theorem compute_tax_to_date_equiv : forall period from_day D D' allow exs hos sched t evs cd,
  time_sorted t -> dates_monotone t -> taxable_events t = Ok evs ->
  wf (t_ins t) sched (map event_of evs) ->
  wf (t_ins (trunc_txs D t)) sched (map event_of (filter (fun x => txn_day x <=? D) evs)) ->
  D <= D' ->
  compute_tax period from_day D allow exs hos sched t = Ok cd ->
  compute_tax period from_day D' allow exs hos sched (trunc_txs D t) = Ok (restrict D t cd).
Proof.
  intros period from_day D D' allow exs hos sched t evs cd Hts Hm HE WF WF' HD HC.
  unfold compute_tax in *. destruct (fractions_of gen_always_repush sched t) as [fs|] eqn:HF; [|discriminate].
  rewrite (fractions_of_trunc D sched t evs Hts Hm HE WF WF' fs HF).
  destruct (compute_inv _ _ _ _ _ _ _ _ _ HC) as (evs0 & gls & _ & HG & _).
  rewrite (to_date_equiv period from_day D D' allow exs hos t fs evs gls Hts Hm HE HG (matcher_lots_precede sched t evs HE WF fs gls HF HG) HD).
  rewrite HC. reflexivity.
Qed.

(** what [restrict] leaves untouched: every reported field *)
Lemma restrict_fields D t cd :
  let cd' := restrict D t cd in
  cd_events cd' = cd_events cd /\ cd_gls cd' = cd_gls cd /\ cd_evfrac cd' = cd_evfrac cd /\ cd_lotfrac cd' = cd_lotfrac cd /\
  cd_yearly cd' = cd_yearly cd /\ cd_balances cd' = cd_balances cd /\ cd_price cd' = cd_price cd /\
  cd_ins cd' = cd_ins cd /\ cd_outs cd' = cd_outs cd /\ cd_intras cd' = cd_intras cd /\ cd_sold_pct cd' = cd_sold_pct cd /\
  cd_all_gls cd' = take_until g_day D (cd_all_gls cd) /\
  (exists rest, cd_all_gls cd = cd_all_gls cd' ++ rest).
Proof. cbv zeta. unfold restrict. cbn. repeat split. apply take_until_prefix. Qed.

(** * B. closed years *)
Lemma filter_filter_implies' {A} (p q : A -> bool) l : (forall x, In x l -> p x = true -> q x = true) -> filter p (filter q l) = filter p l.
Proof.
  intros Hpq. induction l as [|x l IH]; cbn [filter]; [reflexivity|].
  assert (IH' : filter p (filter q l) = filter p l) by (apply IH; intros y Hy; apply Hpq; right; exact Hy).
  destruct (p x) eqn:P.
  - rewrite (Hpq x (or_introl eq_refl) P). cbn [filter]. rewrite P. f_equal. exact IH'.
  - destruct (q x); cbn [filter]; rewrite ?P; exact IH'.
Qed.

Lemma sorted_desc_unique (l1 l2 : list yline) :
  StronglySorted (fun a b => yline_key a > yline_key b) l1 -> StronglySorted (fun a b => yline_key a > yline_key b) l2 ->
  (forall x, In x l1 <-> In x l2) -> l1 = l2.
Proof.
  intros S1. revert l2. induction S1 as [|a l1 S1 IH F1]; intros l2 S2 H.
  - destruct l2 as [|b l2]; [reflexivity|]. exfalso. apply (proj2 (H b)). left. reflexivity.
  - destruct S2 as [|b l2 S2 F2]; [exfalso; apply (proj1 (H a)); left; reflexivity|].
    rewrite Forall_forall in F1, F2.
    assert (a = b).
    { destruct (proj1 (H a) (or_introl eq_refl)) as [E|Ha]; [congruence|].
      destruct (proj2 (H b) (or_introl eq_refl)) as [E|Hb]; [exact E|].
      specialize (F1 b Hb). specialize (F2 a Ha). lia. }
    subst b. f_equal. apply IH; [exact S2|].
    intros x. split; intros Hx.
    + destruct (proj1 (H x) (or_intror Hx)) as [E|Hx']; [|exact Hx']. subst x. specialize (F1 a Hx). lia.
    + destruct (proj2 (H x) (or_intror Hx)) as [E|Hx']; [|exact Hx']. subst x. specialize (F2 a Hx). lia.
Qed.

Lemma sorted_desc_filter (p : yline -> bool) l :
  StronglySorted (fun a b => yline_key a > yline_key b) l -> StronglySorted (fun a b => yline_key a > yline_key b) (filter p l).
Proof.
  induction 1 as [|a l S IH F]; cbn [filter]; [constructor|]. destruct (p a); [|exact IH]. constructor; [exact IH|].
  rewrite Forall_forall in *. intros x Hx. apply filter_In in Hx. apply F. apply Hx.
Qed.

(** a line of a year <= Y depends only on the fractions of years <= Y *)
Lemma line_of_closed_year period Y cut1 cut2 m1 m2 k L :
  lines period cut1 = Ok m1 -> lines period cut2 = Ok m2 ->
  filter (fun g => g_year g <=? Y) cut1 = filter (fun g => g_year g <=? Y) cut2 ->
  aget k m1 = Some L -> y_year L <= Y -> aget k m2 = Some L.
Proof.
  intros H1 H2 Hf Hk Hy.
  destruct (yearly_lines_spec _ _ _ H1) as [_ G1]. destruct (yearly_lines_spec _ _ _ H2) as [_ G2].
  rewrite G1 in Hk. rewrite G2.
  destruct (filter (fun g => gkey period g =? k) cut1) as [|g0 l'] eqn:E1; [discriminate|]. injection Hk as HL.
  assert (Hg0 : gkey period g0 = k).
  { assert (Hin : In g0 (filter (fun g => gkey period g =? k) cut1)) by (rewrite E1; left; reflexivity). apply filter_In in Hin. lia. }
  assert (Hy0 : g_year g0 <= Y).
  { destruct (sum_line_keys period (g0 :: l') g0) as (K1 & _). rewrite HL in K1. lia. }
  assert (Hyear : forall cut g, In g cut -> (gkey period g =? k) = true -> (g_year g <=? Y) = true).
  { intros cut g _ Hg. assert (Hgk : gkey period g = gkey period g0) by lia. apply gkey_inj in Hgk. destruct Hgk as (Hgy & _). lia. }
  rewrite <- (filter_filter_implies' (fun g => gkey period g =? k) (fun g => g_year g <=? Y) cut2 (Hyear cut2)).
  rewrite <- Hf. rewrite (filter_filter_implies' _ _ cut1 (Hyear cut1)). rewrite E1. f_equal. exact HL.
Qed.

Theorem yearly_closed_years : forall period Y to1 to2 fy gls1 gls2 yl1 yl2,
  yearly_list period to1 fy gls1 = Ok yl1 -> yearly_list period to2 fy gls2 = Ok yl2 ->
  filter (fun g => g_year g <=? Y) (take_until g_day to1 gls1) = filter (fun g => g_year g <=? Y) (take_until g_day to2 gls2) ->
  filter (fun L => y_year L <=? Y) yl1 = filter (fun L => y_year L <=? Y) yl2.
Proof.
  intros period Y to1 to2 fy gls1 gls2 yl1 yl2 H1 H2 Hf.
  apply sorted_desc_unique; try (apply sorted_desc_filter; eapply yearly_list_sorted; eassumption).
  destruct (yearly_list_spec _ _ _ _ _ H1) as (m1 & E1 & In1 & _). destruct (yearly_list_spec _ _ _ _ _ H2) as (m2 & E2 & In2 & _).
  destruct (yearly_lines_spec _ _ _ E1) as [N1 _]. destruct (yearly_lines_spec _ _ _ E2) as [N2 _].
  assert (Hdir : forall cutA cutB mA mB (ylA ylB : list yline),
            lines period cutA = Ok mA -> lines period cutB = Ok mB -> NoDup (map fst mA) ->
            (forall l, In l ylA <-> In l (map snd mA) /\ fy <= y_year l) -> (forall l, In l ylB <-> In l (map snd mB) /\ fy <= y_year l) ->
            filter (fun g => g_year g <=? Y) cutA = filter (fun g => g_year g <=? Y) cutB ->
            forall x, In x (filter (fun L => y_year L <=? Y) ylA) -> In x (filter (fun L => y_year L <=? Y) ylB)).
  { intros cutA cutB mA mB ylA ylB EA EB NA InA InB HfAB x Hx. apply filter_In in Hx. destruct Hx as [Hx Hy].
    apply InA in Hx. destruct Hx as [Hx Hfy]. apply in_map_iff in Hx. destruct Hx as ([k v] & <- & Hkv). cbn [snd] in *.
    pose proof (In_aget _ _ _ NA Hkv) as Hk.
    pose proof (line_of_closed_year period Y cutA cutB mA mB k v EA EB HfAB Hk ltac:(lia)) as Hk2.
    apply filter_In. split; [|exact Hy]. apply InB. split; [|exact Hfy].
    apply aget_In in Hk2. apply in_map_iff. exists (k, v). split; [reflexivity|exact Hk2]. }
  intros x. split.
  - apply (Hdir _ _ m1 m2 yl1 yl2 E1 E2 N1 In1 In2 Hf).
  - apply (Hdir _ _ m2 m1 yl2 yl1 E2 E1 N2 In2 In1 (eq_sym Hf)).
Qed.

(** appending fractions of later years *)
Lemma take_until_app_ext {A} (day : A -> Z) to_ a b : exists ext, take_until day to_ (a ++ b) = take_until day to_ a ++ ext /\ forall x, In x ext -> In x b.
Proof.
  induction a as [|x a IH]; cbn [app take_until].
  - exists (take_until day to_ b). split; [reflexivity|]. intros x Hx. apply (take_until_in day) in Hx. apply Hx.
  - destruct (to_ <? day x); [exists []; split; [reflexivity|intros ? []]|].
    destruct IH as (ext & -> & Hext). exists ext. split; [reflexivity|exact Hext].
Qed.

Theorem yearly_extension_closed_years : forall period Y to_day fy gls ext yl1 yl2,
  (forall g, In g ext -> Y < g_year g) ->
  yearly_list period to_day fy gls = Ok yl1 -> yearly_list period to_day fy (gls ++ ext) = Ok yl2 ->
  filter (fun L => y_year L <=? Y) yl1 = filter (fun L => y_year L <=? Y) yl2.
Proof.
  intros period Y to_day fy gls ext yl1 yl2 Hext H1 H2.
  apply (yearly_closed_years period Y to_day to_day fy gls (gls ++ ext) yl1 yl2 H1 H2).
  destruct (take_until_app_ext g_day to_day gls ext) as (e' & -> & He').
  rewrite filter_app. rewrite (filter_none _ e'); [symmetry; apply app_nil_r|].
  intros g Hg. specialize (Hext g (He' g Hg)). lia.
Qed.

(** * B'. a history extended after an instant T *)
Lemma find_app_l {A} (p : A -> bool) l l' x : find p l = Some x -> find p (l ++ l') = Some x.
Proof. induction l as [|a l IH]; cbn [find app]; [discriminate|]. destruct (p a); [auto|exact IH]. Qed.

Lemma resolve_ext evs eX ins iX f g : resolve evs ins f = Some g -> resolve (evs ++ eX) (ins ++ iX) f = Some g.
Proof.
  unfold resolve, find_ev, find_lot. destruct (find _ evs) as [e|] eqn:Fe; [|discriminate]. rewrite (find_app_l _ _ eX _ Fe).
  destruct (f_lot f) as [r|]; [|auto]. destruct (find _ ins) as [a|] eqn:Fa; [|discriminate]. rewrite (find_app_l _ _ iX _ Fa). auto.
Qed.
Lemma resolve_all_ext evs eX ins iX : forall fs gls, resolve_all evs ins fs = Some gls -> resolve_all (evs ++ eX) (ins ++ iX) fs = Some gls.
Proof.
  induction fs as [|f fs IH]; intros gls H; cbn [resolve_all] in *; [exact H|].
  destruct (resolve evs ins f) as [g|] eqn:R; [|discriminate]. rewrite (resolve_ext _ eX _ iX _ _ R).
  destruct (resolve_all evs ins fs) as [gs|]; [|discriminate]. rewrite (IH gs eq_refl). exact H.
Qed.
Lemma resolve_all_app E L a : forall b, resolve_all E L (a ++ b) =
  match resolve_all E L a, resolve_all E L b with Some x, Some y => Some (x ++ y) | _, _ => None end.
Proof.
  induction a as [|f a IH]; intros b; cbn [app resolve_all].
  - destruct (resolve_all E L b); reflexivity.
  - destruct (resolve E L f) as [g|]; [|reflexivity]. rewrite IH.
    destruct (resolve_all E L a); [|reflexivity]. destruct (resolve_all E L b); reflexivity.
Qed.
Lemma resolve_all_rows E L : forall fs gls, resolve_all E L fs = Some gls ->
  forall g, In g gls -> In (g_ev g) E /\ exists f, In f fs /\ t_row (g_ev g) = f_ev f.
Proof.
  induction fs as [|f fs IH]; intros gls H g Hg; cbn [resolve_all] in H.
  - injection H as <-. destruct Hg.
  - destruct (resolve E L f) as [g0|] eqn:R; [|discriminate]. destruct (resolve_all E L fs) as [gs|]; [|discriminate]. injection H as <-.
    destruct Hg as [<-|Hg].
    + unfold resolve in R. destruct (find_ev E (f_ev f)) as [e|] eqn:Fe; [|discriminate].
      unfold find_ev in Fe. apply find_some in Fe. destruct Fe as [He Hr].
      assert (g_ev g0 = e) by (destruct (f_lot f); [destruct (find_lot L _); [|discriminate]|]; injection R as <-; reflexivity).
      subst e. split; [exact He|]. exists f. split; [left; reflexivity|lia].
    + destruct (IH gs eq_refl g Hg) as (H1 & f' & Hf' & Hr). split; [exact H1|]. exists f'. split; [right; exact Hf'|exact Hr].
Qed.

Lemma filter_le_app {A} (key : A -> Z) T a a2 :
  (forall x, In x a -> key x <= T) -> (forall x, In x a2 -> T < key x) -> filter (fun x => key x <=? T) (a ++ a2) = a.
Proof.
  intros H1 H2. rewrite filter_app, (filter_all _ a), (filter_none _ a2); [apply app_nil_r| |].
  - intros x Hx. specialize (H2 x Hx). lia.
  - intros x Hx. specialize (H1 x Hx). lia.
Qed.

Section Extension.
Variables (T : Z) (sched : list (Z * meth)) (t t2 : txs) (evs evs2 : list txn).
Hypothesis Hext : extends_after T t t2.
Hypothesis HE : taxable_events t = Ok evs.
Hypothesis HE2 : taxable_events t2 = Ok evs2.
Hypothesis WF : wf (t_ins t) sched (map event_of evs).
Hypothesis WF2 : wf (t_ins t2) sched (map event_of evs2).

(** the taxable events of the extension: the old ones, then the new ones *)
Lemma taxable_events_ext : exists evsX, evs2 = evs ++ evsX /\ (forall x, In x evs -> t_us x <= T) /\ (forall x, In x evsX -> T < t_us x).
Proof.
  destruct Hext as (ins2 & outs2 & intras2 & E1 & E2 & E3 & B1 & B2 & B3 & A1 & A2 & A3).
  rewrite (taxable_events_eq _ _ HE2), (taxable_events_eq _ _ HE).
  rewrite (sort_by_split t_us T (taxable_unsorted t2)).
  exists (sort_by t_us (filter (fun x => T <? t_us x) (taxable_unsorted t2))).
  assert (HL : filter (fun x => t_us x <=? T) (taxable_unsorted t2) = taxable_unsorted t).
  { unfold taxable_unsorted. rewrite !filter_app, !filter_map_comm'.
    rewrite (filter_filter_comm (fun x => t_us (TIn x) <=? T) in_is_taxable), (filter_filter_comm (fun x => t_us (TOut x) <=? T) out_is_taxable),
      (filter_filter_comm (fun x => t_us (TIntra x) <=? T) intra_is_taxable).
    rewrite E1, E2, E3.
    rewrite (filter_le_app (fun a => t_us (TIn a)) T (t_ins t) ins2 B1 A1), (filter_le_app (fun a => t_us (TOut a)) T (t_outs t) outs2 B2 A2),
      (filter_le_app (fun a => t_us (TIntra a)) T (t_intras t) intras2 B3 A3). reflexivity. }
  rewrite HL. split; [reflexivity|]. split.
  - intros x Hx. apply sort_by_in in Hx. rewrite <- HL in Hx. apply filter_In in Hx. lia.
  - intros x Hx. apply sort_by_in in Hx. apply filter_In in Hx. lia.
Qed.

(** pairing and amounts of the earlier events are unchanged; a history that fails keeps failing *)
Theorem fractions_ext :
  match fractions_of gen_always_repush sched t with
  | Ok fs1 => forall fs2, fractions_of gen_always_repush sched t2 = Ok fs2 ->
                exists fsX, fs2 = fs1 ++ fsX /\ forall f, In f fsX -> exists x, In x evs2 /\ T < t_us x /\ t_row x = f_ev f
  | Err e => fractions_of gen_always_repush sched t2 = Err e
  end.
Proof.
  destruct taxable_events_ext as (evsX & Hevs & Hle & Hgt).
  destruct Hext as (ins2 & outs2 & intras2 & E1 & _ & _ & B1 & _ & _ & A1 & _).
  unfold fractions_of. rewrite HE, HE2.
  pose proof (m_prefix_stable (t_ins t) ins2 sched (map event_of evs) (map event_of evsX) T) as PS.
  rewrite <- E1, <- map_app, <- Hevs in PS.
  assert (P1 : forall e, In e (map event_of evs) -> e_us e <= T) by (intros e He; apply in_map_iff in He; destruct He as (x & <- & Hx); exact (Hle x Hx)).
  assert (P2 : forall e, In e (map event_of evsX) -> T < e_us e) by (intros e He; apply in_map_iff in He; destruct He as (x & <- & Hx); exact (Hgt x Hx)).
  specialize (PS P1 P2 B1 A1 WF WF2).
  destruct (run_matcher gen_always_repush (t_ins t) sched (map event_of evs)) as [fs1|e]; [|exact PS].
  intros fs2 H2. rewrite H2 in PS. destruct PS as (fsX & -> & HfX). exists fsX. split; [reflexivity|].
  intros f Hf. destruct (HfX f Hf) as (e & He & Hrow). apply in_map_iff in He. destruct He as (x & <- & Hx).
  exists x. split; [rewrite Hevs; apply in_or_app; right; exact Hx|]. split; [exact (Hgt x Hx)|exact Hrow].
Qed.

(** the detail table of the earlier run is an initial segment of the later run's: the same records (event, lot,
    amount) at the same positions *)
Theorem detail_table_ext fs1 fs2 gls1 gls2 :
  fractions_of gen_always_repush sched t = Ok fs1 -> fractions_of gen_always_repush sched t2 = Ok fs2 ->
  all_fractions t fs1 = Some gls1 -> all_fractions t2 fs2 = Some gls2 ->
  exists ext, gls2 = gls1 ++ ext /\ forall g, In g ext -> In (g_ev g) evs2 /\ ~ In (g_ev g) evs /\ T < t_us (g_ev g).
Proof.
  intros F1 F2 G1 G2. pose proof fractions_ext as FE. rewrite F1 in FE. destruct (FE fs2 F2) as (fsX & -> & HfX).
  destruct taxable_events_ext as (evsX & Hevs & Hle & Hgt).
  destruct Hext as (ins2 & outs2 & intras2 & E1 & _).
  unfold all_fractions in G1, G2. rewrite HE in G1. rewrite HE2 in G2.
  destruct (resolve_all evs (t_ins t) fs1) as [g01|] eqn:R1; [|discriminate]. injection G1 as <-.
  rewrite resolve_all_app in G2. rewrite Hevs, E1 in G2. rewrite (resolve_all_ext evs evsX (t_ins t) ins2 fs1 g01 R1) in G2.
  destruct (resolve_all (evs ++ evsX) (t_ins t ++ ins2) fsX) as [gX|] eqn:RX; [|discriminate]. injection G2 as <-.
  assert (Hnd : NoDup (map t_row (evs ++ evsX))) by (rewrite <- Hevs; exact (taxable_events_rows_distinct t2 evs2 HE2)).
  assert (HgX : forall g, In g gX -> In (g_ev g) evsX).
  { intros g Hg. destruct (resolve_all_rows _ _ _ _ RX g Hg) as (Hin & f & Hf & Hrow).
    destruct (HfX f Hf) as (x & Hx & Hxt & Hxr). rewrite Hevs in Hx.
    assert (g_ev g = x) by (apply (NoDup_map_inj_Z t_row (evs ++ evsX)); [exact Hnd|exact Hin|exact Hx|lia]). subst x.
    apply in_app_or in Hin. destruct Hin as [Hin|Hin]; [specialize (Hle _ Hin); lia|exact Hin]. }
  exists (sort_by (fun g => t_us (g_ev g)) gX). split.
  - apply sort_by_app_lt. intros a b Ha Hb. destruct (resolve_all_rows _ _ _ _ R1 a Ha) as (Hain & _).
    specialize (Hle _ Hain). specialize (Hgt _ (HgX b Hb)). lia.
  - intros g Hg. apply sort_by_in in Hg. pose proof (HgX g Hg) as Hx. split; [rewrite Hevs; apply in_or_app; right; exact Hx|].
    split; [|exact (Hgt _ Hx)]. intros Hin. specialize (Hle _ Hin). specialize (Hgt _ Hx). lia.
Qed.
End Extension.

(** the whole computation on the two histories: the earlier results are untouched *)
Theorem later_transactions_change_nothing : forall T period from_day to_day allow allow2 exs hos sched t t2 evs evs2 cd cd2,
  extends_after T t t2 -> taxable_events t = Ok evs -> taxable_events t2 = Ok evs2 ->
  wf (t_ins t) sched (map event_of evs) -> wf (t_ins t2) sched (map event_of evs2) ->
  compute_tax period from_day to_day allow exs hos sched t = Ok cd ->
  compute_tax period from_day to_day allow2 exs hos sched t2 = Ok cd2 ->
  exists ext, cd_all_gls cd2 = cd_all_gls cd ++ ext /\
    (forall g, In g ext -> In (g_ev g) evs2 /\ ~ In (g_ev g) evs /\ T < t_us (g_ev g)) /\
    (exists rest, cd_gl_running cd2 = cd_gl_running cd ++ rest) /\
    forall Y, (forall g, In g ext -> Y < g_year g) ->
      filter (fun L => y_year L <=? Y) (cd_yearly cd) = filter (fun L => y_year L <=? Y) (cd_yearly cd2).
Proof.
  intros T period from_day to_day allow allow2 exs hos sched t t2 evs evs2 cd cd2 Hext HE HE2 WF WF2 HC HC2.
  unfold compute_tax in HC, HC2.
  destruct (fractions_of gen_always_repush sched t) as [fs1|] eqn:F1; [|discriminate].
  destruct (fractions_of gen_always_repush sched t2) as [fs2|] eqn:F2; [|discriminate].
  destruct (compute_inv _ _ _ _ _ _ _ _ _ HC) as (e1 & gls1 & _ & G1 & A1 & _ & Y1 & _ & _ & _ & _ & _ & _ & _ & Rn1 & _).
  destruct (compute_inv _ _ _ _ _ _ _ _ _ HC2) as (e2 & gls2 & _ & G2 & A2 & _ & Y2 & _ & _ & _ & _ & _ & _ & _ & Rn2 & _).
  destruct (detail_table_ext T sched t t2 evs evs2 Hext HE HE2 WF WF2 fs1 fs2 gls1 gls2 F1 F2 G1 G2) as (ext & Hg & Hx).
  exists ext. rewrite A1, A2. split; [exact Hg|]. split; [exact Hx|]. split.
  - rewrite Rn1, Rn2, Hg. clear. generalize 0 as acc. induction gls1 as [|g l IH]; intros acc; cbn [app running].
    + eexists. reflexivity.
    + destruct (IH (acc + g_amt g)) as (rest & ->). exists rest. reflexivity.
  - intros Y HY. rewrite Hg in Y2. exact (yearly_extension_closed_years period Y to_day _ gls1 ext _ _ HY Y1 Y2).
Qed.

(** * A''. well-formedness of the truncated history follows from that of the full one *)
Lemma NoDup_app_l {A} (a b : list A) : NoDup (a ++ b) -> NoDup a.
Proof.
  induction a as [|x a IH]; cbn [app]; intros H; [constructor|]. inversion H as [|? ? Hni Hnd]; subst.
  constructor; [|apply IH; exact Hnd]. intros Hin. apply Hni. apply in_or_app. left. exact Hin.
Qed.

Lemma wf_prefix lots lots2 sched evs evs2 T :
  wf (lots ++ lots2) sched (evs ++ evs2) -> lots <> [] ->
  (forall e, In e evs -> e_us e <= T) -> (forall l, In l lots2 -> T < utc_us (i_ts l)) ->
  wf lots sched evs.
Proof.
  intros (W1 & W2 & W3 & W4 & W5 & W6 & W7 & W8 & W9 & W10 & W11 & W12) Hne HT HL.
  assert (Hlen : forall i, (i < length lots)%nat -> (i < length (lots ++ lots2))%nat) by (intros i Hi; rewrite app_length; lia).
  assert (Hn : forall i, (i < length lots)%nat -> lotn (lots ++ lots2) i = lotn lots i) by (intros i Hi; apply lotn_app_l; exact Hi).
  assert (Helen : forall i, (i < length evs)%nat -> (i < length (evs ++ evs2))%nat) by (intros i Hi; rewrite app_length; lia).
  unfold wf. repeat split.
  - intros i j Hij. specialize (W1 i j ltac:(split; [lia|apply Hlen; lia])). unfold lot_us in *. rewrite !Hn in W1 by lia. exact W1.
  - unfold lots_distinct_rows in *. rewrite map_app in W2. exact (NoDup_app_l _ _ W2).
  - intros i Hi. specialize (W3 i (Hlen i Hi)). rewrite Hn in W3 by exact Hi. exact W3.
  - exact Hne.
  - intros i j d Hij. specialize (W5 i j d ltac:(split; [lia|apply Helen; lia])). rewrite !app_nth1 in W5 by lia. exact W5.
  - intros e He. apply W6. apply in_or_app. left. exact He.
  - unfold evs_distinct_rows in *. rewrite map_app in W7. exact (NoDup_app_l _ _ W7).
  - intros i j d Hij. specialize (W8 i j d ltac:(split; [lia|apply Helen; lia])). rewrite !app_nth1 in W8 by lia. exact W8.
  - intros e He Hearn. destruct (W9 e (in_or_app _ _ _ (or_introl He)) Hearn) as (i & Hi & Hr & Hu & Ha).
    assert (Hi' : (i < length lots)%nat).
    { destruct (lt_dec i (length lots)) as [Hlt|Hge]; [exact Hlt|exfalso].
      pose proof (lot_us_app_r lots lots2 T HL i ltac:(lia)) as Hgt. specialize (HT e He). lia. }
    exists i. unfold lot_us in *. rewrite Hn in Hr, Hu, Ha by exact Hi'. auto.
  - intros e e' He He'. apply W10; apply in_or_app; left; assumption.
  - intros e He. apply W11. apply in_or_app. left. exact He.
  - exact W12.
Qed.

Section TruncWf.
Variables (D : Z) (sched : list (Z * meth)) (t : txs) (evs : list txn).
Hypothesis Hts : time_sorted t.
Hypothesis Hmono : dates_monotone t.
Hypothesis HE : taxable_events t = Ok evs.
Hypothesis WF : wf (t_ins t) sched (map event_of evs).
Hypothesis Hne : t_ins (trunc_txs D t) <> [].

Theorem wf_trunc : wf (t_ins (trunc_txs D t)) sched (map event_of (filter (fun x => txn_day x <=? D) evs)).
Proof.
  set (t' := trunc_txs D t) in *. set (evs' := filter (fun x => txn_day x <=? D) evs).
  set (ins2 := filter (fun a => D <? in_day a) (t_ins t)). set (evs2 := filter (fun x => D <? txn_day x) evs).
  assert (Hins : t_ins t = t_ins t' ++ ins2) by (apply (day_sorted_split in_day D); exact (ins_day_sorted t Hts Hmono)).
  assert (Hevs : evs = evs' ++ evs2) by (apply (day_sorted_split txn_day D); exact (evs_day_sorted t evs Hmono HE)).
  destruct (exists_separator (map t_us evs') (map in_us ins2)) as (T & HK & HR).
  { intros k r Hk Hr. apply in_map_iff in Hk. destruct Hk as (x & <- & Hx). apply filter_In in Hx. destruct Hx as [Hx Hd].
    apply in_map_iff in Hr. destruct Hr as (a & <- & Ha). apply filter_In in Ha. destruct Ha as [Ha Hd'].
    apply (us_strict D t Hmono x (TIn a)); [apply (taxable_in_replay t evs); assumption|apply replay_in; exact Ha|lia|].
    unfold txn_day. cbn [t_ts]. fold (in_day a). lia. }
  apply (wf_prefix (t_ins t') ins2 sched (map event_of evs') (map event_of evs2) T).
  - rewrite <- Hins, <- map_app, <- Hevs. exact WF.
  - exact Hne.
  - intros e He. apply in_map_iff in He. destruct He as (x & <- & Hx). cbn [event_of e_us]. apply HK. apply (in_map t_us). exact Hx.
  - intros l Hl. change (utc_us (i_ts l)) with (in_us l). apply HR. apply (in_map in_us). exact Hl.
Qed.
End TruncWf.

Theorem compute_tax_to_date_equiv_built : forall period from_day D D' allow exs hos sched t evs cd,
  time_sorted t -> dates_monotone t -> taxable_events t = Ok evs ->
  wf (t_ins t) sched (map event_of evs) -> t_ins (trunc_txs D t) <> [] -> D <= D' ->
  compute_tax period from_day D allow exs hos sched t = Ok cd ->
  compute_tax period from_day D' allow exs hos sched (trunc_txs D t) = Ok (restrict D t cd).
Proof.
  intros period from_day D D' allow exs hos sched t evs cd Hts Hm HE WF Hne HD HC.
  exact (compute_tax_to_date_equiv period from_day D D' allow exs hos sched t evs cd Hts Hm HE WF (wf_trunc D sched t evs Hts Hm HE WF Hne) HD HC).
Qed.
