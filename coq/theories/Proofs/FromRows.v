(** The matcher properties C01 / C02 / C09 restated for histories BUILT FROM INPUT ROWS ([build h = Ok t], the taxable events
    and lots of [t]), in the vocabulary of the property texts (transactions, acquisitions, unconsumed balance), with the
    well-formedness of the matcher input DERIVED from hypotheses about the rows ([built_history], Proofs/ComputeTotal.v;
    [pipeline_wf], Proofs/PipelineWf.v).  Vocabulary: Model/FromRowsSpec.v. *)
From Coq Require Import List ZArith Bool Lia Permutation Sorted ZifyBool.
From RP2V Require Import Base.Prelude Base.Time Base.Dec Base.Sorting Model.Types Model.Generated Model.Txn
  Model.Matcher Model.MatchSpec Model.MatchWf Model.FracSpec Model.Pipeline Model.Computed Model.ComputedSpec
  Model.StabilitySpec Model.TotalSpec Model.FromRowsSpec.
From RP2V Require Import Proofs.SortingProofs Proofs.C03Proofs Proofs.PipelineWf Proofs.MatcherProps Proofs.C09Proofs
  Proofs.C17Proofs Proofs.ComputeTotal.
Import ListNotations.
Open Scope Z_scope.

(** * 1. small list facts *)

Lemma NoDup_app_inv {A} (a b : list A) : NoDup (a ++ b) -> NoDup a /\ NoDup b /\ (forall x, In x a -> In x b -> False).
Proof.
  induction a as [|x a IH]; simpl; intros H.
  - split; [constructor|]. split; [exact H|]. intros x [].
  - inversion H as [|? ? Hx Hr]; subst. destruct (IH Hr) as (Ha & Hb & Hd). split; [|split; [exact Hb|]].
    + constructor; [|exact Ha]. intro Hin. apply Hx, in_or_app. left; exact Hin.
    + intros y [<-|Hy] Hyb; [apply Hx, in_or_app; right; exact Hyb|exact (Hd y Hy Hyb)].
Qed.
Lemma NoDup_app_intro {A} (a b : list A) : NoDup a -> NoDup b -> (forall x, In x a -> In x b -> False) -> NoDup (a ++ b).
Proof.
  induction a as [|x a IH]; simpl; intros Ha Hb Hd; [exact Hb|].
  inversion Ha as [|? ? Hx Hr]; subst. constructor.
  - intro Hin. apply in_app_or in Hin. destruct Hin as [Hin|Hin]; [exact (Hx Hin)|exact (Hd x (or_introl eq_refl) Hin)].
  - apply IH; [exact Hr|exact Hb|]. intros y Hy. apply Hd. right; exact Hy.
Qed.

Lemma map_result_app {A B} (f : A -> result B) : forall a b ys,
  map_result f (a ++ b) = Ok ys -> exists ya yb, map_result f a = Ok ya /\ map_result f b = Ok yb /\ ys = ya ++ yb.
Proof.
  induction a as [|x a IH]; simpl; intros b ys H.
  - exists [], ys. auto.
  - destruct (f x) as [y|]; [|discriminate]. destruct (map_result f (a ++ b)) as [zs|] eqn:E; [|discriminate]. injection H as <-.
    destruct (IH b zs E) as (ya & yb & -> & Hb & ->). exists (y :: ya), yb. auto.
Qed.

(** [map_result] commutes with a filter that reads a field the constructor copies *)
Lemma map_result_filter {A B} (f : A -> result B) (p : A -> bool) (q : B -> bool) :
  (forall x y, f x = Ok y -> q y = p x) ->
  forall l ys, map_result f l = Ok ys -> map_result f (filter p l) = Ok (filter q ys).
Proof.
  intros Hpq. induction l as [|x l IH]; simpl; intros ys H.
  - injection H as <-. reflexivity.
  - destruct (f x) as [y|] eqn:Ex; [|discriminate]. destruct (map_result f l) as [zs|] eqn:E; [|discriminate]. injection H as <-.
    simpl. rewrite (Hpq x y Ex). destruct (p x); simpl; [rewrite Ex|]; rewrite (IH zs eq_refl); reflexivity.
Qed.

Lemma filter_ext_in' {A} (p q : A -> bool) l : (forall x, In x l -> p x = q x) -> filter p l = filter q l.
Proof.
  induction l as [|x l IH]; simpl; intros H; [reflexivity|].
  rewrite (H x (or_introl eq_refl)), IH; [reflexivity|]. intros y Hy. apply H. right; exact Hy.
Qed.

Lemma map_seq_nth {A B} (f : A -> B) (d : A) l : map (fun i => f (nth i l d)) (seq 0 (length l)) = map f l.
Proof.
  rewrite <- (map_map (fun i => nth i l d) f). f_equal.
  induction l as [|x l IH]; [reflexivity|]. simpl. f_equal. rewrite <- seq_shift, map_map. exact IH.
Qed.

(** * 2. the taxable events exist when the row ids are distinct *)

Lemma build_rows h t : build h = Ok t ->
  Permutation (map i_row (t_ins t)) (map ri_row (h_ins h)) /\ Permutation (map o_row (t_outs t)) (map ro_row (h_outs h)) /\
  Permutation (map x_row (t_intras t)) (map rx_row (h_intras h)).
Proof.
  intros Hb. destruct (build_inv _ _ Hb) as (ins & outs & intras & E1 & E2 & E3 & _ & _ & T1 & T2 & T3).
  rewrite T1, T2, T3.
  rewrite <- (map_result_map mk_in ri_row i_row (fun x y H => proj1 (mk_in_fields x y H)) _ _ E1).
  rewrite <- (map_result_map mk_out ro_row o_row (fun x y H => proj2 (mk_out_ts x y H)) _ _ E2).
  rewrite <- (map_result_map mk_intra rx_row x_row (fun x y H => proj2 (mk_intra_ts x y H)) _ _ E3).
  repeat split; apply Permutation_map, sort_by_perm.
Qed.

Theorem taxable_events_total h t : build h = Ok t -> distinct_row_ids h -> exists evs, taxable_events t = Ok evs.
Proof.
  intros Hb Hd. destruct (build_rows h t Hb) as (P1 & P2 & P3).
  assert (ND : NoDup (map i_row (t_ins t) ++ map o_row (t_outs t) ++ map x_row (t_intras t))).
  { eapply Permutation_NoDup; [|exact Hd]. apply Permutation_sym. repeat apply Permutation_app; assumption. }
  destruct (NoDup_app_inv _ _ ND) as (N1 & N23 & D1). destruct (NoDup_app_inv _ _ N23) as (N2 & N3 & D2).
  unfold taxable_events.
  assert (HN : NoDup (map t_row (taxable_unsorted t))).
  { unfold taxable_unsorted. rewrite !map_app, !map_map. cbn [t_row].
    assert (I1 : forall x, In x (map i_row (filter in_is_taxable (t_ins t))) -> In x (map i_row (t_ins t))).
    { intros x Hx. apply in_map_iff in Hx. destruct Hx as (a & <- & Ha). apply filter_In in Ha. apply in_map, Ha. }
    assert (I2 : forall x, In x (map o_row (filter out_is_taxable (t_outs t))) -> In x (map o_row (t_outs t))).
    { intros x Hx. apply in_map_iff in Hx. destruct Hx as (a & <- & Ha). apply filter_In in Ha. apply in_map, Ha. }
    assert (I3 : forall x, In x (map x_row (filter intra_is_taxable (t_intras t))) -> In x (map x_row (t_intras t))).
    { intros x Hx. apply in_map_iff in Hx. destruct Hx as (a & <- & Ha). apply filter_In in Ha. apply in_map, Ha. }
    apply NoDup_app_intro; [apply NoDup_map_filter; exact N1| |].
    - apply NoDup_app_intro; [apply NoDup_map_filter; exact N2|apply NoDup_map_filter; exact N3|].
      intros x Hx Hy. exact (D2 x (I2 x Hx) (I3 x Hy)).
    - intros x Hx Hy. apply (D1 x (I1 x Hx)). apply in_app_or in Hy. apply in_or_app.
      destruct Hy as [Hy|Hy]; [left; exact (I2 x Hy)|right; exact (I3 x Hy)]. }
  rewrite (NoDup_has_dup _ HN). eexists; reflexivity.
Qed.

(** * 3. C01: the order, in terms of transactions *)

Lemma rank_before lots m i j : lots_sorted lots -> (i < length lots)%nat -> (j < length lots)%nat ->
  key_ltb (spec_rank lots m i) (spec_rank lots m j) = true -> ranks_before m (lotn lots i) (lotn lots j).
Proof.
  intros HS Hi Hj HK. unfold spec_rank, key_ltb in HK. unfold ranks_before, older, in_us.
  destruct m.
  - (* fifo: (instant, position, 0) *)
    assert (Hc : lot_us lots i < lot_us lots j \/ (lot_us lots i = lot_us lots j /\ (i < j)%nat)) by (unfold lot_us; lia).
    destruct Hc as [Hc|[Hc Hij]]; [left; exact Hc|].
    destruct (HS i j (conj Hij Hj)) as [H|[_ H]]; [left; exact H|right; split; [exact Hc|exact H]].
  - lia.
  - lia.
  - lia.
Qed.

Section Built.
Variables (sched : list (Z * meth)) (h : hist) (t : txs).
Hypothesis BH : built_history sched h t.

Lemma event_of_in evs e : In e (map event_of evs) -> exists x, In x evs /\ e = event_of x.
Proof. intros He. apply in_map_iff in He. destruct He as (x & <- & Hx). exists x; auto. Qed.

Lemma rem_after_balance fs i : rem_after (t_ins t) fs i = lot_balance fs (lotn (t_ins t) i).
Proof. reflexivity. Qed.

Theorem order_from_rows : forall fs, fractions_of gen_always_repush sched t = Ok fs ->
  forall k f lr, nth_error fs k = Some f -> f_lot f = Some lr ->
  exists evs x a y m,
    taxable_events t = Ok evs /\ In x evs /\ t_row x = f_ev f /\ t_is_earning x = false /\
    In a (t_ins t) /\ i_row a = lr /\
    meth_for sched (local_year (t_ts x)) None = Some (y, m) /\
    in_us a <= t_us x /\
    0 < f_amt f <= lot_balance (firstn k fs) a /\
    (forall b, In b (t_ins t) -> b <> a -> in_us b <= t_us x -> 0 < lot_balance (firstn k fs) b -> ranks_before m a b).
Proof.
  intros fs HF k f lr Hk Hl. destruct (fractions_events _ _ _ HF) as (evs & HE).
  pose proof (built_wf _ _ _ _ BH HE) as WF. unfold fractions_of in HF. rewrite HE in HF.
  destruct (m_order _ _ _ WF fs HF k f lr Hk Hl) as (e & i & y & m & He & Hrow & Hearn & Hi & Hlr & Hm & Hus & Hamt & Hbest).
  destruct (event_of_in _ _ He) as (x & Hx & ->). cbn [event_of e_row e_earn e_year e_us] in *.
  exists evs, x, (lotn (t_ins t) i), y, m.
  split; [exact HE|]. split; [exact Hx|]. split; [exact Hrow|]. split; [exact Hearn|].
  split; [apply nth_In; exact Hi|]. split; [exact Hlr|]. split; [exact Hm|]. split; [exact Hus|]. split; [exact Hamt|].
  intros b Hb Hne Hbus Hbal. destruct (In_nth _ _ dummy_lot Hb) as (j & Hj & Hnth).
  assert (Hji : j <> i) by (intros ->; apply Hne; symmetry; exact Hnth).
  change (nth j (t_ins t) dummy_lot) with (lotn (t_ins t) j) in Hnth. rewrite <- Hnth in *.
  apply rank_before; [exact (proj1 WF)|exact Hi|exact Hj|].
  apply Hbest; [exact Hj|exact Hji|exact Hbus|exact Hbal].
Qed.

(** * 4. C02 *)

Theorem positive_from_rows : forall fs, fractions_of gen_always_repush sched t = Ok fs -> forall f, In f fs -> 0 < f_amt f.
Proof.
  intros fs HF. destruct (fractions_events _ _ _ HF) as (evs & HE).
  pose proof (built_wf _ _ _ _ BH HE) as WF. unfold fractions_of in HF. rewrite HE in HF. exact (m_positive _ _ _ WF fs HF).
Qed.

(** per taxable event the fractions sum to the full amount leaving (or, for income, entering) the holder: a disposal's
    amount with its crypto fee, a transfer's fee, an income event's amount -- the latter as exactly one lot-less fraction *)
Theorem event_covered_from_rows : forall fs evs, fractions_of gen_always_repush sched t = Ok fs -> taxable_events t = Ok evs ->
  forall x, In x evs ->
    ev_taken fs (t_row x) = t_balance_change x /\
    match x with
    | TIn a => t_balance_change x = i_crypto_in a /\
               filter (frac_of_ev (i_row a)) fs = [{| f_ev := i_row a; f_lot := None; f_amt := i_crypto_in a |}]
    | TOut o => t_balance_change x = o_crypto_out_with_fee o
    | TIntra i => t_balance_change x = x_crypto_fee i
    end.
Proof.
  intros fs evs HF HE x Hx. pose proof (built_wf _ _ _ _ BH HE) as WF. unfold fractions_of in HF. rewrite HE in HF.
  pose proof (in_map event_of _ _ Hx) as He. split.
  - exact (m_event_covered _ _ _ WF fs HF _ He).
  - destruct x as [a|o|i]; [|apply change_TOut|apply change_TIntra]. split; [apply change_TIn|].
    assert (Hearn : t_is_earning (TIn a) = true).
    { rewrite earning_TIn. apply (taxable_events_iff _ _ _ HE) in Hx.
      destruct Hx as [(a' & [= <-] & _ & Ht)|[(a' & Hc & _)|(a' & Hc & _)]]; [exact Ht|discriminate Hc|discriminate Hc]. }
    pose proof (m_earn_once _ _ _ WF fs HF _ He Hearn) as H1. cbn [event_of e_row e_amt t_row] in H1.
    rewrite change_TIn in H1. exact H1.
Qed.

Theorem no_lot_overspent_from_rows : forall fs, fractions_of gen_always_repush sched t = Ok fs ->
  forall k a, In a (t_ins t) -> 0 <= lot_balance (firstn k fs) a /\ lot_taken (firstn k fs) (i_row a) <= i_crypto_in a.
Proof.
  intros fs HF k a Ha. destruct (fractions_events _ _ _ HF) as (evs & HE).
  pose proof (built_wf _ _ _ _ BH HE) as WF. unfold fractions_of in HF. rewrite HE in HF.
  destruct (In_nth _ _ dummy_lot Ha) as (i & Hi & Hnth).
  pose proof (m_no_overspend _ _ _ WF fs HF k i Hi) as H0. rewrite rem_after_balance in H0. unfold lotn in H0. rewrite Hnth in H0.
  split; [exact H0|unfold lot_balance in H0; lia].
Qed.

(** fractions belong to taxable events only; lot-less exactly for income; a lot is an acquisition of the history made at or
    before the disposal's instant *)
Theorem fractions_belong_from_rows : forall fs evs, fractions_of gen_always_repush sched t = Ok fs -> taxable_events t = Ok evs ->
  forall f, In f fs ->
    exists x, In x evs /\ t_row x = f_ev f /\ (f_lot f = None <-> t_is_earning x = true) /\
              forall lr, f_lot f = Some lr -> exists a, In a (t_ins t) /\ i_row a = lr /\ in_us a <= t_us x.
Proof.
  intros fs evs HF HE f Hf. pose proof (built_wf _ _ _ _ BH HE) as WF. pose proof HF as HF0. unfold fractions_of in HF. rewrite HE in HF.
  destruct (m_only_events _ _ _ WF fs HF f Hf) as (e & He & Hrow & Hiff). destruct (event_of_in _ _ He) as (x & Hx & ->).
  cbn [event_of e_row e_earn] in *. exists x. split; [exact Hx|]. split; [exact Hrow|]. split; [exact Hiff|].
  intros lr Hl. destruct (In_nth_error _ _ Hf) as (k & Hk).
  destruct (order_from_rows fs HF0 k f lr Hk Hl) as (evs' & x' & a & y & m & HE' & Hx' & Hrow' & _ & Ha & Hlr & _ & Hus & _).
  rewrite HE in HE'. injection HE' as <-.
  assert (x' = x).
  { apply (NoDup_map_inj_Z t_row evs); [exact (taxable_events_rows_distinct _ _ HE)|exact Hx'|exact Hx|congruence]. }
  subst x'. exists a. auto.
Qed.

Lemma need_disposed evs j : need (map event_of evs) j = disposed (firstn (S j) evs).
Proof.
  unfold need, disposed. rewrite firstn_map, (filter_map_comm' event_of), map_map. reflexivity.
Qed.
Lemma have_acquired T : have (t_ins t) T = acquired_by t T.
Proof. reflexivity. Qed.

(** the run succeeds, or fails with "lots exhausted" and nothing else; it fails exactly when, at some disposal, the
    acquisitions made so far do not cover the disposals so far -- whatever the accounting method *)
Theorem outcome_from_rows : distinct_row_ids h ->
  exists evs, taxable_events t = Ok evs /\
    ((exists fs, fractions_of gen_always_repush sched t = Ok fs) \/ fractions_of gen_always_repush sched t = Err EExhausted) /\
    (fractions_of gen_always_repush sched t = Err EExhausted <->
     exists p x r, evs = p ++ x :: r /\ t_is_earning x = false /\ acquired_by t (t_us x) < disposed (p ++ [x])).
Proof.
  intros Hd. destruct (taxable_events_total h t (bh_build _ _ _ BH) Hd) as (evs & HE). exists evs. split; [exact HE|].
  pose proof (built_wf _ _ _ _ BH HE) as WF. unfold fractions_of. rewrite HE. split; [exact (m_total _ _ _ WF)|].
  rewrite (m_fails_iff _ _ _ WF). split.
  - intros (j & d & Hj & Hearn & Hlt). rewrite map_length in Hj.
    assert (Hd0 : exists x0 : txn, True) by (destruct evs as [|x0 ?]; [simpl in Hj; lia|exists x0; exact I]). destruct Hd0 as (x0 & _).
    rewrite (nth_indep _ d (event_of x0)) in Hearn, Hlt by (rewrite map_length; exact Hj). rewrite map_nth in Hearn, Hlt.
    cbn [event_of e_earn e_us] in Hearn, Hlt. rewrite need_disposed, have_acquired in Hlt.
    exists (firstn j evs), (nth j evs x0), (skipn (S j) evs).
    assert (Hsplit : firstn (S j) evs = firstn j evs ++ [nth j evs x0]).
    { clear -Hj. revert j Hj. induction evs as [|z l IH]; intros j Hj; [simpl in Hj; lia|]. destruct j as [|j]; [reflexivity|].
      simpl in Hj. cbn [firstn nth app]. f_equal. apply IH. lia. }
    split; [|split; [exact Hearn|rewrite <- Hsplit; exact Hlt]].
    rewrite <- (firstn_skipn (S j) evs) at 1. rewrite Hsplit, <- app_assoc. reflexivity.
  - intros (p & x & r & -> & Hearn & Hlt). exists (length p), (event_of x).
    assert (Hn : nth (length p) (map event_of (p ++ x :: r)) (event_of x) = event_of x) by (rewrite map_nth, app_nth2, Nat.sub_diag by lia; reflexivity).
    rewrite Hn. cbn [event_of e_earn e_us]. split; [rewrite map_length, app_length; simpl; lia|]. split; [exact Hearn|].
    rewrite need_disposed, have_acquired.
    replace (firstn (S (length p)) (p ++ x :: r)) with (p ++ [x]); [exact Hlt|].
    rewrite firstn_app, firstn_all2 by lia. replace (S (length p) - length p)%nat with 1%nat by lia. reflexivity.
Qed.
End Built.

(** * 5. a history extended by rows dated after T *)

Lemma mk_in_ts r a : mk_in r = Ok a -> i_ts a = ri_ts r.
Proof. intros H. exact (proj1 (proj2 (mk_in_fields r a H))). Qed.

Section Extend.
Variables (T : Z) (h h2 : hist) (t t2 : txs).
Hypothesis Hb : build h = Ok t.
Hypothesis Hb2 : build h2 = Ok t2.
Hypothesis Hext : rows_extend_after T h h2.

Lemma sort_filter_le {A} (key : A -> Z) l :
  sort_by key l = sort_by key (filter (fun x => key x <=? T) l) ++ sort_by key (filter (fun x => T <? key x) l).
Proof. apply sort_by_split. Qed.

Theorem build_extends : extends_after T t t2.
Proof.
  destruct Hext as (X1 & X2 & X3).
  destruct (build_inv _ _ Hb) as (ins & outs & intras & E1 & E2 & E3 & _ & _ & T1 & T2 & T3).
  destruct (build_inv _ _ Hb2) as (ins2 & outs2 & intras2 & F1 & F2 & F3 & _ & _ & U1 & U2 & U3).
  assert (I1 : ins = filter (fun a => in_us a <=? T) ins2).
  { rewrite X1 in E1. rewrite (map_result_filter mk_in _ (fun a => in_us a <=? T)) with (ys := ins2) in E1; [congruence| |exact F1].
    intros x y Hxy. unfold in_us. rewrite (mk_in_ts _ _ Hxy). reflexivity. }
  assert (I2 : outs = filter (fun a => out_us a <=? T) outs2).
  { rewrite X2 in E2. rewrite (map_result_filter mk_out _ (fun a => out_us a <=? T)) with (ys := outs2) in E2; [congruence| |exact F2].
    intros x y Hxy. unfold out_us. rewrite (proj1 (mk_out_ts _ _ Hxy)). reflexivity. }
  assert (I3 : intras = filter (fun a => intra_us a <=? T) intras2).
  { rewrite X3 in E3. rewrite (map_result_filter mk_intra _ (fun a => intra_us a <=? T)) with (ys := intras2) in E3; [congruence| |exact F3].
    intros x y Hxy. unfold intra_us. rewrite (proj1 (mk_intra_ts _ _ Hxy)). reflexivity. }
  exists (sort_by in_us (filter (fun a => T <? in_us a) ins2)), (sort_by out_us (filter (fun a => T <? out_us a) outs2)),
         (sort_by intra_us (filter (fun a => T <? intra_us a) intras2)).
  rewrite T1, T2, T3, U1, U2, U3, I1, I2, I3.
  split; [apply sort_filter_le|]. split; [apply sort_filter_le|]. split; [apply sort_filter_le|].
  repeat split; intros a Ha; apply sort_by_in in Ha; apply filter_In in Ha; lia.
Qed.

Lemma distinct_rows_restrict : distinct_row_ids h2 -> distinct_row_ids h.
Proof.
  destruct Hext as (X1 & X2 & X3). unfold distinct_row_ids. rewrite X1, X2, X3. intros H.
  destruct (NoDup_app_inv _ _ H) as (N1 & N23 & D1). destruct (NoDup_app_inv _ _ N23) as (N2 & N3 & D2).
  assert (S : forall {A} (f : A -> Z) p l x, In x (map f (filter p l)) -> In x (map f l)).
  { intros A f p l x Hx. apply in_map_iff in Hx. destruct Hx as (a & <- & Ha). apply filter_In in Ha. apply in_map, Ha. }
  apply NoDup_app_intro; [apply NoDup_map_filter; exact N1| |].
  - apply NoDup_app_intro; [apply NoDup_map_filter; exact N2|apply NoDup_map_filter; exact N3|].
    intros x Hx Hy. exact (D2 x (S _ _ _ _ _ Hx) (S _ _ _ _ _ Hy)).
  - intros x Hx Hy. apply (D1 x (S _ _ _ _ _ Hx)). apply in_app_or in Hy. apply in_or_app.
    destruct Hy as [Hy|Hy]; [left|right]; exact (S _ _ _ _ _ Hy).
Qed.
End Extend.

(** C09 from the rows: the fractions of the earlier history are an initial segment of the fractions of the extended one (the
    added fractions belong to added events); an earlier history that fails keeps failing with the same error *)
Theorem prefix_stable_from_rows : forall T sched h t h2 t2,
  built_history sched h t -> built_history sched h2 t2 -> rows_extend_after T h h2 -> distinct_row_ids h2 ->
  extends_after T t t2 /\
  exists evs evs2, taxable_events t = Ok evs /\ taxable_events t2 = Ok evs2 /\
  match fractions_of gen_always_repush sched t with
  | Ok fs1 => forall fs2, fractions_of gen_always_repush sched t2 = Ok fs2 ->
                exists fsX, fs2 = fs1 ++ fsX /\ forall f, In f fsX -> exists x, In x evs2 /\ T < t_us x /\ t_row x = f_ev f
  | Err e => fractions_of gen_always_repush sched t2 = Err e
  end.
Proof.
  intros T sched h t h2 t2 BH BH2 Hext Hd2.
  pose proof (build_extends T h h2 t t2 (bh_build _ _ _ BH) (bh_build _ _ _ BH2) Hext) as EA. split; [exact EA|].
  destruct (taxable_events_total h2 t2 (bh_build _ _ _ BH2) Hd2) as (evs2 & HE2).
  destruct (taxable_events_total h t (bh_build _ _ _ BH) (distinct_rows_restrict T h h2 Hext Hd2)) as (evs & HE).
  exists evs, evs2. split; [exact HE|]. split; [exact HE2|].
  exact (fractions_ext T sched t t2 evs evs2 EA HE HE2 (built_wf _ _ _ _ BH HE) (built_wf _ _ _ _ BH2 HE2)).
Qed.

(** ... and with it everything computed for the earlier events: detail table, running sums, yearly lines of closed years *)
Theorem later_rows_change_nothing : forall T period from_day to_day allow allow2 exs hos sched h t h2 t2 cd cd2,
  built_history sched h t -> built_history sched h2 t2 -> rows_extend_after T h h2 -> distinct_row_ids h2 ->
  compute_tax period from_day to_day allow exs hos sched t = Ok cd ->
  compute_tax period from_day to_day allow2 exs hos sched t2 = Ok cd2 ->
  exists ext, cd_all_gls cd2 = cd_all_gls cd ++ ext /\
    (forall g, In g ext -> T < t_us (g_ev g)) /\
    (exists rest, cd_gl_running cd2 = cd_gl_running cd ++ rest) /\
    forall Y, (forall g, In g ext -> Y < g_year g) ->
      filter (fun L => y_year L <=? Y) (cd_yearly cd) = filter (fun L => y_year L <=? Y) (cd_yearly cd2).
Proof.
  intros T period from_day to_day allow allow2 exs hos sched h t h2 t2 cd cd2 BH BH2 Hext Hd2 HC HC2.
  pose proof (build_extends T h h2 t t2 (bh_build _ _ _ BH) (bh_build _ _ _ BH2) Hext) as EA.
  destruct (taxable_events_total h2 t2 (bh_build _ _ _ BH2) Hd2) as (evs2 & HE2).
  destruct (taxable_events_total h t (bh_build _ _ _ BH) (distinct_rows_restrict T h h2 Hext Hd2)) as (evs & HE).
  destruct (later_transactions_change_nothing T period from_day to_day allow allow2 exs hos sched t t2 evs evs2 cd cd2 EA HE HE2
              (built_wf _ _ _ _ BH HE) (built_wf _ _ _ _ BH2 HE2) HC HC2) as (ext & H1 & H2 & H3 & H4).
  exists ext. split; [exact H1|]. split; [intros g Hg; exact (proj2 (proj2 (H2 g Hg)))|]. split; [exact H3|exact H4].
Qed.

(** * 6. sell-all, from the rows: a final disposal of exactly the remaining holding, dated after every row of the history *)

Lemma sumZ_rem_balance lots fs : sumZ (map (rem_after lots fs) (seq 0 (length lots))) = sumZ (map (lot_balance fs) lots).
Proof. f_equal. exact (map_seq_nth (lot_balance fs) dummy_lot lots). Qed.

Theorem sell_all_from_rows : forall sched h t fs r t2 o,
  built_history sched h t -> fractions_of gen_always_repush sched t = Ok fs ->
  built_history sched (with_final_out h r) t2 -> distinct_row_ids (with_final_out h r) ->
  all_rows_before h (utc_us (ro_ts r)) ->
  mk_out r = Ok o -> o_crypto_out_with_fee o = sumZ (map (lot_balance fs) (t_ins t)) ->
  t_ins t2 = t_ins t /\
  exists fs', fractions_of gen_always_repush sched t2 = Ok (fs ++ fs') /\
              (forall a, In a (t_ins t2) -> lot_balance (fs ++ fs') a = 0).
Proof.
  intros sched h t fs r t2 o BH HF BH2 Hd2 (B1 & B2 & B3) Hmk Hamt.
  pose proof (bh_build _ _ _ BH) as Hb. pose proof (bh_build _ _ _ BH2) as Hb2.
  destruct (build_inv _ _ Hb) as (ins & outs & intras & E1 & E2 & E3 & _ & _ & T1 & T2 & T3).
  destruct (build_inv _ _ Hb2) as (ins2 & outs2 & intras2 & F1 & F2 & F3 & _ & _ & U1 & U2 & U3).
  cbn [with_final_out h_ins h_outs h_intras] in F1, F2, F3.
  assert (ins2 = ins) by congruence. assert (intras2 = intras) by congruence. subst ins2 intras2.
  destruct (map_result_app mk_out _ _ _ F2) as (ya & yb & Ea & Eb & ->). assert (ya = outs) by congruence. subst ya.
  simpl in Eb. rewrite Hmk in Eb. injection Eb as <-.
  set (T := utc_us (ro_ts r)) in *.
  assert (Ho : out_us o = T) by (unfold out_us; rewrite (proj1 (mk_out_ts _ _ Hmk)); reflexivity).
  assert (O1 : forall a, In a outs -> out_us a < T).
  { intros a Ha. destruct (map_result_in mk_out _ _ a E2 Ha) as (x & Hx & Hm). unfold out_us. rewrite (proj1 (mk_out_ts _ _ Hm)). exact (B2 x Hx). }
  assert (I1 : forall a, In a ins -> in_us a < T).
  { intros a Ha. destruct (map_result_in mk_in _ _ a E1 Ha) as (x & Hx & Hm). unfold in_us. rewrite (mk_in_ts _ _ Hm). exact (B1 x Hx). }
  assert (X1 : forall a, In a intras -> intra_us a < T).
  { intros a Ha. destruct (map_result_in mk_intra _ _ a E3 Ha) as (x & Hx & Hm). unfold intra_us. rewrite (proj1 (mk_intra_ts _ _ Hm)). exact (B3 x Hx). }
  assert (V1 : t_ins t2 = t_ins t) by congruence. assert (V3 : t_intras t2 = t_intras t) by congruence.
  assert (V2 : t_outs t2 = t_outs t ++ [o]).
  { rewrite U2, T2. rewrite sort_by_app_lt; [reflexivity|]. intros x y Hx [<-|[]]. rewrite Ho. exact (O1 x Hx). }
  split; [exact V1|].
  destruct (fractions_events _ _ _ HF) as (evs & HE).
  destruct (taxable_events_total _ t2 Hb2 Hd2) as (evs2 & HE2).
  (* the taxable events of the extended history: the old ones, then the final disposal *)
  assert (HEV : evs2 = evs ++ [TOut o]).
  { rewrite (taxable_events_eq _ _ HE2), (taxable_events_eq _ _ HE).
    assert (HU : Permutation (taxable_unsorted t2) (taxable_unsorted t ++ [TOut o]) /\
                 forall k, filter (fun x => t_us x =? k) (taxable_unsorted t2) = filter (fun x => t_us x =? k) (taxable_unsorted t ++ [TOut o])).
    { unfold taxable_unsorted. rewrite V1, V2, V3. rewrite filter_app, map_app. cbn [filter].
      rewrite (proj1 (out_always_taxable o)). cbn [map]. split.
      - rewrite <- !app_assoc. apply Permutation_app_head. apply Permutation_app_head. apply Permutation_app_comm.
      - intros k. rewrite !filter_app. cbn [filter]. destruct (t_us (TOut o) =? k) eqn:Ek.
        + rewrite (filter_none _ (map TIntra (filter intra_is_taxable (t_intras t)))); [rewrite !app_nil_r, <- ?app_assoc; reflexivity|].
          intros x Hx. apply in_map_iff in Hx. destruct Hx as (a & <- & Ha). apply filter_In in Ha. destruct Ha as [Ha _].
          rewrite T3 in Ha. apply sort_by_in in Ha. specialize (X1 a Ha). unfold t_us in *. cbn [t_ts] in *. unfold intra_us, out_us in *. lia.
        + rewrite !app_nil_r, <- ?app_assoc. reflexivity. }
    destruct HU as (HP & HK).
    symmetry. apply stable_sort_unique.
    - eapply perm_trans; [exact HP|]. apply Permutation_app_tail, Permutation_sym, sort_by_perm.
    - apply sorted_app; [apply sort_by_sorted|repeat constructor|].
      intros x y Hx [<-|[]]. apply sort_by_in in Hx.
      assert (Hlt : t_us x < T).
      { apply taxable_unsorted_iff in Hx.
        destruct Hx as [(a & -> & Ha & _)|[(a & -> & Ha)|(a & -> & Ha & _)]].
        - rewrite T1 in Ha. apply sort_by_in in Ha. exact (I1 a Ha).
        - rewrite T2 in Ha. apply sort_by_in in Ha. exact (O1 a Ha).
        - rewrite T3 in Ha. apply sort_by_in in Ha. exact (X1 a Ha). }
      change (t_us (TOut o)) with (out_us o). lia.
    - intros k. rewrite HK, !filter_app, sort_by_stable. reflexivity. }
  pose proof (built_wf _ _ _ _ BH HE) as WF. pose proof (built_wf _ _ _ _ BH2 HE2) as WF2.
  rewrite HEV, map_app, V1 in WF2. cbn [map] in WF2.
  unfold fractions_of in HF. rewrite HE in HF. unfold fractions_of. rewrite HE2, HEV, map_app, V1. cbn [map].
  assert (MS : exists fs', run_matcher gen_always_repush (t_ins t) sched (map event_of evs ++ [event_of (TOut o)]) = Ok (fs ++ fs') /\
                           forall i, (i < length (t_ins t))%nat -> rem_after (t_ins t) (fs ++ fs') i = 0);
    [|destruct MS as (fs' & HR & Hz); exists fs'; split; [exact HR|]; intros a Ha; destruct (In_nth _ _ dummy_lot Ha) as (i & Hi & Hnth);
      specialize (Hz i Hi); unfold rem_after, lotn in Hz; rewrite Hnth in Hz; exact Hz].
  apply (m_sell_all (t_ins t) sched (map event_of evs) fs WF HF (event_of (TOut o))); [reflexivity|exact WF2| |].
  - intros i Hi. cbn [event_of e_us]. change (t_us (TOut o)) with (out_us o). rewrite Ho.
    assert (Hin : In (lotn (t_ins t) i) ins) by (apply (sort_by_in in_us); rewrite <- T1; apply nth_In; exact Hi).
    specialize (I1 _ Hin). unfold lot_us, in_us in *. lia.
  - cbn [event_of e_amt]. rewrite change_TOut, Hamt, sumZ_rem_balance. reflexivity.
Qed.

(** the ranking spelled out *)
Lemma ranking_from_rows : forall a b,
  (ranks_before Fifo a b <-> in_us a < in_us b \/ (in_us a = in_us b /\ i_row a < i_row b)) /\
  (ranks_before Lifo a b <-> in_us b < in_us a \/ (in_us b = in_us a /\ i_row b < i_row a)) /\
  (ranks_before Hifo a b <-> i_spot b < i_spot a \/ (i_spot a = i_spot b /\ (in_us a < in_us b \/ (in_us a = in_us b /\ i_row a < i_row b)))) /\
  (ranks_before Lofo a b <-> i_spot a < i_spot b \/ (i_spot a = i_spot b /\ (in_us a < in_us b \/ (in_us a = in_us b /\ i_row a < i_row b)))).
Proof. intros a b. unfold ranks_before, older. repeat split; tauto. Qed.
