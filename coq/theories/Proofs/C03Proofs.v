(** C03: exactly the taxable transactions become taxable events. *)
From RP2V Require Import Base.Prelude Base.Time Base.Dec Base.Sorting Model.Types Model.Generated Model.Txn
  Model.Matcher Model.MatchSpec Model.Pipeline Proofs.SortingProofs.
From Coq Require Import Permutation.
Open Scope Z_scope.

(** the earn-typed transaction types are exactly the seven of the property text *)
Lemma earn_types_exact t :
  is_earn_type t = true <->
  t = AIRDROP \/ t = HARDFORK \/ t = INCOME \/ t = INTEREST \/ t = MINING \/ t = STAKING \/ t = WAGES.
Proof.
  split.
  - destruct t; cbv; intro H; try discriminate; tauto.
  - intros [->|[->|[->|[->|[->|[->| ->]]]]]]; reflexivity.
Qed.

Lemma in_allowed_exact t :
  in_type_allowed t = true <-> t = BUY \/ t = GIFT \/ t = DONATE \/ is_earn_type t = true.
Proof.
  split.
  - destruct t; cbv; intro H; try discriminate; tauto.
  - intros [->|[->|[->|H]]]; try reflexivity. destruct t; cbv in H |- *; congruence.
Qed.

Lemma out_allowed_exact t :
  out_type_allowed t = true <-> t = DONATE \/ t = FEE \/ t = GIFT \/ t = LOST \/ t = SELL \/ t = STAKING.
Proof.
  split.
  - destruct t; cbv; intro H; try discriminate; tauto.
  - intros [->|[->|[->|[->|[->| ->]]]]]; reflexivity.
Qed.

(** which transactions are taxable, class by class *)
Lemma in_taxable_iff a : in_is_taxable a = true <-> is_earn_type (i_type a) = true.
Proof. reflexivity. Qed.
Lemma in_earning_iff a : in_is_earning a = in_is_taxable a.
Proof. reflexivity. Qed.
Lemma out_always_taxable a : out_is_taxable a = true /\ out_is_earning a = false.
Proof. split; reflexivity. Qed.
(** (which transfers [intra_is_taxable] selects is read from the source: Proofs/TransferFee.v, [code_intra_taxable_iff_fee]) *)
Lemma intra_never_earning a : intra_is_earning a = false.
Proof. reflexivity. Qed.

(** the amount to match: what leaves (or enters) the holder *)
Lemma amounts_matched :
  (forall a, in_crypto_balance_change a = i_crypto_in a) /\
  (forall a, out_crypto_balance_change a = o_crypto_out_with_fee a) /\
  (forall a, intra_crypto_balance_change a = x_crypto_fee a).
Proof. repeat split. Qed.

(** membership in the taxable-event set, whatever the transfer-fee rule of the source is *)
Lemma taxable_unsorted_iff (t : txs) (e : txn) :
  In e (taxable_unsorted t) <->
  (exists a, e = TIn a /\ In a (t_ins t) /\ is_earn_type (i_type a) = true) \/
  (exists a, e = TOut a /\ In a (t_outs t)) \/
  (exists a, e = TIntra a /\ In a (t_intras t) /\ intra_is_taxable a = true).
Proof.
  unfold taxable_unsorted. rewrite !in_app_iff, !in_map_iff. split.
  - intros [[a [<- H]]|[[a [<- H]]|[a [<- H]]]]; apply filter_In in H; destruct H as [H1 H2].
    + left; exists a; auto.
    + right; left; exists a; auto.
    + right; right; exists a; auto.
  - intros [[a [-> [H1 H2]]]|[[a [-> H1]]|[a [-> [H1 H2]]]]].
    + left; exists a; split; auto. apply filter_In; auto.
    + right; left; exists a; split; auto. apply filter_In; split; auto.
    + right; right; exists a; split; auto. apply filter_In; auto.
Qed.

Theorem taxable_events_iff (t : txs) evs (e : txn) :
  taxable_events t = Ok evs ->
  (In e evs <->
   (exists a, e = TIn a /\ In a (t_ins t) /\ is_earn_type (i_type a) = true) \/
   (exists a, e = TOut a /\ In a (t_outs t)) \/
   (exists a, e = TIntra a /\ In a (t_intras t) /\ intra_is_taxable a = true)).
Proof.
  unfold taxable_events. destruct (has_dup _) eqn:D; [discriminate|]. intros [= <-].
  rewrite sort_by_in. apply taxable_unsorted_iff.
Qed.

(** nothing dropped, nothing duplicated: the event list is a permutation of the selected transactions *)
Theorem taxable_events_perm (t : txs) evs :
  taxable_events t = Ok evs -> Permutation evs (taxable_unsorted t).
Proof.
  unfold taxable_events. destruct (has_dup _); [discriminate|]. intros [= <-]. apply sort_by_perm.
Qed.

Lemma has_dup_false_NoDup l : has_dup l = false -> NoDup l.
Proof.
  induction l as [|x l IH]; cbn [has_dup]; intro H; [constructor|].
  apply orb_false_iff in H. destruct H as [H1 H2]. constructor; auto.
  intro Hin. assert (existsb (Z.eqb x) l = true) as E.
  { apply existsb_exists. exists x. split; auto. apply Z.eqb_refl. }
  congruence.
Qed.

Theorem taxable_events_rows_distinct (t : txs) evs :
  taxable_events t = Ok evs -> NoDup (map t_row evs).
Proof.
  unfold taxable_events. destruct (has_dup _) eqn:D; [discriminate|]. intros [= <-].
  apply has_dup_false_NoDup in D.
  eapply Permutation_NoDup; [|exact D]. apply Permutation_map. apply Permutation_sym, sort_by_perm.
Qed.

(** event type = transaction type, amount = full amount of the transaction *)
Lemma event_of_faithful e :
  e_row (event_of e) = t_row e /\ e_amt (event_of e) = t_balance_change e /\ e_earn (event_of e) = t_is_earning e.
Proof. repeat split. Qed.
