(** C11 (c)-(e): the table state machine over keyword / header / data / TABLE END / blank rows, the
    composition over the tables of a sheet in any order, and the theorem [parse_render]. *)
From RP2V Require Import Base.Prelude Base.Time Base.Dec Base.Sorting Model.Types Model.Generated Model.Txn Model.Parser Model.Render
  Proofs.ParserLookup Proofs.ParserRows.
Open Scope Z_scope.

Definition st_of (cur : option table) (cnt : Z) (seen : list table) (a : acc) : pstate :=
  {| ps_cur := cur; ps_count := cnt; ps_ins := a_ins a; ps_outs := a_outs a; ps_intras := a_intras a;
     ps_art := a_art a; ps_counter := a_counter a; ps_meta := a_meta a; ps_seen := seen |}.

Lemma meta_of_args h fc f : args_of h fc f = meta_arg h f (fc f).
Proof. reflexivity. Qed.

(** ---------- one data row *)
Lemma data_row_render cfg asset ai cur cnt seen a a' rowno w r junk :
  wf_header (header_of cfg (srow_tab r)) w ->
  (forall f, In f (mandatory_of (srow_tab r)) -> mapped (header_of cfg (srow_tab r)) f = true) ->
  str_index asset (pc_assets cfg) 0 = Some ai -> srow_ok r = true ->
  expect_row cfg a rowno r = Ok a' ->
  data_row cfg asset (st_of cur cnt seen a) (srow_tab r) rowno (render_row (header_of cfg (srow_tab r)) w (srow_cell asset r) junk)
  = Ok (st_of cur cnt seen a').
Proof.
  intros WF M A OK E.
  assert (AS : forall h fc, wf_header h w -> mapped h 1 = true -> fc 1 = CStr asset ->
               asset_is cfg h (render_row h w fc junk) asset = true).
  { intros h fc W Mp F. unfold asset_is. rewrite (get_arg_render _ _ _ _ _ W), (args_of_mapped _ _ _ Mp), F. apply str_eqb_refl. }
  destruct r as [s|s|s]; simpl in *.
  - unfold expect_row in E. destruct (raw_of_in cfg rowno s) as [raw|] eqn:R; [|discriminate].
    unfold data_row. rewrite (create_in_render _ _ _ _ _ _ _ _ WF M A OK R). simpl bind.
    destruct (mk_in raw) as [tx|e] eqn:K; simpl bind in *; [|discriminate].
    rewrite AS by (auto; apply M; cbv; tauto). simpl negb. cbv iota.
    rewrite !(get_arg_render _ _ _ _ _ WF), !meta_of_args.
    change (in_cell asset s 11) with (si_uid s). change (in_cell asset s 12) with (si_notes s).
    destruct (0 <? i_crypto_fee tx).
    + destruct (split_in tx) as [tx'|e] eqn:S; simpl bind in *; [|discriminate].
      destruct (fee_out tx (a_counter a - 1)) as [o|e] eqn:FO; simpl bind in *; [|discriminate].
      inversion E; subst a'. reflexivity.
    + inversion E; subst a'. reflexivity.
  - unfold expect_row in E. destruct (raw_of_out cfg rowno s) as [raw|] eqn:R; [|discriminate].
    unfold data_row. rewrite (create_out_render _ _ _ _ _ _ _ _ WF M A OK R). simpl bind.
    destruct (mk_out raw) as [tx|e] eqn:K; simpl bind in *; [|discriminate].
    rewrite AS by (auto; apply M; cbv; tauto). simpl negb. cbv iota.
    rewrite !(get_arg_render _ _ _ _ _ WF), !meta_of_args.
    change (out_cell asset s 11) with (so_uid s). change (out_cell asset s 12) with (so_notes s).
    inversion E; subst a'. reflexivity.
  - unfold expect_row in E. destruct (raw_of_intra cfg rowno s) as [raw|] eqn:R; [|discriminate].
    unfold data_row. rewrite (create_intra_render _ _ _ _ _ _ _ _ WF M A OK R). simpl bind.
    destruct (mk_intra raw) as [tx|e] eqn:K; simpl bind in *; [|discriminate].
    rewrite AS by (auto; apply M; cbv; tauto). simpl negb. cbv iota.
    rewrite !(get_arg_render _ _ _ _ _ WF), !meta_of_args.
    change (intra_cell asset s 9) with (sx_uid s). change (intra_cell asset s 10) with (sx_notes s).
    inversion E; subst a'. reflexivity.
Qed.

(** ---------- classification of first cells *)
Lemma table_end_not_kw : table_of_cell (CStr TABLE_END) = None.
Proof. vm_compute. reflexivity. Qed.

Lemma empty_cell_facts c : is_empty_cell c = true -> table_of_cell c = None /\ is_table_end c = false.
Proof.
  destruct c as [|s| |]; simpl; try discriminate; auto.
  destruct s; [|discriminate]. intros _. split; vm_compute; reflexivity.
Qed.

Lemma table_end_facts c : is_table_end c = true -> table_of_cell c = None /\ is_empty_cell c = false.
Proof.
  destruct c as [|s| |]; simpl; try discriminate. intro H. apply str_eqb_eq in H. subst s. split.
  - exact table_end_not_kw.
  - vm_compute. reflexivity.
Qed.

Lemma kw_facts c t : table_of_cell c = Some t -> is_empty_cell c = false /\ is_table_end c = false.
Proof.
  intro H. split.
  - destruct (is_empty_cell c) eqn:E; [|reflexivity]. apply empty_cell_facts in E. destruct E as [E _]. congruence.
  - destruct (is_table_end c) eqn:E; [|reflexivity]. apply table_end_facts in E. destruct E as [E _]. congruence.
Qed.

Lemma first_ok_facts c : first_ok c = true -> is_empty_cell c = false /\ is_table_end c = false /\ table_of_cell c = None.
Proof.
  unfold first_ok. intro H. apply andb_true_iff in H. destruct H as [H H3]. apply andb_true_iff in H. destruct H as [H1 H2].
  apply negb_true_iff in H1. apply negb_true_iff in H2. destruct (table_of_cell c); [discriminate|]. auto.
Qed.

Definition tab_empty (a : acc) (t : table) : bool :=
  match t with
  | TabIn => match a_ins a with [] => true | _ => false end
  | TabOut => match a_outs a with [] => true | _ => false end
  | TabIntra => match a_intras a with [] => true | _ => false end
  end.

(** ---------- one sheet row of each kind *)
Lemma step_blank cfg asset cnt seen a rowno r : is_blank_row r = true ->
  row_step cfg asset (st_of None cnt seen a) rowno r = Ok (st_of None (cnt + 1) seen a).
Proof.
  unfold is_blank_row. intro H. destruct (empty_cell_facts _ H) as [K E].
  unfold row_step, row_step_gen. simpl ps_cur. rewrite K, E, H. simpl. reflexivity.
Qed.

Lemma table_eqb_eq a b : table_eqb a b = true <-> a = b.
Proof. destruct a, b; simpl; split; intro H; try reflexivity; try discriminate. Qed.

Lemma step_kw cfg asset cnt seen a rowno r t : table_of_cell (nth 0 r CEmpty) = Some t -> tab_empty a t = true -> seen_has t seen = false ->
  row_step cfg asset (st_of None cnt seen a) rowno r = Ok (st_of (Some t) 1 (t :: seen) a).
Proof.
  intros H TE SH. destruct (kw_facts _ _ H) as [E1 E2].
  assert (S : repeated_table gen_parser_remembers_tables (st_of None cnt seen a) t = false).
  { unfold repeated_table. destruct gen_parser_remembers_tables; [exact SH|]. destruct t; simpl; simpl in TE; rewrite TE; reflexivity. }
  unfold row_step, row_step_gen. cbv zeta. cbn [ps_cur st_of]. rewrite H, E1, E2. cbn [orb andb negb]. fold (st_of None cnt seen a). rewrite S. reflexivity.
Qed.

Lemma step_hdr cfg asset seen a rowno r t : first_ok (nth 0 r CEmpty) = true -> constructs cfg t rowno r = false ->
  row_step cfg asset (st_of (Some t) 1 seen a) rowno r = Ok (st_of (Some t) 2 seen a).
Proof.
  intros F C. destruct (first_ok_facts _ F) as [E1 [E2 E3]].
  unfold row_step, row_step_gen. simpl ps_cur. rewrite E3, E1, E2. simpl. rewrite C. reflexivity.
Qed.

Lemma step_end cfg asset cnt seen a rowno r t : is_table_end (nth 0 r CEmpty) = true ->
  row_step cfg asset (st_of (Some t) cnt seen a) rowno r = Ok (st_of None (cnt + 1) seen a).
Proof.
  intro H. destruct (table_end_facts _ H) as [K E].
  unfold row_step, row_step_gen. simpl ps_cur. rewrite K, E, H. simpl. reflexivity.
Qed.

Lemma step_data cfg asset ai cnt seen a a' rowno w r junk :
  2 <= cnt ->
  wf_header (header_of cfg (srow_tab r)) w ->
  (forall f, In f (mandatory_of (srow_tab r)) -> mapped (header_of cfg (srow_tab r)) f = true) ->
  str_index asset (pc_assets cfg) 0 = Some ai -> srow_ok r = true ->
  first_ok (nth 0 (render_row (header_of cfg (srow_tab r)) w (srow_cell asset r) junk) CEmpty) = true ->
  expect_row cfg a rowno r = Ok a' ->
  row_step cfg asset (st_of (Some (srow_tab r)) cnt seen a) rowno (render_row (header_of cfg (srow_tab r)) w (srow_cell asset r) junk)
  = Ok (st_of (Some (srow_tab r)) (cnt + 1) seen a').
Proof.
  intros C WF M A OK F E. destruct (first_ok_facts _ F) as [E1 [E2 E3]].
  unfold row_step, row_step_gen. simpl ps_cur. rewrite E3, E1, E2. simpl orb. cbv iota. simpl ps_count.
  destruct (cnt =? 1) eqn:C1; [apply Z.eqb_eq in C1; lia|].
  rewrite (data_row_render _ _ _ _ _ _ _ _ _ _ _ _ WF M A OK E). reflexivity.
Qed.

(** ---------- sequences of rows *)
Lemma parse_rows_cons cfg asset s n r t :
  parse_rows cfg asset s n (r :: t) = match row_step cfg asset s n r with Err e => Err e | Ok s' => parse_rows cfg asset s' (n + 1) t end.
Proof. reflexivity. Qed.

Lemma rows_blank cfg asset : forall gap cnt seen a rowno rest,
  (forall r, In r gap -> is_blank_row r = true) ->
  parse_rows cfg asset (st_of None cnt seen a) rowno (gap ++ rest)
  = parse_rows cfg asset (st_of None (cnt + Z.of_nat (length gap)) seen a) (rowno + Z.of_nat (length gap)) rest.
Proof.
  induction gap as [|r gap IH]; intros cnt seen a rowno rest H.
  - simpl. rewrite !Z.add_0_r. reflexivity.
  - rewrite <- app_comm_cons, parse_rows_cons, step_blank by (apply H; left; reflexivity).
    rewrite IH by (intros r' Hr; apply H; right; exact Hr).
    simpl length. rewrite Nat2Z.inj_succ. f_equal; [f_equal|]; lia.
Qed.

Definition render_data (cfg : pcfg) (asset : str) (t : table) (w : nat) (rows : list (srow * (nat -> cell))) : list (list cell) :=
  map (fun rj => render_row (header_of cfg t) w (srow_cell asset (fst rj)) (snd rj)) rows.

Lemma rows_data cfg asset ai w t seen : forall rows cnt a a' rowno rest,
  2 <= cnt -> wf_header (header_of cfg t) w ->
  (forall f, In f (mandatory_of t) -> mapped (header_of cfg t) f = true) ->
  str_index asset (pc_assets cfg) 0 = Some ai ->
  (forall rj, In rj rows -> srow_tab (fst rj) = t /\ srow_ok (fst rj) = true) ->
  (forall rj, In rj rows -> first_ok (nth 0 (render_row (header_of cfg t) w (srow_cell asset (fst rj)) (snd rj)) CEmpty) = true) ->
  expect_rows cfg a rowno rows = Ok a' ->
  parse_rows cfg asset (st_of (Some t) cnt seen a) rowno (render_data cfg asset t w rows ++ rest)
  = parse_rows cfg asset (st_of (Some t) (cnt + Z.of_nat (length rows)) seen a') (rowno + Z.of_nat (length rows)) rest.
Proof.
  induction rows as [|rj rows IH]; intros cnt a a' rowno rest C WF M A TO F E.
  - simpl in E. inversion E; subst. simpl. rewrite !Z.add_0_r. reflexivity.
  - simpl in E. destruct (expect_row cfg a rowno (fst rj)) as [a1|e] eqn:E1; [|discriminate].
    destruct (TO rj (or_introl eq_refl)) as [T O].
    unfold render_data. simpl map. rewrite <- app_comm_cons, parse_rows_cons.
    subst t.
    rewrite (step_data _ _ _ _ seen _ _ _ _ _ _ C WF M A O (F rj (or_introl eq_refl)) E1).
    fold (render_data cfg asset (srow_tab (fst rj)) w rows).
    rewrite (IH (cnt + 1) a1 a' (rowno + 1) rest); auto; try lia.
    + simpl length. rewrite Nat2Z.inj_succ. f_equal; [f_equal|]; lia.
    + intros rj' H'. apply TO. right; exact H'.
    + intros rj' H'. apply F. right; exact H'.
Qed.

Lemma block_parse cfg asset ai b cnt seen a a' rowno rest :
  wf_block cfg asset rowno b -> str_index asset (pc_assets cfg) 0 = Some ai -> tab_empty a (b_tab b) = true ->
  seen_has (b_tab b) seen = false ->
  expect_rows cfg a (rowno + Z.of_nat (length (b_gap b)) + 2) (b_rows b) = Ok a' ->
  exists cnt', parse_rows cfg asset (st_of None cnt seen a) rowno (render_block cfg asset b ++ rest)
               = parse_rows cfg asset (st_of None cnt' (b_tab b :: seen) a') (rowno + block_len b) rest.
Proof.
  intros W A TE SH E. destruct W as [WH WM WG WK WF WC WT WR WE].
  unfold render_block. rewrite <- !app_assoc.
  rewrite rows_blank by assumption.
  simpl app. rewrite parse_rows_cons, (step_kw _ _ _ _ _ _ _ _ WK TE SH).
  rewrite parse_rows_cons.
  rewrite (step_hdr _ _ _ _ _ _ _ WF WC).
  fold (render_data cfg asset (b_tab b) (b_width b) (b_rows b)).
  replace (rowno + Z.of_nat (length (b_gap b)) + 1 + 1) with (rowno + Z.of_nat (length (b_gap b)) + 2) by lia.
  rewrite (rows_data cfg asset ai (b_width b) (b_tab b) (b_tab b :: seen) (b_rows b) 2 a a' _ ([b_end b] ++ rest)); auto; try lia.
  simpl app. rewrite parse_rows_cons, (step_end _ _ _ _ _ _ _ _ WE).
  eexists. f_equal. unfold block_len. lia.
Qed.

Fixpoint blocks_len (l : list block) : Z := match l with [] => 0 | b :: t => block_len b + blocks_len t end.

Lemma expect_row_other cfg a a' rowno r t' : expect_row cfg a rowno r = Ok a' -> t' <> srow_tab r -> tab_empty a' t' = tab_empty a t'.
Proof.
  intros E N. destruct r as [s|s|s]; simpl in *.
  - destruct (raw_of_in cfg rowno s); [|discriminate]. destruct (mk_in r); simpl bind in E; [|discriminate].
    destruct (0 <? i_crypto_fee a0).
    + destruct (split_in a0); simpl bind in E; [|discriminate]. destruct (fee_out a0 (a_counter a - 1)); simpl bind in E; [|discriminate].
      inversion E; subst. destruct t'; try reflexivity. congruence.
    + inversion E; subst. destruct t'; try reflexivity. congruence.
  - destruct (raw_of_out cfg rowno s); [|discriminate]. destruct (mk_out r); simpl bind in E; [|discriminate].
    inversion E; subst. destruct t'; try reflexivity. congruence.
  - destruct (raw_of_intra cfg rowno s); [|discriminate]. destruct (mk_intra r); simpl bind in E; [|discriminate].
    inversion E; subst. destruct t'; try reflexivity. congruence.
Qed.

Lemma expect_rows_other cfg t t' : forall rows a a' rowno,
  (forall rj, In rj rows -> srow_tab (fst rj) = t) -> t' <> t ->
  expect_rows cfg a rowno rows = Ok a' -> tab_empty a' t' = tab_empty a t'.
Proof.
  induction rows as [|rj rows IH]; intros a a' rowno T N E; simpl in E.
  - inversion E; reflexivity.
  - destruct (expect_row cfg a rowno (fst rj)) as [a1|] eqn:E1; [|discriminate].
    rewrite (IH a1 a' (rowno + 1)); auto.
    + apply (expect_row_other _ _ _ _ _ _ E1). rewrite (T rj (or_introl eq_refl)). exact N.
    + intros rj' H. apply T. right; exact H.
Qed.

Lemma tab_code_inj t t' : tab_code t = tab_code t' -> t = t'.
Proof. destruct t, t'; simpl; intro H; try reflexivity; discriminate. Qed.

(** the table types begun after the blocks, most recent first *)
Definition seen_after (blocks : list block) (seen : list table) : list table := rev (map b_tab blocks) ++ seen.

Lemma blocks_parse cfg asset ai : forall blocks cnt seen a a' rowno rest,
  wf_blocks cfg asset rowno blocks -> str_index asset (pc_assets cfg) 0 = Some ai ->
  NoDup (map (fun b => tab_code (b_tab b)) blocks) ->
  (forall b, In b blocks -> tab_empty a (b_tab b) = true /\ seen_has (b_tab b) seen = false) ->
  expect_blocks cfg a rowno blocks = Ok a' ->
  exists cnt', parse_rows cfg asset (st_of None cnt seen a) rowno (flat_map (render_block cfg asset) blocks ++ rest)
               = parse_rows cfg asset (st_of None cnt' (seen_after blocks seen) a') (rowno + blocks_len blocks) rest.
Proof.
  induction blocks as [|b blocks IH]; intros cnt seen a a' rowno rest W A ND TE E.
  - simpl in E. inversion E; subst. exists cnt. simpl. rewrite Z.add_0_r. reflexivity.
  - simpl in E, W. destruct W as [Wb W].
    destruct (expect_rows cfg a (rowno + Z.of_nat (length (b_gap b)) + 2) (b_rows b)) as [a1|] eqn:E1; [|discriminate].
    simpl flat_map. rewrite <- app_assoc.
    destruct (TE b (or_introl eq_refl)) as [TE1 TE2].
    destruct (block_parse cfg asset ai b cnt seen a a1 rowno (flat_map (render_block cfg asset) blocks ++ rest) Wb A TE1 TE2 E1) as [c1 P1].
    rewrite P1.
    inversion ND as [|x l Hnot ND']; subst.
    destruct (IH c1 (b_tab b :: seen) a1 a' (rowno + block_len b) rest W A ND') as [c2 P2]; auto.
    + intros b' Hb'.
      assert (NEQ : b_tab b' <> b_tab b).
      { intro Heq. apply Hnot. rewrite <- Heq. apply (in_map (fun b0 => tab_code (b_tab b0))). exact Hb'. }
      split.
      * rewrite (expect_rows_other cfg (b_tab b) (b_tab b') (b_rows b) a a1 _
                   ltac:(intros rj Hr; destruct Wb as [_ _ _ _ _ _ WT _ _]; apply (WT rj Hr)) NEQ E1).
        apply TE. right; exact Hb'.
      * simpl. destruct (table_eqb (b_tab b') (b_tab b)) eqn:TB; [apply table_eqb_eq in TB; contradiction|].
        simpl. apply TE. right; exact Hb'.
    + exists c2. rewrite P2. simpl blocks_len. unfold seen_after. simpl map. simpl rev. rewrite <- app_assoc. simpl app.
      f_equal. lia.
Qed.

(** ---------- the theorem *)
Theorem parse_render cfg asset ai counter blocks trailing p :
  str_index asset (pc_assets cfg) 0 = Some ai ->
  wf_blocks cfg asset 1 blocks ->
  NoDup (map (fun b => tab_code (b_tab b)) blocks) ->
  (forall r, In r trailing -> is_blank_row r = true) ->
  expected cfg counter blocks = Ok p -> pa_ins p <> [] ->
  parse_sheet cfg asset counter (render_sheet cfg asset blocks trailing) = Ok p.
Proof.
  intros A W ND TR E NE. unfold expected in E.
  destruct (expect_blocks cfg (acc0 counter) 1 blocks) as [a|] eqn:EB; [|discriminate]. inversion E; subst p; clear E.
  unfold parse_sheet, parse_sheet_gen. rewrite A. unfold render_sheet.
  change (parse_rows_gen gen_parser_remembers_tables) with parse_rows.
  change {| ps_cur := None; ps_count := 0; ps_ins := []; ps_outs := []; ps_intras := []; ps_art := []; ps_counter := counter; ps_meta := [];
            ps_seen := [] |}
    with (st_of None 0 [] (acc0 counter)).
  destruct (blocks_parse cfg asset ai blocks 0 [] (acc0 counter) a 1 trailing W A ND) as [c P]; auto.
  { intros b _. split; [destruct (b_tab b); reflexivity | reflexivity]. }
  rewrite P.
  rewrite <- (app_nil_r trailing), rows_blank by assumption.
  unfold parse_rows. simpl parse_rows_gen. unfold st_of, parsed_of. simpl.
  simpl in NE. destruct (a_ins a) eqn:AI; [congruence|]. reflexivity.
Qed.
