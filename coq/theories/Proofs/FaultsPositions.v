(** C12: the position quantifier made explicit on rendered sheets -- any valid tables before, any valid rows before
    in the same table, anything after; the repeated-table rule with its refuted half (finding F11). *)
From RP2V Require Import Base.Prelude Base.Time Base.Dec Base.Sorting Model.Types Model.Generated Model.Txn Model.Parser Model.Render
  Proofs.ParserLookup Proofs.ParserRows Proofs.ParserSheet Proofs.FaultsCtor Proofs.FaultsSheet.
Open Scope Z_scope.

Lemma init_is_st counter : init_state counter = st_of None 0 [] (acc0 counter).
Proof. reflexivity. Qed.

(** the state after the valid tables [blocks] *)
Lemma blocks_parse_ok cfg asset ai counter blocks a :
  str_index asset (pc_assets cfg) 0 = Some ai -> wf_blocks cfg asset 1 blocks ->
  NoDup (map (fun b => tab_code (b_tab b)) blocks) ->
  expect_blocks cfg (acc0 counter) 1 blocks = Ok a ->
  exists c, parse_rows cfg asset (init_state counter) 1 (flat_map (render_block cfg asset) blocks) = Ok (st_of None c (seen_after blocks []) a).
Proof.
  intros A W ND E.
  destruct (blocks_parse cfg asset ai blocks 0 [] (acc0 counter) a 1 [] W A ND) as [c P]; auto.
  { intros b _. split; [destruct (b_tab b); reflexivity | reflexivity]. }
  exists c. rewrite app_nil_r in P. rewrite init_is_st, P. reflexivity.
Qed.

Lemma seen_has_after blocks seen b : In b blocks -> seen_has (b_tab b) (seen_after blocks seen) = true.
Proof.
  intro H. unfold seen_has, seen_after. apply existsb_exists. exists (b_tab b). split.
  - apply in_or_app. left. apply -> in_rev. apply in_map. exact H.
  - apply table_eqb_eq. reflexivity.
Qed.

Lemma seen_has_not_after blocks t : (forall b, In b blocks -> b_tab b <> t) -> seen_has t (seen_after blocks []) = false.
Proof.
  intro H. unfold seen_has, seen_after. rewrite app_nil_r.
  destruct (existsb (table_eqb t) (rev (map b_tab blocks))) eqn:E; [|reflexivity].
  apply existsb_exists in E. destruct E as [x [HI HE]]. apply table_eqb_eq in HE. subst x.
  apply in_rev in HI. apply in_map_iff in HI. destruct HI as [b [HB HI]]. exfalso. apply (H b HI). exact HB.
Qed.

Lemma parse_rows_ok_app cfg asset l1 l2 s n s1 :
  parse_rows cfg asset s n l1 = Ok s1 ->
  parse_rows cfg asset s n (l1 ++ l2) = parse_rows cfg asset s1 (n + Z.of_nat (length l1)) l2.
Proof. intro P. rewrite parse_rows_app, P. reflexivity. Qed.

Lemma length_blocks cfg asset blocks : Z.of_nat (length (flat_map (render_block cfg asset) blocks)) = blocks_len blocks.
Proof.
  induction blocks as [|b t IH]; [reflexivity|].
  simpl flat_map. rewrite app_length, Nat2Z.inj_add, IH. simpl blocks_len. f_equal.
  unfold render_block, block_len. rewrite !app_length, map_length. simpl length. lia.
Qed.

(** ---------- a faulty data row at any position of any table of a rendered sheet *)
Theorem fault_in_rendered_sheet cfg asset ai counter blocks a t gap kw hdr w rows1 a1 bad post :
  str_index asset (pc_assets cfg) 0 = Some ai ->
  (* any valid tables before *)
  wf_blocks cfg asset 1 blocks -> NoDup (map (fun b => tab_code (b_tab b)) blocks) ->
  expect_blocks cfg (acc0 counter) 1 blocks = Ok a ->
  (* the table with the fault: blank rows, keyword, header, any valid rows *)
  tab_empty a t = true -> (forall b, In b blocks -> b_tab b <> t) ->
  (forall r, In r gap -> is_blank_row r = true) ->
  table_of_cell (nth 0 kw CEmpty) = Some t ->
  first_ok (nth 0 hdr CEmpty) = true ->
  constructs cfg t (1 + blocks_len blocks + Z.of_nat (length gap) + 1) hdr = false ->
  wf_header (header_of cfg t) w -> (forall f, In f (mandatory_of t) -> mapped (header_of cfg t) f = true) ->
  (forall rj, In rj rows1 -> srow_tab (fst rj) = t /\ srow_ok (fst rj) = true) ->
  (forall rj, In rj rows1 -> first_ok (nth 0 (render_row (header_of cfg t) w (srow_cell asset (fst rj)) (snd rj)) CEmpty) = true) ->
  expect_rows cfg a (1 + blocks_len blocks + Z.of_nat (length gap) + 2) rows1 = Ok a1 ->
  (* the faulty row: still looks like a data row, but does not construct / has another asset *)
  first_ok (nth 0 bad CEmpty) = true ->
  (forall rowno, create_err cfg t rowno bad) \/ asset_is cfg (header_of cfg t) bad asset = false ->
  is_err (parse_sheet cfg asset counter
            (flat_map (render_block cfg asset) blocks ++ gap ++ [kw; hdr] ++ render_data cfg asset t w rows1 ++ bad :: post)).
Proof.
  intros A W ND EB TE NT G K HF HC WF M TO FO ER BF BAD.
  apply parse_sheet_rows_err.
  destruct (blocks_parse_ok cfg asset ai counter blocks a A W ND EB) as [c P].
  rewrite (parse_rows_ok_app _ _ _ _ _ _ _ P), length_blocks.
  rewrite rows_blank by assumption.
  simpl app. rewrite parse_rows_cons, (step_kw _ _ _ _ _ _ _ _ K TE (seen_has_not_after blocks t NT)).
  rewrite parse_rows_cons, (step_hdr _ _ _ _ _ _ _ HF HC).
  replace (1 + blocks_len blocks + Z.of_nat (length gap) + 1 + 1) with (1 + blocks_len blocks + Z.of_nat (length gap) + 2) by lia.
  rewrite (rows_data cfg asset ai w t (t :: seen_after blocks []) rows1 2 a a1 _ (bad :: post)); auto; try lia.
  rewrite parse_rows_cons.
  assert (R : is_err (row_step cfg asset (st_of (Some t) (2 + Z.of_nat (length rows1)) (t :: seen_after blocks []) a1)
                        (1 + blocks_len blocks + Z.of_nat (length gap) + 2 + Z.of_nat (length rows1)) bad)).
  { apply (step_data_fault _ _ _ t); [reflexivity | unfold st_of; cbn [ps_count]; lia | exact BF |].
    apply data_row_fault. destruct BAD as [B|B]; [left; apply B|right; exact B]. }
  destruct (row_step cfg asset _ _ bad); [contradiction|exact I].
Qed.

(** ---------- repeated table *)
Lemma expect_row_adds cfg a a' rowno r : expect_row cfg a rowno r = Ok a' -> tab_empty a' (srow_tab r) = false.
Proof.
  intro E. destruct r as [s|s|s]; simpl in *.
  - destruct (raw_of_in cfg rowno s); [|discriminate]. destruct (mk_in r); simpl bind in E; [|discriminate].
    destruct (0 <? i_crypto_fee a0).
    + destruct (split_in a0); simpl bind in E; [|discriminate]. destruct (fee_out a0 (a_counter a - 1)); simpl bind in E; [|discriminate].
      inversion E; subst; simpl. destruct (a_ins a); reflexivity.
    + inversion E; subst; simpl. destruct (a_ins a); reflexivity.
  - destruct (raw_of_out cfg rowno s); [|discriminate]. destruct (mk_out r); simpl bind in E; [|discriminate].
    inversion E; subst; simpl. destruct (a_outs a); reflexivity.
  - destruct (raw_of_intra cfg rowno s); [|discriminate]. destruct (mk_intra r); simpl bind in E; [|discriminate].
    inversion E; subst; simpl. destruct (a_intras a); reflexivity.
Qed.

Lemma expect_row_mono cfg a a' rowno r t : expect_row cfg a rowno r = Ok a' -> tab_empty a t = false -> tab_empty a' t = false.
Proof.
  intros E N. destruct (tab_code t =? tab_code (srow_tab r)) eqn:C.
  - apply Z.eqb_eq in C. apply tab_code_inj in C. subst t. apply (expect_row_adds _ _ _ _ _ E).
  - rewrite (expect_row_other _ _ _ _ _ t E); [exact N|]. intro Heq. subst t. rewrite Z.eqb_refl in C. discriminate.
Qed.

Lemma expect_rows_mono cfg t : forall rows a a' rowno,
  expect_rows cfg a rowno rows = Ok a' -> tab_empty a t = false -> tab_empty a' t = false.
Proof.
  induction rows as [|rj rows IH]; intros a a' rowno E N; simpl in E.
  - inversion E; subst; exact N.
  - destruct (expect_row cfg a rowno (fst rj)) as [a1|] eqn:E1; [|discriminate].
    apply (IH a1 a' (rowno + 1) E). apply (expect_row_mono _ _ _ _ _ _ E1 N).
Qed.

Lemma expect_rows_nonempty cfg t : forall rows a a' rowno,
  rows <> [] -> (forall rj, In rj rows -> srow_tab (fst rj) = t) ->
  expect_rows cfg a rowno rows = Ok a' -> tab_empty a' t = false.
Proof.
  intros [|rj rows] a a' rowno NE T E; [congruence|]. simpl in E.
  destruct (expect_row cfg a rowno (fst rj)) as [a1|] eqn:E1; [|discriminate].
  apply (expect_rows_mono cfg t rows a1 a' (rowno + 1) E).
  rewrite <- (T rj (or_introl eq_refl)). apply (expect_row_adds _ _ _ _ _ E1).
Qed.

Lemma expect_blocks_mono cfg t : forall blocks a a' rowno,
  expect_blocks cfg a rowno blocks = Ok a' -> tab_empty a t = false -> tab_empty a' t = false.
Proof.
  induction blocks as [|b blocks IH]; intros a a' rowno E N; simpl in E.
  - inversion E; subst; exact N.
  - destruct (expect_rows cfg a (rowno + Z.of_nat (length (b_gap b)) + 2) (b_rows b)) as [a1|] eqn:E1; [|discriminate].
    apply (IH a1 a' _ E). apply (expect_rows_mono cfg t _ _ _ _ E1 N).
Qed.

Lemma expect_blocks_nonempty cfg asset t : forall blocks a a' rowno,
  wf_blocks cfg asset rowno blocks ->
  (exists b, In b blocks /\ b_tab b = t /\ b_rows b <> []) ->
  expect_blocks cfg a rowno blocks = Ok a' -> tab_empty a' t = false.
Proof.
  induction blocks as [|b blocks IH]; intros a a' rowno W [b0 [HI [HT HR]]] E; [contradiction|].
  simpl in E, W. destruct W as [Wb W].
  destruct (expect_rows cfg a (rowno + Z.of_nat (length (b_gap b)) + 2) (b_rows b)) as [a1|] eqn:E1; [|discriminate].
  destruct HI as [<-|HI].
  - apply (expect_blocks_mono cfg t _ _ _ _ E).
    assert (TT : forall rj, In rj (b_rows b) -> srow_tab (fst rj) = t).
    { intros rj Hr. destruct Wb as [_ _ _ _ _ _ WT _ _]. rewrite <- HT. apply (WT rj Hr). }
    exact (expect_rows_nonempty cfg t (b_rows b) a a1 _ HR TT E1).
  - apply (IH a1 a' _ W); auto. exists b0. auto.
Qed.

(** a second table of a type whose earlier table had data rows is rejected, wherever it comes -- whichever of the two
    tests the code uses *)
Theorem repeated_table_rejected_nonempty cfg asset ai counter blocks a t gap kw post :
  str_index asset (pc_assets cfg) 0 = Some ai ->
  wf_blocks cfg asset 1 blocks -> NoDup (map (fun b => tab_code (b_tab b)) blocks) ->
  expect_blocks cfg (acc0 counter) 1 blocks = Ok a ->
  (exists b, In b blocks /\ b_tab b = t /\ b_rows b <> []) ->
  (forall r, In r gap -> is_blank_row r = true) ->
  table_of_cell (nth 0 kw CEmpty) = Some t ->
  is_err (parse_sheet cfg asset counter (flat_map (render_block cfg asset) blocks ++ gap ++ kw :: post)).
Proof.
  intros A W ND EB EX G K.
  apply parse_sheet_rows_err.
  destruct (blocks_parse_ok cfg asset ai counter blocks a A W ND EB) as [c P].
  rewrite (parse_rows_ok_app _ _ _ _ _ _ _ P), length_blocks.
  rewrite rows_blank by assumption. rewrite parse_rows_cons.
  pose proof (expect_blocks_nonempty cfg asset t blocks _ _ 1 W EX EB) as NE.
  assert (R : is_err (row_step cfg asset (st_of None (c + Z.of_nat (length gap)) (seen_after blocks []) a)
                        (1 + blocks_len blocks + Z.of_nat (length gap)) kw)).
  { apply (step_repeated _ _ _ t); [reflexivity | exact K |].
    apply repeated_if_set_nonempty; [destruct t; exact NE|].
    destruct EX as [b [HI [HT _]]]. subst t. apply seen_has_after. exact HI. }
  destruct (row_step cfg asset _ _ kw); [contradiction|exact I].
Qed.

(** THE CODE REMEMBERS THE TABLE TYPES IT HAS BEGUN (read from parse_ods by the translator).  This lemma stops compiling
    on a tree whose parse_ods still tests the transaction set for emptiness (finding F11). *)
Lemma code_parser_remembers_tables : gen_parser_remembers_tables = true.
Proof. reflexivity. Qed.

(** hence a second table of ANY type already begun is rejected, wherever it comes, with or without data rows in the first *)
Theorem repeated_table_rejected cfg asset ai counter blocks a t gap kw post :
  str_index asset (pc_assets cfg) 0 = Some ai ->
  wf_blocks cfg asset 1 blocks -> NoDup (map (fun b => tab_code (b_tab b)) blocks) ->
  expect_blocks cfg (acc0 counter) 1 blocks = Ok a ->
  (exists b, In b blocks /\ b_tab b = t) ->
  (forall r, In r gap -> is_blank_row r = true) ->
  table_of_cell (nth 0 kw CEmpty) = Some t ->
  is_err (parse_sheet cfg asset counter (flat_map (render_block cfg asset) blocks ++ gap ++ kw :: post)).
Proof.
  intros A W ND EB EX G K.
  apply parse_sheet_rows_err.
  destruct (blocks_parse_ok cfg asset ai counter blocks a A W ND EB) as [c P].
  rewrite (parse_rows_ok_app _ _ _ _ _ _ _ P), length_blocks.
  rewrite rows_blank by assumption. rewrite parse_rows_cons.
  assert (R : is_err (row_step cfg asset (st_of None (c + Z.of_nat (length gap)) (seen_after blocks []) a)
                        (1 + blocks_len blocks + Z.of_nat (length gap)) kw)).
  { apply (step_repeated _ _ _ t); [reflexivity | exact K |].
    unfold repeated_table. rewrite code_parser_remembers_tables.
    destruct EX as [b [HI HT]]. subst t. apply seen_has_after. exact HI. }
  destruct (row_step cfg asset _ _ kw); [contradiction|exact I].
Qed.

(** the same at the level of one step: after ANY accepted prefix, a keyword of a type that prefix has begun *)
Theorem repeated_table_step cfg asset s t rowno row :
  ps_cur s = None -> table_of_cell (nth 0 row CEmpty) = Some t -> seen_has t (ps_seen s) = true -> is_err (row_step cfg asset s rowno row).
Proof.
  intros C K SH. apply (step_repeated cfg asset s t rowno row C K). unfold repeated_table. rewrite code_parser_remembers_tables. exact SH.
Qed.

(** ... which was NOT so for the code that tested the transaction set for emptiness (finding F11, kept as the witness for the
    other value of the flag): OUT / header / TABLE END / OUT / header / row / TABLE END was accepted *)
Definition f11_cfg : pcfg :=
  {| pc_in := [(0, 0); (1, 1); (2, 2); (3, 3); (4, 4); (5, 5); (6, 6)];
     pc_out := [(0, 0); (1, 1); (2, 2); (3, 3); (4, 4); (5, 5); (6, 6); (7, 7)];
     pc_intra := [(0, 0); (1, 1); (2, 2); (3, 3); (4, 4); (5, 5); (6, 6); (7, 7); (8, 8)];
     pc_assets := [[66; 49]]; pc_exchanges := [[69; 48]]; pc_holders := [[72; 48]];
     pc_ts := [([116], TsAware {| utc_us := 1600000000000000; off_s := 0 |})] |}.
Definition f11_hdr : list cell := [CStr [104]; CStr [104]; CStr [104]; CStr [104]; CStr [104]; CStr [104]; CStr [104]; CStr [104]].
Definition f11_sheet : list (list cell) :=
  [ [CStr [73; 78]]; f11_hdr;
    [CStr [116]; CStr [66; 49]; CStr [69; 48]; CStr [72; 48]; CStr [66; 85; 89]; CNum 100 1; CNum 2 1; CEmpty];
    [CStr TABLE_END];
    [CStr [79; 85; 84]]; f11_hdr; [CStr TABLE_END];
    [CStr [79; 85; 84]]; f11_hdr;
    [CStr [116]; CStr [66; 49]; CStr [69; 48]; CStr [72; 48]; CStr [83; 69; 76; 76]; CNum 150 1; CNum 1 1; CNum 0 1];
    [CStr TABLE_END] ].

Theorem repeated_table_refuted :
  exists cfg asset rows p,
    (* two OUT tables *)
    length (filter (fun r => match table_of_cell (nth 0 r CEmpty) with Some TabOut => true | _ => false end) rows) = 2%nat /\
    parse_sheet_gen false cfg asset 0 rows = Ok p /\ length (pa_outs p) = 1%nat /\
    (* and the same sheet is rejected when the table types are remembered *)
    parse_sheet_gen true cfg asset 0 rows = Err EValue.
Proof.
  exists f11_cfg, [66; 49], f11_sheet.
  destruct (parse_sheet_gen false f11_cfg [66; 49] 0 f11_sheet) as [p|] eqn:E; [|vm_compute in E; discriminate].
  exists p. split; [vm_compute; reflexivity|]. split; [reflexivity|].
  vm_compute in E. inversion E. split; [reflexivity|]. vm_compute. reflexivity.
Qed.
