(** Inversion of [compute] (Computed.v): which model function produces which field of the
    result, and which inputs each field depends on. *)
From Coq Require Import List ZArith Bool Lia Permutation Sorted ZifyBool.
From RP2V Require Import Base.Prelude Base.Assoc Base.Sorting Base.Dec Base.Time Model.Types Model.Generated Model.Txn
  Model.Matcher Model.Pipeline Model.Computed Model.ComputedSpec Proofs.SortingProofs Proofs.FilterProofs.
Import ListNotations.
Open Scope Z_scope.

(** the fractions handed over by the matcher, resolved against the transactions and sorted by the
    instant of their event: no date window enters *)
Definition all_fractions (t : txs) (fs : list fraction) : option (list gl) :=
  match taxable_events t with
  | Err _ => None
  | Ok evs => match resolve_all evs (t_ins t) fs with
              | None => None
              | Some gls => Some (sort_by (fun g => t_us (g_ev g)) gls)
              end
  end.

Theorem compute_inv : forall period from_day to_day allow exs hos t fs cd,
  compute period from_day to_day allow exs hos t fs = Ok cd ->
  exists evs gls,
    taxable_events t = Ok evs /\ all_fractions t fs = Some gls /\
    cd_all_gls cd = gls /\
    (exists nb, numbering to_day gls = Ok nb) /\
    yearly_list period to_day (year_of_day from_day) gls = Ok (cd_yearly cd) /\
    balances allow to_day exs hos t = Ok (cd_balances cd) /\
    price_per_unit to_day (t_ins t) = Ok (cd_price cd) /\
    cd_gls cd = iter_window g_day from_day to_day gls /\
    cd_events cd = iter_window txn_day from_day to_day evs /\
    cd_ins cd = iter_window in_day from_day to_day (t_ins t) /\
    cd_outs cd = iter_window out_day from_day to_day (t_outs t) /\
    cd_intras cd = iter_window intra_day from_day to_day (t_intras t) /\
    cd_gl_running cd = running g_amt 0 gls /\
    cd_in_running cd = zip3 (map i_row (t_ins t)) (running i_crypto_in 0 (t_ins t)) (running i_crypto_fee 0 (t_ins t)) /\
    cd_out_running cd = zip3 (map o_row (t_outs t)) (running o_crypto_out_no_fee 0 (t_outs t)) (running o_crypto_fee 0 (t_outs t)) /\
    cd_intra_running cd = combine (map x_row (t_intras t)) (running x_crypto_fee 0 (t_intras t)).
Proof.
  intros period from_day to_day allow exs hos t fs cd. unfold compute, all_fractions.
  destruct (taxable_events t) as [evs|e]; [|discriminate].
  destruct (resolve_all evs (t_ins t) fs) as [gls0|]; [|discriminate].
  set (gls := sort_by (fun g => t_us (g_ev g)) gls0).
  destruct (numbering to_day gls) as [[[[evf lotf] evt] lott]|e] eqn:EN; [|discriminate].
  destruct (yearly_list period to_day (year_of_day from_day) gls) as [yl|e] eqn:EY; [|discriminate].
  destruct (balances allow to_day exs hos t) as [bl|e] eqn:EB; [|discriminate].
  destruct (price_per_unit to_day (t_ins t)) as [ppu|e] eqn:EP; [|discriminate].
  destruct (fold_left (sold_pct_add from_day to_day) (iter_window g_day from_day to_day gls) (Ok [])) as [sold|e]; [|discriminate].
  intros H. injection H as H. subst cd.
  cbn [cd_events cd_gls cd_evfrac cd_lotfrac cd_gl_running cd_all_gls cd_yearly cd_balances cd_price cd_ins cd_outs
       cd_intras cd_in_running cd_out_running cd_intra_running cd_sold_pct].
  exists evs, gls. repeat split; try reflexivity; try assumption. exists (evf, lotf, evt, lott). exact EN.
Qed.

(** * iterators that hide nothing *)
Section All.
Context {A : Type} (day : A -> Z).
Lemma take_until_all to_ l : (forall x, In x l -> day x <= to_) -> take_until day to_ l = l.
Proof.
  induction l as [|x l IH]; intros H; cbn [take_until]; [reflexivity|].
  assert (E : (to_ <? day x) = false) by (specialize (H x (or_introl eq_refl)); lia).
  rewrite E. f_equal. apply IH. intros y Hy. apply H. right. exact Hy.
Qed.
Lemma iter_window_all from_ to_ l : (forall x, In x l -> from_ <= day x <= to_) -> iter_window day from_ to_ l = l.
Proof.
  induction l as [|x l IH]; intros H; cbn [iter_window]; [reflexivity|].
  pose proof (H x (or_introl eq_refl)) as Hx.
  assert (E : (to_ <? day x) = false) by lia. assert (E2 : (from_ <=? day x) = true) by lia.
  rewrite E, E2. f_equal. apply IH. intros y Hy. apply H. right. exact Hy.
Qed.
(** raising the lower bound only removes rows *)
Lemma iter_window_raise from_ from' to_ l : from_ <= from' ->
  iter_window day from' to_ l = filter (fun x => from' <=? day x) (iter_window day from_ to_ l).
Proof.
  intros Hle. rewrite !iter_window_take_until.
  generalize (take_until day to_ l) as m. intros m.
  induction m as [|x m IH]; cbn [filter]; [reflexivity|].
  destruct (from' <=? day x) eqn:E1.
  - assert (E2 : (from_ <=? day x) = true) by lia. rewrite E2. cbn [filter]. rewrite E1. f_equal. exact IH.
  - destruct (from_ <=? day x); [cbn [filter]; rewrite E1|]; exact IH.
Qed.
(** the shown rows are, in order, a prefix of the rows dated in the window *)
Lemma iter_window_prefix_of_filter from_ to_ l :
  exists rest, filter (fun x => in_window from_ to_ (day x)) l = iter_window day from_ to_ l ++ rest.
Proof. exact (iter_window_incl_filter day from_ to_ l). Qed.
Lemma iter_window_is_filter from_ to_ l : day_sorted day l ->
  iter_window day from_ to_ l = filter (fun x => in_window from_ to_ (day x)) l.
Proof. exact (iter_window_filter day from_ to_ l). Qed.
End All.

(** * where the resolved fractions and the taxable events come from *)
Lemma resolve_all_in evs lots : forall fs gls, resolve_all evs lots fs = Some gls ->
  forall g, In g gls -> In (g_ev g) evs.
Proof.
  induction fs as [|f fs IH]; intros gls H g Hg; cbn [resolve_all] in H.
  - injection H as <-. destruct Hg.
  - destruct (resolve evs lots f) as [g0|] eqn:R; [|discriminate].
    destruct (resolve_all evs lots fs) as [gs|]; [|discriminate]. injection H as <-.
    destruct Hg as [<-|Hg]; [|exact (IH gs eq_refl g Hg)].
    unfold resolve in R. destruct (find_ev evs (f_ev f)) as [e|] eqn:F; [|discriminate].
    assert (He : In e evs) by (unfold find_ev in F; apply find_some in F; apply F).
    destruct (f_lot f) as [r|].
    + destruct (find_lot lots r); [|discriminate]. injection R as <-. exact He.
    + injection R as <-. exact He.
Qed.

Lemma taxable_in_replay t evs x : taxable_events t = Ok evs -> In x evs -> In x (replay_order t).
Proof.
  unfold taxable_events. destruct (has_dup _); [discriminate|]. intros H. injection H as <-.
  rewrite sort_by_in. unfold taxable_unsorted, replay_order. rewrite sort_by_in, !in_app_iff, !in_map_iff.
  intros [(a & <- & Ha)|[(a & <- & Ha)|(a & <- & Ha)]]; apply filter_In in Ha; destruct Ha as [Ha _].
  - left. exists a. auto.
  - right. right. exists a. auto.
  - right. left. exists a. auto.
Qed.

Lemma taxable_us_sorted t evs : taxable_events t = Ok evs -> StronglySorted (fun a b => t_us a <= t_us b) evs.
Proof.
  unfold taxable_events. destruct (has_dup _); [discriminate|]. intros H. injection H as <-. apply sort_by_sorted.
Qed.

Lemma all_fractions_events t fs evs gls : taxable_events t = Ok evs -> all_fractions t fs = Some gls ->
  (forall g, In g gls -> In (g_ev g) evs) /\ StronglySorted (fun a b => t_us (g_ev a) <= t_us (g_ev b)) gls.
Proof.
  unfold all_fractions. intros ->. destruct (resolve_all evs (t_ins t) fs) as [gls0|] eqn:R; [|discriminate].
  intros H. injection H as <-. split.
  - intros g Hg. apply sort_by_in in Hg. exact (resolve_all_in _ _ _ _ R g Hg).
  - apply (sort_by_sorted (fun g => t_us (g_ev g))).
Qed.

(** sorted by instant + dates monotone in the instant = sorted by date *)
Lemma us_sorted_day_sorted {A} (us day : A -> Z) l :
  StronglySorted (fun a b => us a <= us b) l ->
  (forall a b, In a l -> In b l -> us a <= us b -> day a <= day b) -> day_sorted day l.
Proof.
  unfold day_sorted. induction 1 as [|x l Hs IH Hall]; intros Hm; constructor.
  - apply IH. intros a b Ha Hb. apply Hm; right; assumption.
  - rewrite Forall_forall in *. intros b Hb. apply Hm; [left; reflexivity|right; exact Hb|apply Hall; exact Hb].
Qed.

(** * fraction labels: numbered over everything up to the to-date, then windowed *)
Definition label := (gl * (nat * nat) * option (nat * nat))%type.
Definition lab_gl (x : label) : gl := fst (fst x).
Definition lab_ev (x : label) : nat * nat := snd (fst x).
Definition lab_lot (x : label) : option (nat * nat) := snd x.
Definition mk_label (evt lott : assoc nat) (x : gl * (nat * option nat)) : label :=
  (fst x, nat_pair_of evt (t_row (g_ev (fst x))) (fst (snd x)),
   match g_lot (fst x), snd (snd x) with Some l, Some i => Some (i, aget_d O (i_row l) lott) | _, _ => None end).
(** every fraction up to the to-date with its "k of n" labels; the from-date does not enter *)
Definition labelled (to_day : Z) (gls : list gl) : result (list label) :=
  match numbering to_day gls with
  | Err e => Err e
  | Ok (evf, lotf, evt, lott) => Ok (map (mk_label evt lott) (combine (take_until g_day to_day gls) (combine evf lotf)))
  end.

Lemma iter_window_map {A B} (day : B -> Z) (f : A -> B) from_ to_ l :
  iter_window day from_ to_ (map f l) = map f (iter_window (fun x => day (f x)) from_ to_ l).
Proof.
  induction l as [|x l IH]; cbn [map iter_window]; [reflexivity|].
  destruct (to_ <? day (f x)); [reflexivity|]. destruct (from_ <=? day (f x)); cbn [map]; rewrite IH; reflexivity.
Qed.

Lemma num_step_ok s g s' : num_step (Ok s) g = Ok s' ->
  n_ev_fraction s' = n_ev_fraction s ++ [n_ev_frac s] /\ exists o, n_lot_fraction s' = n_lot_fraction s ++ [o].
Proof.
  unfold num_step.
  match goal with |- match ?r with _ => _ end = _ -> _ => destruct r as [[[a b] c]|e]; [|discriminate] end.
  destruct (g_lot g) as [l|].
  - match goal with |- match ?r with _ => _ end = _ -> _ => destruct r as [[[a' b'] c']|e]; [|discriminate] end.
    intros H. injection H as <-. cbn [n_ev_fraction n_lot_fraction]. split; [reflexivity|eexists; reflexivity].
  - intros H. injection H as <-. cbn [n_ev_fraction n_lot_fraction]. split; [reflexivity|eexists; reflexivity].
Qed.

Lemma num_fold_lengths l : forall s0 s, fold_left num_step l (Ok s0) = Ok s ->
  length (n_ev_fraction s) = (length (n_ev_fraction s0) + length l)%nat /\
  length (n_lot_fraction s) = (length (n_lot_fraction s0) + length l)%nat.
Proof.
  induction l as [|g l IH]; intros s0 s H; cbn [fold_left] in H.
  - injection H as <-. cbn [length]. lia.
  - destruct (num_step (Ok s0) g) as [s1|e] eqn:E.
    + destruct (num_step_ok _ _ _ E) as (H1 & o & H2). destruct (IH s1 s H) as [L1 L2].
      rewrite L1, L2, H1, H2, !app_length. cbn [length]. lia.
    + exfalso. clear -H. induction l as [|x l IHl]; cbn [fold_left] in H; [discriminate|]. apply IHl. exact H.
Qed.

Lemma numbering_lengths to_day gls evf lotf evt lott : numbering to_day gls = Ok (evf, lotf, evt, lott) ->
  length evf = length (take_until g_day to_day gls) /\ length lotf = length (take_until g_day to_day gls).
Proof.
  unfold numbering. destruct (fold_left num_step (take_until g_day to_day gls) (Ok num_init)) as [s|e] eqn:F; [|discriminate].
  destruct (num_fold_lengths _ _ _ F) as [L1 L2]. cbn [num_init n_ev_fraction n_lot_fraction length] in L1, L2.
  match goal with |- match ?r with _ => _ end = _ -> _ => destruct r as [evt'|e]; [|discriminate] end.
  destruct (merge_totals (n_lot_frac s) (n_lot_total s)) as [lt|e]; [|discriminate].
  intros H. injection H as <- <- _ _. lia.
Qed.

Lemma map_fst_combine {A B} (a : list A) (b : list B) : length a = length b -> map fst (combine a b) = a.
Proof.
  revert b. induction a as [|x a IH]; intros [|y b] H; cbn [combine map length] in *; try reflexivity; try discriminate.
  f_equal. apply IH. lia.
Qed.

Lemma labelled_fractions to_day gls L : labelled to_day gls = Ok L -> map lab_gl L = take_until g_day to_day gls.
Proof.
  unfold labelled. destruct (numbering to_day gls) as [[[[evf lotf] evt] lott]|e] eqn:N; [|discriminate].
  intros H. injection H as <-. destruct (numbering_lengths _ _ _ _ _ _ N) as [L1 L2].
  rewrite map_map. unfold lab_gl, mk_label. cbn [fst].
  change (map (fun x => fst x) (combine (take_until g_day to_day gls) (combine evf lotf)) = take_until g_day to_day gls).
  apply map_fst_combine. rewrite combine_length. lia.
Qed.

Lemma take_until_idem {A} (day : A -> Z) to_ l : take_until day to_ (take_until day to_ l) = take_until day to_ l.
Proof.
  apply take_until_all. intros x Hx. apply (take_until_in day) in Hx. apply Hx.
Qed.

(** the labels shown in a window are those of [labelled], restricted to the window *)
Theorem compute_labels : forall period from_day to_day allow exs hos t fs cd,
  compute period from_day to_day allow exs hos t fs = Ok cd ->
  exists L, labelled to_day (cd_all_gls cd) = Ok L /\
    let W := filter (fun x => from_day <=? g_day (lab_gl x)) L in
    map lab_gl W = cd_gls cd /\ map lab_ev W = cd_evfrac cd /\ map lab_lot W = cd_lotfrac cd.
Proof.
  intros period from_day to_day allow exs hos t fs cd. unfold compute, labelled.
  destruct (taxable_events t) as [evs|e]; [|discriminate].
  destruct (resolve_all evs (t_ins t) fs) as [gls0|]; [|discriminate].
  set (gls := sort_by (fun g => t_us (g_ev g)) gls0).
  destruct (numbering to_day gls) as [[[[evf lotf] evt] lott]|e] eqn:EN; [|discriminate].
  destruct (yearly_list period to_day (year_of_day from_day) gls) as [yl|e]; [|discriminate].
  destruct (balances allow to_day exs hos t) as [bl|e]; [|discriminate].
  destruct (price_per_unit to_day (t_ins t)) as [ppu|e]; [|discriminate].
  destruct (fold_left (sold_pct_add from_day to_day) (iter_window g_day from_day to_day gls) (Ok [])) as [sold|e]; [|discriminate].
  intros H. injection H as <-.
  cbn [cd_events cd_gls cd_evfrac cd_lotfrac cd_gl_running cd_all_gls cd_yearly cd_balances cd_price cd_ins cd_outs
       cd_intras cd_in_running cd_out_running cd_intra_running cd_sold_pct].
  rewrite EN. eexists. split; [reflexivity|]. cbv zeta.
  destruct (numbering_lengths _ _ _ _ _ _ EN) as [L1 L2].
  set (cut := take_until g_day to_day gls) in *.
  set (C := combine cut (combine evf lotf)).
  assert (HC : map fst C = cut) by (apply map_fst_combine; rewrite combine_length; lia).
  (* the window iterator on the labelled cut is the lower-bound filter *)
  assert (HW : iter_window (fun x => g_day (fst x)) from_day to_day C = filter (fun x => from_day <=? g_day (fst x)) C).
  { rewrite iter_window_take_until. f_equal. apply take_until_all. intros x Hx.
    assert (Hin : In (fst x) cut) by (rewrite <- HC; apply in_map; exact Hx).
    apply (take_until_in g_day) in Hin. apply Hin. }
  rewrite HW.
  assert (HF : filter (fun x => from_day <=? g_day (lab_gl x)) (map (mk_label evt lott) C) =
               map (mk_label evt lott) (filter (fun x => from_day <=? g_day (fst x)) C)).
  { clear. induction C as [|x C IH]; cbn [map filter]; [reflexivity|].
    change (lab_gl (mk_label evt lott x)) with (fst x). destruct (from_day <=? g_day (fst x)); cbn [map]; rewrite IH; reflexivity. }
  rewrite HF, !map_map. split; [|split; reflexivity].
  change (map (fun x => fst x) (filter (fun x => from_day <=? g_day (fst x)) C) = iter_window g_day from_day to_day gls).
  rewrite iter_window_take_until. fold cut. rewrite <- HC. clear.
  induction C as [|x C IH]; cbn [map filter]; [reflexivity|].
  destruct (from_day <=? g_day (fst x)); cbn [map]; rewrite IH; reflexivity.
Qed.
