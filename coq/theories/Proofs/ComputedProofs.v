(** Inversion of [compute] (Computed.v): which model function produces which field of the
    result, and which inputs each field depends on. *)
From Coq Require Import List ZArith Bool Lia Permutation Sorted ZifyBool.
From RP2V Require Import Base.Prelude Base.Assoc Base.Sorting Base.Dec Base.Time Model.Types Model.Generated Model.Txn
  Model.Matcher Model.Pipeline Model.Computed Model.ComputedSpec Proofs.SortingProofs Proofs.FilterProofs.
Import ListNotations.
Open Scope Z_scope.

(** the fractions handed over by the matcher, resolved against the transactions and sorted by the
    instant of their event: no date window enters *)
Definition all_fractions (t : txs) (fs : list fraction) : option (list gl) :=
  match taxable_events t with
  | Err _ => None
  | Ok evs => match resolve_all evs (t_ins t) fs with
              | None => None
              | Some gls => Some (sort_by (fun g => t_us (g_ev g)) gls)
              end
  end.

Theorem compute_inv : forall period from_day to_day allow exs hos t fs cd,
  compute period from_day to_day allow exs hos t fs = Ok cd ->
  exists evs gls,
    taxable_events t = Ok evs /\ all_fractions t fs = Some gls /\
    cd_all_gls cd = gls /\
    (exists nb, numbering to_day gls = Ok nb) /\
    yearly_list period to_day (year_of_day from_day) gls = Ok (cd_yearly cd) /\
    balances allow to_day exs hos t = Ok (cd_balances cd) /\
    price_per_unit to_day (t_ins t) = Ok (cd_price cd) /\
    cd_gls cd = iter_window g_day from_day to_day gls /\
    cd_events cd = iter_window txn_day from_day to_day evs /\
    cd_ins cd = iter_window in_day from_day to_day (t_ins t) /\
    cd_outs cd = iter_window out_day from_day to_day (t_outs t) /\
    cd_intras cd = iter_window intra_day from_day to_day (t_intras t) /\
    cd_gl_running cd = running g_amt 0 gls /\
    cd_in_running cd = zip3 (map i_row (t_ins t)) (running i_crypto_in 0 (t_ins t)) (running i_crypto_fee 0 (t_ins t)) /\
    cd_out_running cd = zip3 (map o_row (t_outs t)) (running o_crypto_out_no_fee 0 (t_outs t)) (running o_crypto_fee 0 (t_outs t)) /\
    cd_intra_running cd = combine (map x_row (t_intras t)) (running x_crypto_fee 0 (t_intras t)).
Proof.
  intros period from_day to_day allow exs hos t fs cd. unfold compute, all_fractions.
  destruct (taxable_events t) as [evs|e]; [|discriminate].
  destruct (resolve_all evs (t_ins t) fs) as [gls0|]; [|discriminate].
  set (gls := sort_by (fun g => t_us (g_ev g)) gls0).
  destruct (numbering to_day gls) as [[[[evf lotf] evt] lott]|e] eqn:EN; [|discriminate].
  destruct (yearly_list period to_day (year_of_day from_day) gls) as [yl|e] eqn:EY; [|discriminate].
  destruct (balances allow to_day exs hos t) as [bl|e] eqn:EB; [|discriminate].
  destruct (price_per_unit to_day (t_ins t)) as [ppu|e] eqn:EP; [|discriminate].
  destruct (fold_left (sold_pct_add from_day to_day) (iter_window g_day from_day to_day gls) (Ok [])) as [sold|e]; [|discriminate].
  intros H. injection H as H. subst cd.
  cbn [cd_events cd_gls cd_evfrac cd_lotfrac cd_gl_running cd_all_gls cd_yearly cd_balances cd_price cd_ins cd_outs
       cd_intras cd_in_running cd_out_running cd_intra_running cd_sold_pct].
  exists evs, gls. repeat split; try reflexivity; try assumption. exists (evf, lotf, evt, lott). exact EN.
Qed.

(** * iterators that hide nothing *)
Section All.
Context {A : Type} (day : A -> Z).
Lemma take_until_all to_ l : (forall x, In x l -> day x <= to_) -> take_until day to_ l = l.
Proof.
  induction l as [|x l IH]; intros H; cbn [take_until]; [reflexivity|].
  assert (E : (to_ <? day x) = false) by (specialize (H x (or_introl eq_refl)); lia).
  rewrite E. f_equal. apply IH. intros y Hy. apply H. right. exact Hy.
Qed.
Lemma iter_window_all from_ to_ l : (forall x, In x l -> from_ <= day x <= to_) -> iter_window day from_ to_ l = l.
Proof.
  induction l as [|x l IH]; intros H; cbn [iter_window]; [reflexivity|].
  pose proof (H x (or_introl eq_refl)) as Hx.
  assert (E : (to_ <? day x) = false) by lia. assert (E2 : (from_ <=? day x) = true) by lia.
  rewrite E, E2. f_equal. apply IH. intros y Hy. apply H. right. exact Hy.
Qed.
(** raising the lower bound only removes rows *)
Lemma iter_window_raise from_ from' to_ l : from_ <= from' ->
  iter_window day from' to_ l = filter (fun x => from' <=? day x) (iter_window day from_ to_ l).
Proof.
  intros Hle. rewrite !iter_window_take_until.
  generalize (take_until day to_ l) as m. intros m.
  induction m as [|x m IH]; cbn [filter]; [reflexivity|].
  destruct (from' <=? day x) eqn:E1.
  - assert (E2 : (from_ <=? day x) = true) by lia. rewrite E2. cbn [filter]. rewrite E1. f_equal. exact IH.
  - destruct (from_ <=? day x); [cbn [filter]; rewrite E1|]; exact IH.
Qed.
(** the shown rows are, in order, a prefix of the rows dated in the window *)
Lemma iter_window_prefix_of_filter from_ to_ l :
  exists rest, filter (fun x => in_window from_ to_ (day x)) l = iter_window day from_ to_ l ++ rest.
Proof. exact (iter_window_incl_filter day from_ to_ l). Qed.
Lemma iter_window_is_filter from_ to_ l : day_sorted day l ->
  iter_window day from_ to_ l = filter (fun x => in_window from_ to_ (day x)) l.
Proof. exact (iter_window_filter day from_ to_ l). Qed.
End All.
