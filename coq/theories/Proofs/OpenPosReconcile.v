(** C15 and the reconciliation of C07.

    [listed_has_balance] (Proofs/OpenPosArith.v) needs "sum of the final balances = amount left in the lots" to conclude
    that a listed asset has an account with a positive balance (no KeyError, positive per-unit divisor).  For a history
    that went through the constructors and a run without a to-date cut this is C07's end-to-end reconciliation
    ([c07_reconciliation_hist]), which since the repair of finding F8 carries no caveat about small transfer fees
    (Proofs/TransferFee.v: every transfer with a fee > 0 is a taxable event).

    The report reads the amount left in a lot off the gain/loss rows of ComputedData ([remaining (cd_gls c)]); C07 speaks
    about the matcher's fractions ([unsold (t_ins t) fs]).  [remaining_is_unsold] identifies the two for runs whose date
    window hides nothing (no from-date, no to-date cut); [listed_has_balance_from_rows] is then free of any hypothesis
    about balances.  [listed_has_balance_reconciled] is the general composition (any window) with that identification
    carried as a hypothesis. *)
From Coq Require Import ZArith Bool Lia QArith List Permutation.
From RP2V Require Import Base.Prelude Base.Time Base.Dec Base.Assoc Model.Types Model.Generated Model.Txn Model.Matcher
  Model.MatchSpec Model.MatchWf Model.FracSpec Model.Pipeline Model.Computed Model.ComputedSpec Model.OpenPos
  Proofs.SortingProofs Proofs.FilterProofs Proofs.C07Proofs Proofs.ComputedProofs Proofs.L4Examples
  Proofs.DecProofs Proofs.PipelineWf Proofs.OpenPosProofs Proofs.OpenPosArith Proofs.TransferFee Proofs.ReconcileProofs.
Import ListNotations.
Open Scope Z_scope.

(** * the gain/loss rows take from each lot what the fractions take *)
Lemma find_lot_row lots r l : find_lot lots r = Some l -> i_row l = r.
Proof. unfold find_lot. intros H. apply find_some in H. destruct H as [_ H]. apply Z.eqb_eq in H. exact H. Qed.

Lemma resolve_all_consumed evs lots l : forall fs gls, resolve_all evs lots fs = Some gls ->
  sumZ (map g_amt (filter (of_lot l) gls)) = lot_taken fs (i_row l).
Proof.
  unfold lot_taken. induction fs as [|f fs IH]; intros gls H; cbn [resolve_all] in H.
  - injection H as <-. reflexivity.
  - destruct (resolve evs lots f) as [g|] eqn:R; [|discriminate].
    destruct (resolve_all evs lots fs) as [gs|]; [|discriminate]. injection H as <-.
    specialize (IH gs eq_refl). cbn [filter].
    assert (E : of_lot l g = frac_of_lot (i_row l) f /\ g_amt g = f_amt f).
    { unfold resolve in R. destruct (find_ev evs (f_ev f)) as [e|]; [|discriminate]. unfold of_lot, frac_of_lot.
      destruct (f_lot f) as [r|].
      - destruct (find_lot lots r) as [l'|] eqn:FL; [|discriminate]. injection R as <-. cbn [g_lot g_amt].
        rewrite (find_lot_row _ _ _ FL). split; reflexivity.
      - injection R as <-. split; reflexivity. }
    destruct E as [E1 E2]. rewrite E1. destruct (frac_of_lot (i_row l) f); cbn [map sumZ]; rewrite ?E2, IH; reflexivity.
Qed.

Lemma in_replay_in t l : In l (t_ins t) -> In (TIn l) (replay_order t).
Proof. intros H. unfold replay_order. rewrite sort_by_in, in_app_iff. left. apply in_map. exact H. Qed.

(** a run whose window hides nothing: every transaction is dated inside [from_, to_] *)
Definition shows_all (from_ to_ : Z) (t : txs) : Prop := forall x, In x (replay_order t) -> from_ <= txn_day x <= to_.

Theorem remaining_is_unsold : forall period from_ to_ allow exs hos t fs c,
  compute period from_ to_ allow exs hos t fs = Ok c -> shows_all from_ to_ t ->
  sumZ (map (remaining (cd_gls c)) (cd_ins c)) = unsold (t_ins t) fs.
Proof.
  intros period from_ to_ allow exs hos t fs c HC Hw.
  destruct (compute_inv _ _ _ _ _ _ _ _ _ HC) as (evs & gls & HE & HA & _ & _ & _ & _ & _ & Hg & _ & Hi & _).
  unfold all_fractions in HA. rewrite HE in HA.
  destruct (resolve_all evs (t_ins t) fs) as [gls0|] eqn:R; [|discriminate HA]. injection HA as <-.
  rewrite Hg, Hi.
  rewrite (iter_window_all in_day from_ to_ (t_ins t)) by (intros l Hl; exact (Hw (TIn l) (in_replay_in t l Hl))).
  rewrite (iter_window_all g_day from_ to_) by
    (intros g Hg'; apply sort_by_in in Hg'; exact (Hw (g_ev g) (taxable_in_replay t evs _ HE (resolve_all_in evs (t_ins t) fs gls0 R g Hg')))).
  unfold unsold. apply sumZ_map_ext_in. intros l _. unfold remaining, consumed. f_equal.
  rewrite (sumZ_map_perm g_amt _ _ (filter_Permutation (of_lot l) _ _ (sort_by_perm _ gls0))).
  exact (resolve_all_consumed evs (t_ins t) l fs gls0 R).
Qed.

(** * C07's reconciliation discharges the premise of [listed_has_balance] *)
Theorem listed_has_balance_reconciled : forall period from_ to_ allow exs hos sched h t fs c,
  build h = Ok t ->
  in_rows_increasing h -> amounts_positive h -> NoDup (map fst sched) ->
  (forall evs, taxable_events t = Ok evs -> hist_same_instant_same_year evs /\ hist_sched_covers sched evs) ->
  fractions_of gen_always_repush sched t = Ok fs ->
  outs_consistent t -> no_cut to_ t ->
  compute period from_ to_ allow exs hos t fs = Ok c ->
  op_wf from_ to_ c ->
  (forall l, In l (cd_ins c) -> (qcost l * E (length (cd_gls c) + 3) < 49 # (10 ^ 15))%Q) ->
  sumZ (map (remaining (cd_gls c)) (cd_ins c)) = unsold (t_ins t) fs ->
  asset_listed c = true -> pos_balances c <> [].
Proof.
  intros period from_ to_ allow exs hos sched h t fs c Hb Hinc Hpos Hnd Hev HF Hout Hcut HC W small Hbridge Hl.
  destruct (compute_parts _ _ _ _ _ _ _ _ _ HC) as (_ & _ & HB).
  apply (listed_has_balance from_ to_ c W small); [|exact Hl].
  rewrite Hbridge.
  exact (c07_reconciliation_hist allow to_ exs hos sched h t fs (cd_balances c) Hb Hinc Hpos Hnd Hev HF Hout Hcut HB).
Qed.

(** end to end, for a run that hides nothing: a listed asset has an account with a positive balance *)
Theorem listed_has_balance_from_rows : forall period from_ to_ allow exs hos sched h t fs c,
  build h = Ok t ->
  in_rows_increasing h -> amounts_positive h -> NoDup (map fst sched) ->
  (forall evs, taxable_events t = Ok evs -> hist_same_instant_same_year evs /\ hist_sched_covers sched evs) ->
  fractions_of gen_always_repush sched t = Ok fs ->
  outs_consistent t -> shows_all from_ to_ t ->
  compute period from_ to_ allow exs hos t fs = Ok c ->
  op_wf from_ to_ c ->
  (forall l, In l (cd_ins c) -> (qcost l * E (length (cd_gls c) + 3) < 49 # (10 ^ 15))%Q) ->
  asset_listed c = true -> pos_balances c <> [].
Proof.
  intros period from_ to_ allow exs hos sched h t fs c Hb Hinc Hpos Hnd Hev HF Hout Hw HC W small Hl.
  apply (listed_has_balance_reconciled period from_ to_ allow exs hos sched h t fs c); auto.
  - intros x Hx. apply (Hw x Hx).
  - exact (remaining_is_unsold period from_ to_ allow exs hos t fs c HC Hw).
Qed.

(** * non-vacuity: the dust-fee history of finding F8 ([hDust] of Proofs/TransferFee.v: BUY 1 coin at price 1e-8; MOVE 1 ->
    0.99999999999 at price 1e-8) under the rule of the source, run with a window that hides nothing, meets every hypothesis of
    the end-to-end theorem: the fee of 1e-11 is taken from the lot, 0.99999999999 coins are left in the lot and on the
    receiving account, the asset is listed and has its positive balance *)
Definition cdDust : computed :=
  Eval vm_compute in match compute 365 (-100000) 100000 false exsA hosA tDust fsDust with Ok c => c | Err _ => cdA_dflt end.
Example cdDust_ok : compute 365 (-100000) 100000 false exsA hosA tDust fsDust = Ok cdDust.
Proof. vm_compute. reflexivity. Qed.
Example hDust_rows_increasing : in_rows_increasing hDust.
Proof. intros i j d Hij. cbn [hDust h_ins length] in *. destruct i as [|i], j as [|j]; cbn; lia. Qed.
Example hDust_amounts_positive : amounts_positive hDust.
Proof. intros r Hr. cbn [hDust h_ins In] in Hr. repeat (destruct Hr as [<-|Hr]; [reflexivity|]). destruct Hr. Qed.
Example hDust_events_ok : forall evs, taxable_events tDust = Ok evs -> hist_same_instant_same_year evs /\ hist_sched_covers schedA evs.
Proof.
  intros evs HE. vm_compute in HE. injection HE as <-. split.
  - apply same_offset_same_year. intros e He. cbn [In] in He. repeat (destruct He as [<-|He]; [reflexivity|]). destruct He.
  - intros e He. exists 1970, Fifo. split; [left; reflexivity|]. cbn [In] in He.
    repeat (destruct He as [<-|He]; [vm_compute; discriminate|]). destruct He.
Qed.
Example tDust_shows_all : shows_all (-100000) 100000 tDust.
Proof.
  intros x Hx. vm_compute in Hx. repeat (destruct Hx as [<-|Hx]; [split; vm_compute; discriminate|]). destruct Hx.
Qed.
Example cdDust_op_wf : op_wf (-100000) 100000 cdDust.
Proof.
  constructor.
  - vm_compute. repeat constructor; cbn; intuition congruence.
  - intros l Hl. cbn [cdDust cd_ins In] in Hl. repeat (destruct Hl as [<-|Hl]; [vm_compute; reflexivity|]). destruct Hl.
  - intros l Hl. cbn [cdDust cd_ins In] in Hl. repeat (destruct Hl as [<-|Hl]; [vm_compute; discriminate|]). destruct Hl.
  - intros l Hl. cbn [cdDust cd_ins In] in Hl. repeat (destruct Hl as [<-|Hl]; [vm_compute; reflexivity|]). destruct Hl.
  - intros g l Hg. cbn [cdDust cd_gls In] in Hg.
    repeat (destruct Hg as [<-|Hg]; [vm_compute; intros H; first [discriminate H | injection H as <-; auto 10]|]). destruct Hg.
  - intros g Hg. cbn [cdDust cd_gls In] in Hg. repeat (destruct Hg as [<-|Hg]; [vm_compute; discriminate|]). destruct Hg.
  - intros l Hl. cbn [cdDust cd_ins In] in Hl. repeat (destruct Hl as [<-|Hl]; [vm_compute; discriminate|]). destruct Hl.
  - vm_compute. reflexivity.
Qed.
Example cdDust_small : forall l, In l (cd_ins cdDust) -> (qcost l * E (length (cd_gls cdDust) + 3) < 49 # (10 ^ 15))%Q.
Proof. intros l Hl. cbn [cdDust cd_ins In] in Hl. repeat (destruct Hl as [<-|Hl]; [vm_compute; reflexivity|]). destruct Hl. Qed.
Example cdDust_listed : asset_listed cdDust = true /\ sumZ (map (remaining (cd_gls cdDust)) (cd_ins cdDust)) = 1 * U - 1 /\
  map b_final (cd_balances cdDust) = [0; 1 * U - 1].
Proof. vm_compute. repeat split; reflexivity. Qed.

Example listed_has_balance_instance : pos_balances cdDust <> [].
Proof.
  apply (listed_has_balance_from_rows 365 (-100000) 100000 false exsA hosA schedA hDust tDust fsDust cdDust).
  - exact (proj1 c07_dust_fee_reconciles_now).
  - exact hDust_rows_increasing.
  - exact hDust_amounts_positive.
  - repeat constructor. intros [].
  - exact hDust_events_ok.
  - exact (proj1 (proj2 c07_dust_fee_reconciles_now)).
  - intros a [].
  - exact tDust_shows_all.
  - exact cdDust_ok.
  - exact cdDust_op_wf.
  - exact cdDust_small.
  - exact (proj1 cdDust_listed).
Qed.
