(** C15 and the reconciliation of C07.

    [listed_has_balance] (Proofs/OpenPosArith.v) needs "sum of the final balances = amount left in the lots" to conclude
    that a listed asset has an account with a positive balance (no KeyError, positive per-unit divisor).  For a history
    that went through the constructors and a run without a to-date cut this is C07's end-to-end reconciliation
    ([c07_reconciliation_hist]), which since the repair of finding F8 carries no caveat about small transfer fees
    (Proofs/TransferFee.v: every transfer with a fee > 0 is a taxable event).

    What is still carried as a hypothesis ([Hbridge]): that the amount left in the lots according to the gain/loss rows of
    ComputedData ([remaining (cd_gls c)], what the report reads) is the amount left according to the matcher's fractions
    ([unsold (t_ins t) fs], what C07 speaks about).  Both are "crypto_in minus what was taken from the lot"; the check
    compares them on every run (oracle of props/c15.py: realised + unrealised = acquired). *)
From Coq Require Import ZArith Bool Lia QArith List.
From RP2V Require Import Base.Prelude Base.Time Base.Dec Base.Assoc Model.Types Model.Generated Model.Txn Model.Matcher
  Model.MatchSpec Model.MatchWf Model.Pipeline Model.Computed Model.ComputedSpec Model.OpenPos
  Proofs.DecProofs Proofs.PipelineWf Proofs.OpenPosProofs Proofs.OpenPosArith Proofs.TransferFee Proofs.ReconcileProofs.
Import ListNotations.
Open Scope Z_scope.

Theorem listed_has_balance_from_rows : forall period from_ to_ allow exs hos sched h t fs c,
  build h = Ok t ->
  in_rows_increasing h -> amounts_positive h -> NoDup (map fst sched) ->
  (forall evs, taxable_events t = Ok evs -> hist_same_instant_same_year evs /\ hist_sched_covers sched evs) ->
  fractions_of gen_always_repush sched t = Ok fs ->
  outs_consistent t -> no_cut to_ t ->
  compute period from_ to_ allow exs hos t fs = Ok c ->
  op_wf from_ to_ c ->
  (forall l, In l (cd_ins c) -> (qcost l * E (length (cd_gls c) + 3) < 49 # (10 ^ 15))%Q) ->
  sumZ (map (remaining (cd_gls c)) (cd_ins c)) = unsold (t_ins t) fs ->
  asset_listed c = true -> pos_balances c <> [].
Proof.
  intros period from_ to_ allow exs hos sched h t fs c Hb Hinc Hpos Hnd Hev HF Hout Hcut HC W small Hbridge Hl.
  destruct (compute_parts _ _ _ _ _ _ _ _ _ HC) as (_ & _ & HB).
  apply (listed_has_balance from_ to_ c W small); [|exact Hl].
  rewrite Hbridge.
  exact (c07_reconciliation_hist allow to_ exs hos sched h t fs (cd_balances c) Hb Hinc Hpos Hnd Hev HF Hout Hcut HB).
Qed.
