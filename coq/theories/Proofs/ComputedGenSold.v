(** Source tie of computed_data.py: sold percentage per lot.
    For the tables generated from the CURRENT source (Model/GeneratedTie.v, fragment computed; interpreters in Model/ComputedGen.v).
    One file per concern, so that an edit of the source breaks exactly the lemmas about what it changed and the property
    files that cite them.  Overview: Proofs/ComputedGenProofs.v. *)
From Coq Require Import List ZArith Bool Lia.
From RP2V Require Import Base.Prelude Base.Time Base.Dec Base.Sorting Base.Assoc Model.Types Model.Generated Model.GeneratedTie
  Model.Txn Model.Matcher Model.Pipeline Model.Computed Model.ComputedGen Proofs.TieAux.
Import ListNotations.
Open Scope Z_scope.

(** ---------- sold percentage *)
Lemma sold_pct_add_gen_agrees (from_day to_day : Z) (acc : result (assoc dec)) (g : gl) :
  sold_pct_add_gen from_day to_day acc g = sold_pct_add from_day to_day acc g.
Proof.
  destruct acc as [m|e]; [|reflexivity].
  unfold sold_pct_add_gen, sold_pct_add.
  cbv [sold_skips gen_sold_skip existsb sold_skip_eqb gen_sold_field gl_dec_val orb andb].
  destruct (g_lot g) as [l|]; reflexivity.
Qed.

Lemma sold_pct_gen_agrees (from_day to_day : Z) (gls : list gl) :
  sold_pct_gen from_day to_day gls = fold_left (sold_pct_add from_day to_day) (iter_window g_day from_day to_day gls) (Ok []).
Proof.
  unfold sold_pct_gen. cbv [cd_seen cd_cut cd_select gen_sold_source gen_sold_cut].
  apply fold_left_ext. intros; apply sold_pct_add_gen_agrees.
Qed.
