(** Lemmas about the building blocks of the faithful matcher model:
    to_index, find_cand vs meth_for, seek_up, the list-as-multiset heap. *)
From Coq Require Import List ZArith Lia Bool ZifyBool.
From RP2V Require Import Base.Prelude Base.Time Base.Dec Model.Types Model.Generated
  Model.Matcher Model.MatchSpec Model.MatchWf Proofs.KeyOrder.
Open Scope Z_scope.

(** * generic list helpers *)
Lemma Forall_upd {A} (P : A -> Prop) l k x : Forall P l -> P x -> Forall P (upd l k x).
Proof.
  intros H Hx. revert k. induction H as [|h t Hh Ht IH]; intros [|k]; cbn [upd]; constructor; auto.
Qed.

Lemma map_upd {A B} (f : A -> B) l k x : map f (upd l k x) = upd (map f l) k (f x).
Proof. revert k. induction l as [|h t IH]; intros [|k]; cbn [upd map]; auto. f_equal. apply IH. Qed.

Lemma upd_nth_same {A} (l : list A) k d : upd l k (nth k l d) = l.
Proof. revert k. induction l as [|h t IH]; intros [|k]; cbn [upd nth]; auto. f_equal. apply IH. Qed.

Lemma upd_same_val {A} (l : list A) k x d : nth k l d = x -> upd l k x = l.
Proof. intros <-. apply upd_nth_same. Qed.

(** number of positive entries *)
Definition npos (l : list Z) : nat := length (filter (fun x => x >? 0) l).

Lemma npos_le l : (npos l <= length l)%nat.
Proof. unfold npos. induction l as [|h t IH]; cbn [filter length]; [lia|]. destruct (h >? 0); cbn [length]; lia. Qed.

Lemma npos_upd l : forall i x, (i < length l)%nat ->
  (npos (upd l i x) + (if (nth i l 0%Z >? 0)%Z then 1 else 0) = npos l + (if (x >? 0)%Z then 1 else 0))%nat.
Proof.
  unfold npos. induction l as [|h t IH]; intros [|i] x Hi; cbn [length] in Hi; try lia.
  - cbn [upd filter nth]. destruct (h >? 0), (x >? 0); cbn [length]; lia.
  - cbn [upd filter nth]. specialize (IH i x ltac:(lia)).
    destruct (h >? 0); cbn [length]; lia.
Qed.

(** * meth_for / find_cand *)
Definition cproj (c : cand) : Z * meth := (c_year c, c_meth c).

Lemma meth_for_none s y : forall b, meth_for s y b = None -> b = None /\ forall y0 m, In (y0, m) s -> y < y0.
Proof.
  induction s as [|[y0 m] r IH]; intros b H; cbn [meth_for] in H.
  - split; auto. intros ? ? [].
  - apply IH in H. destruct H as [Hb Hr].
    destruct (y0 <=? y) eqn:Hy.
    + destruct b as [[b0 mb]|]; [destruct (b0 <? y0)|]; discriminate.
    + split; auto. intros y1 m1 [E|Hin]; [inversion E; subst; lia|eauto].
Qed.

(** the candidate record found by the model is the one of the schedule entry in force *)
Definition cand_rel (cs0 : list cand) (bf : option (nat * Z)) (bm : option (Z * meth)) : Prop :=
  match bf, bm with
  | None, None => True
  | Some (k, y), Some (y', m) =>
      y = y' /\ (k < length cs0)%nat /\ c_year (nth k cs0 dummy_cand) = y /\ c_meth (nth k cs0 dummy_cand) = m
  | _, _ => False
  end.

Lemma find_cand_meth_for cs0 y : forall cs k bf bm,
  (k + length cs = length cs0)%nat ->
  (forall j, (j < length cs)%nat -> nth j cs dummy_cand = nth (k + j) cs0 dummy_cand) ->
  cand_rel cs0 bf bm ->
  cand_rel cs0 (find_cand cs y k bf) (meth_for (map cproj cs) y bm).
Proof.
  induction cs as [|c r IH]; intros k bf bm Hlen Hnth Hrel; cbn [find_cand meth_for map].
  - exact Hrel.
  - unfold cproj at 1.
    assert (Hc : c = nth k cs0 dummy_cand).
    { specialize (Hnth O ltac:(cbn [length]; lia)). cbn [nth] in Hnth. rewrite Nat.add_0_r in Hnth. exact Hnth. }
    cbn [length] in Hlen.
    apply IH.
    + lia.
    + intros j Hj. specialize (Hnth (S j) ltac:(cbn [length]; lia)). cbn [nth] in Hnth.
      rewrite Hnth. f_equal. lia.
    + destruct (c_year c <=? y); auto.
      destruct bf as [[kb yb]|], bm as [[yb' mb]|]; cbn [cand_rel] in Hrel |- *; try contradiction.
      * destruct Hrel as (-> & Hrel). destruct (yb' <? c_year c); cbn [cand_rel]; auto.
        subst c. repeat split; auto; lia.
      * subst c. repeat split; auto; lia.
Qed.

Lemma find_cand_ok cs sched y :
  map cproj cs = sched ->
  cand_rel cs (find_cand cs y O None) (meth_for sched y None).
Proof.
  intros <-. apply find_cand_meth_for; cbn [cand_rel]; auto.
Qed.

Section Lots.
Variable lots : list intx.
Hypothesis Hsorted : lots_sorted lots.
Hypothesis Hrows : lots_distinct_rows lots.

Local Notation n := (length lots).

(** * to_index *)
Lemma to_index_aux_spec t : forall l i b,
  (i + length l = n)%nat ->
  (forall k, (k < length l)%nat -> nth k l dummy_lot = lotn lots (i + k)) ->
  match b with
  | None => forall j, (j < i)%nat -> t < lot_us lots j
  | Some (x, bt, br) => (x < i)%nat /\ bt = lot_us lots x /\ br = i_row (lotn lots x) /\ lot_us lots x <= t /\
                        forall j, (j < i)%nat -> lot_us lots j <= t -> (j <= x)%nat
  end ->
  match to_index_aux t l i b with
  | None => forall j, (j < n)%nat -> t < lot_us lots j
  | Some (x, _, _) => (x < n)%nat /\ lot_us lots x <= t /\ forall j, (j < n)%nat -> lot_us lots j <= t -> (j <= x)%nat
  end.
Proof.
  induction l as [|x r IH]; intros i b Hlen Hnth Hb; cbn [to_index_aux].
  - cbn [length] in Hlen. rewrite Nat.add_0_r in Hlen. subst i.
    destruct b as [[[xb bt] br]|]; auto. destruct Hb as (A & B & C & D & E). auto.
  - cbn [length] in Hlen.
    assert (Hx : x = lotn lots i).
    { specialize (Hnth O ltac:(cbn [length]; lia)). cbn [nth] in Hnth. rewrite Nat.add_0_r in Hnth. exact Hnth. }
    apply IH.
    + lia.
    + intros k Hk. specialize (Hnth (S k) ltac:(cbn [length]; lia)). cbn [nth] in Hnth.
      rewrite Hnth. f_equal. lia.
    + assert (Hxt : utc_us (i_ts x) = lot_us lots i) by (rewrite Hx; reflexivity).
      rewrite Hxt. destruct (lot_us lots i <=? t) eqn:Hle.
      * destruct b as [[[xb bt] br]|].
        -- destruct Hb as (A & B & C & D & E).
           assert (Hcond : (bt <? lot_us lots i) || ((bt =? lot_us lots i) && (br <? i_row x)) = true).
           { subst bt br. rewrite Hx. destruct (Hsorted xb i ltac:(lia)) as [H|[H1 H2]].
             - apply orb_true_iff; left; apply Z.ltb_lt; exact H.
             - apply orb_true_iff; right; apply andb_true_iff; split;
                 [apply Z.eqb_eq; exact H1|apply Z.ltb_lt; exact H2]. }
           rewrite Hcond. repeat split; auto; try lia. rewrite Hx; reflexivity.
        -- repeat split; auto; try lia. rewrite Hx; reflexivity.
      * destruct b as [[[xb bt] br]|].
        -- destruct Hb as (A & B & C & D & E). repeat split; auto. intros j Hj Hjt.
           destruct (Nat.eq_dec j i) as [->|Hne]; [lia|]. apply E; auto. lia.
        -- intros j Hj. destruct (Nat.eq_dec j i) as [->|Hne]; [lia|]. apply Hb. lia.
Qed.

Lemma to_index_spec t :
  match to_index lots t with
  | None => forall j, (j < n)%nat -> t < lot_us lots j
  | Some x => (x < n)%nat /\ lot_us lots x <= t /\ forall j, (j < n)%nat -> lot_us lots j <= t -> (j <= x)%nat
  end.
Proof.
  unfold to_index.
  assert (H0 : forall j, (j < 0)%nat -> t < lot_us lots j) by (intros; lia).
  pose proof (to_index_aux_spec t lots O None ltac:(lia) ltac:(intros; reflexivity) H0) as H.
  destruct (to_index_aux t lots 0 None) as [[[x bt] br]|]; auto.
Qed.

(** * chronological scan *)
Lemma seek_up_spec p to_ : forall fuel i bumps,
  (S to_ - i < fuel)%nat ->
  match seek_up lots fuel p i to_ bumps with
  | (None, _) => forall j, (i <= j <= to_)%nat -> avail lots p j = None
  | (Some (x, a), b') => (i <= x <= to_)%nat /\ avail lots p x = Some a /\
                         (forall j, (i <= j < x)%nat -> avail lots p j = None) /\ b' = (bumps + (x - i))%nat
  end.
Proof.
  induction fuel as [|f IH]; intros i bumps Hf; [lia|].
  cbn [seek_up]. destruct (Nat.ltb to_ i) eqn:Hlt.
  - apply Nat.ltb_lt in Hlt. intros j Hj. lia.
  - apply Nat.ltb_ge in Hlt. destruct (avail lots p i) as [a|] eqn:Hav.
    + repeat split; auto; try lia.
    + specialize (IH (S i) (S bumps) ltac:(lia)).
      destruct (seek_up lots f p (S i) to_ (S bumps)) as [[[x a]|] b'].
      * destruct IH as (A & B & C & D). repeat split; auto; try lia.
        intros j Hj. destruct (Nat.eq_dec j i) as [->|Hne]; auto. apply C. lia.
      * intros j Hj. destruct (Nat.eq_dec j i) as [->|Hne]; auto. apply IH. lia.
Qed.

(** * heap *)
Lemma remove1_in x h j : In j h -> j = x \/ In j (remove1 x h).
Proof.
  induction h as [|y t IH]; intros Hin; [destruct Hin|].
  cbn [remove1]. destruct (Nat.eqb x y) eqn:E.
  - apply Nat.eqb_eq in E. subst y. destruct Hin; auto.
  - destruct Hin as [->|Hin]; [right; left; auto|]. destruct (IH Hin); auto. right; right; auto.
Qed.

Lemma remove1_incl x h j : In j (remove1 x h) -> In j h.
Proof.
  induction h as [|y t IH]; intros Hin; [destruct Hin|].
  cbn [remove1] in Hin. destruct (Nat.eqb x y) eqn:E.
  - right; auto.
  - destruct Hin as [->|Hin]; [left; auto|right; auto].
Qed.

Lemma remove1_length x h : In x h -> length h = S (length (remove1 x h)).
Proof.
  induction h as [|y t IH]; intros Hin; [destruct Hin|].
  cbn [remove1]. destruct (Nat.eqb x y) eqn:E; auto.
  apply Nat.eqb_neq in E. destruct Hin as [->|Hin]; [congruence|]. cbn [length]. rewrite <- IH; auto.
Qed.

Lemma min_idx_spec m : forall h b,
  let r := min_idx lots m h b in
  (r = b \/ In r h) /\
  key_ltb (hkey lots m b) (hkey lots m r) = false /\
  forall j, In j h -> key_ltb (hkey lots m j) (hkey lots m r) = false.
Proof.
  induction h as [|i t IH]; intros b; cbn [min_idx].
  - cbn zeta. repeat split; auto. + apply key_ltb_irrefl. + intros j [].
  - cbn zeta. destruct (key_ltb (hkey lots m i) (hkey lots m b)) eqn:Hlt.
    + destruct (IH i) as (A & B & C). repeat split.
      * destruct A as [A|A]; [right; left; auto|right; right; auto].
      * destruct (key_ltb (hkey lots m b) (hkey lots m (min_idx lots m t i))) eqn:E; auto.
        pose proof (key_ltb_trans _ _ _ Hlt E) as H. congruence.
      * intros j [<-|Hj]; auto.
    + destruct (IH b) as (A & B & C). repeat split.
      * destruct A as [A|A]; [left; auto|right; right; auto].
      * exact B.
      * intros j [<-|Hj]; auto.
        destruct (key_ltb (hkey lots m i) (hkey lots m (min_idx lots m t b))) eqn:E; auto.
        (* i < r, not (b < r), not (i < b): so b <= i < r, contradiction by totality *)
        destruct (key_ltb_total _ _ Hlt) as [Heq|Hbi].
        -- rewrite Heq in E. congruence.
        -- pose proof (key_ltb_trans _ _ _ Hbi E) as H. congruence.
Qed.

Lemma pop_min_spec m h :
  match pop_min lots m h with
  | None => h = []
  | Some (b, h') => In b h /\ h' = remove1 b h /\
                    forall j, In j h -> key_ltb (hkey lots m j) (hkey lots m b) = false
  end.
Proof.
  destruct h as [|i t]; cbn [pop_min]; auto.
  destruct (min_idx_spec m t i) as (A & B & C). cbn zeta in *.
  repeat split; auto.
  - destruct A as [A|A]; [left; auto|right; auto].
  - intros j [<-|Hj]; auto.
Qed.

(** pop until an available lot is found: it is minimal among the available entries,
    and only unavailable entries (and the one returned) leave the heap *)
Lemma seek_feature_spec m p : m <> Fifo -> forall fuel h,
  (length h < fuel)%nat ->
  (forall j, In j h -> (j < n)%nat) ->
  match seek_feature lots fuel m p h with
  | (None, _) => forall j, In j h -> avail lots p j = None
  | (Some (i, a), h1) =>
      In i h /\ avail lots p i = Some a /\
      (forall j, In j h -> avail lots p j <> None ->
                 j = i \/ key_ltb (spec_rank lots m i) (spec_rank lots m j) = true) /\
      (forall j, In j h -> j = i \/ avail lots p j = None \/ In j h1) /\
      (forall j, In j h1 -> In j h)
  end.
Proof.
  intros Hm. induction fuel as [|f IH]; intros h Hf Hval; [lia|].
  cbn [seek_feature]. pose proof (pop_min_spec m h) as Hpop.
  destruct (pop_min lots m h) as [[b h']|].
  - destruct Hpop as (Hb & -> & Hmin).
    destruct (avail lots p b) as [a|] eqn:Hav.
    + repeat split; auto.
      * intros j Hj _. specialize (Hmin j Hj). rewrite !hkey_rank in Hmin by auto.
        destruct (rank_total lots Hrows m j b) as [E|E]; auto.
      * intros j Hj. destruct (remove1_in b h j Hj); auto.
      * intros j Hj. eapply remove1_incl; eauto.
    + pose proof (remove1_length b h Hb) as Hlen.
      specialize (IH (remove1 b h) ltac:(lia) ltac:(intros j Hj; apply Hval; eapply remove1_incl; eauto)).
      destruct (seek_feature lots f m p (remove1 b h)) as [[[i a]|] h1].
      * destruct IH as (A & B & C & D & E). repeat split; auto.
        -- eapply remove1_incl; eauto.
        -- intros j Hj Hnn. destruct (remove1_in b h j Hj) as [->|Hj']; [congruence|]. apply C; auto.
        -- intros j Hj. destruct (remove1_in b h j Hj) as [->|Hj']; auto.
        -- intros j Hj. eapply remove1_incl; eauto.
      * intros j Hj. destruct (remove1_in b h j Hj) as [->|Hj']; auto.
  - subst h. intros j [].
Qed.

End Lots.
