(** Properties of the stable insertion sort [sort_by] (model of Python's stable
    [list.sort(key=...)]): permutation, sortedness, stability, uniqueness of the
    stable sort, and the derived algebra (split at a threshold, commutation with
    [filter] and [map], order-independence for pairwise distinct keys). *)
From Coq Require Import List ZArith Bool Lia Permutation Sorted ZifyBool.
From RP2V Require Import Base.Prelude Base.Sorting.
Import ListNotations.
Open Scope Z_scope.

Section SortProofs.
Context {A : Type} (key : A -> Z).

Notation le := (fun a b : A => key a <= key b).
Notation fk k := (fun x : A => key x =? k).

(** ** insertion *)

Lemma insert_by_perm x l : Permutation (insert_by key x l) (x :: l).
Proof.
  induction l as [|y t IH]; simpl.
  - apply Permutation_refl.
  - destruct (key x <=? key y) eqn:E.
    + apply Permutation_refl.
    + eapply perm_trans; [apply perm_skip, IH | apply perm_swap].
Qed.

Lemma insert_by_in x y l : In y (insert_by key x l) <-> y = x \/ In y l.
Proof.
  split; intros H.
  - apply (Permutation_in _ (insert_by_perm x l)) in H. destruct H as [H|H]; auto.
  - apply (Permutation_in _ (Permutation_sym (insert_by_perm x l))).
    destruct H as [H|H]; [left; auto | right; auto].
Qed.

Lemma insert_by_sorted x l : StronglySorted le l -> StronglySorted le (insert_by key x l).
Proof.
  induction l as [|y t IH]; intros H; simpl.
  - constructor; constructor.
  - inversion H as [|? ? Ht Hy]; subst.
    destruct (key x <=? key y) eqn:E.
    + constructor; auto. constructor; [lia|].
      eapply Forall_impl; [|exact Hy]. cbv beta; intros; lia.
    + constructor; auto.
      apply Forall_forall. intros z Hz. apply insert_by_in in Hz.
      destruct Hz as [->|Hz]; [lia|].
      rewrite Forall_forall in Hy. apply Hy; auto.
Qed.

Lemma insert_by_head x l : Forall (le x) l -> insert_by key x l = x :: l.
Proof.
  destruct l as [|y t]; intros H; simpl; auto.
  inversion H as [|? ? Hxy _]; subst.
  destruct (key x <=? key y) eqn:E; auto. lia.
Qed.

Lemma filter_insert_by k x l :
  filter (fk k) (insert_by key x l)
  = if key x =? k then x :: filter (fk k) l else filter (fk k) l.
Proof.
  induction l as [|y t IH]; simpl.
  - destruct (key x =? k); auto.
  - destruct (key x <=? key y) eqn:E; simpl.
    + destruct (key x =? k); auto.
    + rewrite IH.
      destruct (key x =? k) eqn:E1; destruct (key y =? k) eqn:E2; auto. lia.
Qed.

(** ** the five basic facts *)

Lemma sort_by_perm : forall l, Permutation (sort_by key l) l.
Proof.
  induction l as [|x t IH]; simpl.
  - apply Permutation_refl.
  - eapply perm_trans; [apply insert_by_perm | apply perm_skip, IH].
Qed.

Lemma sort_by_length : forall l, length (sort_by key l) = length l.
Proof. intros l. apply Permutation_length, sort_by_perm. Qed.

Lemma sort_by_in : forall x l, In x (sort_by key l) <-> In x l.
Proof.
  intros x l; split; apply Permutation_in;
    [apply sort_by_perm | apply Permutation_sym, sort_by_perm].
Qed.

Lemma sort_by_sorted : forall l, StronglySorted le (sort_by key l).
Proof.
  induction l as [|x t IH]; simpl.
  - constructor.
  - apply insert_by_sorted, IH.
Qed.

(** stability: elements with the same key keep their relative order *)
Lemma sort_by_stable : forall k l, filter (fk k) (sort_by key l) = filter (fk k) l.
Proof.
  intros k; induction l as [|x t IH]; simpl; auto.
  rewrite filter_insert_by, IH. reflexivity.
Qed.

(** a sorted list is a fixpoint *)
Lemma sort_by_sorted_id : forall l, StronglySorted le l -> sort_by key l = l.
Proof.
  induction l as [|x t IH]; intros H; simpl; auto.
  inversion H as [|? ? Ht Hx]; subst.
  rewrite IH by exact Ht. apply insert_by_head, Hx.
Qed.

(** ** uniqueness *)

(** two sorted lists with the same per-key subsequences are equal *)
Lemma sorted_filters_eq : forall l1 l2,
  StronglySorted le l1 -> StronglySorted le l2 ->
  (forall k, filter (fk k) l1 = filter (fk k) l2) -> l1 = l2.
Proof.
  induction l1 as [|x t1 IH]; intros [|y t2] S1 S2 H.
  - reflexivity.
  - specialize (H (key y)). simpl in H. rewrite Z.eqb_refl in H. discriminate H.
  - specialize (H (key x)). simpl in H. rewrite Z.eqb_refl in H. discriminate H.
  - inversion S1 as [|? ? S1t F1]; subst. inversion S2 as [|? ? S2t F2]; subst.
    rewrite Forall_forall in F1, F2.
    assert (Hxy : key x <= key y).
    { assert (Hin : In y (filter (fk (key y)) (x :: t1))).
      { rewrite H. apply filter_In. split; [left; reflexivity | apply Z.eqb_refl]. }
      apply filter_In in Hin. destruct Hin as [[->|Hin] _]; [lia|].
      apply F1, Hin. }
    assert (Hyx : key y <= key x).
    { assert (Hin : In x (filter (fk (key x)) (y :: t2))).
      { rewrite <- H. apply filter_In. split; [left; reflexivity | apply Z.eqb_refl]. }
      apply filter_In in Hin. destruct Hin as [[->|Hin] _]; [lia|].
      apply F2, Hin. }
    assert (Hk : key x = key y) by lia.
    assert (Hhd := H (key x)). simpl in Hhd.
    rewrite Z.eqb_refl in Hhd.
    replace (key y =? key x) with true in Hhd by (symmetry; apply Z.eqb_eq; lia).
    injection Hhd as Hx _. subst y.
    f_equal. apply IH; auto.
    intros k. specialize (H k). simpl in H.
    destruct (key x =? k); [injection H as H|]; exact H.
Qed.

(** the stable sort is determined by sortedness + stability
    (the [Permutation] hypothesis is implied by the other two; kept as stated) *)
Lemma stable_sort_unique : forall l l',
  Permutation l l' -> StronglySorted le l' ->
  (forall k, filter (fk k) l' = filter (fk k) l) -> l' = sort_by key l.
Proof.
  intros l l' _ S H. apply sorted_filters_eq; auto.
  - apply sort_by_sorted.
  - intros k. rewrite sort_by_stable. apply H.
Qed.

(** ** derived algebra *)

Lemma sorted_app a b :
  StronglySorted le a -> StronglySorted le b ->
  (forall x y, In x a -> In y b -> key x <= key y) -> StronglySorted le (a ++ b).
Proof.
  induction a as [|x t IH]; intros Sa Sb H; simpl; auto.
  inversion Sa as [|? ? St Fx]; subst.
  constructor.
  - apply IH; auto. intros u v Hu Hv. apply H; [right|]; auto.
  - apply Forall_app. split; [exact Fx|].
    apply Forall_forall. intros v Hv. apply H; [left; reflexivity | exact Hv].
Qed.

Lemma sorted_filter (p : A -> bool) l : StronglySorted le l -> StronglySorted le (filter p l).
Proof.
  induction l as [|x t IH]; intros S; simpl; auto.
  inversion S as [|? ? St Fx]; subst.
  destruct (p x) eqn:E; auto.
  constructor; auto.
  rewrite Forall_forall in *. intros y Hy. apply filter_In in Hy. apply Fx, Hy.
Qed.

Lemma filter_filter_comm (p q : A -> bool) l : filter p (filter q l) = filter q (filter p l).
Proof.
  induction l as [|x t IH]; simpl; auto.
  destruct (q x) eqn:Eq; destruct (p x) eqn:Ep; simpl; rewrite ?Eq, ?Ep, IH; reflexivity.
Qed.

Lemma filter_none (p : A -> bool) l : (forall x, In x l -> p x = false) -> filter p l = [].
Proof.
  induction l as [|x t IH]; intros H; simpl; auto.
  rewrite (H x) by (left; reflexivity). apply IH. intros y Hy. apply H. right; exact Hy.
Qed.

Lemma filter_all (p : A -> bool) l : (forall x, In x l -> p x = true) -> filter p l = l.
Proof.
  induction l as [|x t IH]; intros H; simpl; auto.
  rewrite (H x) by (left; reflexivity). f_equal. apply IH. intros y Hy. apply H. right; exact Hy.
Qed.

Lemma sort_by_app_lt : forall a b, (forall x y, In x a -> In y b -> key x < key y) ->
  sort_by key (a ++ b) = sort_by key a ++ sort_by key b.
Proof.
  intros a b H. symmetry. apply stable_sort_unique.
  - apply Permutation_sym, Permutation_app; apply sort_by_perm.
  - apply sorted_app; try apply sort_by_sorted.
    intros x y Hx Hy. apply (proj1 (sort_by_in _ _)) in Hx. apply (proj1 (sort_by_in _ _)) in Hy.
    specialize (H x y Hx Hy). lia.
  - intros k. rewrite !filter_app, !sort_by_stable. reflexivity.
Qed.

(** splitting at a threshold *)
Lemma sort_by_split : forall T l,
  sort_by key l = sort_by key (filter (fun x => key x <=? T) l)
                  ++ sort_by key (filter (fun x => T <? key x) l).
Proof.
  intros T l. symmetry. apply stable_sort_unique.
  - eapply perm_trans; [| apply Permutation_app; apply Permutation_sym, sort_by_perm].
    induction l as [|x t IH]; simpl; [apply Permutation_refl|].
    destruct (key x <=? T) eqn:E1; destruct (T <? key x) eqn:E2; try lia; simpl.
    + apply perm_skip, IH.
    + apply Permutation_cons_app, IH.
  - apply sorted_app; try apply sort_by_sorted.
    intros x y Hx Hy. apply (proj1 (sort_by_in _ _)) in Hx. apply (proj1 (sort_by_in _ _)) in Hy.
    apply filter_In in Hx. apply filter_In in Hy. lia.
  - intros k. rewrite filter_app, !sort_by_stable.
    rewrite (filter_filter_comm (fk k) (fun x => key x <=? T)).
    rewrite (filter_filter_comm (fk k) (fun x => T <? key x)).
    destruct (k <=? T) eqn:E.
    + rewrite (filter_all (fun x => key x <=? T)), (filter_none (fun x => T <? key x)).
      * apply app_nil_r.
      * intros x Hx. apply filter_In in Hx. lia.
      * intros x Hx. apply filter_In in Hx. lia.
    + rewrite (filter_none (fun x => key x <=? T)), (filter_all (fun x => T <? key x)).
      * reflexivity.
      * intros x Hx. apply filter_In in Hx. lia.
      * intros x Hx. apply filter_In in Hx. lia.
Qed.

(** filter commutes with the stable sort *)
Lemma sort_by_filter : forall (p : A -> bool) l,
  filter p (sort_by key l) = sort_by key (filter p l).
Proof.
  intros p l. apply sorted_filters_eq.
  - apply sorted_filter, sort_by_sorted.
  - apply sort_by_sorted.
  - intros k. rewrite filter_filter_comm, !sort_by_stable. apply filter_filter_comm.
Qed.

(** with pairwise distinct keys the result does not depend on the input order *)
Lemma filter_key_distinct k l : NoDup (map key l) -> (length (filter (fk k) l) <= 1)%nat.
Proof.
  induction l as [|x t IH]; intros H; simpl; [lia|].
  inversion H as [|? ? Hni Hnd]; subst.
  destruct (key x =? k) eqn:E; [|apply IH, Hnd].
  rewrite filter_none; [simpl; lia|].
  intros y Hy. destruct (key y =? k) eqn:E2; auto.
  exfalso. apply Hni. replace (key x) with (key y) by lia. apply in_map, Hy.
Qed.

Lemma filter_perm (p : A -> bool) l l' :
  Permutation l l' -> Permutation (filter p l) (filter p l').
Proof.
  induction 1 as [|x l l' _ IH|x y l|l l' l'' _ IH1 _ IH2]; simpl.
  - apply Permutation_refl.
  - destruct (p x); [apply perm_skip|]; exact IH.
  - destruct (p x); destruct (p y); try apply Permutation_refl. apply perm_swap.
  - eapply perm_trans; eauto.
Qed.

Lemma sort_by_perm_distinct : forall l l',
  Permutation l l' -> NoDup (map key l) -> sort_by key l = sort_by key l'.
Proof.
  intros l l' HP HN. apply sorted_filters_eq; try apply sort_by_sorted.
  intros k. rewrite !sort_by_stable.
  pose proof (filter_key_distinct k l HN) as Hlen.
  pose proof (filter_perm (fk k) l l' HP) as HPk.
  destruct (filter (fk k) l) as [|x [|y r]] eqn:E.
  - apply Permutation_nil in HPk. symmetry; exact HPk.
  - apply Permutation_length_1_inv in HPk. symmetry; exact HPk.
  - simpl in Hlen. lia.
Qed.

End SortProofs.

Lemma insert_by_map {A B} (key : A -> Z) (f : B -> A) x l :
  insert_by key (f x) (map f l) = map f (insert_by (fun b => key (f b)) x l).
Proof.
  induction l as [|y t IH]; simpl; auto.
  destruct (key (f x) <=? key (f y)); simpl; auto. rewrite IH. reflexivity.
Qed.

Lemma sort_by_map {A} (key : A -> Z) : forall B (f : B -> A) l,
  sort_by key (map f l) = map f (sort_by (fun b => key (f b)) l).
Proof.
  intros B f; induction l as [|x t IH]; simpl; auto.
  rewrite IH. apply insert_by_map.
Qed.

