(** END TO END, the front-end part (Model/EndToEnd.v): [front_end_of] is [ConfigModel.front_end]; the file-name view of [rp2_model]
    is [front_end] itself; and the three rejection causes of the front end (invalid configuration, failing option check, a
    sheet the parser rejects) chained from [no_report_on_rejection] (C12).  Kept apart from Proofs/EndToEnd.v so that the C12
    corollary depends on the L1 proofs only (no cascade from the proofs of the later layers). *)
From Coq Require Import List ZArith Bool Lia.
From RP2V Require Import Base.Prelude Base.Time Base.Dec Base.Sorting Model.Types Model.Generated Model.Txn Model.Parser Model.Render
  Model.Grid Model.ReportInput Model.MainRun Model.RunCompose Model.ConfigModel Model.EndToEnd.
From RP2V Require Import Proofs.FaultsCtor Proofs.FaultsConfig.
Import ListNotations.
Open Scope Z_scope.

(** * 1. the front end *)
Lemma front_end_of_str c o secs ts workbook back :
  @front_end_of str c o secs ts workbook back = front_end c o secs ts workbook back.
Proof. reflexivity. Qed.

Lemma front_end_of_map {X Y} (f : X -> Y) c o secs ts workbook (back : list (str * parsed) -> Z * list X) :
  front_end_of c o secs ts workbook (fun ps => (fst (back ps), map f (snd (back ps)))) =
  (fst (front_end_of c o secs ts workbook back), map f (snd (front_end_of c o secs ts workbook back))).
Proof.
  unfold front_end_of. destruct (options_check c o (validate_config secs)) as [code assets].
  destruct (negb (code =? 0)); [reflexivity|].
  destruct (validate_config secs) as [s|]; [|reflexivity].
  destruct (parse_all (pcfg_of s ts) assets workbook 0); reflexivity.
Qed.

(** the file-name view is the image of the run *)
Theorem rp2_model_files c o secs ts workbook v envp :
  exists f, rp2_files c o secs ts workbook v envp =
            (fst (rp2_model c o secs ts workbook v envp), map f (snd (rp2_model c o secs ts workbook v envp))).
Proof.
  unfold rp2_files, rp2_model. rewrite <- front_end_of_str.
  destruct (validate_config secs) as [s|e] eqn:V.
  - exists (report_file c o s).
    exact (front_end_of_map (report_file c o s) c (l1_options o) secs ts workbook (fun ps => back_end c o v envp s ps)).
  - exists (fun _ => []).
    exact (front_end_of_map (fun _ : gen_id * list sheetw => ([] : str)) c (l1_options o) secs ts workbook (fun _ => (1, []))).
Qed.

(** * 2. rejection *)
(** ** 2.1 the three causes of the front end, chained from C12 [no_report_on_rejection] through the file-name view *)
Theorem e2e_front_rejection c o secs ts workbook v envp :
  fst (options_check c (l1_options o) (validate_config secs)) <> 0 \/
  is_err (validate_config secs) \/
  (exists s, validate_config secs = Ok s /\
             is_err (parse_all (pcfg_of s ts) (snd (options_check c (l1_options o) (validate_config secs))) workbook 0)) ->
  fst (rp2_model c o secs ts workbook v envp) <> 0 /\ snd (rp2_model c o secs ts workbook v envp) = [].
Proof.
  intros H. destruct (rp2_model_files c o secs ts workbook v envp) as (f & E).
  assert (HH : fst (rp2_files c o secs ts workbook v envp) <> 0 /\ snd (rp2_files c o secs ts workbook v envp) = [])
    by (exact (no_report_on_rejection c (l1_options o) secs ts workbook _ H)).
  destruct HH as [H1 H2]. rewrite E in H1, H2. cbn [fst snd] in H1, H2.
  split; [exact H1|]. exact (map_eq_nil _ _ H2).
Qed.

Corollary e2e_invalid_config c o secs ts workbook v envp :
  is_err (validate_config secs) ->
  fst (rp2_model c o secs ts workbook v envp) <> 0 /\ snd (rp2_model c o secs ts workbook v envp) = [].
Proof. intros H. apply e2e_front_rejection. right. left. exact H. Qed.

Corollary e2e_option_check_fails c o secs ts workbook v envp :
  fst (options_check c (l1_options o) (validate_config secs)) <> 0 ->
  fst (rp2_model c o secs ts workbook v envp) <> 0 /\ snd (rp2_model c o secs ts workbook v envp) = [].
Proof. intros H. apply e2e_front_rejection. left. exact H. Qed.

(** the sheet of ANY processed asset (after any accepted ones) is missing or rejected by the parser *)
Corollary e2e_sheet_rejected c o secs ts workbook v envp s pre a post ps :
  validate_config secs = Ok s ->
  snd (options_check c (l1_options o) (Ok s)) = pre ++ a :: post ->
  parse_all (pcfg_of s ts) pre workbook 0 = Ok ps ->
  (match workbook a with
   | None => True
   | Some rows => is_err (parse_sheet (pcfg_of s ts) a (match rev ps with [] => 0 | (_, p) :: _ => pa_counter p end) rows)
   end) ->
  fst (rp2_model c o secs ts workbook v envp) <> 0 /\ snd (rp2_model c o secs ts workbook v envp) = [].
Proof.
  intros V A P H. apply e2e_front_rejection. right. right. exists s. split; [exact V|].
  rewrite V, A. exact (parse_all_err (pcfg_of s ts) pre a post workbook 0 ps P H).
Qed.

(** non-vacuity: rp2_es with -m lifo (not a choice of the country) on any input is rejected by the option check, whatever the
    later stages would do; an empty configuration file is rejected as well (the missing-TABLE-END workbook is in
    Proofs/EndToEndExamples.v) *)
Example e2e_front_rejection_nonvacuous : forall secs ts workbook v envp,
  let o := {| o_method := Some [108; 105; 102; 111]; o_lang := None; o_from := 0; o_to := 10; o_asset := None; o_neg := false;
              o_prefix := []; o_plugin := false |} in
  (fst (rp2_model ES o secs ts workbook v envp) <> 0 /\ snd (rp2_model ES o secs ts workbook v envp) = []) /\
  (fst (rp2_model US o [] ts workbook v envp) <> 0 /\ snd (rp2_model US o [] ts workbook v envp) = []).
Proof.
  intros secs ts workbook v envp o. split.
  - apply e2e_option_check_fails. unfold options_check, o. cbn. lia.
  - apply e2e_invalid_config. vm_compute. exact I.
Qed.
