(** Non-vacuity of the totality theorems (Proofs/ComputeTotal.v): decidable checkers for their hypotheses, and concrete
    histories meeting them (history A, B of L4Examples.v; the two-asset report input [ex2_i] is in Proofs/RunComposeTotal.v).  Also the corner cases: what the model does with a
    STAKING acquisition of a non-positive amount (rejected by the matcher, as rp2 does) and with a to-date before the first
    acquisition (average price 0).  Everything is evaluated by the kernel. *)
From Coq Require Import List ZArith Bool Lia Sorted ZifyBool.
From RP2V Require Import Base.Prelude Base.Assoc Base.Sorting Base.Dec Base.Time Model.Types Model.Generated Model.Txn
  Model.Matcher Model.MatchSpec Model.MatchWf Model.FracSpec Model.Pipeline Model.Computed Model.ComputedSpec Model.NumberSpec
  Model.TotalSpec Model.Codec Model.ReportInput.
From RP2V Require Import Proofs.C03Proofs Proofs.PipelineWf Proofs.C08Proofs Proofs.L4Examples Proofs.NumberingExamples
  Proofs.ComputeTotal.
Import ListNotations.
Open Scope Z_scope.

(** * checkers *)
Fixpoint all_lt (l : list Z) : bool :=
  match l with [] => true | x :: t => forallb (fun y => x <? y) t && all_lt t end.
Lemma all_lt_sound l : all_lt l = true -> StronglySorted Z.lt l.
Proof.
  induction l as [|x l IH]; cbn [all_lt]; intros H; constructor; apply andb_true_iff in H; destruct H as [H1 H2]; [exact (IH H2)|].
  apply Forall_forall. intros y Hy. rewrite forallb_forall in H1. specialize (H1 y Hy). lia.
Qed.
Lemma rows_increasing_check h : all_lt (map ri_row (h_ins h)) = true -> in_rows_increasing h.
Proof.
  intros H i j d Hij. pose proof (SS_nth _ _ (all_lt_sound _ H) i j (ri_row d)) as HS.
  rewrite map_length, !map_nth in HS. exact (HS Hij).
Qed.

Definition staking_ok_b (h : hist) : bool :=
  forallb (fun r => negb (ttype_eqb (ri_type r) STAKING) || (0 <? ri_crypto_in r)) (h_ins h).
Lemma staking_check h : staking_ok_b h = true -> no_nonpositive_staking h.
Proof.
  intros H r Hr Hty. unfold staking_ok_b in H. rewrite forallb_forall in H. specialize (H r Hr).
  rewrite Hty in H. cbn in H. lia.
Qed.

Definition sched_covers_b (sched : list (Z * meth)) (evs : list txn) : bool :=
  forallb (fun e => existsb (fun ym => fst ym <=? local_year (t_ts e)) sched) evs.
Lemma sched_covers_check sched evs : sched_covers_b sched evs = true -> hist_sched_covers sched evs.
Proof.
  intros H e He. unfold sched_covers_b in H. rewrite forallb_forall in H. specialize (H e He).
  apply existsb_exists in H. destruct H as ([y m] & Hin & Hle). exists y, m. split; [exact Hin|cbn [fst] in Hle; lia].
Qed.
Definition same_year_b (evs : list txn) : bool :=
  forallb (fun e => forallb (fun e' => negb (t_us e =? t_us e') || (local_year (t_ts e) =? local_year (t_ts e'))) evs) evs.

Definition matched_history_b (sched : list (Z * meth)) (h : hist) (t : txs) (fs : list fraction) : bool :=
  match build h, taxable_events t, fractions_of gen_always_repush sched t with
  | Ok t', Ok evs, Ok fs' =>
    all_lt (map ri_row (h_ins h)) && same_year_b evs && sched_covers_b sched evs && negb (has_dup (map fst sched)) &&
    match t' with {| t_ins := a; t_outs := b; t_intras := c |} => true end
  | _, _, _ => false
  end.

(** the checker does not compare [t] and [fs] with the recomputed values (records of decimals have no decidable
    equality in this development): the two equations are separate hypotheses, closed by [vm_compute; reflexivity] *)
Lemma matched_history_check sched h t fs :
  build h = Ok t -> fractions_of gen_always_repush sched t = Ok fs -> matched_history_b sched h t fs = true ->
  matched_history sched h t fs.
Proof.
  intros Hb HF H. unfold matched_history_b in H. rewrite Hb, HF in H.
  destruct (taxable_events t) as [evs|] eqn:HE; [|discriminate].
  destruct t as [a b c]. rewrite !andb_true_iff in H. destruct H as ((((H1 & H2) & H3) & H4) & _).
  constructor; [exact Hb|exact (rows_increasing_check h H1)| |apply has_dup_false_NoDup; apply negb_true_iff; exact H4|exact HF].
  intros evs' HE'. rewrite HE in HE'. injection HE' as <-. split; [exact (same_year_check evs H2)|exact (sched_covers_check sched evs H3)].
Qed.

Definition holder_ok_b (ho : Z) : bool := (0 <=? ho) && (ho <? 100000).
Definition holders_ok_b (t : txs) : bool :=
  forallb (fun x => match x with
                    | TIn a => holder_ok_b (i_holder a)
                    | TOut a => holder_ok_b (o_holder a)
                    | TIntra a => holder_ok_b (x_from_holder a) && holder_ok_b (x_to_holder a)
                    end) (replay_order t).
Lemma holders_ok_check t : holders_ok_b t = true -> holders_ok t.
Proof.
  intros H x Hx. unfold holders_ok_b in H. rewrite forallb_forall in H. specialize (H x Hx).
  destruct x as [a|a|a]; cbn [txn_holders_ok]; unfold holder_ok, holder_ok_b in *; lia.
Qed.

(** never overdrawn = the balance replay without -n goes through (C08_rejected_iff) *)
Lemma never_overdrawn_check to_day t : holders_ok t ->
  (exists bl, balances false to_day [] [] t = Ok bl) -> never_overdrawn to_day t.
Proof.
  intros Hok (bl & HB) p x r Hs Hov.
  assert (HX : balances false to_day [] [] t = Err ENegBalance) by (apply (c08_rejected_iff to_day [] [] t Hok); exists p, x, r; auto).
  rewrite HX in HB. discriminate HB.
Qed.

(** * history A (two exchanges, two holders, income, a split sale, a fee-bearing transfer) *)
Example hA_matched : matched_history schedA hA tA fsA.
Proof. apply matched_history_check; [exact tA_built|exact fsA_matched|vm_compute; reflexivity]. Qed.
Example tA_holders_ok : holders_ok tA.
Proof. apply holders_ok_check. vm_compute. reflexivity. Qed.
Example tA_never_overdrawn : forall to_day, In to_day [18000; 18383; 18400; 18450; 18455; 18500; 100000] -> never_overdrawn to_day tA.
Proof.
  intros to_day H. apply never_overdrawn_check; [exact tA_holders_ok|].
  repeat (destruct H as [<-|H]; [eexists; vm_compute; reflexivity|]). destruct H.
Qed.

(** instances of [compute_total] / [compute_err_exact] / [compute_tax_outcome]: every window, with and without -n *)
Example hA_compute_total_allow := fun period from_day to_day exs hos =>
  compute_total schedA hA tA fsA hA_matched period from_day to_day true exs hos (or_introl eq_refl).
Example hA_compute_total_strict := fun period from_day exs hos =>
  compute_total schedA hA tA fsA hA_matched period from_day 18450 false exs hos
    (or_intror (conj tA_holders_ok (tA_never_overdrawn 18450 ltac:(cbn; tauto)))).
Example hA_only_error := compute_only_error schedA hA tA fsA hA_matched.
Example hA_err_exact := fun period from_day to_day exs hos =>
  compute_err_exact schedA hA tA fsA hA_matched period from_day to_day exs hos tA_holders_ok.
Example hA_tax_outcome := fun period from_day to_day allow exs hos =>
  compute_tax_outcome schedA hA tA evsA (matched_built _ _ _ _ hA_matched) evsA_ok period from_day to_day allow exs hos tA_holders_ok.
Example hA_not_exhausted : ~ lots_exhausted tA evsA.
Proof.
  destruct (built_matcher_outcome schedA hA tA evsA (matched_built _ _ _ _ hA_matched) evsA_ok) as [(fs & _ & H)|[H _]]; [exact H|].
  rewrite fsA_matched in H. discriminate H.
Qed.

(** * history B (buy 1, sell 2, buy 5): matched only when the lots suffice -- here the matcher itself runs out of lots
    (EExhausted, rp2: "Total in-transaction crypto value < total taxable crypto value"); with the refill moved before the
    sale ([hB']: buy 1, buy 5, sell 2 from an account holding only the first buy) the matcher succeeds and exactly the
    balance guard decides *)
Definition evsB : list txn := Eval vm_compute in match taxable_events tB with Ok l => l | Err _ => [] end.
Example tB_exhausted : fractions_of gen_always_repush schedA tB = Err EExhausted /\ taxable_events tB = Ok evsB.
Proof. vm_compute. split; reflexivity. Qed.

Definition hB' : hist :=
  {| h_ins := [ r_in 1 18000 0 0 BUY (100 * U) (1 * U); r_in 2 18005 1 0 BUY (100 * U) (5 * U) ];
     h_outs := [ r_out 3 18010 0 0 SELL (150 * U) (2 * U) 0 ];
     h_intras := [] |}.
Definition tB' : txs := Eval vm_compute in match build hB' with Ok t => t | Err _ => {| t_ins := []; t_outs := []; t_intras := [] |} end.
Definition fsB' : list fraction := Eval vm_compute in match fractions_of gen_always_repush schedA tB' with Ok fs => fs | Err _ => [] end.
Example hB'_matched : matched_history schedA hB' tB' fsB'.
Proof. apply matched_history_check; vm_compute; reflexivity. Qed.
Example tB'_holders_ok : holders_ok tB'.
Proof. apply holders_ok_check. vm_compute. reflexivity. Qed.
Example tB'_overdraft : some_overdraft 100000 tB' /\ never_overdrawn 18005 tB'.
Proof.
  split.
  - exists (firstn 2 (take_until txn_day 100000 (replay_order tB'))), (nth 2 (take_until txn_day 100000 (replay_order tB')) (TIn intx_dflt)), [].
    split; vm_compute; reflexivity.
  - apply never_overdrawn_check; [exact tB'_holders_ok|eexists; vm_compute; reflexivity].
Qed.
(** rejected without -n when the to-date includes the sale, computed with -n, computed without -n for an earlier to-date *)
Example hB'_outcomes :
  compute 365 0 100000 false exsA hosA tB' fsB' = Err ENegBalance /\
  (exists cd, compute 365 0 100000 true exsA hosA tB' fsB' = Ok cd) /\
  (exists cd, compute 365 0 18005 false exsA hosA tB' fsB' = Ok cd).
Proof.
  destruct (compute_err_exact schedA hB' tB' fsB' hB'_matched 365 0 100000 exsA hosA tB'_holders_ok) as ((cd & HT & _) & Hneg & _).
  destruct (compute_err_exact schedA hB' tB' fsB' hB'_matched 365 0 18005 exsA hosA tB'_holders_ok) as (_ & _ & Hok).
  split; [apply (Hneg false); split; [reflexivity|exact (proj1 tB'_overdraft)]|].
  split; [exists cd; exact HT|]. apply (Hok false). right. exact (proj2 tB'_overdraft).
Qed.

(** * corner cases *)
Definition mkh (ins : list raw_in) (outs : list raw_out) : hist := {| h_ins := ins; h_outs := outs; h_intras := [] |}.
Definition outcome (h : hist) : option err * option err :=
  match build h with
  | Ok t => (match fractions_of gen_always_repush schedA t with Ok _ => None | Err e => Some e end,
             match compute_tax 365 0 2932896 true exsA hosA schedA t with Ok _ => None | Err e => Some e end)
  | Err e => (Some e, Some e)
  end.
(** a STAKING acquisition of amount 0 or below is constructed ([build] succeeds) and then rejected by the matcher with a
    value error -- alone, after a BUY, before a BUY that would make the total non-negative, with a later sale -- exactly
    the outcomes of rp2 on the same rows (RP2ValueError; replayed on the real code, see the evidence note of C16): the
    hypothesis [no_nonpositive_staking] of [built_history] excludes inputs for which rp2 produces no ComputedData either *)
Example staking_nonpositive_rejected :
  outcome (mkh [r_in 3 18000 0 0 STAKING (10 * U) 0] []) = (Some EValue, Some EValue) /\
  outcome (mkh [r_in 3 18000 0 0 BUY (10 * U) U; r_in 4 18100 0 0 STAKING (10 * U) 0] []) = (Some EValue, Some EValue) /\
  outcome (mkh [r_in 3 18000 0 0 BUY (10 * U) U; r_in 4 18100 0 0 STAKING (10 * U) (- U / 2)] []) = (Some EValue, Some EValue) /\
  outcome (mkh [r_in 3 18000 0 0 BUY (10 * U) U; r_in 4 18100 0 0 STAKING (10 * U) (- U / 2)] [r_out 9 18200 0 0 SELL (20 * U) (U / 4) 0])
    = (Some EValue, Some EValue) /\
  outcome (mkh [r_in 3 18000 0 0 STAKING (10 * U) (- U)] []) = (Some EValue, Some EValue) /\
  outcome (mkh [r_in 3 18000 0 0 STAKING (10 * U) (- U); r_in 4 18100 0 0 BUY (10 * U) U] []) = (Some EValue, Some EValue) /\
  outcome (mkh [r_in 3 18000 0 0 STAKING (10 * U) U] []) = (None, None).
Proof. vm_compute. repeat split. Qed.
(** [compute] in isolation does depend on it: handed a zero-amount income fraction (which the matcher never emits) the
    proceeds 0 * x / 0 are undefined *)
Example compute_needs_matcher_output :
  match build (mkh [r_in 3 18000 0 0 BUY (10 * U) U; r_in 4 18100 0 0 STAKING (10 * U) 0] []) with
  | Ok t => compute 365 0 2932896 true exsA hosA t [{| f_ev := 4; f_lot := None; f_amt := 0 |}] = Err EInternal
  | Err _ => False
  end.
Proof. vm_compute. reflexivity. Qed.
(** a to-date before the first acquisition: no division, the average price is 0, nothing is shown (rp2: the same) *)
Example to_date_before_first_acquisition :
  exists cd, compute 365 0 17000 false exsA hosA tA fsA = Ok cd /\ cd_price cd = dzero /\ cd_gls cd = [] /\ cd_balances cd = [] /\ cd_yearly cd = [].
Proof. eexists. vm_compute. repeat split. Qed.
Example price_before_first_instance : price_per_unit 17000 (t_ins tA) = Ok dzero.
Proof. apply price_before_first_acquisition. intros a Ha. vm_compute in Ha. repeat (destruct Ha as [<-|Ha]; [vm_compute; reflexivity|]). destruct Ha. Qed.

