(** The fraction labels of [compute] (cd_evfrac / cd_lotfrac): index and count among ALL fractions up to the
    to-date.  Lifts the specification of [numbering] (NumberingProofs.v) to [labelled] and [compute], shows that a
    to-date cut never splits an event block, and that the matcher's output (for parser-built histories) has the
    block structure the event numbering needs. *)
From Coq Require Import List ZArith Bool Lia Permutation Sorted ZifyBool.
From RP2V Require Import Base.Prelude Base.Assoc Base.Sorting Base.Dec Base.Time Model.Types Model.Generated Model.Txn
  Model.Matcher Model.MatchSpec Model.MatchWf Model.FracSpec Model.Pipeline Model.Computed Model.ComputedSpec Model.NumberSpec
  Proofs.AssocProofs Proofs.SortingProofs Proofs.FilterProofs Proofs.ComputedProofs Proofs.NumberingProofs.
Import ListNotations.
Open Scope Z_scope.

(** * a to-date cut never splits an event: all fractions of one event carry the event's date *)
Lemma take_until_app_all {A} (day : A -> Z) to_ a b : (forall x, In x a -> day x <= to_) ->
  take_until day to_ (a ++ b) = a ++ take_until day to_ b.
Proof.
  induction a as [|x a IH]; intros H; cbn [app take_until]; [reflexivity|].
  assert (E : (to_ <? day x) = false) by (specialize (H x (or_introl eq_refl)); lia). rewrite E. f_equal.
  apply IH. intros y Hy. apply H. right. exact Hy.
Qed.

Theorem take_until_ev_blocks to_day l : ev_blocks l -> ev_blocks (take_until g_day to_day l).
Proof.
  induction 1 as [|e b rest Hne Hb Hsum Hrest Hblocks IH]; [constructor|].
  destruct b as [|g0 b0] eqn:Eb; [congruence|]. rewrite <- Eb in *.
  assert (Hday : forall g, In g b -> g_day g = local_day (t_ts e)).
  { intros g Hg. unfold g_day. destruct (Hb g Hg) as [-> _]. reflexivity. }
  destruct (to_day <? local_day (t_ts e)) eqn:E.
  - rewrite Eb. cbn [app take_until]. rewrite <- (Hday g0) in E by (rewrite Eb; left; reflexivity). rewrite E. constructor.
  - rewrite take_until_app_all by (intros g Hg; rewrite (Hday g Hg); lia).
    apply (evb_app e b); try assumption.
    intros g Hg. apply Hrest. apply (take_until_in g_day) in Hg. apply Hg.
Qed.

(** * [labelled]: every fraction up to the to-date with its specified labels *)
Lemma nth_error_combine {A B} (a : list A) (b : list B) : forall k x y,
  nth_error a k = Some x -> nth_error b k = Some y -> nth_error (combine a b) k = Some (x, y).
Proof.
  revert b. induction a as [|u a IH]; intros [|v b] [|k] x y Ha Hb; cbn [nth_error combine] in *; try discriminate.
  - congruence.
  - apply IH; assumption.
Qed.

Theorem labelled_spec to_day gls L :
  let cut := take_until g_day to_day gls in
  ev_blocks cut -> labelled to_day gls = Ok L ->
  length L = length cut /\
  forall k g, nth_error cut k = Some g -> nth_error L k = Some (g, ev_label cut k g, lot_label cut k g).
Proof.
  cbv zeta. intros Hb. unfold labelled.
  destruct (numbering to_day gls) as [[[[evf lotf] evt] lott]|e] eqn:N; [|discriminate]. intros [= <-].
  destruct (numbering_labels _ _ _ _ _ _ Hb N) as (L1 & L2 & He & Hl & Hk).
  split.
  - rewrite map_length, !combine_length. lia.
  - intros k g Hg. destruct (Hk k g Hg) as (K1 & K2 & _ & _).
    rewrite nth_error_map, (nth_error_combine _ _ k g _ Hg (nth_error_combine _ _ k _ _ K1 K2)). cbn [option_map].
    unfold mk_label, nat_pair_of, ev_label, lot_label. cbn [fst snd]. fold (ev_row g). rewrite He.
    destruct (g_lot g) as [a|]; [rewrite Hl|]; reflexivity.
Qed.

(** * [compute]: the labels shown in a window *)
Lemma nth_error_filter {A} (p : A -> bool) l : forall k x,
  nth_error (filter p l) k = Some x ->
  exists j, nth_error l j = Some x /\ p x = true /\ length (filter p (firstn j l)) = k.
Proof.
  induction l as [|y l IH]; intros k x; cbn [filter]; [destruct k; discriminate|].
  destruct (p y) eqn:E.
  - destruct k as [|k]; cbn [nth_error].
    + intros [= <-]. exists O. cbn [nth_error firstn filter length]. auto.
    + intros H. destruct (IH k x H) as (j & H1 & H2 & H3). exists (S j). cbn [nth_error firstn filter]. rewrite E. cbn [length]. auto.
  - intros H. destruct (IH k x H) as (j & H1 & H2 & H3). exists (S j). cbn [nth_error firstn filter]. rewrite E. auto.
Qed.

Lemma filter_map_comm {A B} (f : A -> B) (p : B -> bool) l : filter p (map f l) = map f (filter (fun x => p (f x)) l).
Proof. induction l as [|x l IH]; cbn [map filter]; [reflexivity|]. destruct (p (f x)); cbn [map]; rewrite IH; reflexivity. Qed.

Theorem compute_fraction_labels : forall period from_day to_day allow exs hos t fs cd,
  compute period from_day to_day allow exs hos t fs = Ok cd ->
  let cut := take_until g_day to_day (cd_all_gls cd) in
  ev_blocks cut ->
  length (cd_evfrac cd) = length (cd_gls cd) /\ length (cd_lotfrac cd) = length (cd_gls cd) /\
  cd_gls cd = filter (fun g => from_day <=? g_day g) cut /\
  forall k g, nth_error (cd_gls cd) k = Some g ->
    exists j, nth_error cut j = Some g /\ length (filter (fun g => from_day <=? g_day g) (firstn j cut)) = k /\
      nth_error (cd_evfrac cd) k = Some (ev_label cut j g) /\
      nth_error (cd_lotfrac cd) k = Some (lot_label cut j g).
Proof.
  intros period from_day to_day allow exs hos t fs cd H cut Hb.
  destruct (compute_labels _ _ _ _ _ _ _ _ _ H) as (L & HL & HW). cbv zeta in HW. destruct HW as (W1 & W2 & W3).
  pose proof (labelled_fractions _ _ _ HL) as HLg. fold cut in HLg.
  destruct (labelled_spec _ _ _ Hb HL) as (Hlen & Hnth). fold cut in Hlen, Hnth.
  set (W := filter (fun x => from_day <=? g_day (lab_gl x)) L) in *.
  assert (Hcut : cd_gls cd = filter (fun g => from_day <=? g_day g) cut).
  { rewrite <- W1, <- HLg. unfold W. rewrite filter_map_comm. reflexivity. }
  split; [rewrite <- W2, <- W1, !map_length; reflexivity|]. split; [rewrite <- W3, <- W1, !map_length; reflexivity|].
  split; [exact Hcut|].
  intros k g Hk. rewrite <- W1, nth_error_map in Hk. destruct (nth_error W k) as [x|] eqn:Ex; [|discriminate].
  cbn [option_map] in Hk. injection Hk as Hxg.
  destruct (nth_error_filter _ _ _ _ Ex) as (j & Hj & _ & Hcnt).
  assert (Hjc : nth_error cut j = Some g).
  { rewrite <- HLg, nth_error_map, Hj. cbn [option_map]. rewrite Hxg. reflexivity. }
  pose proof (Hnth j g Hjc) as Hx. rewrite Hj in Hx. injection Hx as Hx.
  exists j. split; [exact Hjc|]. split.
  - rewrite <- HLg, firstn_map, filter_map_comm, map_length. exact Hcnt.
  - rewrite <- W2, <- W3, !nth_error_map, Ex. cbn [option_map]. rewrite Hx. split; reflexivity.
Qed.

(** * the matcher's output is a list of event blocks *)
From RP2V Require Import Proofs.SpecAux Proofs.SpecInv Proofs.SpecPrefix Proofs.SpecProps Proofs.MatcherRefine Proofs.MatcherProps
  Proofs.C03Proofs Proofs.PipelineWf.

Section SpecBlocks.
Variables (lots : list intx) (sched : list (Z * meth)).

(** the specification emits the fractions event by event *)
Lemma spec_state_blocks : forall evs rem out rem' out',
  spec_state lots sched evs rem out = Ok (rem', out') ->
  exists bs, rev out' = rev out ++ concat bs /\ Forall2 (fun e b => forall f, In f b -> f_ev f = e_row e) evs bs.
Proof.
  induction evs as [|e r IH]; intros rem out rem' out' H.
  - cbn [spec_state] in H. injection H as <- <-. exists []. cbn [concat]. rewrite app_nil_r. split; [reflexivity|constructor].
  - rewrite spec_state_cons in H. destruct (e_earn e).
    + destruct (IH _ _ _ _ H) as (bs & Hrev & HF). exists ([mk_frac lots e None (e_amt e)] :: bs). split.
      * rewrite Hrev. cbn [rev concat app]. rewrite <- app_assoc. reflexivity.
      * constructor; [|exact HF]. intros f [<-|[]]. reflexivity.
    + destruct (meth_for sched (e_year e) None) as [[y m]|]; [|discriminate].
      destruct (consume lots (S (length lots)) m e (e_amt e) rem out) as [[r1 o1]|] eqn:Ec; [|discriminate].
      destruct (consume_out lots m e _ _ _ _ _ _ Ec) as (_ & o2 & -> & Ho2).
      destruct (IH _ _ _ _ H) as (bs & Hrev & HF). exists (rev o2 :: bs). split.
      * rewrite Hrev, rev_app_distr. cbn [concat]. rewrite <- app_assoc. reflexivity.
      * constructor; [|exact HF]. intros f Hf. apply Ho2. apply in_rev. exact Hf.
Qed.

Lemma spec_run_blocks evs fs : spec_run lots sched evs = Ok fs ->
  exists bs, fs = concat bs /\ Forall2 (fun e b => forall f, In f b -> f_ev f = e_row e) evs bs.
Proof.
  unfold spec_run. rewrite spec_events_state.
  destruct (spec_state lots sched evs (map i_crypto_in lots) []) as [[r o]|] eqn:E; [|discriminate].
  intros [= <-]. destruct (spec_state_blocks _ _ _ _ _ E) as (bs & Hrev & HF). exists bs. split; [exact Hrev|exact HF].
Qed.
End SpecBlocks.

Lemma Forall2_in_r {A B} (R : A -> B -> Prop) l1 l2 y : Forall2 R l1 l2 -> In y l2 -> exists x, In x l1 /\ R x y.
Proof.
  induction 1 as [|a b l1 l2 Hab HF IH]; intros Hin; [destruct Hin|].
  destruct Hin as [<-|Hin]; [exists a; split; [left; reflexivity|exact Hab]|].
  destruct (IH Hin) as (x & Hx & HR). exists x. split; [right; exact Hx|exact HR].
Qed.
Lemma Forall2_in_l {A B} (R : A -> B -> Prop) l1 l2 x : Forall2 R l1 l2 -> In x l1 -> exists y, In y l2 /\ R x y.
Proof.
  induction 1 as [|a b l1 l2 Hab HF IH]; intros Hin; [destruct Hin|].
  destruct Hin as [<-|Hin]; [exists b; split; [left; reflexivity|exact Hab]|].
  destruct (IH Hin) as (y & Hy & HR). exists y. split; [right; exact Hy|exact HR].
Qed.

(** each block is exactly the fractions of its event (distinct event rows) *)
Lemma blocks_filter {E} (row : E -> Z) (evs : list E) : forall bs pre,
  Forall2 (fun e b => forall f, In f b -> f_ev f = row e) evs bs -> NoDup (map row evs) ->
  (forall f, In f pre -> ~ In (f_ev f) (map row evs)) ->
  Forall2 (fun e b => (forall f, In f b -> f_ev f = row e) /\ filter (frac_of_ev (row e)) (pre ++ concat bs) = b) evs bs.
Proof.
  induction evs as [|e evs IH]; intros bs pre HF Hnd Hpre; inversion HF as [|? b ? bs' Hb HF']; subst; [constructor|].
  inversion Hnd as [|? ? Hni Hnd']; subst. cbn [concat]. constructor.
  - split; [exact Hb|].
    rewrite !filter_app. rewrite (filter_ev_none (row e) pre), (filter_ev_all (row e) b Hb), (filter_ev_none (row e) (concat bs')).
    + cbn [app]. apply app_nil_r.
    + intros f Hf. apply in_concat in Hf. destruct Hf as (b' & Hb' & Hf).
      destruct (Forall2_in_r _ _ _ b' HF' Hb') as (e' & He' & Hrow).
      rewrite (Hrow f Hf). intros Heq. apply Hni. rewrite <- Heq. apply in_map. exact He'.
    + intros f Hf Heq. apply (Hpre f Hf). left. symmetry. exact Heq.
  - rewrite app_assoc. apply IH; [exact HF'|exact Hnd'|].
    intros f Hf Hin. apply in_app_or in Hf. destruct Hf as [Hf|Hf].
    + apply (Hpre f Hf). right. exact Hin.
    + rewrite (Hb f Hf) in Hin. exact (Hni Hin).
Qed.

(** * from the matcher's fractions to the resolved detail table *)
Lemma NoDup_map_inj {A} (f : A -> Z) l a b : NoDup (map f l) -> In a l -> In b l -> f a = f b -> a = b.
Proof.
  induction l as [|x l IH]; intros Hnd Ha Hb Heq; [destruct Ha|].
  cbn [map] in Hnd. inversion Hnd as [|? ? Hni Hnd']; subst.
  destruct Ha as [->|Ha], Hb as [->|Hb]; [reflexivity| | |apply IH; assumption].
  - exfalso. apply Hni. rewrite Heq. apply in_map. exact Hb.
  - exfalso. apply Hni. rewrite <- Heq. apply in_map. exact Ha.
Qed.

Lemma resolve_all_forall2 evs lots : forall fs gls, resolve_all evs lots fs = Some gls ->
  Forall2 (fun f g => resolve evs lots f = Some g) fs gls.
Proof.
  induction fs as [|f fs IH]; intros gls H; cbn [resolve_all] in H.
  - injection H as <-. constructor.
  - destruct (resolve evs lots f) as [g|] eqn:R; [|discriminate].
    destruct (resolve_all evs lots fs) as [gs|]; [|discriminate]. injection H as <-. constructor; [exact R|apply IH; reflexivity].
Qed.

Lemma resolve_fields evs lots f g : resolve evs lots f = Some g ->
  g_amt g = f_amt f /\ In (g_ev g) evs /\ t_row (g_ev g) = f_ev f.
Proof.
  unfold resolve. destruct (find_ev evs (f_ev f)) as [e|] eqn:F; [|discriminate].
  unfold find_ev in F. apply find_some in F. destruct F as [Hin Hrow].
  destruct (f_lot f) as [r|]; [destruct (find_lot lots r); [|discriminate]|]; intros [= <-]; cbn [g_amt g_ev]; repeat split; try assumption; lia.
Qed.

Lemma Forall2_concat_l {A B} (R : A -> B -> Prop) : forall bs l, Forall2 R (concat bs) l ->
  exists gbs, l = concat gbs /\ Forall2 (Forall2 R) bs gbs.
Proof.
  induction bs as [|b bs IH]; intros l H; cbn [concat] in H.
  - inversion H; subst. exists []. split; [reflexivity|constructor].
  - apply Forall2_app_inv_l in H. destruct H as (l1 & l2 & H1 & H2 & ->).
    destruct (IH l2 H2) as (gbs & -> & HF). exists (l1 :: gbs). split; [reflexivity|constructor; assumption].
Qed.

Lemma Forall2_map_l {A B C} (f : A -> B) (R : B -> C -> Prop) l1 l2 :
  Forall2 R (map f l1) l2 <-> Forall2 (fun x y => R (f x) y) l1 l2.
Proof.
  revert l2. induction l1 as [|a l1 IH]; intros l2; cbn [map]; split; intros H; inversion H; subst; constructor; try assumption; apply IH; assumption.
Qed.

Lemma Forall2_in_both {A B} (P Q : A -> B -> Prop) l1 l2 : Forall2 P l1 l2 ->
  (forall x y, In x l1 -> In y l2 -> P x y -> Q x y) -> Forall2 Q l1 l2.
Proof.
  induction 1 as [|a b l1 l2 Hab HF IH]; intros H; constructor.
  - apply H; [left; reflexivity|left; reflexivity|exact Hab].
  - apply IH. intros x y Hx Hy. apply H; right; assumption.
Qed.

Lemma Forall2_compose {A B C} (P : A -> B -> Prop) (Q : B -> C -> Prop) l1 l2 : Forall2 P l1 l2 ->
  forall l3, Forall2 Q l2 l3 -> Forall2 (fun x z => exists y, P x y /\ Q y z) l1 l3.
Proof.
  induction 1 as [|a b l1 l2 Hab HF IH]; intros l3 H; inversion H; subst; constructor; [eexists; split; eassumption|].
  apply IH. assumption.
Qed.

Lemma sum_resolved evs lots b gb : Forall2 (fun f g => resolve evs lots f = Some g) b gb ->
  amt_sum gb = sumZ (map f_amt b).
Proof.
  unfold amt_sum. induction 1 as [|f g b gb R HF IH]; cbn [map sumZ]; [reflexivity|].
  destruct (resolve_fields _ _ _ _ R) as (-> & _). rewrite IH. reflexivity.
Qed.

(** blocks of resolved fractions, one per event with pairwise distinct rows, form [ev_blocks] and are sorted *)
Lemma blocks_ev_blocks : forall (evs : list txn) gbs, NoDup (map t_row evs) ->
  Forall2 (fun x gb => gb <> [] /\ (forall g, In g gb -> g_ev g = x /\ 0 < g_amt g) /\ amt_sum gb = t_balance_change x) evs gbs ->
  ev_blocks (concat gbs).
Proof.
  induction evs as [|x evs IH]; intros gbs Hnd HF; inversion HF as [|? gb ? gbs' (Hne & Hg & Hs) HF']; subst; cbn [concat]; [constructor|].
  cbn [map] in Hnd. inversion Hnd as [|? ? Hni Hnd']; subst.
  apply (evb_app x gb); try assumption; [|apply IH; assumption].
  intros g Hin. apply in_concat in Hin. destruct Hin as (gb' & Hgb' & Hin).
  destruct (Forall2_in_r _ _ _ gb' HF' Hgb') as (x' & Hx' & (_ & Hg' & _)).
  unfold ev_row. destruct (Hg' g Hin) as [-> _]. intros Heq. apply Hni. rewrite <- Heq. apply in_map. exact Hx'.
Qed.

Lemma blocks_sorted : forall (evs : list txn) gbs, StronglySorted (fun a b => t_us a <= t_us b) evs ->
  Forall2 (fun x gb => forall g, In g gb -> g_ev g = x) evs gbs ->
  StronglySorted (fun a b => t_us (g_ev a) <= t_us (g_ev b)) (concat gbs).
Proof.
  induction evs as [|x evs IH]; intros gbs Hs HF; inversion HF as [|? gb ? gbs' Hg HF']; subst; cbn [concat]; [constructor|].
  inversion Hs as [|? ? Hs' Hall]; subst.
  apply (sorted_app (fun g => t_us (g_ev g))).
  - clear -Hg. induction gb as [|g gb IHg]; constructor.
    + apply IHg. intros g' Hg'. apply Hg. right. exact Hg'.
    + apply Forall_forall. intros g' Hg'. rewrite (Hg g (or_introl eq_refl)), (Hg g' (or_intror Hg')). lia.
  - apply IH; assumption.
  - intros g g' Hin Hin'. rewrite (Hg g Hin). apply in_concat in Hin'. destruct Hin' as (gb' & Hgb' & Hin').
    destruct (Forall2_in_r _ _ _ gb' HF' Hgb') as (x' & Hx' & Hg').
    rewrite (Hg' g' Hin'). rewrite Forall_forall in Hall. apply Hall. exact Hx'.
Qed.

(** the detail table of a run of the whole computation on a well-formed history *)
Theorem matcher_fractions_blocks : forall sched t evs fs gls,
  taxable_events t = Ok evs -> wf (t_ins t) sched (map event_of evs) ->
  fractions_of gen_always_repush sched t = Ok fs -> all_fractions t fs = Some gls ->
  ev_blocks gls /\ gls = match resolve_all evs (t_ins t) fs with Some l => l | None => [] end.
Proof.
  intros sched t evs fs gls HE WF HFR HAll.
  unfold fractions_of in HFR. rewrite HE in HFR.
  pose proof (RUN' _ _ _ WF fs HFR) as Hspec.
  destruct (spec_run_blocks _ _ _ _ Hspec) as (bs & Hfs & HB).
  assert (Hnd : NoDup (map t_row evs)) by exact (taxable_events_rows_distinct t evs HE).
  apply Forall2_map_l in HB. cbn [event_of e_row] in HB.
  pose proof (blocks_filter t_row evs bs [] HB Hnd ltac:(intros f [])) as HFil. cbn [app] in HFil. rewrite <- Hfs in HFil.
  unfold all_fractions in HAll. rewrite HE in HAll.
  destruct (resolve_all evs (t_ins t) fs) as [gls0|] eqn:R; [|discriminate]. injection HAll as <-.
  pose proof (resolve_all_forall2 _ _ _ _ R) as HR. rewrite Hfs in HR.
  destruct (Forall2_concat_l _ _ _ HR) as (gbs & -> & HRb).
  (* per event: its block of fractions, resolved *)
  assert (HBlk : Forall2 (fun x gb => gb <> [] /\ (forall g, In g gb -> g_ev g = x /\ 0 < g_amt g) /\ amt_sum gb = t_balance_change x) evs gbs).
  { eapply Forall2_in_both; [exact (Forall2_compose _ _ _ _ (Forall2_in_both _ (fun x b => In x evs /\ In b bs /\ (forall f, In f b -> f_ev f = t_row x) /\ filter (frac_of_ev (t_row x)) fs = b) _ _ HFil ltac:(intros x y Hx Hy [H1 H2]; auto)) _ HRb)|].
    intros x gb _ _ (b & (Hx & Hb & Hrow & Hfil) & Hres). cbv beta in Hres.
    assert (Hsum : amt_sum gb = t_balance_change x).
    { rewrite (sum_resolved _ _ _ _ Hres), <- Hfil.
      change (sumZ (map f_amt (filter (frac_of_ev (t_row x)) fs))) with (ev_taken fs (e_row (event_of x))).
      rewrite (m_event_covered _ _ _ WF fs HFR (event_of x) (in_map event_of _ _ Hx)). reflexivity. }
    assert (Hg : forall g, In g gb -> g_ev g = x /\ 0 < g_amt g).
    { intros g Hg. destruct (Forall2_in_r _ _ _ g Hres Hg) as (f & Hf & Hrf).
      destruct (resolve_fields _ _ _ _ Hrf) as (Ha & Hin & Hr). split.
      - apply (NoDup_map_inj t_row evs); [exact Hnd|exact Hin|exact Hx|]. rewrite Hr. apply Hrow. exact Hf.
      - rewrite Ha. apply (m_positive _ _ _ WF fs HFR). rewrite Hfs. apply in_concat. exists b. split; assumption. }
    split; [|split; assumption].
    intros ->. unfold amt_sum in Hsum. cbn [map sumZ] in Hsum.
    destruct WF as (_ & _ & _ & _ & _ & Hpos & _). specialize (Hpos (event_of x) (in_map event_of _ _ Hx)). cbn [event_of e_amt] in Hpos. lia. }
  assert (Hsorted : sort_by (fun g => t_us (g_ev g)) (concat gbs) = concat gbs).
  { apply sort_by_sorted_id. apply (blocks_sorted evs gbs (taxable_us_sorted t evs HE)).
    eapply Forall2_in_both; [exact HBlk|]. intros x gb _ _ (_ & Hg & _) g Hin. apply Hg. exact Hin. }
  rewrite Hsorted. split; [|reflexivity]. exact (blocks_ev_blocks evs gbs Hnd HBlk).
Qed.

(** * the sanity checks of the numbering never fire on the matcher's output *)
Lemma resolve_lot evs lots f g : resolve evs lots f = Some g ->
  match f_lot f with
  | None => g_lot g = None
  | Some r => exists a, g_lot g = Some a /\ In a lots /\ i_row a = r /\ find_lot lots r = Some a
  end.
Proof.
  unfold resolve. destruct (find_ev evs (f_ev f)) as [e|]; [|discriminate].
  destruct (f_lot f) as [r|]; [|intros [= <-]; reflexivity].
  destruct (find_lot lots r) as [a|] eqn:F; [|discriminate]. intros [= <-]. exists a. cbn [g_lot].
  unfold find_lot in F. pose proof (find_some _ _ F) as [Hin Hr]. repeat split; try assumption. lia.
Qed.

Lemma of_lot_resolved evs lots f g r : resolve evs lots f = Some g -> of_lot r g = frac_of_lot r f.
Proof.
  intros R. pose proof (resolve_lot _ _ _ _ R) as H. unfold of_lot, frac_of_lot.
  destruct (f_lot f) as [r'|]; [destruct H as (a & -> & _ & -> & _); reflexivity|rewrite H; reflexivity].
Qed.

Lemma lot_sum_resolved evs lots r fs gls : Forall2 (fun f g => resolve evs lots f = Some g) fs gls ->
  lot_sum r gls = lot_taken fs r.
Proof.
  unfold lot_sum, lot_taken. induction 1 as [|f g fs gls R HF IH]; cbn [filter map sumZ]; [reflexivity|].
  rewrite (of_lot_resolved _ _ _ _ r R). destruct (frac_of_lot r f); cbn [map sumZ]; rewrite IH; [|reflexivity].
  destruct (resolve_fields _ _ _ _ R) as (-> & _). reflexivity.
Qed.

Theorem matcher_lots_ok : forall sched t evs fs gls to_day,
  taxable_events t = Ok evs -> wf (t_ins t) sched (map event_of evs) ->
  fractions_of gen_always_repush sched t = Ok fs -> all_fractions t fs = Some gls ->
  lots_ok (take_until g_day to_day gls).
Proof.
  intros sched t evs fs gls to_day HE WF HFR HAll.
  destruct (matcher_fractions_blocks _ _ _ _ _ HE WF HFR HAll) as [_ Hgls].
  destruct (resolve_all evs (t_ins t) fs) as [gls0|] eqn:R; [|unfold all_fractions in HAll; rewrite HE, R in HAll; discriminate].
  subst gls0. pose proof (resolve_all_forall2 _ _ _ _ R) as HR.
  unfold fractions_of in HFR. rewrite HE in HFR.
  set (cut := take_until g_day to_day gls).
  destruct (take_until_prefix g_day to_day gls) as (rest & Hsplit). fold cut in Hsplit.
  assert (Hpos : forall g, In g gls -> 0 < g_amt g).
  { intros g Hg. destruct (Forall2_in_r _ _ _ g HR Hg) as (f & Hf & Hrf).
    destruct (resolve_fields _ _ _ _ Hrf) as (-> & _). exact (m_positive _ _ _ WF fs HFR f Hf). }
  assert (Hlot : forall g a, In g gls -> g_lot g = Some a -> In a (t_ins t) /\ find_lot (t_ins t) (i_row a) = Some a).
  { intros g a Hg Ha. destruct (Forall2_in_r _ _ _ g HR Hg) as (f & Hf & Hrf).
    pose proof (resolve_lot _ _ _ _ Hrf) as H. destruct (f_lot f) as [r|]; [|congruence].
    destruct H as (a' & Ha' & Hin & Hr & Hfind). rewrite Ha in Ha'. injection Ha' as <-. rewrite Hr. auto. }
  assert (Hincl : forall g, In g cut -> In g gls) by (intros g Hg; rewrite Hsplit; apply in_or_app; left; exact Hg).
  apply lots_ok_iff_within.
  - intros g Hg. apply Hpos, Hincl, Hg.
  - intros g g' a a' Hg Hg' Ha Ha' Hr.
    destruct (Hlot g a (Hincl g Hg) Ha) as [_ F1]. destruct (Hlot g' a' (Hincl g' Hg') Ha') as [_ F2].
    rewrite Hr, F2 in F1. injection F1 as ->. reflexivity.
  - intros g a Hg Ha. destruct (Hlot g a (Hincl g Hg) Ha) as [Hin _].
    assert (Hle : lot_sum (i_row a) cut <= lot_sum (i_row a) gls).
    { rewrite Hsplit at 1. rewrite lot_sum_app.
      assert (0 <= lot_sum (i_row a) rest); [|lia]. apply lot_sum_nonneg. intros x Hx. apply Hpos. rewrite Hsplit. apply in_or_app. right. exact Hx. }
    rewrite (lot_sum_resolved _ _ (i_row a) _ _ HR) in Hle.
    destruct (In_nth _ _ dummy_lot Hin) as (i & Hi & Hnth).
    pose proof (m_no_overspend _ _ _ WF fs HFR (length fs) i Hi) as Hrem.
    rewrite firstn_all in Hrem. unfold rem_after, lotn in Hrem. rewrite Hnth in Hrem.
    change (in_crypto_balance_change a) with (i_crypto_in a). lia.
Qed.

(** on a well-formed history the numbering succeeds for every to-date, with the specified result *)
Theorem matcher_numbering_total : forall sched t evs fs gls to_day,
  taxable_events t = Ok evs -> wf (t_ins t) sched (map event_of evs) ->
  fractions_of gen_always_repush sched t = Ok fs -> all_fractions t fs = Some gls ->
  let cut := take_until g_day to_day gls in
  exists evt lott, numbering to_day gls = Ok (ev_idx cut, lot_idx cut, evt, lott) /\
    count_table (fun r => ev_count r cut) evt /\ count_table (fun r => lot_count r cut) lott.
Proof.
  intros sched t evs fs gls to_day HE WF HFR HAll cut.
  destruct (matcher_fractions_blocks _ _ _ _ _ HE WF HFR HAll) as [Hb _].
  destruct (numbering_blocks to_day gls (take_until_ev_blocks to_day gls Hb)) as [H _].
  exact (H (matcher_lots_ok _ _ _ _ _ to_day HE WF HFR HAll)).
Qed.

(** * end to end: the labels of a windowed run of the whole computation *)
Theorem compute_tax_fraction_labels : forall h sched t period from_day to_day allow exs hos cd,
  build h = Ok t -> in_rows_increasing h -> amounts_positive h ->
  (forall evs, taxable_events t = Ok evs -> hist_same_instant_same_year evs /\ hist_sched_covers sched evs) ->
  NoDup (map fst sched) ->
  compute_tax period from_day to_day allow exs hos sched t = Ok cd ->
  let cut := take_until g_day to_day (cd_all_gls cd) in
  ev_blocks (cd_all_gls cd) /\ ev_blocks cut /\ lots_ok cut /\
  cd_gls cd = filter (fun g => from_day <=? g_day g) cut /\
  forall k g, nth_error (cd_gls cd) k = Some g ->
    exists j, nth_error cut j = Some g /\ length (filter (fun g => from_day <=? g_day g) (firstn j cut)) = k /\
      nth_error (cd_evfrac cd) k = Some (ev_label cut j g) /\
      nth_error (cd_lotfrac cd) k = Some (lot_label cut j g).
Proof.
  intros h sched t period from_day to_day allow exs hos cd Hb Hinc Hpos Hev Hnd HC cut.
  unfold compute_tax in HC. destruct (fractions_of gen_always_repush sched t) as [fs|] eqn:HFR; [|discriminate].
  destruct (compute_inv _ _ _ _ _ _ _ _ _ HC) as (evs & gls & HE & HG & HA & _).
  destruct (Hev evs HE) as [Hy Hc].
  pose proof (pipeline_wf h sched t evs Hb HE Hinc Hpos Hy Hc Hnd) as WF.
  destruct (matcher_fractions_blocks _ _ _ _ _ HE WF HFR HG) as [Hblocks _].
  subst cut. rewrite HA.
  pose proof (take_until_ev_blocks to_day gls Hblocks) as Hcut.
  split; [exact Hblocks|]. split; [exact Hcut|]. split; [exact (matcher_lots_ok _ _ _ _ _ to_day HE WF HFR HG)|].
  rewrite <- HA in Hcut |- *.
  destruct (compute_fraction_labels _ _ _ _ _ _ _ _ _ HC Hcut) as (_ & _ & H3 & H4). split; assumption.
Qed.
