(** The calculation sheet of one (asset, year): where the transaction rows and the fixed cells
    end up, that nothing written later touches them, capacity. *)
From Coq Require Import List ZArith Bool Lia Permutation ZifyBool.
From RP2V Require Import Base.Prelude Base.Time Base.Dec Base.Sorting Base.Assoc Model.Types Model.Generated Model.Txn
  Model.Pipeline Model.Computed Model.Grid Model.ReportInput Model.JpReport Proofs.AssocProofs Proofs.JpOps.
Import ListNotations.
Open Scope Z_scope.

(** ---------- finite facts about the tables read from the source (re-checked whenever the source changes) *)
Definition jp_cols : list Z :=
  [gen_jp_col_transaction_month; gen_jp_col_transaction_day; gen_jp_col_transaction_client; gen_jp_col_transaction_type;
   gen_jp_col_purchase_crypto_amount; gen_jp_col_purchase_amount_in_yen; gen_jp_col_sales_crypto_amount;
   gen_jp_col_sales_amount_in_yen; gen_jp_col_fee_in_yen].

Definition tail_key (x : Z * Z * jval) : Z := let '(dr, c, _) := x in dr * 1024 + c.

Lemma jp_cols_nodup : nodupb jp_cols = true.
Proof. reflexivity. Qed.
Lemma jp_cols_bounds : forallb (fun c => (0 <=? c) && (c <? gen_jp_tmpl_asset_cols) && (c <? 1024)) jp_cols = true.
Proof. reflexivity. Qed.
Lemma jp_tail_nodup : nodupb (map tail_key gen_jp_asset_tail) = true.
Proof. vm_compute. reflexivity. Qed.
(** every fixed cell lies at least two rows below the last transaction row and inside the template *)
Lemma jp_tail_bounds :
  forallb (fun x => let '(dr, c, _) := x in
                    (2 <=? dr) && (gen_jp_first_row + dr <? gen_jp_tmpl_asset_rows) && (0 <=? c) && (c <? gen_jp_tmpl_asset_cols) && (c <? 1024))
          gen_jp_asset_tail = true.
Proof. vm_compute. reflexivity. Qed.
Lemma jp_asset_labels_bounds :
  forallb (fun rc => (0 <=? fst rc) && (fst rc <? gen_jp_tmpl_asset_rows) && (0 <=? snd rc) && (snd rc <? gen_jp_tmpl_asset_cols))
          (gen_jp_label_cell :: gen_jp_tmpl_asset_cells) = true.
Proof. vm_compute. reflexivity. Qed.
Lemma jp_first_row_ok : 0 <= gen_jp_first_row < gen_jp_tmpl_asset_rows /\ 0 < gen_jp_first_row + gen_jp_return_delta.
Proof. vm_compute. repeat split; congruence. Qed.
(** TRANSACTION_ROW_START (1-based, used in the SUM ranges "E22:...") is the first transaction row *)
Lemma jp_row_start_consistent : gen_jp_transaction_row_start = gen_jp_first_row + 1.
Proof. reflexivity. Qed.

(** the row arithmetic fits the template: the three rows around the first transaction row are blank, the totals line
    (two rows below the last transaction) carries the template's label in column A, and so do the two rows of the
    opening / closing balance section (8 and 9 rows below), under a header row that has labels in columns E and I *)
Definition has_label (cells : list (Z * Z)) (r c : Z) : bool := existsb (fun rc => (fst rc =? r) && (snd rc =? c)) cells.
Lemma jp_asset_layout_fits_template :
  forallb (fun rc => negb ((gen_jp_first_row - 1 <=? fst rc) && (fst rc <=? gen_jp_first_row + 1))) gen_jp_tmpl_asset_cells = true /\
  has_label gen_jp_tmpl_asset_cells (gen_jp_first_row + 2) 0 = true /\
  has_label gen_jp_tmpl_asset_cells (gen_jp_first_row + 8) 0 = true /\ has_label gen_jp_tmpl_asset_cells (gen_jp_first_row + 9) 0 = true /\
  has_label gen_jp_tmpl_asset_cells (gen_jp_first_row + 7) 4 = true /\ has_label gen_jp_tmpl_asset_cells (gen_jp_first_row + 7) 8 = true /\
  has_label gen_jp_tmpl_asset_cells (gen_jp_first_row + 16) 8 = true.
Proof. vm_compute. repeat split; reflexivity. Qed.

Lemma forallb_In {A} (f : A -> bool) l x : forallb f l = true -> In x l -> f x = true.
Proof. intros H Hin. rewrite forallb_forall in H. auto. Qed.

(** ---------- transaction rows *)
Fixpoint rows_writes (row : Z) (rs : list jrow) : list cellw :=
  match rs with [] => [] | r :: t => row_cells row r ++ rows_writes (row + 1) t end.

Lemma row_cells_cols row r :
  map cw_col (row_cells row r) =
  [gen_jp_col_transaction_month; gen_jp_col_transaction_day; gen_jp_col_transaction_client; gen_jp_col_transaction_type]
  ++ (match jr_pur_amt r with Some _ => [gen_jp_col_purchase_crypto_amount; gen_jp_col_purchase_amount_in_yen] | None => [] end)
  ++ (match jr_sale_amt r with Some _ => [gen_jp_col_sales_crypto_amount; gen_jp_col_sales_amount_in_yen] | None => [] end)
  ++ [gen_jp_col_fee_in_yen].
Proof. unfold row_cells. destruct (jr_pur_amt r), (jr_sale_amt r); reflexivity. Qed.

Lemma row_cells_row row r w : In w (row_cells row r) -> cw_row w = row.
Proof.
  unfold row_cells. destruct (jr_pur_amt r), (jr_sale_amt r); cbn [app In]; intros H;
    repeat (destruct H as [H|H]; [subst w; reflexivity|]); contradiction.
Qed.

Lemma row_cells_col_in row r w : In w (row_cells row r) -> In (cw_col w) jp_cols.
Proof.
  intros H. apply (in_map cw_col) in H. rewrite row_cells_cols in H. unfold jp_cols.
  destruct (jr_pur_amt r), (jr_sale_amt r); cbn [app In] in *; intuition.
Qed.

Lemma jp_col_bounds c : In c jp_cols -> 0 <= c < gen_jp_tmpl_asset_cols /\ c < 1024.
Proof. intros H. pose proof (forallb_In _ _ _ jp_cols_bounds H) as B. cbn beta in B. lia. Qed.

Lemma row_cells_nodup row r : NoDup (map wkey (row_cells row r)).
Proof.
  assert (E : map wkey (row_cells row r) = map (cell_key row) (map cw_col (row_cells row r))).
  { rewrite map_map. apply map_ext_in. intros w Hw. unfold wkey. rewrite (row_cells_row _ _ _ Hw). reflexivity. }
  rewrite E. apply NoDup_map_shift; [unfold cell_key; intros; lia|].
  rewrite row_cells_cols. apply nodupb_sound. destruct (jr_pur_amt r), (jr_sale_amt r); reflexivity.
Qed.

Lemma rows_ops_ins row rs i : In (OIns i) (rows_ops row rs) -> row <= i < row + Z.of_nat (length rs).
Proof.
  revert row; induction rs as [|r t IH]; intros row H; cbn [rows_ops] in H; [contradiction|].
  cbn [length]. destruct H as [H|H]; [inversion H; lia|].
  apply in_app_iff in H. destruct H as [H|H].
  - apply in_map_iff in H. destruct H as [w [H _]]. discriminate.
  - apply IH in H. lia.
Qed.

Lemma count_ins_rows row rs : count_ins (rows_ops row rs) = Z.of_nat (length rs).
Proof.
  revert row; induction rs as [|r t IH]; intros row; cbn [rows_ops count_ins length]; [reflexivity|].
  rewrite count_ins_app, count_ins_writes, IH. lia.
Qed.

Lemma cw_eta w : cw (cw_row w) (cw_col w) (cw_val w) = w.
Proof. destruct w; reflexivity. Qed.

Lemma resolve_rows row rs : resolve_ops (rows_ops row rs) = rows_writes row rs.
Proof.
  revert row; induction rs as [|r t IH]; intros row; cbn [rows_ops resolve_ops rows_writes]; [reflexivity|].
  rewrite resolve_ops_app, resolve_writes, IH. f_equal.
  rewrite <- (map_id (row_cells row r)) at 2. apply map_ext_in. intros w Hw. unfold shift_by.
  rewrite (row_cells_row _ _ _ Hw), final_row_no_shift.
  - rewrite <- (row_cells_row _ _ _ Hw). apply cw_eta.
  - intros i Hi. apply rows_ops_ins in Hi. lia.
Qed.

Lemma rows_writes_row row rs w : In w (rows_writes row rs) -> row <= cw_row w < row + Z.of_nat (length rs) /\ In (cw_col w) jp_cols.
Proof.
  revert row; induction rs as [|r t IH]; intros row H; cbn [rows_writes] in H; [contradiction|].
  cbn [length]. apply in_app_iff in H. destruct H as [H|H].
  - rewrite (row_cells_row _ _ _ H). split; [lia|]. eapply row_cells_col_in; eauto.
  - apply IH in H. split; [lia|tauto].
Qed.

Lemma rows_writes_nth rs : forall row k r, nth_error rs k = Some r ->
  exists A B, rows_writes row rs = A ++ row_cells (row + Z.of_nat k) r ++ B /\
              (forall w, In w B -> row + Z.of_nat k < cw_row w /\ In (cw_col w) jp_cols).
Proof.
  induction rs as [|x t IH]; intros row k r H; [destruct k; discriminate|].
  destruct k as [|k]; cbn [nth_error] in H.
  - inversion H; subst x. exists [], (rows_writes (row + 1) t). cbn [rows_writes app Z.of_nat]. rewrite Z.add_0_r. split; [reflexivity|].
    intros w Hw. apply rows_writes_row in Hw. split; [lia|tauto].
  - destruct (IH (row + 1) k r H) as [A [B [E HB]]].
    exists (row_cells row x ++ A), B. cbn [rows_writes]. rewrite E, <- app_assoc.
    replace (row + 1 + Z.of_nat k) with (row + Z.of_nat (S k)) by lia. split; [reflexivity|].
    intros w Hw. apply HB in Hw. split; [lia|tauto].
Qed.

(** ---------- the whole sheet *)
Section Sheet.
Variable lang : Z.
Variable yg : bool.
Variable exs : list str.

Notation tail_writes e := (tail_cells lang yg exs e).

Definition head_ops (e : emission) : list op :=
  labels gen_jp_tmpl_asset_cells ++ [OW (cw (fst gen_jp_label_cell) (snd gen_jp_label_cell) (PStr (em_asset e)))].

Lemma asset_ops_split e :
  asset_ops lang yg exs e = (head_ops e ++ rows_ops gen_jp_first_row (em_rows lang yg exs e)) ++ map OW (tail_writes e).
Proof. unfold asset_ops, head_ops. rewrite <- !app_assoc. reflexivity. Qed.

Lemma asset_writes e :
  sw_writes (asset_sheet lang yg exs e) =
  map (shift_by (rows_ops gen_jp_first_row (em_rows lang yg exs e))) (resolve_ops (head_ops e))
  ++ rows_writes gen_jp_first_row (em_rows lang yg exs e) ++ tail_writes e.
Proof.
  unfold asset_sheet, sheet_of. cbn [sw_writes]. rewrite asset_ops_split, resolve_ops_app_writes, resolve_ops_app, resolve_rows.
  rewrite <- app_assoc. reflexivity.
Qed.

Lemma asset_count_ins e : count_ins (asset_ops lang yg exs e) = Z.of_nat (length (em_rows lang yg exs e)).
Proof.
  rewrite asset_ops_split, !count_ins_app, count_ins_writes, count_ins_rows. unfold head_ops, labels.
  rewrite count_ins_app. rewrite <- (map_map (fun rc => cw (fst rc) (snd rc) PLabel) OW), count_ins_writes. cbn [count_ins]. lia.
Qed.

Lemma tail_writes_in e dr col v : In (dr, col, v) gen_jp_asset_tail ->
  In (cw (em_row_index lang yg exs e + dr) col (tail_value lang yg exs e (em_ctx lang yg exs e 0) v)) (tail_writes e).
Proof. intros H. unfold tail_cells. apply in_map_iff. exists (dr, col, v). split; [reflexivity|exact H]. Qed.

Lemma tail_writes_pos e w : In w (tail_writes e) ->
  em_row_index lang yg exs e + 2 <= cw_row w /\ cw_row w < gen_jp_tmpl_asset_rows + Z.of_nat (length (em_rows lang yg exs e))
  /\ 0 <= cw_col w < gen_jp_tmpl_asset_cols /\ cw_col w < 1024.
Proof.
  unfold tail_cells. intros H. apply in_map_iff in H. destruct H as [[[dr c] v] [E Hin]]. subst w. cbn [cw_row cw_col cw].
  pose proof (forallb_In _ _ _ jp_tail_bounds Hin) as B. cbn beta iota in B. unfold em_row_index. lia.
Qed.

Lemma tail_writes_nodup e : NoDup (map wkey (tail_writes e)).
Proof.
  unfold tail_cells. rewrite map_map.
  rewrite (map_ext _ (fun x => em_row_index lang yg exs e * 1024 + tail_key x)).
  - rewrite <- (map_map tail_key (fun k => em_row_index lang yg exs e * 1024 + k)).
    apply NoDup_map_shift; [intros; lia|]. apply nodupb_sound. exact jp_tail_nodup.
  - intros [[dr c] v]. unfold wkey, cell_key, tail_key. cbn [cw_row cw_col cw]. lia.
Qed.

(** the k-th row of the year's list: all its cells are what the sheet finally shows *)
Lemma asset_row_cell e k r w :
  nth_error (em_rows lang yg exs e) k = Some r -> In w (row_cells (gen_jp_first_row + Z.of_nat k) r) ->
  cell_at (sw_writes (asset_sheet lang yg exs e)) (cw_row w) (cw_col w) = cw_val w.
Proof.
  intros Hk Hw. rewrite asset_writes.
  destruct (rows_writes_nth _ gen_jp_first_row k r Hk) as [A [B [E HB]]]. rewrite E.
  rewrite <- !app_assoc, app_assoc.
  apply cell_at_block; [exact Hw|apply row_cells_nodup|].
  assert (Hlen : (k < length (em_rows lang yg exs e))%nat) by (apply nth_error_Some; congruence).
  pose proof (row_cells_row _ _ _ Hw) as Hr. pose proof (jp_col_bounds _ (row_cells_col_in _ _ _ Hw)) as Hc.
  intros w' Hw' Ek. apply in_app_iff in Hw'. unfold wkey in Ek.
  destruct Hw' as [Hw'|Hw'].
  - destruct (HB _ Hw') as [H1 H2]. pose proof (jp_col_bounds _ H2). apply cell_key_inj in Ek; lia.
  - apply tail_writes_pos in Hw'. unfold em_row_index in Hw'. apply cell_key_inj in Ek; lia.
Qed.

(** a fixed cell (row_index + dr, col) finally shows the formula rendered for this sheet *)
Lemma asset_tail_cell e dr col v : In (dr, col, v) gen_jp_asset_tail ->
  cell_at (sw_writes (asset_sheet lang yg exs e)) (em_row_index lang yg exs e + dr) col = tail_value lang yg exs e (em_ctx lang yg exs e 0) v.
Proof.
  intros H. rewrite asset_writes, app_assoc.
  exact (cell_at_block_end _ _ _ (tail_writes_in e dr col v H) (tail_writes_nodup e)).
Qed.

(** no write outside the sheet, no row inserted outside it *)
Lemma rows_ops_bounded R C rs : forall row, 0 <= row < R -> gen_jp_tmpl_asset_cols <= C ->
  ops_bounded R C (rows_ops row rs).
Proof.
  revert R; induction rs as [|r t IH]; intros R row Hr HC; cbn [rows_ops ops_bounded]; [exact I|].
  split; [lia|]. apply ops_bounded_app. split.
  - apply ops_bounded_writes. apply Forall_forall. intros w Hw.
    rewrite (row_cells_row _ _ _ Hw). pose proof (jp_col_bounds _ (row_cells_col_in _ _ _ Hw)). lia.
  - rewrite count_ins_writes. replace (R + 1 + 0) with (R + 1) by lia. apply IH; lia.
Qed.

Lemma asset_sheet_ok e : sheet_ok (asset_sheet lang yg exs e) = true.
Proof.
  unfold asset_sheet. apply sheet_of_ok. rewrite asset_ops_split.
  pose proof jp_first_row_ok as F.
  apply ops_bounded_app. split; [apply ops_bounded_app; split|].
  - unfold head_ops. change [OW (cw (fst gen_jp_label_cell) (snd gen_jp_label_cell) (PStr (em_asset e)))]
      with (map OW [cw (fst gen_jp_label_cell) (snd gen_jp_label_cell) (PStr (em_asset e))]).
    unfold labels. rewrite <- (map_map (fun rc => cw (fst rc) (snd rc) PLabel) OW), <- map_app.
    apply ops_bounded_writes. apply Forall_forall. intros w Hw. apply in_app_iff in Hw.
    pose proof jp_asset_labels_bounds as LB.
    destruct Hw as [Hw|[Hw|[]]].
    + apply in_map_iff in Hw. destruct Hw as [rc [<- Hin]]. cbn [cw_row cw_col cw].
      pose proof (forallb_In _ _ rc LB (or_intror Hin)) as B. cbn beta in B. lia.
    + subst w. cbn [cw_row cw_col cw].
      pose proof (forallb_In _ _ gen_jp_label_cell LB (or_introl eq_refl)) as B. cbn beta in B. lia.
  - apply rows_ops_bounded; [|lia]. pose proof (count_ins_nonneg (head_ops e)). lia.
  - apply ops_bounded_writes. apply Forall_forall. intros w Hw. apply tail_writes_pos in Hw.
    rewrite count_ins_app, count_ins_rows. pose proof (count_ins_nonneg (head_ops e)). unfold em_row_index in Hw. lia.
Qed.
End Sheet.
