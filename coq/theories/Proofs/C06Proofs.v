(** C06: the theorems about [yearly_list] in the vocabulary of Model/ComputedSpec.v
    (derived from the specification lemmas of YearlyProofs.v). *)
From Coq Require Import List ZArith Bool Lia Permutation Sorted ZifyBool.
From RP2V Require Import Base.Prelude Base.Assoc Base.Sorting Base.Dec Base.Time Model.Types Model.Generated Model.Computed
  Model.ComputedSpec Proofs.SortingProofs Proofs.AssocProofs Proofs.FilterProofs Proofs.YearlyProofs Proofs.ComputedProofs Proofs.L4Examples.
Import ListNotations.
Open Scope Z_scope.

(** * the key of a line, componentwise *)
Lemma line_has_key_iff period L g :
  line_has_key period L g = true <->
  g_year g = y_year L /\ t_type (g_ev g) = y_type L /\ g_long period g = y_long L.
Proof.
  unfold line_has_key. rewrite !andb_true_iff, Z.eqb_eq, ttype_eqb_eq, eqb_true_iff. tauto.
Qed.

Lemma has_key_gkey period L g : line_has_key period L g = (gkey period g =? yline_key L).
Proof.
  destruct (Z.eqb_spec (gkey period g) (yline_key L)) as [E|NE].
  - apply line_has_key_iff. unfold gkey, yline_key in E. apply ykey_inj_gen in E. exact E.
  - destruct (line_has_key period L g) eqn:H; [|reflexivity]. exfalso. apply NE.
    apply line_has_key_iff in H. destruct H as (H1 & H2 & H3). unfold gkey, yline_key. rewrite H1, H2, H3. reflexivity.
Qed.

Lemma yline_key_inj a b : yline_key a = yline_key b <-> y_year a = y_year b /\ y_type a = y_type b /\ y_long a = y_long b.
Proof.
  unfold yline_key. split.
  - apply ykey_inj_gen.
  - intros (H1 & H2 & H3). rewrite H1, H2, H3. reflexivity.
Qed.

(** * figures of [sum_line] as left-to-right sums *)
Lemma fold_sum_step_fiat l : forall y,
  y_fiat (fold_left sum_step l y) = fold_left dadd (map (fun g => odflt (g_proceeds g)) l) (y_fiat y).
Proof. induction l as [|g l IH]; intros y; cbn [fold_left map]; [reflexivity|]. rewrite IH. reflexivity. Qed.
Lemma fold_sum_step_cost l : forall y,
  y_cost (fold_left sum_step l y) = fold_left dadd (map (fun g => odflt (g_cost g)) l) (y_cost y).
Proof. induction l as [|g l IH]; intros y; cbn [fold_left map]; [reflexivity|]. rewrite IH. reflexivity. Qed.
Lemma fold_sum_step_gain l : forall y,
  y_gain (fold_left sum_step l y) = fold_left dadd (map (fun g => odflt (g_gain g)) l) (y_gain y).
Proof. induction l as [|g l IH]; intros y; cbn [fold_left map]; [reflexivity|]. rewrite IH. reflexivity. Qed.

Lemma sum_line_figures period l g0 :
  y_crypto (sum_line period l g0) = sumZ (map g_amt l) /\
  y_fiat (sum_line period l g0) = dsum (map (fun g => odflt (g_proceeds g)) l) /\
  y_cost (sum_line period l g0) = dsum (map (fun g => odflt (g_cost g)) l) /\
  y_gain (sum_line period l g0) = dsum (map (fun g => odflt (g_gain g)) l).
Proof.
  split; [apply sum_line_crypto|]. rewrite sum_line_eq, fold_sum_step_fiat, fold_sum_step_cost, fold_sum_step_gain.
  repeat split; reflexivity.
Qed.

(** * a line of the list is the [sum_line] of the fractions with its key *)
Lemma yearly_list_lines period to_day from_year gls yl :
  yearly_list period to_day from_year gls = Ok yl ->
  exists m, lines period (take_until g_day to_day gls) = Ok m /\
    yl = filter (fun l => from_year <=? y_year l) (sort_by (fun l => - yline_key l) (map snd m)).
Proof.
  unfold yearly_list. fold (lines period (take_until g_day to_day gls)).
  destruct (lines period (take_until g_day to_day gls)) as [m|e]; [|discriminate].
  intros H. injection H as H. exists m. auto.
Qed.

Lemma line_of_list period to_day from_year gls yl L :
  yearly_list period to_day from_year gls = Ok yl -> In L yl ->
  from_year <= y_year L /\
  exists g0 rest, filter (line_has_key period L) (take_until g_day to_day gls) = g0 :: rest /\
                  L = sum_line period (g0 :: rest) g0.
Proof.
  intros H HL. destruct (yearly_list_spec _ _ _ _ _ H) as (m & E & Hin & _).
  apply Hin in HL. destruct HL as [HL Hy]. split; [exact Hy|].
  apply in_map_iff in HL. destruct HL as ([k v] & Hv & HL). cbn [snd] in Hv. subst v.
  destruct (yearly_lines_spec _ _ _ E) as [Hnd Hget].
  pose proof (In_aget _ _ _ Hnd HL) as G. pose proof (lines_value_key _ _ _ _ _ E G) as Hk.
  rewrite Hget in G.
  rewrite (filter_ext (line_has_key period L) (fun g => gkey period g =? k)) by (intros g; rewrite has_key_gkey, Hk; reflexivity).
  destruct (filter (fun g => gkey period g =? k) (take_until g_day to_day gls)) as [|g0 rest]; [discriminate|].
  injection G as G. exists g0, rest. auto.
Qed.

Theorem c06_line_is_sum : forall period to_day from_year gls yl,
  yearly_list period to_day from_year gls = Ok yl ->
  forall L, In L yl ->
    let mine := filter (line_has_key period L) (take_until g_day to_day gls) in
    mine <> [] /\
    y_crypto L = sumZ (map g_amt mine) /\
    y_fiat L = dsum (map (fun g => odflt (g_proceeds g)) mine) /\
    y_cost L = dsum (map (fun g => odflt (g_cost g)) mine) /\
    y_gain L = dsum (map (fun g => odflt (g_gain g)) mine).
Proof.
  intros period to_day from_year gls yl H L HL mine.
  destruct (line_of_list _ _ _ _ _ _ H HL) as (_ & g0 & rest & Ef & EL).
  subst mine. rewrite Ef. split; [discriminate|]. rewrite EL. apply sum_line_figures.
Qed.

(** the figures summed are all defined (the defaults of [odflt] are never used) *)
Theorem c06_figures_defined : forall period to_day from_year gls,
  (exists yl, yearly_list period to_day from_year gls = Ok yl) <->
  (forall g, In g (take_until g_day to_day gls) -> g_proceeds g <> None /\ g_cost g <> None /\ g_gain g <> None).
Proof.
  intros period to_day from_year gls. rewrite <- (lines_ok_iff period). unfold yearly_list.
  fold (lines period (take_until g_day to_day gls)).
  destruct (lines period (take_until g_day to_day gls)) as [m|e].
  - split; intros _; eexists; reflexivity.
  - split; intros [x Hx]; discriminate Hx.
Qed.

(** * lines are identified by their key *)
Lemma yearly_list_key_inj period to_day from_year gls yl :
  yearly_list period to_day from_year gls = Ok yl ->
  forall a b, In a yl -> In b yl -> yline_key a = yline_key b -> a = b.
Proof.
  intros H a b Ha Hb Hab. destruct (yearly_list_spec _ _ _ _ _ H) as (m & E & Hin & _).
  apply Hin in Ha. apply Hin in Hb. destruct Ha as [Ha _], Hb as [Hb _].
  apply in_map_iff in Ha. destruct Ha as ([ka va] & <- & Ha).
  apply in_map_iff in Hb. destruct Hb as ([kb vb] & <- & Hb). cbn [snd] in *.
  destruct (yearly_lines_spec _ _ _ E) as [Hndm _].
  pose proof (In_aget _ _ _ Hndm Ha) as Ga. pose proof (In_aget _ _ _ Hndm Hb) as Gb.
  rewrite <- (lines_value_key _ _ _ _ _ E Ga) in Ga.
  rewrite <- (lines_value_key _ _ _ _ _ E Gb) in Gb.
  rewrite Hab in Ga. congruence.
Qed.

Theorem c06_keys_distinct : forall period to_day from_year gls yl,
  yearly_list period to_day from_year gls = Ok yl ->
  NoDup yl /\
  forall a b, In a yl -> In b yl -> y_year a = y_year b -> y_type a = y_type b -> y_long a = y_long b -> a = b.
Proof.
  intros period to_day from_year gls yl H. split.
  - destruct (yearly_list_spec _ _ _ _ _ H) as (m & _ & _ & Hnd). exact Hnd.
  - intros a b Ha Hb H1 H2 H3. apply (yearly_list_key_inj _ _ _ _ _ H a b Ha Hb). apply yline_key_inj. auto.
Qed.

(** * every fraction up to the cut (of a year that is shown) is in exactly one line *)
Theorem c06_fraction_one_line : forall period to_day from_year gls yl,
  yearly_list period to_day from_year gls = Ok yl ->
  forall g, In g (take_until g_day to_day gls) -> from_year <= g_year g ->
    exists L, In L yl /\ line_has_key period L g = true /\
              forall L', In L' yl -> line_has_key period L' g = true -> L' = L.
Proof.
  intros period to_day from_year gls yl H g Hg Hy.
  destruct (yearly_list_spec _ _ _ _ _ H) as (m & E & Hin & _).
  assert (Hm : amem (gkey period g) m = true) by (apply (yearly_line_exists_iff _ _ _ _ E); exists g; auto).
  unfold amem in Hm. destruct (aget (gkey period g) m) as [L|] eqn:G; [|discriminate]. clear Hm.
  pose proof (lines_value_key _ _ _ _ _ E G) as Hk.
  assert (HK : line_has_key period L g = true) by (rewrite has_key_gkey, Hk; apply Z.eqb_refl).
  assert (HL : In L yl).
  { apply Hin. split.
    - apply aget_In in G. change L with (snd (gkey period g, L)). apply in_map. exact G.
    - apply line_has_key_iff in HK. destruct HK as (HK & _). lia. }
  exists L. split; [exact HL|]. split; [exact HK|].
  intros L' HL' HK'. apply (yearly_list_key_inj _ _ _ _ _ H L' L HL' HL).
  rewrite has_key_gkey in HK'. lia.
Qed.

(** a line exists only for a key that has a fraction up to the cut, in a year that is shown *)
Theorem c06_no_empty_line : forall period to_day from_year gls yl,
  yearly_list period to_day from_year gls = Ok yl ->
  forall L, In L yl -> from_year <= y_year L /\
    exists g, In g (take_until g_day to_day gls) /\ line_has_key period L g = true.
Proof.
  intros period to_day from_year gls yl H L HL.
  destruct (line_of_list _ _ _ _ _ _ H HL) as (Hy & g0 & rest & Ef & _). split; [exact Hy|].
  assert (Hin : In g0 (filter (line_has_key period L) (take_until g_day to_day gls))) by (rewrite Ef; left; reflexivity).
  apply filter_In in Hin. exists g0. exact Hin.
Qed.

(** * grand total of the crypto amounts *)
Lemma lines_crypto_total_pred (P : Z -> bool) period gls : forall m, lines period gls = Ok m ->
  sumZ (map (fun kv => (fun v => if P (y_year v) then y_crypto v else 0) (snd kv)) m) =
  sumZ (map g_amt (filter (fun g => P (g_year g)) gls)).
Proof.
  induction gls as [|x gls IH] using rev_ind; intros m H.
  - unfold lines in H. cbn [fold_left] in H. injection H as H. subst m. reflexivity.
  - rewrite lines_snoc in H.
    destruct (lines period gls) as [m0|e] eqn:E; [|discriminate H].
    specialize (IH m0 eq_refl).
    apply yearly_add_ok in H. destruct H as (p & c & gn & Ep & Ec & Eg & Hm). subst m.
    rewrite (sum_aset (fun v => if P (y_year v) then y_crypto v else 0)), IH, filter_app, map_app, sumZ_app.
    cbn [filter]. unfold aget_d.
    destruct (aget (gkey period x) m0) as [v0|] eqn:G.
    + pose proof (lines_value_key _ _ _ _ _ E G) as Hk. unfold yline_key, gkey in Hk.
      apply ykey_inj_gen in Hk. destruct Hk as (Hk & _).
      unfold new_line; cbn [y_year y_crypto]. rewrite Hk.
      destruct (P (g_year x)); cbn [map sumZ]; lia.
    + unfold new_line, line_init; cbn [y_year y_crypto].
      destruct (P (g_year x)); cbn [map sumZ]; lia.
Qed.

Lemma sumZ_perm l l' : Permutation l l' -> sumZ l = sumZ l'.
Proof. induction 1; cbn [sumZ]; lia. Qed.

Lemma sumZ_filter_if {A} (p : A -> bool) (f : A -> Z) l :
  sumZ (map f (filter p l)) = sumZ (map (fun x => if p x then f x else 0) l).
Proof. induction l as [|x l IH]; cbn [filter map sumZ]; [reflexivity|]. destruct (p x); cbn [map sumZ]; lia. Qed.

Theorem c06_crypto_total : forall period to_day from_year gls yl,
  yearly_list period to_day from_year gls = Ok yl ->
  sumZ (map y_crypto yl) = sumZ (map g_amt (filter (fun g => from_year <=? g_year g) (take_until g_day to_day gls))).
Proof.
  intros period to_day from_year gls yl H.
  destruct (yearly_list_lines _ _ _ _ _ H) as (m & E & ->).
  rewrite <- (lines_crypto_total_pred (fun y => from_year <=? y) _ _ _ E).
  rewrite sumZ_filter_if.
  rewrite (sumZ_perm _ _ (Permutation_map _ (sort_by_perm (fun l => - yline_key l) (map snd m)))).
  rewrite map_map. reflexivity.
Qed.

(** * the from-year only hides lines *)
Theorem c06_from_year : forall period to_day fy fy' gls yl yl',
  yearly_list period to_day fy gls = Ok yl -> yearly_list period to_day fy' gls = Ok yl' -> fy' <= fy ->
  yl = filter (fun l => fy <=? y_year l) yl'.
Proof.
  intros period to_day fy fy' gls yl yl' H H' Hle.
  destruct (yearly_list_lines _ _ _ _ _ H) as (m & E & ->).
  destruct (yearly_list_lines _ _ _ _ _ H') as (m' & E' & ->).
  rewrite E in E'. injection E' as <-.
  generalize (sort_by (fun l => - yline_key l) (map snd m)) as l. intros l.
  induction l as [|x l IH]; cbn [filter]; [reflexivity|].
  destruct (fy <=? y_year x) eqn:E1.
  - assert (E2 : (fy' <=? y_year x) = true) by lia. rewrite E2. cbn [filter]. rewrite E1. f_equal. exact IH.
  - destruct (fy' <=? y_year x); [cbn [filter]; rewrite E1|]; exact IH.
Qed.

(** success does not depend on the from-year *)
Lemma yearly_list_ok_any_from period to_day fy fy' gls yl :
  yearly_list period to_day fy gls = Ok yl -> exists yl', yearly_list period to_day fy' gls = Ok yl'.
Proof.
  intros H. apply (c06_figures_defined period to_day fy' gls).
  apply (c06_figures_defined period to_day fy gls). exists yl. exact H.
Qed.

(** * order *)
Lemma key_gt_line_before a b : yline_key a > yline_key b -> line_before a b.
Proof.
  unfold yline_key, ykey, line_before.
  pose proof (ttype_code_range (y_type a)). pose proof (ttype_code_range (y_type b)).
  destruct (y_long a), (y_long b); intros Hk.
  - destruct (Z.eq_dec (y_year a) (y_year b)); [right; split; [assumption|right; split; [reflexivity|lia]]|left; lia].
  - left. lia.
  - destruct (Z.eq_dec (y_year a) (y_year b)); [right; split; [assumption|left; auto]|left; lia].
  - destruct (Z.eq_dec (y_year a) (y_year b)); [right; split; [assumption|right; split; [reflexivity|lia]]|left; lia].
Qed.

Theorem c06_order : forall period to_day from_year gls yl,
  yearly_list period to_day from_year gls = Ok yl -> StronglySorted line_before yl.
Proof.
  intros period to_day from_year gls yl H. pose proof (yearly_list_sorted _ _ _ _ _ H) as Hs.
  clear H. induction Hs as [|a l Hs IH Hall]; [constructor|]. constructor; [exact IH|].
  eapply Forall_impl; [|exact Hall]. intros b. apply key_gt_line_before.
Qed.

(** * with dates monotone in time the cut is a filter: every fraction dated up to the to-date counts *)
Theorem c06_line_is_sum_sorted : forall period to_day from_year gls yl,
  day_sorted g_day gls ->
  yearly_list period to_day from_year gls = Ok yl ->
  forall L, In L yl ->
    let mine := filter (fun g => line_has_key period L g && (g_day g <=? to_day)) gls in
    mine <> [] /\
    y_crypto L = sumZ (map g_amt mine) /\
    y_fiat L = dsum (map (fun g => odflt (g_proceeds g)) mine) /\
    y_cost L = dsum (map (fun g => odflt (g_cost g)) mine) /\
    y_gain L = dsum (map (fun g => odflt (g_gain g)) mine).
Proof.
  intros period to_day from_year gls yl Hs H L HL mine.
  pose proof (c06_line_is_sum _ _ _ _ _ H L HL) as C. cbv zeta in C.
  rewrite (take_until_filter g_day to_day gls Hs) in C.
  assert (E : filter (line_has_key period L) (filter (fun x => g_day x <=? to_day) gls) = mine).
  { subst mine. clear. induction gls as [|g gls IH]; cbn [filter]; [reflexivity|].
    destruct (g_day g <=? to_day); cbn [filter]; rewrite ?andb_true_r, ?andb_false_r; [|exact IH].
    destruct (line_has_key period L g); [f_equal|]; exact IH. }
  rewrite E in C. exact C.
Qed.

Theorem c06_every_dated_fraction_counts : forall period to_day from_year gls yl,
  day_sorted g_day gls ->
  yearly_list period to_day from_year gls = Ok yl ->
  forall g, In g gls -> g_day g <= to_day -> from_year <= g_year g ->
    exists L, In L yl /\ line_has_key period L g = true /\
              forall L', In L' yl -> line_has_key period L' g = true -> L' = L.
Proof.
  intros period to_day from_year gls yl Hs H g Hg Hd Hy.
  apply (c06_fraction_one_line _ _ _ _ _ H); [|exact Hy].
  rewrite (take_until_filter g_day to_day gls Hs). apply filter_In. split; [exact Hg|lia].
Qed.

(** * the summary of a run *)
Theorem c06_summary_of_run : forall period from_day to_day allow exs hos t fs cd,
  compute period from_day to_day allow exs hos t fs = Ok cd ->
  yearly_list period to_day (year_of_day from_day) (cd_all_gls cd) = Ok (cd_yearly cd).
Proof.
  intros period from_day to_day allow exs hos t fs cd H.
  destruct (compute_inv _ _ _ _ _ _ _ _ _ H) as (evs & gls & _ & _ & -> & _ & HY & _). exact HY.
Qed.

(** * finding F9: without monotone dates a fraction dated up to the to-date is dropped *)
Theorem c06_to_date_refuted : exists period to_day from_year gls yl g,
  yearly_list period to_day from_year gls = Ok yl /\
  In g gls /\ g_day g <= to_day /\ from_year <= g_year g /\
  forall L, In L yl -> line_has_key period L g = false.
Proof.
  exists 365, 18627, 1970, gls9, [], g9_hidden.
  split; [vm_compute; reflexivity|]. split; [right; left; reflexivity|].
  split; [vm_compute; discriminate|]. split; [vm_compute; discriminate|]. intros L [].
Qed.

(** * non-vacuity: history A of L4Examples.v -- three calendar years, two holders, a sale split into a long and a
    short fraction, two fractions in one line; whole history and a run cut inside 2020 *)
Example c06_example_whole : yearly_list 365 100000 1970 glsA = Ok ylA /\ length ylA = 5%nat /\
  length (filter (line_has_key 365 (nth 1 ylA yline_dflt)) (take_until g_day 100000 glsA)) = 2%nat.
Proof. vm_compute. repeat split; reflexivity. Qed.
Example c06_glsA_sorted : day_sorted g_day glsA.
Proof.
  unfold day_sorted. repeat (constructor; [|repeat (constructor; [vm_compute; discriminate|]); constructor]). constructor.
Qed.
Example c06_example_cut : yearly_list 365 18455 2020 glsA = Ok ylA_cut /\ length ylA_cut = 3%nat.
Proof. split; [vm_compute; reflexivity|reflexivity]. Qed.
Example c06_example_run : compute 365 (-100000) 100000 false exsA hosA tA fsA = Ok cdA /\ cd_all_gls cdA = glsA /\ cd_yearly cdA = ylA.
Proof. vm_compute. repeat split; reflexivity. Qed.
(** the theorems instantiated on the examples *)
Example c06_line_is_sum_instance := c06_line_is_sum_sorted 365 18455 2020 glsA ylA_cut c06_glsA_sorted (proj1 c06_example_cut).
Example c06_counts_instance := c06_every_dated_fraction_counts 365 100000 1970 glsA ylA c06_glsA_sorted ylA_ok.
