(** END TO END (Model/EndToEnd.v): the capstone composition theorems, from the cells of the workbook and the sections of the
    configuration to the exit status and the reports.

    1. (Proofs/EndToEndFront.v) [front_end_of] is [ConfigModel.front_end]; the file-name view of [rp2_model] is [front_end] itself.
    2. REJECTION, one lemma per cause: invalid configuration / failing option check / a sheet the parser rejects (chained from
       [no_report_on_rejection], C12; Proofs/EndToEndFront.v); InputData or the matcher rejects an asset, in particular exhausted
       lots; the compute stage rejects an asset, in particular an overdraft without -n ([compute_tax_outcome], C16 / C08).
       Always: non-zero exit status and NO report.
    3. the front half on rendered sheets: parsing every rendered sheet yields [expected_all] ([parse_render], C11), hence the
       SEAM equation  rp2_model ... = back_end ... (expected_all ...).
    4. from the typed rows of a sheet to a [built_history]: without crypto-fee acquisitions the parsed transactions are the
       constructors applied to the raw rows; the row conditions that follow from the sheet ([in_rows_increasing],
       [distinct_row_ids], per-table duplicates, taxable events defined) are DERIVED from [wf_blocks].
    5. SUCCESS: exit 0, exactly the configured reports of the country in discovery order, each within capacity, computed
       from the transactions [expected] gives for the cells of the sheets.  [E2E_success] is stated on the raw rows of the
       sheets ([built_history]) and excludes crypto-fee acquisitions; Proofs/EndToEndAnyRows.v [E2E_success_any_rows] has the
       same conclusion for every sheet the parser accepts. *)
From Coq Require Import List ZArith Bool Lia Permutation Sorted.
From RP2V Require Import Base.Prelude Base.Time Base.Dec Base.Sorting Base.Assoc Model.Types Model.Generated Model.Txn
  Model.Matcher Model.MatchSpec Model.Pipeline Model.Parser Model.Render Model.TableOrderSpec Model.Computed Model.ComputedSpec
  Model.TotalSpec Model.FromRowsSpec Model.Grid Model.ReportInput Model.MainRun Model.RunCompose Model.ConfigModel Model.EndToEnd.
From RP2V Require Import Proofs.EndToEndFront Proofs.SortingProofs Proofs.BalanceProofs Proofs.C09Proofs Proofs.C17Proofs Proofs.PipelineWf
  Proofs.ParserLookup Proofs.ParserRows Proofs.ParserSheet Proofs.ParserSpec Proofs.FaultsCtor Proofs.FaultsConfig
  Proofs.TableOrder Proofs.FromRows Proofs.ComputeTotal Proofs.RunLemmas Proofs.C16Proofs Proofs.RunCompose Proofs.RunComposeTotal.
Import ListNotations.
Open Scope Z_scope.

(** * 2. rejection behind the front end
    ** 2.2 helpers: lists, sorting by name, the validated configuration *)
Lemma map_result_err_in {A B} (f : A -> result B) : forall l x, In x l -> is_err (f x) -> is_err (map_result f l).
Proof.
  induction l as [|a l IH]; intros x Hx He; [destruct Hx|]. cbn [map_result].
  destruct Hx as [->|Hx].
  - destruct (f x); [destruct He|exact I].
  - destruct (f a); [|exact I]. specialize (IH x Hx He). destruct (map_result f l); [destruct IH|exact I].
Qed.

Lemma map_result_Forall2 {A B} (f : A -> result B) : forall l l', map_result f l = Ok l' -> Forall2 (fun x y => f x = Ok y) l l'.
Proof.
  induction l as [|a l IH]; intros l' H; cbn [map_result] in H.
  - injection H as <-. constructor.
  - destruct (f a) as [b|] eqn:Ea; [|discriminate]. destruct (map_result f l) as [ys|] eqn:El; [|discriminate].
    injection H as <-. constructor; [exact Ea|exact (IH ys eq_refl)].
Qed.

Lemma insert_leb_map {A B} (f : A -> B) (leb : B -> B -> bool) x l :
  map f (insert_leb (fun a b => leb (f a) (f b)) x l) = insert_leb leb (f x) (map f l).
Proof. induction l as [|y l IH]; cbn [insert_leb map]; [reflexivity|]. destruct (leb (f x) (f y)); cbn [map]; [reflexivity|]. rewrite IH. reflexivity. Qed.
Lemma sort_leb_map {A B} (f : A -> B) (leb : B -> B -> bool) l :
  map f (sort_leb (fun a b => leb (f a) (f b)) l) = sort_leb leb (map f l).
Proof. induction l as [|x l IH]; cbn [sort_leb map]; [reflexivity|]. rewrite insert_leb_map, IH. reflexivity. Qed.

Lemma sorted_names ps : map fst (sort_leb by_name ps) = sort_leb str_leb (map fst ps).
Proof. exact (sort_leb_map fst str_leb ps). Qed.

Lemma asset_of_name sched ap ra : asset_of sched ap = Ok ra -> ra_name ra = fst ap.
Proof.
  unfold asset_of. destruct (txs_of_parsed (snd ap)) as [t|]; [|discriminate].
  destruct (fractions_of gen_always_repush sched t); [|discriminate]. intros [= <-]. reflexivity.
Qed.
Lemma assets_names sched : forall l assets, map_result (asset_of sched) l = Ok assets -> map ra_name assets = map fst l.
Proof.
  intros l assets H. apply map_result_Forall2 in H. induction H as [|x y l l' Hxy _ IH]; [reflexivity|].
  cbn [map]. rewrite (asset_of_name _ _ _ Hxy), IH. reflexivity.
Qed.

Lemma parse_all_names cfg workbook : forall assets counter ps, parse_all cfg assets workbook counter = Ok ps -> map fst ps = assets.
Proof.
  induction assets as [|a rest IH]; intros counter ps H; cbn [parse_all] in H; [injection H as <-; reflexivity|].
  destruct (workbook a) as [rows|]; [|discriminate]. destruct (parse_sheet cfg a counter rows) as [p|]; [|discriminate].
  destruct (parse_all cfg rest workbook (pa_counter p)) as [ps'|] eqn:E; [|discriminate]. injection H as <-.
  cbn [map fst]. rewrite (IH _ _ E). reflexivity.
Qed.

(** [general] assets is a set: no duplicates *)
Lemma str_mem_In x l : str_mem x l = true <-> In x l.
Proof.
  unfold str_mem. rewrite existsb_exists. split.
  - intros (y & Hy & E). apply ParserLookup.str_eqb_eq in E. subst y. exact Hy.
  - intros H. exists x. split; [exact H|apply ParserLookup.str_eqb_refl].
Qed.
Lemma has_dup_str_NoDup l : has_dup_str l = false -> NoDup l.
Proof.
  induction l as [|x l IH]; intros H; [constructor|]. cbn [has_dup_str] in H. apply orb_false_iff in H. destruct H as [H1 H2].
  constructor; [|exact (IH H2)]. intros Hin. apply str_mem_In in Hin. congruence.
Qed.
Lemma string_set_NoDup field items vals : string_set field items = Ok vals -> NoDup vals.
Proof.
  unfold string_set. destruct (assoc_str field items) as [v|]; [|discriminate]. destruct (strip v); [discriminate|].
  destruct (existsb _ _); [discriminate|]. destruct (has_dup_str _) eqn:D; [discriminate|]. intros [= <-]. exact (has_dup_str_NoDup _ D).
Qed.

Lemma section_step_assets st sec st' : section_step st sec = Ok st' -> NoDup (cs_assets st) -> NoDup (cs_assets st').
Proof.
  unfold section_step. destruct sec as [name items]. intros H ND.
  destruct (str_eqb (norm_section name) gen_kw_general).
  { destruct (nonempty (cs_assets st) || nonempty (cs_exchanges st) || nonempty (cs_holders st)); [discriminate|].
    destruct (string_set gen_kw_assets items) as [a|] eqn:Ea; [|discriminate]. cbn [bind] in H.
    destruct (string_set gen_kw_exchanges items) as [e|]; [|discriminate]. cbn [bind] in H.
    destruct (string_set gen_kw_holders items) as [h|]; [|discriminate]. cbn [bind] in H.
    injection H as <-. cbn [cs_assets]. exact (string_set_NoDup _ _ _ Ea). }
  destruct (str_eqb (norm_section name) gen_in_section).
  { destruct (nonempty (cs_in st)); [discriminate|]. destruct (validate_header TabIn items); [|discriminate]. injection H as <-. exact ND. }
  destruct (str_eqb (norm_section name) gen_out_section).
  { destruct (nonempty (cs_out st)); [discriminate|]. destruct (validate_header TabOut items); [|discriminate]. injection H as <-. exact ND. }
  destruct (str_eqb (norm_section name) gen_intra_section).
  { destruct (nonempty (cs_intra st)); [discriminate|]. destruct (validate_header TabIntra items); [|discriminate]. injection H as <-. exact ND. }
  destruct (str_eqb (norm_section name) gen_kw_accounting_methods); [|discriminate].
  destruct (nonempty (cs_methods st)); [discriminate|]. destruct (validate_methods items); [|discriminate]. injection H as <-. exact ND.
Qed.

Lemma sections_go_assets : forall l st st', sections_go st l = Ok st' -> NoDup (cs_assets st) -> NoDup (cs_assets st').
Proof.
  induction l as [|x l IH]; intros st st' H ND; cbn [sections_go] in H; [injection H as <-; exact ND|].
  destruct (section_step st x) as [s1|] eqn:E; [|discriminate]. exact (IH _ _ H (section_step_assets _ _ _ E ND)).
Qed.

Theorem valid_config_assets_distinct secs s : validate_config secs = Ok s -> NoDup (cs_assets s).
Proof.
  unfold validate_config. destruct (sections_go _ secs) as [st|] eqn:E; [|discriminate].
  destruct (_ && _); [|discriminate]. intros [= <-]. apply (sections_go_assets _ _ _ E). constructor.
Qed.

(** what a passed option check returns: the assets to process, all of them configured *)
Lemma options_check_passed c o s assets : options_check c (l1_options o) (Ok s) = (0, assets) ->
  assets = run_assets o s /\ forall a, In a assets -> In a (cs_assets s).
Proof.
  unfold options_check, run_assets. cbn [l1_options op_method op_to_day op_from_day op_asset].
  destruct (match o_method o with Some m => _ | None => _ end); [|discriminate].
  destruct (o_to o <? o_from o); [discriminate|]. destruct (_ && _); [discriminate|]. destruct (existsb _ _); [discriminate|].
  destruct (o_asset o) as [a0|].
  - destruct (str_mem a0 (cs_assets s)) eqn:M; [|discriminate]. intros [= <-]. split; [reflexivity|].
    intros x [<-|[]]. apply str_mem_In. exact M.
  - intros [= <-]. auto.
Qed.

(** the run, once the front end has accepted everything *)
Lemma rp2_model_back c o secs ts workbook v envp s assets ps :
  validate_config secs = Ok s -> options_check c (l1_options o) (Ok s) = (0, assets) ->
  parse_all (pcfg_of s ts) assets workbook 0 = Ok ps ->
  rp2_model c o secs ts workbook v envp = back_end c o v envp s ps.
Proof. intros V O P. unfold rp2_model, front_end_of. rewrite V, O. cbn [Z.eqb negb]. rewrite P. reflexivity. Qed.

(** options / configuration and the assembled rinput describe the same run *)
Lemma e2e_input_inv c o envp s ps i : e2e_input c o envp s ps = Some i ->
  exists sched assets, e2e_sched c o s = Some sched /\ map_result (asset_of sched) (sort_leb by_name ps) = Ok assets /\
                       i = rinput_of c o envp s sched assets.
Proof.
  unfold e2e_input. destruct (e2e_sched c o s) as [sched|]; [|discriminate].
  destruct (map_result (asset_of sched) (sort_leb by_name ps)) as [assets|] eqn:E; [|discriminate].
  intros [= <-]. exists sched, assets. auto.
Qed.

Lemma sort_leb_single {A} (leb : A -> A -> bool) x : sort_leb leb [x] = [x].
Proof. reflexivity. Qed.

Theorem e2e_run_matches c o envp s ps i :
  e2e_input c o envp s ps = Some i -> map fst ps = run_assets o s -> NoDup (run_assets o s) ->
  run_matches c o (l6_config s) i.
Proof.
  intros H N ND. destruct (e2e_input_inv _ _ _ _ _ _ H) as (sched & assets & _ & HA & ->).
  pose proof (assets_names _ _ _ HA) as Hn. rewrite sorted_names, N in Hn.
  constructor; cbn [rinput_of rp_country rp_from rp_to rp_allow rp_assets]; try reflexivity.
  - rewrite Hn. unfold run_assets, assets_to_process. cbn [l6_config cf_assets]. destruct (o_asset o); reflexivity.
  - rewrite Hn. eapply Permutation_NoDup; [|exact ND]. apply Permutation_sym. apply sort_leb_perm.
Qed.

Lemma run_assets_distinct o s : NoDup (cs_assets s) -> NoDup (run_assets o s).
Proof. unfold run_assets. destruct (o_asset o); [intros _; constructor; [intros []|constructor]|exact (fun H => H)]. Qed.

(** ** 2.3 the causes behind the front end *)
(** MainRun's control flow stops before the first generator when some processed asset does not compute *)
Lemma run_compute_stage_fails c o cf inp :
  forallb (asset_computes o inp) (assets_to_process o cf) = false -> fst (MainRun.run c o cf inp) <> 0 /\ snd (MainRun.run c o cf inp) = [].
Proof.
  intros H. unfold MainRun.run.
  destruct (match o_method o with Some m => negb (str_in m (accepted_method_names c)) | None => false end); [split; [cbn; lia|reflexivity]|].
  destruct (negb (str_in (language c o) locale_inventory)); [split; [cbn; lia|reflexivity]|].
  destruct (o_to o <? o_from o); [split; [cbn; lia|reflexivity]|].
  destruct (schedule c o cf) as [sn|]; [|split; [cbn; lia|reflexivity]].
  destruct (negb (forallb (fun e => str_in (snd e) method_plugins) sn)); [split; [cbn; lia|reflexivity]|].
  destruct (o_plugin o); [split; [cbn; lia|reflexivity]|].
  rewrite H. cbn [negb]. split; [cbn; lia|reflexivity].
Qed.

Lemma computed_all_err_in i : forall l a e, In a l -> computed_of i a = Err e -> is_err (computed_all i l).
Proof.
  induction l as [|x l IH]; intros a e Ha He; [destruct Ha|]. cbn [computed_all]. destruct Ha as [->|Ha].
  - rewrite He. exact I.
  - destruct (computed_of i x); [|exact I]. specialize (IH a e Ha He). destruct (computed_all i l); [destruct IH|exact I].
Qed.

(** the compute stage fails: non-zero exit, nothing written *)
Lemma reports_of_compute_stage_fails c o cf v i :
  run_matches c o cf i -> is_err (computed_all i (rp_assets i)) ->
  fst (reports_of c o cf v i) <> 0 /\ snd (reports_of c o cf v i) = [].
Proof.
  intros M HE.
  assert (HF : forallb (asset_computes o (inp_of_rinput i)) (assets_to_process o cf) = false).
  { destruct (forallb _ _) eqn:F; [|reflexivity]. apply (assets_stage_iff c o cf i M) in F. destruct F as (cs & HC).
    rewrite HC in HE. destruct HE. }
  destruct (run_compute_stage_fails c o cf _ HF) as [R1 R2].
  unfold reports_of, run_reports. destruct (computed_all i (rp_assets i)); [destruct HE|].
  rewrite R2. cbn [length firstn fst snd]. split; [|reflexivity].
  destruct (fst (MainRun.run c o cf (inp_of_rinput i)) =? 0) eqn:Z; [lia|exact R1].
Qed.

Section BackEndRejection.
Variables (c : country) (o : MainRun.options) (secs : list (str * list (str * str))) (ts : list (str * ts_res))
  (workbook : str -> option (list (list cell))) (v : renv) (envp : Z).
Variables (s : cstate) (assets : list str) (ps : list (str * parsed)).
Hypothesis V : validate_config secs = Ok s.
Hypothesis O : options_check c (l1_options o) (Ok s) = (0, assets).
Hypothesis P : parse_all (pcfg_of s ts) assets workbook 0 = Ok ps.

(** the schedule cannot be built (-m together with [accounting_methods]) *)
Theorem e2e_no_schedule : e2e_sched c o s = None -> rp2_model c o secs ts workbook v envp = (1, []).
Proof. intros H. rewrite (rp2_model_back _ _ _ _ _ _ _ _ _ _ V O P). unfold back_end, e2e_input. rewrite H. reflexivity. Qed.

(** InputData (duplicate ids, empty IN set) or the matcher rejects some asset *)
Theorem e2e_asset_rejected sched ap :
  e2e_sched c o s = Some sched -> In ap ps -> is_err (asset_of sched ap) -> rp2_model c o secs ts workbook v envp = (1, []).
Proof.
  intros S Hin He. rewrite (rp2_model_back _ _ _ _ _ _ _ _ _ _ V O P). unfold back_end, e2e_input. rewrite S.
  assert (Hs : In ap (sort_leb by_name ps)) by (apply sort_leb_in; exact Hin).
  pose proof (map_result_err_in (asset_of sched) _ _ Hs He) as HX.
  destruct (map_result (asset_of sched) (sort_leb by_name ps)); [destruct HX|reflexivity].
Qed.

(** matching + aggregation ([compute_tax], under the window / -n / period / schedule of the run) fails for some asset *)
Theorem e2e_compute_tax_fails sched a p t :
  e2e_sched c o s = Some sched -> In (a, p) ps -> txs_of_parsed p = Ok t ->
  is_err (compute_tax (country_period c envp) (o_from o) (o_to o) (o_neg o) (cs_exchanges s) (cs_holders s) sched t) ->
  fst (rp2_model c o secs ts workbook v envp) <> 0 /\ snd (rp2_model c o secs ts workbook v envp) = [].
Proof.
  intros S Hin HT HX. unfold compute_tax in HX.
  destruct (fractions_of gen_always_repush sched t) as [fs|e] eqn:HF.
  2:{ rewrite (e2e_asset_rejected sched (a, p) S Hin); [split; [cbn; lia|reflexivity]|].
      unfold asset_of. cbn [snd]. rewrite HT, HF. exact I. }
  rewrite (rp2_model_back _ _ _ _ _ _ _ _ _ _ V O P). unfold back_end.
  destruct (e2e_input c o envp s ps) as [i|] eqn:HI; [|split; [cbn; lia|reflexivity]].
  destruct (options_check_passed _ _ _ _ O) as [EA _].
  assert (M : run_matches c o (l6_config s) i).
  { apply (e2e_run_matches c o envp s ps i HI); [rewrite (parse_all_names _ _ _ _ _ P); exact EA|].
    apply run_assets_distinct. exact (valid_config_assets_distinct _ _ V). }
  apply reports_of_compute_stage_fails; [exact M|].
  destruct (e2e_input_inv _ _ _ _ _ _ HI) as (sched' & ras & S' & HA & ->). rewrite S in S'. injection S' as <-.
  assert (Hs : In (a, p) (sort_leb by_name ps)) by (apply sort_leb_in; exact Hin).
  destruct (map_result_forward (asset_of sched) _ _ _ HA Hs) as (ra & Hra & Hin').
  unfold asset_of in Hra. cbn [snd fst] in Hra. rewrite HT, HF in Hra. injection Hra as <-.
  destruct (compute _ _ _ _ _ _ t fs) as [cd|e] eqn:HC; [destruct HX|].
  apply (computed_all_err_in _ _ _ e Hin'). unfold computed_of. cbn [rinput_of rp_period rp_from rp_to rp_allow rp_exchanges rp_holders ra_txs ra_fracs].
  exact HC.
Qed.

(** ... in particular, on a history built from rows: the lots run out at some disposal ... *)
Theorem e2e_lots_exhausted sched a p h t evs :
  e2e_sched c o s = Some sched -> In (a, p) ps -> txs_of_parsed p = Ok t ->
  built_history sched h t -> taxable_events t = Ok evs -> lots_exhausted t evs ->
  fst (rp2_model c o secs ts workbook v envp) <> 0 /\ snd (rp2_model c o secs ts workbook v envp) = [].
Proof.
  intros S Hin HT BH HE Hex. apply (e2e_compute_tax_fails sched a p t S Hin HT). unfold compute_tax.
  destruct (built_matcher_outcome sched h t evs BH HE) as [(fs & _ & Hne)|[HF _]]; [contradiction|]. rewrite HF. exact I.
Qed.

(** ... or an account is overdrawn up to the to-date and -n is not given (the C08 condition [some_overdraft]) *)
Theorem e2e_overdrawn sched a p h t evs :
  e2e_sched c o s = Some sched -> In (a, p) ps -> txs_of_parsed p = Ok t ->
  built_history sched h t -> taxable_events t = Ok evs -> holders_ok t ->
  o_neg o = false -> some_overdraft (o_to o) t ->
  fst (rp2_model c o secs ts workbook v envp) <> 0 /\ snd (rp2_model c o secs ts workbook v envp) = [].
Proof.
  intros S Hin HT BH HE Hok Hn Hov. apply (e2e_compute_tax_fails sched a p t S Hin HT).
  destruct (compute_tax_outcome sched h t evs BH HE (country_period c envp) (o_from o) (o_to o) (o_neg o) (cs_exchanges s) (cs_holders s) Hok)
    as (Hx & Hneg & _ & _).
  destruct (built_matcher_outcome sched h t evs BH HE) as [(fs & _ & Hne)|[HF Hex]].
  - rewrite (proj2 Hneg (conj Hne (conj Hn Hov))). exact I.
  - rewrite (proj2 Hx Hex). exact I.
Qed.

(** the same for ANY parsed sheet (crypto-fee acquisitions included), straight from C08: the matcher succeeded, the asset
    computes with -n, and some debit overdraws its account *)
Theorem e2e_overdrawn_any_sheet sched a p t fs cd :
  e2e_sched c o s = Some sched -> In (a, p) ps -> txs_of_parsed p = Ok t ->
  fractions_of gen_always_repush sched t = Ok fs -> holders_ok t ->
  compute (country_period c envp) (o_from o) (o_to o) true (cs_exchanges s) (cs_holders s) t fs = Ok cd ->
  o_neg o = false -> some_overdraft (o_to o) t ->
  fst (rp2_model c o secs ts workbook v envp) <> 0 /\ snd (rp2_model c o secs ts workbook v envp) = [].
Proof.
  intros S Hin HT HF Hok HC Hn Hov. apply (e2e_compute_tax_fails sched a p t S Hin HT). unfold compute_tax. rewrite HF, Hn.
  destruct (C08Compute.compute_rejects_overdraft _ _ _ _ _ t fs cd Hok HC) as [Hiff _]. rewrite (proj2 Hiff Hov). exact I.
Qed.
End BackEndRejection.

(** * 3. the front half on rendered sheets: cells -> parsed transactions, and the seam *)
Lemma str_index_of_In x : forall l n, In x l -> exists k, str_index x l n = Some k.
Proof.
  induction l as [|y l IH]; intros n H; [destruct H|]. cbn [str_index].
  destruct (str_eqb x y) eqn:E; [eexists; reflexivity|]. destruct H as [->|H]; [rewrite ParserLookup.str_eqb_refl in E; discriminate|].
  exact (IH (n + 1) H).
Qed.

(** parsing the rendered sheet of every asset yields the expected transactions of every asset (C11 [parse_render],
    the artificial-id counter threaded through the assets) *)
Theorem parse_all_rendered cfg workbook sheet trailing : forall assets counter ps,
  rendered_workbook cfg workbook sheet trailing assets -> (forall a, In a assets -> In a (pc_assets cfg)) ->
  expected_all cfg sheet assets counter = Ok ps -> (forall a p, In (a, p) ps -> pa_ins p <> []) ->
  parse_all cfg assets workbook counter = Ok ps.
Proof.
  induction assets as [|a rest IH]; intros counter ps R A E NE; cbn [expected_all parse_all] in *; [exact E|].
  destruct (expected cfg counter (sheet a)) as [p|] eqn:Ep; [|discriminate].
  destruct (expected_all cfg sheet rest (pa_counter p)) as [ps'|] eqn:Er; [|discriminate]. injection E as <-.
  destruct (R a (or_introl eq_refl)) as (W1 & W2 & W3 & W4). rewrite W1.
  destruct (str_index_of_In a (pc_assets cfg) 0 (A a (or_introl eq_refl))) as (ai & Hai).
  rewrite (parse_render cfg a ai counter (sheet a) (trailing a) p Hai W2 W3 W4 Ep (NE a p (or_introl eq_refl))).
  rewrite (IH (pa_counter p) ps'); [reflexivity| | |exact Er|].
  - intros b Hb. apply R. right. exact Hb.
  - intros b Hb. apply A. right. exact Hb.
  - intros b q Hq. apply (NE b q). right. exact Hq.
Qed.

(** THE SEAM.  For a valid configuration, passed option checks and a workbook of rendered well-formed sheets whose typed rows
    yield the transactions [ps] (at least one acquisition per asset): the run IS the back end applied to [ps] -- the
    transactions computed from the typed rows alone (no cells, no header maps, no state machine). *)
Theorem e2e_seam c o secs ts workbook v envp s assets sheet trailing ps :
  validate_config secs = Ok s -> options_check c (l1_options o) (Ok s) = (0, assets) ->
  rendered_workbook (pcfg_of s ts) workbook sheet trailing assets ->
  expected_all (pcfg_of s ts) sheet assets 0 = Ok ps -> (forall a p, In (a, p) ps -> pa_ins p <> []) ->
  rp2_model c o secs ts workbook v envp = back_end c o v envp s ps.
Proof.
  intros V O R E NE. apply (rp2_model_back c o secs ts workbook v envp s assets ps V O).
  apply (parse_all_rendered _ workbook sheet trailing assets 0 ps R); [|exact E|exact NE].
  exact (proj2 (options_check_passed _ _ _ _ O)).
Qed.

(** * 4. from the typed rows of a sheet to a history built by the constructors *)
Lemma number_rows_from : forall l n, number_rows n l = number_from n l.
Proof. induction l as [|x l IH]; intros n; cbn [number_rows number_from]; [reflexivity|]. rewrite IH. reflexivity. Qed.
Lemma typed_rows_numbered : forall bl n, typed_rows n bl = numbered n bl.
Proof. induction bl as [|b bl IH]; intros n; cbn [typed_rows numbered]; [reflexivity|]. rewrite number_rows_from, IH. reflexivity. Qed.

Lemma hist_cons_in cfg n s l raw : raw_of_in cfg n s = Some raw ->
  hist_of_rows cfg ((n, SIn s) :: l) =
  {| h_ins := raw :: h_ins (hist_of_rows cfg l); h_outs := h_outs (hist_of_rows cfg l); h_intras := h_intras (hist_of_rows cfg l) |}.
Proof. intros R. unfold hist_of_rows. cbn [filter_map raw_in_of raw_out_of raw_intra_of fst snd h_ins h_outs h_intras]. rewrite R. reflexivity. Qed.
Lemma hist_cons_out cfg n s l raw : raw_of_out cfg n s = Some raw ->
  hist_of_rows cfg ((n, SOut s) :: l) =
  {| h_ins := h_ins (hist_of_rows cfg l); h_outs := raw :: h_outs (hist_of_rows cfg l); h_intras := h_intras (hist_of_rows cfg l) |}.
Proof. intros R. unfold hist_of_rows. cbn [filter_map raw_in_of raw_out_of raw_intra_of fst snd h_ins h_outs h_intras]. rewrite R. reflexivity. Qed.
Lemma hist_cons_intra cfg n s l raw : raw_of_intra cfg n s = Some raw ->
  hist_of_rows cfg ((n, SIntra s) :: l) =
  {| h_ins := h_ins (hist_of_rows cfg l); h_outs := h_outs (hist_of_rows cfg l); h_intras := raw :: h_intras (hist_of_rows cfg l) |}.
Proof. intros R. unfold hist_of_rows. cbn [filter_map raw_in_of raw_out_of raw_intra_of fst snd h_ins h_outs h_intras]. rewrite R. reflexivity. Qed.

(** without crypto-fee acquisitions the expected transactions are the constructors applied to the raw rows, table by table,
    in sheet order; no artificial fee disposal is created and the id counter does not move *)
Lemma expect_list_constructors cfg : forall l a a',
  expect_list cfg a l = Ok a' -> no_crypto_fee (hist_of_rows cfg l) ->
  exists ins outs intras,
    map_result mk_in (h_ins (hist_of_rows cfg l)) = Ok ins /\ map_result mk_out (h_outs (hist_of_rows cfg l)) = Ok outs /\
    map_result mk_intra (h_intras (hist_of_rows cfg l)) = Ok intras /\
    a_ins a' = a_ins a ++ ins /\ a_outs a' = a_outs a ++ outs /\ a_intras a' = a_intras a ++ intras /\
    a_art a' = a_art a /\ a_counter a' = a_counter a.
Proof.
  induction l as [|[n r] l IH]; intros a a' E NF.
  - cbn [expect_list] in E. injection E as <-. exists [], [], []. cbn. rewrite !app_nil_r. repeat split; reflexivity.
  - cbn [expect_list fst snd] in E. destruct (expect_row cfg a n r) as [a1|] eqn:E1; [|discriminate].
    destruct r as [s|s|s]; unfold expect_row in E1.
    + destruct (raw_of_in cfg n s) as [raw|] eqn:R; [|discriminate].
      destruct (mk_in raw) as [tx|] eqn:K; cbn [bind] in E1; [|discriminate].
      rewrite (hist_cons_in _ _ _ _ _ R) in *. cbn [h_ins h_outs h_intras] in *.
      assert (F0 : i_crypto_fee tx = 0).
      { destruct (ParserSpec.mk_in_fields _ _ K) as (_ & _ & _ & _ & _ & _ & _ & _ & _ & F). rewrite F, (NF raw (or_introl eq_refl)). reflexivity. }
      rewrite F0 in E1. cbn [Z.ltb Z.compare] in E1. injection E1 as <-.
      destruct (IH _ _ E) as (ins & outs & intras & M1 & M2 & M3 & A1 & A2 & A3 & A4 & A5).
      { intros x Hx. apply NF. right. exact Hx. }
      cbn [a_ins a_outs a_intras a_art a_counter] in *.
      exists (tx :: ins), outs, intras. cbn [map_result]. rewrite K, M1, M2, M3, A1, A2, A3, A4, A5, <- app_assoc. repeat split; reflexivity.
    + destruct (raw_of_out cfg n s) as [raw|] eqn:R; [|discriminate].
      destruct (mk_out raw) as [tx|] eqn:K; cbn [bind] in E1; [|discriminate]. injection E1 as <-.
      rewrite (hist_cons_out _ _ _ _ _ R) in *. cbn [h_ins h_outs h_intras] in *.
      destruct (IH _ _ E NF) as (ins & outs & intras & M1 & M2 & M3 & A1 & A2 & A3 & A4 & A5).
      cbn [a_ins a_outs a_intras a_art a_counter] in *.
      exists ins, (tx :: outs), intras. cbn [map_result]. rewrite K, M1, M2, M3, A1, A2, A3, A4, A5, <- app_assoc. repeat split; reflexivity.
    + destruct (raw_of_intra cfg n s) as [raw|] eqn:R; [|discriminate].
      destruct (mk_intra raw) as [tx|] eqn:K; cbn [bind] in E1; [|discriminate]. injection E1 as <-.
      rewrite (hist_cons_intra _ _ _ _ _ R) in *. cbn [h_ins h_outs h_intras] in *.
      destruct (IH _ _ E NF) as (ins & outs & intras & M1 & M2 & M3 & A1 & A2 & A3 & A4 & A5).
      cbn [a_ins a_outs a_intras a_art a_counter] in *.
      exists ins, outs, (tx :: intras). cbn [map_result]. rewrite K, M1, M2, M3, A1, A2, A3, A4, A5, <- app_assoc. repeat split; reflexivity.
Qed.

(** [build] of the sheet's raw rows is the bridge applied to the expected transactions, and the counter stays put *)
Theorem build_of_expected cfg counter blocks p :
  expected cfg counter blocks = Ok p -> no_crypto_fee (sheet_hist cfg blocks) ->
  build (sheet_hist cfg blocks) = txs_of_parsed p /\ pa_counter p = counter /\
  map_result mk_in (h_ins (sheet_hist cfg blocks)) = Ok (pa_ins p) /\
  map_result mk_out (h_outs (sheet_hist cfg blocks)) = Ok (pa_outs p) /\
  map_result mk_intra (h_intras (sheet_hist cfg blocks)) = Ok (pa_intras p).
Proof.
  unfold expected, sheet_hist. rewrite expect_blocks_list, <- typed_rows_numbered. intros E NF.
  destruct (expect_list cfg (acc0 counter) (typed_rows 1 blocks)) as [a|] eqn:EL; [|discriminate]. injection E as <-.
  destruct (expect_list_constructors cfg _ _ _ EL NF) as (ins & outs & intras & M1 & M2 & M3 & A1 & A2 & A3 & A4 & A5).
  cbn [acc0 a_ins a_outs a_intras a_art a_counter app] in *.
  rewrite build_txs_of_lists, M1, M2, M3. unfold txs_of_parsed, parsed_of. cbn [pa_ins pa_outs pa_intras pa_counter].
  rewrite A1, A2, A3, A4, A5, app_nil_r. repeat split; reflexivity.
Qed.

(** ** 4.1 the row conditions that follow from the sheet *)
Lemma map_result_map_eq {A B C} (f : A -> result B) (g : B -> C) (k : A -> C) : forall l l',
  map_result f l = Ok l' -> (forall x y, f x = Ok y -> g y = k x) -> map g l' = map k l.
Proof.
  intros l l' H Hf. apply map_result_Forall2 in H. induction H as [|x y l l' Hxy _ IH]; [reflexivity|].
  cbn [map]. rewrite (Hf _ _ Hxy), IH. reflexivity.
Qed.

(** the row ids of the raw rows are the sheet rows of the tables' data rows (C11 [C11_rows_once_in_order], here for the raw
    rows): rows are numbered in sheet order *)
Theorem sheet_row_ids cfg asset counter blocks p :
  wf_blocks cfg asset 1 blocks -> expected cfg counter blocks = Ok p -> no_crypto_fee (sheet_hist cfg blocks) ->
  map ri_row (h_ins (sheet_hist cfg blocks)) = data_rownos TabIn 1 blocks /\
  map ro_row (h_outs (sheet_hist cfg blocks)) = data_rownos TabOut 1 blocks /\
  map rx_row (h_intras (sheet_hist cfg blocks)) = data_rownos TabIntra 1 blocks.
Proof.
  intros W E NF. unfold expected in E.
  destruct (expect_blocks cfg (acc0 counter) 1 blocks) as [a|] eqn:EB; [|discriminate]. clear E.
  pose proof (expect_blocks_rownos cfg asset blocks _ _ 1 TabIn W EB) as RI.
  pose proof (expect_blocks_rownos cfg asset blocks _ _ 1 TabOut W EB) as RO.
  pose proof (expect_blocks_rownos cfg asset blocks _ _ 1 TabIntra W EB) as RX.
  cbn [tab_rows acc0 a_ins a_outs a_intras map app] in RI, RO, RX.
  rewrite expect_blocks_list, <- typed_rows_numbered in EB. unfold sheet_hist in *.
  destruct (expect_list_constructors cfg _ _ _ EB NF) as (ins & outs & intras & M1 & M2 & M3 & A1 & A2 & A3 & _).
  cbn [acc0 a_ins a_outs a_intras app] in A1, A2, A3. rewrite A1 in RI. rewrite A2 in RO. rewrite A3 in RX.
  rewrite <- RI, <- RO, <- RX. repeat split; symmetry.
  - apply (map_result_map_eq mk_in i_row ri_row _ _ M1). intros x y H. exact (proj1 (ParserSpec.mk_in_fields _ _ H)).
  - apply (map_result_map_eq mk_out o_row ro_row _ _ M2). intros x y H. exact (proj1 (ParserSpec.mk_out_fields _ _ H)).
  - apply (map_result_map_eq mk_intra x_row rx_row _ _ M3). intros x y H. exact (proj1 (ParserSpec.mk_intra_fields _ _ H)).
Qed.

Lemma sorted_nth_lt : forall l, StronglySorted Z.lt l -> forall i j d, (i < j < length l)%nat -> nth i l d < nth j l d.
Proof.
  induction l as [|x l IH]; intros S i j d H; [cbn in H; lia|]. inversion S as [|? ? S' F]; subst.
  destruct j as [|j]; [lia|]. destruct i as [|i]; cbn [nth].
  - rewrite Forall_forall in F. apply F. apply nth_In. cbn [length] in H. lia.
  - apply IH; [exact S'|]. cbn [length] in H. lia.
Qed.

Lemma data_rownos_sorted T n bl : StronglySorted Z.lt (data_rownos T n bl).
Proof. rewrite data_rownos_gen. apply gen_sorted. Qed.

(** DERIVED: the IN rows are in increasing row order (they are numbered top to bottom) *)
Theorem sheet_in_rows_increasing cfg asset counter blocks p :
  wf_blocks cfg asset 1 blocks -> expected cfg counter blocks = Ok p -> no_crypto_fee (sheet_hist cfg blocks) ->
  in_rows_increasing (sheet_hist cfg blocks).
Proof.
  intros W E NF. destruct (sheet_row_ids cfg asset counter blocks p W E NF) as (RI & _ & _).
  intros i j d H. rewrite <- !(map_nth ri_row). rewrite RI. apply sorted_nth_lt; [apply data_rownos_sorted|].
  rewrite <- RI, map_length. exact H.
Qed.

(** DERIVED: the row ids are pairwise distinct across the three tables (the tables occupy disjoint row ranges) *)
Theorem sheet_distinct_row_ids cfg asset counter blocks p :
  wf_blocks cfg asset 1 blocks -> expected cfg counter blocks = Ok p -> no_crypto_fee (sheet_hist cfg blocks) ->
  distinct_row_ids (sheet_hist cfg blocks).
Proof.
  intros W E NF. destruct (sheet_row_ids cfg asset counter blocks p W E NF) as (RI & RO & RX).
  unfold distinct_row_ids. rewrite RI, RO, RX, !data_rownos_gen.
  eapply Permutation_NoDup; [apply Permutation_sym; apply gen_partition|]. apply SS_lt_NoDup. apply gen_sorted.
Qed.

(** DERIVED: InputData accepts the parsed sets (no duplicate id within a table, the IN set not empty): [build] succeeds *)
Theorem sheet_build_ok cfg asset counter blocks p :
  wf_blocks cfg asset 1 blocks -> expected cfg counter blocks = Ok p -> pa_ins p <> [] -> no_crypto_fee (sheet_hist cfg blocks) ->
  exists t, build (sheet_hist cfg blocks) = Ok t /\ txs_of_parsed p = Ok t.
Proof.
  intros W E NE NF. destruct (build_of_expected cfg counter blocks p E NF) as (B & _ & M1 & M2 & M3).
  destruct (sheet_row_ids cfg asset counter blocks p W E NF) as (RI & RO & RX).
  assert (D1 : has_dup (map i_row (pa_ins p)) = false).
  { rewrite (map_result_map_eq mk_in i_row ri_row _ _ M1), RI by (intros x y H; exact (proj1 (ParserSpec.mk_in_fields _ _ H))).
    apply NoDup_has_dup, SS_lt_NoDup, data_rownos_sorted. }
  assert (D2 : has_dup (map o_row (pa_outs p)) = false).
  { rewrite (map_result_map_eq mk_out o_row ro_row _ _ M2), RO by (intros x y H; exact (proj1 (ParserSpec.mk_out_fields _ _ H))).
    apply NoDup_has_dup, SS_lt_NoDup, data_rownos_sorted. }
  assert (D3 : has_dup (map x_row (pa_intras p)) = false).
  { rewrite (map_result_map_eq mk_intra x_row rx_row _ _ M3), RX by (intros x y H; exact (proj1 (ParserSpec.mk_intra_fields _ _ H))).
    apply NoDup_has_dup, SS_lt_NoDup, data_rownos_sorted. }
  rewrite B. unfold txs_of_parsed, txs_of_lists. rewrite D1, D2, D3. cbn [orb].
  destruct (pa_ins p) as [|x l] eqn:EI; [congruence|]. eexists. split; reflexivity.
Qed.

(** ** 4.2 DERIVED: holder indices are indices into the configured holder list, hence below 100000 (the account encoding of the
    balance model) whenever fewer than 100000 holders are configured *)
Lemma str_index_bound x : forall l k j, str_index x l k = Some j -> k <= j < k + Z.of_nat (length l).
Proof.
  induction l as [|y l IH]; intros k j H; cbn [str_index] in H; [discriminate|].
  destruct (str_eqb x y); [injection H as <-; cbn [length]; lia|]. specialize (IH _ _ H). cbn [length]. lia.
Qed.
Lemma filter_map_in {A B} (f : A -> option B) : forall l y, In y (filter_map f l) -> exists x, In x l /\ f x = Some y.
Proof.
  induction l as [|a l IH]; intros y H; cbn [filter_map] in H; [destruct H|].
  destruct (f a) as [b|] eqn:E.
  - destruct H as [<-|H]; [exists a; split; [left; reflexivity|exact E]|].
    destruct (IH y H) as (x & Hx & Ex). exists x. split; [right; exact Hx|exact Ex].
  - destruct (IH y H) as (x & Hx & Ex). exists x. split; [right; exact Hx|exact Ex].
Qed.
Lemma mk_intra_holders r a : mk_intra r = Ok a -> x_from_holder a = rx_from_holder r /\ x_to_holder a = rx_to_holder r.
Proof. unfold mk_intra. intro H. crack H; inversion H; subst; simpl; split; reflexivity. Qed.

Theorem sheet_holders_ok cfg l t :
  Z.of_nat (length (pc_holders cfg)) <= 100000 -> build (hist_of_rows cfg l) = Ok t -> holders_ok t.
Proof.
  intros HL B x Hx. unfold replay_order in Hx. apply sort_by_in in Hx.
  assert (HB : forall s ho, res_holder cfg s = Some ho -> holder_ok ho).
  { intros s0 ho H. unfold res_holder in H. apply str_index_bound in H. unfold holder_ok. lia. }
  apply in_app_or in Hx. destruct Hx as [Hx|Hx]; [|apply in_app_or in Hx; destruct Hx as [Hx|Hx]];
    apply in_map_iff in Hx; destruct Hx as (a & <- & Ha); cbn [txn_holders_ok].
  - destruct (in_lot_raw _ _ B a Ha) as (r & Hr & K). cbn [hist_of_rows h_ins] in Hr.
    destruct (filter_map_in _ _ _ Hr) as ([n sr] & _ & E). unfold raw_in_of in E. cbn [fst snd] in E.
    destruct sr as [s0|s0|s0]; try discriminate. unfold raw_of_in in E.
    destruct (res_ts cfg (si_ts s0)); [|discriminate]. destruct (res_exch cfg (si_exch s0)); [|discriminate].
    destruct (res_holder cfg (si_holder s0)) as [ho|] eqn:EH; [|discriminate]. destruct (ttype_of_str (si_type s0)); [|discriminate].
    injection E as <-. destruct (ParserSpec.mk_in_fields _ _ K) as (_ & _ & _ & -> & _). cbn [ri_holder]. exact (HB _ _ EH).
  - destruct (in_intra_raw _ _ B a Ha) as (r & Hr & K). cbn [hist_of_rows h_intras] in Hr.
    destruct (filter_map_in _ _ _ Hr) as ([n sr] & _ & E). unfold raw_intra_of in E. cbn [fst snd] in E.
    destruct sr as [s0|s0|s0]; try discriminate. unfold raw_of_intra in E.
    destruct (res_ts cfg (sx_ts s0)); [|discriminate]. destruct (res_exch cfg (sx_fe s0)); [|discriminate].
    destruct (res_holder cfg (sx_fh s0)) as [fh|] eqn:E1; [|discriminate]. destruct (res_exch cfg (sx_te s0)); [|discriminate].
    destruct (res_holder cfg (sx_th s0)) as [th|] eqn:E2; [|discriminate].
    injection E as <-. destruct (mk_intra_holders _ _ K) as [-> ->]. cbn [rx_from_holder rx_to_holder]. split; [exact (HB _ _ E1)|exact (HB _ _ E2)].
  - destruct (in_out_raw _ _ B a Ha) as (r & Hr & K). cbn [hist_of_rows h_outs] in Hr.
    destruct (filter_map_in _ _ _ Hr) as ([n sr] & _ & E). unfold raw_out_of in E. cbn [fst snd] in E.
    destruct sr as [s0|s0|s0]; try discriminate. unfold raw_of_out in E.
    destruct (res_ts cfg (so_ts s0)); [|discriminate]. destruct (res_exch cfg (so_exch s0)); [|discriminate].
    destruct (res_holder cfg (so_holder s0)) as [ho|] eqn:EH; [|discriminate]. destruct (ttype_of_str (so_type s0)); [|discriminate].
    injection E as <-. destruct (ParserSpec.mk_out_fields _ _ K) as (_ & _ & _ & -> & _). cbn [ro_holder]. exact (HB _ _ EH).
Qed.

(** * 5. success *)
(** ** 5.1 supported options pass the option checks of the front end, and the schedule of the run exists *)
Lemma meth_of_meth_name m : meth_of_name (meth_name m) = Some m.
Proof. destruct m; reflexivity. Qed.
Lemma plugin_name_is_method n : str_in n method_plugins = true -> exists m, n = meth_name m.
Proof.
  intros H. apply str_in_In in H. cbn in H.
  destruct H as [<-|[<-|[<-|[<-|[]]]]]; [exists Fifo|exists Hifo|exists Lifo|exists Lofo]; reflexivity.
Qed.
Lemma meth_in_In m l : In m l -> meth_in m l = true.
Proof. intros H. unfold meth_in. apply existsb_exists. exists m. split; [exact H|apply Z.eqb_refl]. Qed.

Lemma accepted_method c m : str_in m (accepted_method_names c) = true ->
  str_in m method_plugins = true /\ exists mm, meth_of_name m = Some mm /\ meth_in mm (country_methods c) = true.
Proof.
  intros H. split; [exact (str_in_filter _ _ _ H)|].
  apply str_in_In in H. unfold accepted_method_names in H. apply filter_In in H. destruct H as [_ H].
  apply str_in_In in H. apply in_map_iff in H. destruct H as (mm & <- & Hmm).
  exists mm. split; [apply meth_of_meth_name|apply meth_in_In; exact Hmm].
Qed.

Theorem supported_options_pass c o s :
  supported c o -> (o_method o = None \/ cs_methods s = []) ->
  Forall (fun e => str_in (snd e) method_plugins = true) (cs_methods s) ->
  (forall a, o_asset o = Some a -> In a (cs_assets s)) ->
  options_check c (l1_options o) (Ok s) = (0, run_assets o s).
Proof.
  intros [Sm _ Sw _] H1 HF HA. unfold options_check, run_assets. cbn [l1_options op_method op_to_day op_from_day op_asset].
  assert (E1 : match o_method o with
               | Some m => match meth_of_name m with
                           | Some mm => if meth_in mm (country_methods c) then Ok tt else Err EValue
                           | None => Err EValue
                           end
               | None => Ok tt
               end = Ok tt).
  { destruct (o_method o) as [m|]; [|reflexivity]. destruct (accepted_method c m Sm) as (_ & mm & -> & ->). reflexivity. }
  rewrite E1. assert (E2 : (o_to o <? o_from o) = false) by lia. rewrite E2.
  assert (E3 : (match o_method o with Some _ => true | None => false end) && nonempty (cs_methods s) = false).
  { destruct H1 as [->| ->]; [reflexivity|apply andb_false_r]. }
  rewrite E3.
  assert (E4 : existsb (fun ym : Z * str => match meth_of_name (snd ym) with Some _ => false | None => true end) (cs_methods s) = false).
  { destruct (existsb _ _) eqn:X; [|reflexivity]. apply existsb_exists in X. destruct X as (ym & Hym & Hx).
    rewrite Forall_forall in HF. destruct (plugin_name_is_method _ (HF ym Hym)) as (m & Em). rewrite Em, meth_of_meth_name in Hx. discriminate. }
  rewrite E4. destruct (o_asset o) as [a|]; [|reflexivity].
  assert (E5 : str_mem a (cs_assets s) = true) by (apply str_mem_In; apply HA; reflexivity). rewrite E5. reflexivity.
Qed.

Lemma sched_meths_total names : forallb (fun e => str_in (snd e) method_plugins) names = true ->
  exists sched, sched_meths names = Some sched /\ map fst sched = map fst names.
Proof.
  induction names as [|[y n] names IH]; intros H; [exists []; split; reflexivity|].
  cbn [forallb snd] in H. apply andb_true_iff in H. destruct H as [H1 H2].
  destruct (IH H2) as (r & Hr & Hy). destruct (plugin_name_is_method n H1) as (m & ->).
  exists ((y, m) :: r). cbn [sched_meths]. rewrite meth_of_meth_name, Hr. split; [reflexivity|]. cbn [map fst]. rewrite Hy. reflexivity.
Qed.

Theorem supported_schedule c o s :
  supported c o -> (o_method o = None \/ cs_methods s = []) ->
  Forall (fun e => str_in (snd e) method_plugins = true) (cs_methods s) -> NoDup (map fst (cs_methods s)) ->
  exists names sched, schedule c o (l6_config s) = SchedOk names /\ e2e_sched c o s = Some sched /\ NoDup (map fst sched) /\
                      method_label names = Some (expected_label c o (l6_config s)).
Proof.
  intros [Sm _ _ _] H1 HF ND.
  destruct (schedule_ok c o (l6_config s) H1) as (names & Hs & _ & Hl & Hp).
  assert (Hpl : forallb (fun e => str_in (snd e) method_plugins) names = true).
  { apply Hp; [exact HF|]. destruct (o_method o) as [m|]; [exact (proj1 (accepted_method c m Sm))|exact I]. }
  destruct (sched_meths_total names Hpl) as (sched & Hsm & Hy).
  exists names, sched. split; [exact Hs|]. split; [unfold e2e_sched; rewrite Hs; exact Hsm|]. split; [|exact Hl].
  rewrite Hy. revert Hs. unfold schedule. cbn [l6_config cf_sched].
  destruct (o_method o), (cs_methods s) as [|e l] eqn:Em; intros [= <-]; try (cbn; constructor; [intros []|constructor]); try discriminate.
  exact ND.
Qed.

(** ** 5.2 one sheet: what remains a hypothesis about its typed rows
    [h] = the raw rows of the sheet ([sheet_hist]: the typed rows resolved against the configuration).
      sro_no_fee   no acquisition row carries a crypto fee (such a row is split by the parser into an acquisition whose fiat
                   fields are unrounded products plus an artificial fee disposal; that acquisition is not the constructor applied
                   to any raw row on the 1e-11 grid, so the [hist]-based theory of C16 does not cover it -- the theorem
                   [E2E_success_any_rows] of Proofs/EndToEndAnyRows.v does, without a [hist])
      sro_staking  every STAKING acquisition has a positive amount (InTransaction lets others through; the matcher rejects them)
      sro_events   taxable events of one instant lie in one local year (F13) and the schedule has an entry at or before every
                   event year (the two genuine restrictions of C01 / C02)
      sro_lots     the lots never run out ([lots_exhausted] is the exact condition of the matcher's only failure)
      sro_guard    -n, or no debit overdraws its account up to the to-date (C08)
    NOT hypotheses (derived from [wf_blocks] and the configuration, sections 4.1 / 4.2): the constructors' results are the parsed
    transactions, IN rows in increasing row order, row ids distinct within and across the tables, the IN set not empty, the
    taxable events defined, holder indices below 100000. *)
Record sheet_rows_ok (sched : list (Z * meth)) (allow : bool) (to_day : Z) (h : hist) : Prop := {
  sro_no_fee : no_crypto_fee h;
  sro_staking : no_nonpositive_staking h;
  sro_events : forall t evs, build h = Ok t -> taxable_events t = Ok evs -> hist_same_instant_same_year evs /\ hist_sched_covers sched evs;
  sro_lots : forall t evs, build h = Ok t -> taxable_events t = Ok evs -> ~ lots_exhausted t evs;
  sro_guard : forall t, build h = Ok t -> allow = true \/ never_overdrawn to_day t }.

(** the asset's transaction sets exist, the matcher succeeds on them, and the result is a [matched_history] of the sheet's rows *)
Theorem sheet_asset_of cfg a blocks p sched allow to_day :
  wf_blocks cfg a 1 blocks -> expected cfg 0 blocks = Ok p -> pa_ins p <> [] -> NoDup (map fst sched) ->
  Z.of_nat (length (pc_holders cfg)) <= 100000 ->
  sheet_rows_ok sched allow to_day (sheet_hist cfg blocks) ->
  exists t fs, asset_of sched (a, p) = Ok {| ra_name := a; ra_txs := t; ra_fracs := fs |} /\
               txs_of_parsed p = Ok t /\ build (sheet_hist cfg blocks) = Ok t /\
               matched_history sched (sheet_hist cfg blocks) t fs /\
               (allow = true \/ (holders_ok t /\ never_overdrawn to_day t)).
Proof.
  intros W E NE ND HL [NF ST EV LO GU].
  destruct (sheet_build_ok cfg a 0 blocks p W E NE NF) as (t & B & T).
  destruct (taxable_events_total _ _ B (sheet_distinct_row_ids cfg a 0 blocks p W E NF)) as (evs & HE).
  assert (BH : built_history sched (sheet_hist cfg blocks) t).
  { constructor; [exact B|exact (sheet_in_rows_increasing cfg a 0 blocks p W E NF)|exact ST| |exact ND].
    intros evs' HE'. exact (EV t evs' B HE'). }
  destruct (built_matcher_outcome sched _ t evs BH HE) as [(fs & HF & _)|[_ Hex]]; [|exfalso; exact (LO t evs B HE Hex)].
  exists t, fs. split; [unfold asset_of; cbn [fst snd]; rewrite T, HF; reflexivity|].
  split; [exact T|]. split; [exact B|]. split; [exact (built_matched _ _ _ _ BH HF)|].
  destruct (GU t B) as [G|G]; [left; exact G|right; split; [exact (sheet_holders_ok cfg _ t HL B)|exact G]].
Qed.

(** without crypto-fee rows the artificial-id counter never moves: every sheet is expected from counter 0 *)
Lemma expected_all_no_fee cfg sheet : forall assets,
  (forall a, In a assets -> exists p, expected cfg 0 (sheet a) = Ok p /\ no_crypto_fee (sheet_hist cfg (sheet a))) ->
  exists ps, expected_all cfg sheet assets 0 = Ok ps /\ map fst ps = assets /\
             forall a p, In (a, p) ps -> In a assets /\ expected cfg 0 (sheet a) = Ok p.
Proof.
  induction assets as [|a rest IH]; intros H; [exists []; split; [reflexivity|]; split; [reflexivity|]; intros ? ? []|].
  destruct (H a (or_introl eq_refl)) as (p & Ep & NF).
  destruct IH as (ps & E & N & Hps); [intros b Hb; apply H; right; exact Hb|].
  exists ((a, p) :: ps). cbn [expected_all]. rewrite Ep. rewrite (proj1 (proj2 (build_of_expected cfg 0 (sheet a) p Ep NF))), E.
  split; [reflexivity|]. split; [cbn [map fst]; rewrite N; reflexivity|].
  intros b q [[= <- <-]|Hq]; [split; [left; reflexivity|exact Ep]|].
  destruct (Hps b q Hq) as [H1 H2]. split; [right; exact H1|exact H2].
Qed.

Lemma map_result_all {A B} (f : A -> result B) (P : A -> B -> Prop) : forall l,
  (forall x, In x l -> exists y, f x = Ok y /\ P x y) -> exists l', map_result f l = Ok l' /\ Forall2 P l l'.
Proof.
  induction l as [|x l IH]; intros H; [exists []; split; [reflexivity|constructor]|].
  destruct (H x (or_introl eq_refl)) as (y & Hy & Py). destruct IH as (l' & E & F); [intros z Hz; apply H; right; exact Hz|].
  exists (y :: l'). cbn [map_result]. rewrite Hy, E. split; [reflexivity|constructor; assumption].
Qed.

Lemma Forall2_in_r {A B} (P : A -> B -> Prop) l l' y : Forall2 P l l' -> In y l' -> exists x, In x l /\ P x y.
Proof.
  induction 1 as [|a b l l' Hab _ IH]; intros H; [destruct H|]. destruct H as [<-|H]; [exists a; split; [left; reflexivity|exact Hab]|].
  destruct (IH H) as (x & Hx & Px). exists x. split; [right; exact Hx|exact Px].
Qed.
Lemma Forall2_imp {A B} (P Q : A -> B -> Prop) l l' : (forall x y, P x y -> Q x y) -> Forall2 P l l' -> Forall2 Q l l'.
Proof. intros H. induction 1; constructor; auto. Qed.
Lemma Forall2_flip {A B} (P : A -> B -> Prop) l l' : Forall2 P l l' -> Forall2 (fun y x => P x y) l' l.
Proof. induction 1; constructor; assumption. Qed.

(** ** 5.3 the theorem *)
Theorem E2E_success c o secs ts workbook v envp s sheet trailing :
  validate_config secs = Ok s ->
  supported c o ->
  (o_method o = None \/ cs_methods s = []) ->
  Forall (fun e => str_in (snd e) method_plugins = true) (cs_methods s) ->
  NoDup (map fst (cs_methods s)) ->
  (forall a, o_asset o = Some a -> In a (cs_assets s)) ->
  Z.of_nat (length (cs_holders s)) <= 100000 ->
  rendered_workbook (pcfg_of s ts) workbook sheet trailing (run_assets o s) ->
  (forall a, In a (run_assets o s) -> exists p, expected (pcfg_of s ts) 0 (sheet a) = Ok p /\ pa_ins p <> []) ->
  (forall sched a, e2e_sched c o s = Some sched -> In a (run_assets o s) ->
                   sheet_rows_ok sched (o_neg o) (o_to o) (sheet_hist (pcfg_of s ts) (sheet a))) ->
  (forall ps i, expected_all (pcfg_of s ts) sheet (run_assets o s) 0 = Ok ps -> e2e_input c o envp s ps = Some i -> reports_ok_hyps v i) ->
  exists ps i l,
    expected_all (pcfg_of s ts) sheet (run_assets o s) 0 = Ok ps /\
    e2e_input c o envp s ps = Some i /\
    rp2_model c o secs ts workbook v envp = (0, l) /\
    map fst l = discovery c /\
    (forall g sheets, In (g, sheets) l -> run_gen v i g = inl sheets /\ within_capacity g sheets) /\
    MainRun.run c o (l6_config s) (inp_of_rinput i) = (0, map (report_file c o s) l) /\
    Forall2 (fun ra ap => ra_name ra = fst ap /\
                          expected (pcfg_of s ts) 0 (sheet (fst ap)) = Ok (snd ap) /\
                          txs_of_parsed (snd ap) = Ok (ra_txs ra) /\
                          build (sheet_hist (pcfg_of s ts) (sheet (fst ap))) = Ok (ra_txs ra) /\
                          fractions_of gen_always_repush (rp_sched i) (ra_txs ra) = Ok (ra_fracs ra))
            (rp_assets i) (sort_leb by_name ps).
Proof.
  intros V SUP H1 HF ND HA HL R EX ROWS REP. set (cfg := pcfg_of s ts) in *.
  pose proof (supported_options_pass c o s SUP H1 HF HA) as O.
  destruct (supported_schedule c o s SUP H1 HF ND) as (names & sched & Hs & S & NDs & Hl).
  (* the expected transactions of every asset *)
  destruct (expected_all_no_fee cfg sheet (run_assets o s)) as (ps & E & N & Hps).
  { intros a Ha. destruct (EX a Ha) as (p & Ep & _). exists p. split; [exact Ep|]. exact (sro_no_fee _ _ _ _ (ROWS sched a S Ha)). }
  assert (NE : forall a p, In (a, p) ps -> pa_ins p <> []).
  { intros a p Hp. destruct (Hps a p Hp) as [Ha Ep]. destruct (EX a Ha) as (p' & Ep' & NE). rewrite Ep in Ep'. injection Ep' as <-. exact NE. }
  (* the seam *)
  pose proof (e2e_seam c o secs ts workbook v envp s (run_assets o s) sheet trailing ps V O R E NE) as SEAM.
  (* every asset: transaction sets, matcher *)
  destruct (map_result_all (asset_of sched)
              (fun ap ra => ra_name ra = fst ap /\ expected cfg 0 (sheet (fst ap)) = Ok (snd ap) /\ txs_of_parsed (snd ap) = Ok (ra_txs ra) /\
                            build (sheet_hist cfg (sheet (fst ap))) = Ok (ra_txs ra) /\
                            matched_history sched (sheet_hist cfg (sheet (fst ap))) (ra_txs ra) (ra_fracs ra) /\
                            (o_neg o = true \/ (holders_ok (ra_txs ra) /\ never_overdrawn (o_to o) (ra_txs ra))))
              (sort_leb by_name ps)) as (assets & HM & F2).
  { intros [a p] Hin. apply sort_leb_in in Hin. destruct (Hps a p Hin) as [Ha Ep].
    destruct (R a Ha) as (_ & W & _ & _).
    destruct (sheet_asset_of cfg a (sheet a) p sched (o_neg o) (o_to o) W Ep (NE a p Hin) NDs HL (ROWS sched a S Ha))
      as (t & fs & A1 & A2 & A3 & A4 & A5).
    eexists. split; [exact A1|]. cbn [ra_name ra_txs ra_fracs fst snd]. auto 10. }
  set (i := rinput_of c o envp s sched assets).
  assert (HI : e2e_input c o envp s ps = Some i) by (unfold e2e_input; rewrite S, HM; reflexivity).
  assert (M : run_matches c o (l6_config s) i).
  { apply (e2e_run_matches c o envp s ps i HI N). apply run_assets_distinct. exact (valid_config_assets_distinct _ _ V). }
  assert (IFR : input_from_rows i).
  { intros ra Hra. cbn [i rinput_of rp_assets] in Hra. destruct (Forall2_in_r _ _ _ _ F2 Hra) as ([a p] & _ & _ & _ & _ & _ & MH & GU).
    split; [exists (sheet_hist cfg (sheet a)); exact MH|]. unfold asset_guard_passes. cbn [i rinput_of rp_allow rp_to]. exact GU. }
  pose proof (REP ps i E HI) as RH.
  destruct (run_total_of_models_from_rows c o (l6_config s) v i SUP M H1 HF IFR RH) as (RUN & l & RR & DL & FN).
  exists ps, i, l. split; [exact E|]. split; [exact HI|].
  split.
  { rewrite SEAM. unfold back_end. rewrite HI. unfold reports_of. rewrite RR, RUN. reflexivity. }
  split; [exact DL|]. split.
  { destruct (reports_all_produced_from_rows v i IFR RH) as (l' & RR' & _ & Hg). cbn [i rinput_of rp_country] in RR'. fold i in RR'.
    rewrite RR in RR'. injection RR' as <-. intros g sh Hin. pose proof (Hg g sh Hin) as G. split; [exact G|exact (run_gen_within_capacity v i g sh G)]. }
  split.
  { rewrite RUN. f_equal. rewrite <- DL, map_map. apply map_ext. intros gs. unfold report_file. rewrite Hs, Hl. reflexivity. }
  apply Forall2_flip in F2. cbn [i rinput_of rp_assets rp_sched]. eapply Forall2_imp; [|exact F2].
  intros ra ap (A1 & A2 & A3 & A4 & A5 & _). repeat split; try assumption. exact (mh_match _ _ _ _ A5).
Qed.

(** ** 5.4 the back half for ANY accepted workbook (crypto-fee acquisitions included): once the front end has accepted
    everything, the rinput is assembled and ComputedData exists for every asset, the reports come out.  With [e2e_seam] this is
    the two-halves form of the end-to-end statement: cells -> [expected_all] -> rinput (seam), rinput -> reports (here). *)
Definition front_accepts (c : country) (o : MainRun.options) (secs : list (str * list (str * str))) (ts : list (str * ts_res))
  (workbook : str -> option (list (list cell))) (s : cstate) (assets : list str) (ps : list (str * parsed)) : Prop :=
  validate_config secs = Ok s /\ options_check c (l1_options o) (Ok s) = (0, assets) /\
  parse_all (pcfg_of s ts) assets workbook 0 = Ok ps.

Theorem e2e_success_of_computed c o secs ts workbook v envp s assets ps i :
  front_accepts c o secs ts workbook s assets ps ->
  supported c o -> (o_method o = None \/ cs_methods s = []) ->
  Forall (fun e => str_in (snd e) method_plugins = true) (cs_methods s) ->
  e2e_input c o envp s ps = Some i -> (exists cs, computed_all i (rp_assets i) = Ok cs) -> reports_ok_hyps v i ->
  exists l, rp2_model c o secs ts workbook v envp = (0, l) /\ map fst l = discovery c /\
            (forall g sheets, In (g, sheets) l -> run_gen v i g = inl sheets /\ within_capacity g sheets) /\
            MainRun.run c o (l6_config s) (inp_of_rinput i) = (0, map (report_file c o s) l).
Proof.
  intros (V & O & P) SUP H1 HF HI (cs & HC) RH.
  destruct (options_check_passed _ _ _ _ O) as [EA _].
  assert (M : run_matches c o (l6_config s) i).
  { apply (e2e_run_matches c o envp s ps i HI); [rewrite (parse_all_names _ _ _ _ _ P); exact EA|].
    apply run_assets_distinct. exact (valid_config_assets_distinct _ _ V). }
  destruct (run_total_composed c o (l6_config s) v i cs SUP M H1 HF HC RH) as (RUN & l & RR & DL & FN).
  destruct (schedule_ok c o (l6_config s) H1) as (names & Hs & _ & Hl & _).
  exists l. split.
  { rewrite (rp2_model_back _ _ _ _ _ _ _ _ _ _ V O P). unfold back_end. rewrite HI. unfold reports_of. rewrite RR, RUN. reflexivity. }
  split; [exact DL|]. split.
  { destruct (run_reports_total v i cs HC RH) as (l' & RR' & _ & Hg). rewrite (rm_country _ _ _ _ M) in RR'.
    rewrite RR in RR'. injection RR' as <-. intros g sh Hin. pose proof (Hg g sh Hin) as G. split; [exact G|exact (run_gen_within_capacity v i g sh G)]. }
  rewrite RUN. f_equal. rewrite <- DL, map_map. apply map_ext. intros gs. unfold report_file. rewrite Hs, Hl. reflexivity.
Qed.

(** * 6. REJECTION, collected: each cause is its own disjunct *)
(** the configuration file is rejected *)
Definition cause_config (secs : list (str * list (str * str))) : Prop := is_err (validate_config secs).
(** an option check fails (-m not a choice of the country: exit 2; from > to, -m together with [accounting_methods], an unknown
    method in the configuration, -a not a configured asset: exit 1) *)
Definition cause_options (c : country) (o : MainRun.options) (secs : list (str * list (str * str))) : Prop :=
  fst (options_check c (l1_options o) (validate_config secs)) <> 0.
(** the sheet of some processed asset, after any number of accepted ones, is missing or rejected by the parser *)
Definition cause_sheet (c : country) (o : MainRun.options) (secs : list (str * list (str * str))) (ts : list (str * ts_res))
  (workbook : str -> option (list (list cell))) : Prop :=
  exists s pre a post ps,
    validate_config secs = Ok s /\ snd (options_check c (l1_options o) (Ok s)) = pre ++ a :: post /\
    parse_all (pcfg_of s ts) pre workbook 0 = Ok ps /\
    match workbook a with
    | None => True
    | Some rows => is_err (parse_sheet (pcfg_of s ts) a (match rev ps with [] => 0 | (_, p) :: _ => pa_counter p end) rows)
    end.
(** the front end accepts everything, and for some asset (its transactions a history built from rows) the lots run out *)
Definition cause_lots_exhausted (c : country) (o : MainRun.options) (secs : list (str * list (str * str))) (ts : list (str * ts_res))
  (workbook : str -> option (list (list cell))) : Prop :=
  exists s assets ps sched a p h t evs,
    front_accepts c o secs ts workbook s assets ps /\ e2e_sched c o s = Some sched /\ In (a, p) ps /\ txs_of_parsed p = Ok t /\
    built_history sched h t /\ taxable_events t = Ok evs /\ lots_exhausted t evs.
(** ... or some account of some asset is overdrawn up to the to-date, and -n is not given *)
Definition cause_overdraft (c : country) (o : MainRun.options) (secs : list (str * list (str * str))) (ts : list (str * ts_res))
  (workbook : str -> option (list (list cell))) : Prop :=
  exists s assets ps sched a p h t evs,
    front_accepts c o secs ts workbook s assets ps /\ e2e_sched c o s = Some sched /\ In (a, p) ps /\ txs_of_parsed p = Ok t /\
    built_history sched h t /\ taxable_events t = Ok evs /\ holders_ok t /\ o_neg o = false /\ some_overdraft (o_to o) t.

Theorem E2E_rejection c o secs ts workbook v envp :
  cause_config secs \/ cause_options c o secs \/ cause_sheet c o secs ts workbook \/
  cause_lots_exhausted c o secs ts workbook \/ cause_overdraft c o secs ts workbook ->
  fst (rp2_model c o secs ts workbook v envp) <> 0 /\ snd (rp2_model c o secs ts workbook v envp) = [].
Proof.
  intros [H|[H|[H|[H|H]]]].
  - exact (e2e_invalid_config c o secs ts workbook v envp H).
  - exact (e2e_option_check_fails c o secs ts workbook v envp H).
  - destruct H as (s & pre & a & post & ps & V & A & P & H). exact (e2e_sheet_rejected c o secs ts workbook v envp s pre a post ps V A P H).
  - destruct H as (s & assets & ps & sched & a & p & h & t & evs & (V & O & P) & S & Hin & HT & BH & HE & Hex).
    exact (e2e_lots_exhausted c o secs ts workbook v envp s assets ps V O P sched a p h t evs S Hin HT BH HE Hex).
  - destruct H as (s & assets & ps & sched & a & p & h & t & evs & (V & O & P) & S & Hin & HT & BH & HE & Hok & Hn & Hov).
    exact (e2e_overdrawn c o secs ts workbook v envp s assets ps V O P sched a p h t evs S Hin HT BH HE Hok Hn Hov).
Qed.
