(** C07: the theorems about [balances] in the vocabulary of Model/ComputedSpec.v
    (accounts as (exchange, holder) pairs, flows per table), derived from BalanceProofs.v. *)
From Coq Require Import List ZArith Bool Lia Permutation Sorted ZifyBool.
From RP2V Require Import Base.Prelude Base.Assoc Base.Sorting Base.Dec Base.Time Model.Types Model.Generated Model.Txn
  Model.Pipeline Model.Computed Model.ComputedSpec Proofs.SortingProofs Proofs.AssocProofs Proofs.FilterProofs
  Proofs.BalanceProofs Proofs.ComputedProofs.
Import ListNotations.
Open Scope Z_scope.

(** * sums *)
Lemma sumZ_perm l l' : Permutation l l' -> sumZ l = sumZ l'.
Proof. induction 1; cbn [sumZ]; lia. Qed.

Lemma sumZ_map_perm {A} (f : A -> Z) l l' : Permutation l l' -> sumZ (map f l) = sumZ (map f l').
Proof. intros H. apply sumZ_perm, Permutation_map, H. Qed.

Lemma sumZ_map_ext_in {A} (f g : A -> Z) l : (forall x, In x l -> f x = g x) -> sumZ (map f l) = sumZ (map g l).
Proof. intros H. f_equal. apply map_ext_in. exact H. Qed.

Lemma sumZ_filter_if {A} (p : A -> bool) (f : A -> Z) l :
  sumZ (map f (filter p l)) = sumZ (map (fun x => if p x then f x else 0) l).
Proof. induction l as [|x l IH]; cbn [filter map sumZ]; [reflexivity|]. destruct (p x); cbn [map sumZ]; lia. Qed.

Lemma sumZ_map_zero {A} (f : A -> Z) l : (forall x, In x l -> f x = 0) -> sumZ (map f l) = 0.
Proof. induction l as [|x l IH]; intros H; cbn [map sumZ]; [reflexivity|]. rewrite (H x), IH; [reflexivity| |left; reflexivity]. intros y Hy. apply H. right. exact Hy. Qed.

Lemma sumZ_map_add {A} (f g : A -> Z) l : sumZ (map (fun x => f x + g x) l) = sumZ (map f l) + sumZ (map g l).
Proof. induction l as [|x l IH]; cbn [map sumZ]; lia. Qed.

Lemma sumZ_map_sub {A} (f g : A -> Z) l : sumZ (map (fun x => f x - g x) l) = sumZ (map f l) - sumZ (map g l).
Proof. induction l as [|x l IH]; cbn [map sumZ]; lia. Qed.

Lemma filter_Permutation {A} (p : A -> bool) l l' : Permutation l l' -> Permutation (filter p l) (filter p l').
Proof.
  induction 1 as [|x l l' _ IH|x y l|l l' l'' _ IH1 _ IH2]; cbn [filter].
  - apply Permutation_refl.
  - destruct (p x); [apply perm_skip|]; exact IH.
  - destruct (p x); destruct (p y); try apply Permutation_refl. apply perm_swap.
  - eapply perm_trans; eauto.
Qed.

(** * accounts as pairs *)
Lemma acct_key_same ex ho ex' ho' : holder_ok ho -> holder_ok ho' ->
  (acct_key ex ho =? acct_key ex' ho') = same_acct ex ho ex' ho'.
Proof. unfold holder_ok, same_acct. intros H H'. apply acct_key_eqb; assumption. Qed.

Lemma acq_of_pair ex ho x : txn_holders_ok x -> holder_ok ho -> acq_of (acct_key ex ho) x = acquired_by ex ho x.
Proof.
  destruct x as [a|a|a]; cbn [txn_holders_ok acq_of acquired_by]; intros Hx Hh; try reflexivity.
  rewrite acct_key_same by assumption. reflexivity.
Qed.
Lemma sent_of_pair ex ho x : txn_holders_ok x -> holder_ok ho -> sent_of (acct_key ex ho) x = sent_by ex ho x.
Proof.
  destruct x as [a|a|a]; cbn [txn_holders_ok sent_of sent_by]; intros Hx Hh; try reflexivity.
  - rewrite acct_key_same by assumption. reflexivity.
  - destruct Hx as [Hx _]. rewrite acct_key_same by assumption. reflexivity.
Qed.
Lemma recv_of_pair ex ho x : txn_holders_ok x -> holder_ok ho -> recv_of (acct_key ex ho) x = received_by ex ho x.
Proof.
  destruct x as [a|a|a]; cbn [txn_holders_ok recv_of received_by]; intros Hx Hh; try reflexivity.
  destruct Hx as [_ Hx]. rewrite acct_key_same by assumption. reflexivity.
Qed.
Lemma touches_pair ex ho x : txn_holders_ok x -> holder_ok ho -> touches (acct_key ex ho) x = acct_touched ex ho x.
Proof.
  destruct x as [a|a|a]; cbn [txn_holders_ok touches acct_touched]; intros Hx Hh.
  - rewrite acct_key_same by assumption. reflexivity.
  - rewrite acct_key_same by assumption. reflexivity.
  - destruct Hx as [Hx1 Hx2]. rewrite !acct_key_same by assumption. reflexivity.
Qed.

(** every stored entry carries a holder index in range *)
Definition entry_ok (kv : Z * (Z * Z * Z)) : Prop := let '(_, (_, ho, _)) := kv in holder_ok ho.

Lemma next_entry_ok s x : txn_holders_ok x -> Forall entry_ok (bs_final s) -> Forall entry_ok (bs_final (bal_next s x)).
Proof.
  intros Hx H. destruct x as [a|a|a]; cbn [bal_next bs_final txn_holders_ok] in *; cbv zeta; cbn [bs_final].
  - apply Forall_aset; [exact H|exact Hx].
  - apply Forall_aset; [exact H|exact Hx].
  - destruct Hx as [Hx1 Hx2]. apply Forall_aset; [apply Forall_aset; [exact H|exact Hx1]|exact Hx2].
Qed.

Lemma run_entry_ok allow l : (forall x, In x l -> txn_holders_ok x) -> forall s, run allow l = Ok s -> Forall entry_ok (bs_final s).
Proof.
  induction l as [|x l IH] using rev_ind; intros Hl s H.
  - unfold run in H. cbn [fold_left] in H. injection H as H. subst s. constructor.
  - apply run_snoc_ok in H. destruct H as (s0 & H0 & Hs & _). subst s. apply next_entry_ok.
    + apply Hl. apply in_or_app. right. left. reflexivity.
    + apply IH; [|exact H0]. intros y Hy. apply Hl. apply in_or_app. left. exact Hy.
Qed.

Lemma shown_in_replay to_day t x : In x (take_until txn_day to_day (replay_order t)) -> In x (replay_order t).
Proof. intros H. apply (take_until_in txn_day) in H. apply H. Qed.

Lemma balances_holders_ok allow to_day exs hos t bl : holders_ok t ->
  balances allow to_day exs hos t = Ok bl -> forall b, In b bl -> holder_ok (b_holder b).
Proof.
  intros Hok H b Hb. destruct (balances_spec _ _ _ _ _ _ H) as ((s & Hs & Hperm) & _).
  apply (Permutation_in _ Hperm) in Hb.
  assert (He : Forall entry_ok (bs_final s)).
  { apply (run_entry_ok allow (shown_txns to_day t)); [|exact Hs]. intros x Hx. apply Hok. apply (shown_in_replay to_day). exact Hx. }
  rewrite Forall_forall in He. unfold raw_balances in Hb. apply in_map_iff in Hb.
  destruct Hb as ([k [[ex ho] v]] & <- & Hin). cbn [b_holder]. apply (He _ Hin).
Qed.

(** * the balance table in terms of (exchange, holder) accounts *)
Theorem c07_accounts : forall allow to_day exs hos t bl,
  holders_ok t ->
  balances allow to_day exs hos t = Ok bl ->
  let l := take_until txn_day to_day (replay_order t) in
  NoDup (map (fun b => (b_exch b, b_holder b)) bl) /\
  (forall ex ho, holder_ok ho ->
     ((exists b, In b bl /\ b_exch b = ex /\ b_holder b = ho) <-> (exists x, In x l /\ acct_touched ex ho x = true))) /\
  (forall b, In b bl ->
     b_acquired b = sumZ (map (acquired_by (b_exch b) (b_holder b)) l) /\
     b_sent b = sumZ (map (sent_by (b_exch b) (b_holder b)) l) /\
     b_received b = sumZ (map (received_by (b_exch b) (b_holder b)) l) /\
     b_final b = b_acquired b + b_received b - b_sent b).
Proof.
  intros allow to_day exs hos t bl Hok H l.
  pose proof (balances_holders_ok _ _ _ _ _ _ Hok H) as Hbh.
  destruct (balances_spec _ _ _ _ _ _ H) as (_ & _ & Htouch & Hflows & _).
  change (shown_txns to_day t) with l in Htouch, Hflows.
  assert (Hl : forall x, In x l -> txn_holders_ok x) by (intros x Hx; apply Hok; apply (shown_in_replay to_day); exact Hx).
  split; [exact (balances_accounts_distinct _ _ _ _ _ _ H)|]. split.
  - intros ex ho Hho. split.
    + intros (b & Hb & <- & <-). destruct (proj1 (Htouch (bkey b))) as (x & Hx & Ht); [exists b; auto|].
      exists x. split; [exact Hx|]. unfold bkey in Ht. rewrite touches_pair in Ht; auto.
    + intros (x & Hx & Ht). destruct (proj2 (Htouch (acct_key ex ho))) as (b & Hb & Hk).
      { exists x. split; [exact Hx|]. rewrite touches_pair; auto. }
      exists b. split; [exact Hb|]. unfold bkey in Hk. apply acct_key_inj in Hk; [exact Hk|apply Hbh; exact Hb|exact Hho].
  - intros b Hb. destruct (Hflows b Hb) as (HA & HS & HR & HF). unfold bkey in *.
    rewrite HA, HS, HR. repeat split.
    + apply sumZ_map_ext_in. intros x Hx. apply acq_of_pair; auto.
    + apply sumZ_map_ext_in. intros x Hx. apply sent_of_pair; auto.
    + apply sumZ_map_ext_in. intros x Hx. apply recv_of_pair; auto.
    + rewrite HF, HA, HS, HR. reflexivity.
Qed.

(** * with dates monotone in time: flows per input table, "up to the to-date" is a filter *)
Section ByTable.
Variables (to_day : Z) (t : txs) (ex ho : Z).
Let p (x : txn) : bool := txn_day x <=? to_day.

Lemma sum_over_tables (f : txn -> Z) :
  sumZ (map f (filter p (replay_order t))) =
  sumZ (map (fun a => f (TIn a)) (filter (fun a => in_day a <=? to_day) (t_ins t))) +
  sumZ (map (fun a => f (TIntra a)) (filter (fun a => intra_day a <=? to_day) (t_intras t))) +
  sumZ (map (fun a => f (TOut a)) (filter (fun a => out_day a <=? to_day) (t_outs t))).
Proof.
  unfold replay_order.
  rewrite (sumZ_map_perm f _ _ (filter_Permutation p _ _ (sort_by_perm t_us _))).
  rewrite !filter_app, !map_app, !sumZ_app.
  assert (F : forall {A} (c : A -> txn) (l : list A), sumZ (map f (filter p (map c l))) = sumZ (map (fun a => f (c a)) (filter (fun a => p (c a)) l))).
  { intros A c l. induction l as [|a l IH]; cbn [map filter]; [reflexivity|]. destruct (p (c a)); cbn [map sumZ]; rewrite IH; reflexivity. }
  rewrite !F, Z.add_assoc. reflexivity.
Qed.
End ByTable.

Theorem c07_flows_by_table : forall allow to_day exs hos t bl,
  holders_ok t -> day_sorted txn_day (replay_order t) ->
  balances allow to_day exs hos t = Ok bl ->
  forall b, In b bl ->
    let mine ex' ho' := same_acct ex' ho' (b_exch b) (b_holder b) in
    b_acquired b = sumZ (map i_crypto_in (filter (fun a => mine (i_exch a) (i_holder a) && (in_day a <=? to_day)) (t_ins t))) /\
    b_sent b = sumZ (map (fun a => o_crypto_out_no_fee a + o_crypto_fee a)
                         (filter (fun a => mine (o_exch a) (o_holder a) && (out_day a <=? to_day)) (t_outs t))) +
               sumZ (map x_crypto_sent (filter (fun a => mine (x_from_exch a) (x_from_holder a) && (intra_day a <=? to_day)) (t_intras t))) /\
    b_received b = sumZ (map x_crypto_received (filter (fun a => mine (x_to_exch a) (x_to_holder a) && (intra_day a <=? to_day)) (t_intras t))) /\
    b_final b = b_acquired b + b_received b - b_sent b.
Proof.
  intros allow to_day exs hos t bl Hok Hs H b Hb mine.
  destruct (c07_accounts _ _ _ _ _ _ Hok H) as (_ & _ & Hfl). destruct (Hfl b Hb) as (HA & HS & HR & HF). clear Hfl.
  rewrite (take_until_filter txn_day to_day _ Hs) in HA, HS, HR.
  rewrite sum_over_tables in HA, HS, HR. cbn [acquired_by sent_by received_by] in HA, HS, HR.
  assert (Z0 : forall A (l : list A), sumZ (map (fun _ => 0) l) = 0) by (intros A l; induction l as [|a l IH]; cbn [map sumZ]; [reflexivity|rewrite IH; reflexivity]).
  assert (F : forall {A} (c d : A -> bool) (f : A -> Z) (l : list A),
             sumZ (map (fun a => if c a then f a else 0) (filter d l)) = sumZ (map f (filter (fun a => c a && d a) l))).
  { intros A c d f l. induction l as [|a l IH]; cbn [filter map sumZ]; [reflexivity|].
    destruct (d a); [cbn [map sumZ]; destruct (c a)|rewrite andb_false_r]; cbn [andb map sumZ]; rewrite IH; lia. }
  rewrite F in HA, HS, HR. rewrite F in HS.
  subst mine. cbv beta. rewrite HF, HA, HS, HR. rewrite ?(Z0 intx), ?(Z0 outtx), ?(Z0 intratx). repeat split; lia.
Qed.

(** * per-holder totals *)
Section Pred.
Variable P : Z -> bool.
Definition finP (kv : Z * (Z * Z * Z)) : Z := if P (fst kv) then fin3 kv else 0.
Definition net_pred (x : txn) : Z :=
  match x with
  | TIn a => if P (acct_key (i_exch a) (i_holder a)) then i_crypto_in a else 0
  | TOut a => if P (acct_key (o_exch a) (o_holder a)) then - (o_crypto_out_no_fee a + o_crypto_fee a) else 0
  | TIntra a => (if P (acct_key (x_to_exch a) (x_to_holder a)) then x_crypto_received a else 0) -
                (if P (acct_key (x_from_exch a) (x_from_holder a)) then x_crypto_sent a else 0)
  end.

Lemma total_aset_pred k e h v m :
  sumZ (map finP (aset k (e, h, v) m)) = sumZ (map finP m) - (if P k then fin_get k m else 0) + (if P k then v else 0).
Proof.
  unfold fin_get. induction m as [|[k' [[e' h'] v']] m IH]; cbn [aset aget map sumZ].
  - unfold finP; cbn [fst fin3]. destruct (P k); lia.
  - destruct (Z.eqb_spec k k') as [->|Hne]; cbn [map sumZ].
    + unfold finP; cbn [fst fin3]. destruct (P k'); lia.
    + rewrite IH. lia.
Qed.

Lemma next_total_pred s x : sumZ (map finP (bs_final (bal_next s x))) = sumZ (map finP (bs_final s)) + net_pred x.
Proof.
  destruct x as [a|a|a]; cbn [bal_next bs_final net_pred]; cbv zeta; cbn [bs_final]; rewrite !total_aset_pred.
  - destruct (P (acct_key (i_exch a) (i_holder a))); lia.
  - destruct (P (acct_key (o_exch a) (o_holder a))); lia.
  - destruct (P (acct_key (x_from_exch a) (x_from_holder a))), (P (acct_key (x_to_exch a) (x_to_holder a))); lia.
Qed.

Lemma bal_total_pred allow l : forall s, run allow l = Ok s -> sumZ (map finP (bs_final s)) = sumZ (map net_pred l).
Proof.
  induction l as [|x l IH] using rev_ind; intros s H.
  - unfold run in H. cbn [fold_left] in H. injection H as H. subst s. reflexivity.
  - apply run_snoc_ok in H. destruct H as (s0 & H0 & Hs & _). subst s.
    rewrite next_total_pred, (IH s0 H0), map_app, sumZ_app. cbn [map sumZ]. lia.
Qed.
End Pred.

Lemma key_holder ex ho : holder_ok ho -> acct_key ex ho mod 100000 = ho.
Proof.
  unfold holder_ok, acct_key. intros H. rewrite Z.add_comm, Z_mod_plus_full. apply Z.mod_small. exact H.
Qed.

Theorem c07_holder_totals : forall allow to_day exs hos t bl,
  holders_ok t ->
  balances allow to_day exs hos t = Ok bl ->
  forall ho, holder_total ho bl = sumZ (map (holder_net ho) (take_until txn_day to_day (replay_order t))).
Proof.
  intros allow to_day exs hos t bl Hok H ho.
  destruct (balances_spec _ _ _ _ _ _ H) as ((s & Hs & Hperm) & _).
  set (l := take_until txn_day to_day (replay_order t)). change (shown_txns to_day t) with l in Hs.
  assert (Hl : forall x, In x l -> txn_holders_ok x) by (intros x Hx; apply Hok; apply (shown_in_replay to_day); exact Hx).
  set (P := fun k => k mod 100000 =? ho).
  unfold holder_total.
  rewrite (sumZ_map_perm b_final _ _ (filter_Permutation _ _ _ Hperm)).
  transitivity (sumZ (map (finP P) (bs_final s))).
  - pose proof (run_entry_ok allow l Hl s Hs) as He. pose proof (run_key_ok allow l s Hs) as Hk.
    rewrite Forall_forall in He, Hk. unfold raw_balances.
    induction (bs_final s) as [|[k [[ex h] v]] m IH]; cbn [map filter sumZ]; [reflexivity|].
    assert (E1 : entry_ok (k, (ex, h, v))) by (apply He; left; reflexivity).
    assert (E2 : key_ok (k, (ex, h, v))) by (apply Hk; left; reflexivity).
    cbn [entry_ok key_ok] in E1, E2. cbn [b_holder].
    unfold finP at 1. cbn [fst fin3]. unfold P at 1. rewrite E2, (key_holder ex h E1).
    rewrite <- IH; [|intros y Hy; apply He; right; exact Hy|intros y Hy; apply Hk; right; exact Hy].
    destruct (h =? ho); cbn [map sumZ b_final]; lia.
  - rewrite (bal_total_pred P allow l s Hs). apply sumZ_map_ext_in. intros x Hx. specialize (Hl x Hx).
    destruct x as [a|a|a]; cbn [net_pred holder_net txn_holders_ok] in *; unfold P.
    + rewrite (key_holder _ _ Hl). reflexivity.
    + rewrite (key_holder _ _ Hl). reflexivity.
    + destruct Hl as [H1 H2]. rewrite (key_holder _ _ H1), (key_holder _ _ H2). reflexivity.
Qed.

(** the grand total of the table is the sum of the holders' totals over any duplicate-free list of holders
    that covers the table *)
Lemma sum_indicator (x a : Z) l : NoDup l -> In x l -> sumZ (map (fun y => if x =? y then a else 0) l) = a.
Proof.
  induction 1 as [|y l Hni Hnd IH]; intros Hin; [destruct Hin|]. cbn [map sumZ].
  destruct Hin as [->|Hin].
  - rewrite Z.eqb_refl. rewrite sumZ_map_zero; [lia|].
    intros z Hz. destruct (Z.eqb_spec x z) as [->|_]; [contradiction|reflexivity].
  - destruct (Z.eqb_spec x y) as [->|_]; [contradiction|]. rewrite IH by exact Hin. lia.
Qed.

Lemma sum_indicator_out (x a : Z) l : ~ In x l -> sumZ (map (fun y => if x =? y then a else 0) l) = 0.
Proof.
  intros Hni. apply sumZ_map_zero. intros z Hz. destruct (Z.eqb_spec x z) as [->|_]; [contradiction|reflexivity].
Qed.

Lemma holder_total_cons ho b bl :
  holder_total ho (b :: bl) = (if b_holder b =? ho then b_final b else 0) + holder_total ho bl.
Proof. unfold holder_total. cbn [filter]. destruct (b_holder b =? ho); cbn [map sumZ]; lia. Qed.

Theorem c07_holders_add_up : forall (bl : list balance) (holders : list Z),
  NoDup holders -> (forall b, In b bl -> In (b_holder b) holders) ->
  sumZ (map b_final bl) = sumZ (map (fun ho => holder_total ho bl) holders).
Proof.
  intros bl holders Hnd.
  induction bl as [|b bl IH]; intros Hcov.
  - symmetry. apply sumZ_map_zero. reflexivity.
  - cbn [map sumZ]. rewrite IH by (intros y Hy; apply Hcov; right; exact Hy).
    rewrite (sumZ_map_ext_in _ _ holders (fun ho _ => holder_total_cons ho b bl)), sumZ_map_add.
    rewrite sum_indicator; [reflexivity|exact Hnd|apply Hcov; left; reflexivity].
Qed.
