(** The properties of the greedy specification transferred to the faithful matcher model
    (as the code has it: re-push flag read from the source by the translator). *)
From RP2V Require Import Base.Prelude Base.Time Base.Dec Model.Types Model.Generated Model.Matcher Model.MatchSpec
  Model.MatchWf Model.FracSpec Proofs.MatcherRefine Proofs.SpecProps Proofs.SpecPrefix.
Open Scope Z_scope.

Lemma code_repushes : gen_always_repush = true.
Proof. reflexivity. Qed.

Lemma code_matcher_is_spec lots sched evs :
  wf lots sched evs -> run_matcher gen_always_repush lots sched evs = spec_run lots sched evs.
Proof. intro H. rewrite code_repushes. apply matcher_refines_spec; exact H. Qed.

Section Transfer.
Variables (lots : list intx) (sched : list (Z * meth)) (evs : list event).
Hypothesis WF : wf lots sched evs.

Lemma m_total :
  (exists fs, run_matcher gen_always_repush lots sched evs = Ok fs) \/
  run_matcher gen_always_repush lots sched evs = Err EExhausted.
Proof. rewrite code_matcher_is_spec by exact WF. apply spec_total; exact WF. Qed.

Lemma m_fails_iff :
  run_matcher gen_always_repush lots sched evs = Err EExhausted <->
  exists j d, (j < length evs)%nat /\ e_earn (nth j evs d) = false /\ have lots (e_us (nth j evs d)) < need evs j.
Proof. rewrite code_matcher_is_spec by exact WF. apply spec_fails_iff; exact WF. Qed.

Variable fs : list fraction.
Hypothesis RUN : run_matcher gen_always_repush lots sched evs = Ok fs.

Lemma RUN' : spec_run lots sched evs = Ok fs.
Proof. rewrite <- code_matcher_is_spec by exact WF. exact RUN. Qed.

Lemma m_order : forall k f lr, nth_error fs k = Some f -> f_lot f = Some lr ->
  exists e i y m,
    In e evs /\ e_row e = f_ev f /\ e_earn e = false /\
    (i < length lots)%nat /\ i_row (lotn lots i) = lr /\
    meth_for sched (e_year e) None = Some (y, m) /\
    lot_us lots i <= e_us e /\
    0 < f_amt f <= rem_after lots (firstn k fs) i /\
    (forall j, (j < length lots)%nat -> j <> i -> lot_us lots j <= e_us e ->
               0 < rem_after lots (firstn k fs) j ->
               key_ltb (spec_rank lots m i) (spec_rank lots m j) = true).
Proof. apply (spec_order lots sched evs WF fs RUN'). Qed.

Lemma m_positive : forall f, In f fs -> 0 < f_amt f.
Proof. apply (spec_positive lots sched evs WF fs RUN'). Qed.
Lemma m_event_covered : forall e, In e evs -> ev_taken fs (e_row e) = e_amt e.
Proof. apply (spec_event_covered lots sched evs WF fs RUN'). Qed.
Lemma m_only_events : forall f, In f fs ->
  exists e, In e evs /\ e_row e = f_ev f /\ (f_lot f = None <-> e_earn e = true).
Proof. apply (spec_only_events lots sched evs WF fs RUN'). Qed.
Lemma m_earn_once : forall e, In e evs -> e_earn e = true ->
  filter (frac_of_ev (e_row e)) fs = [mk_frac lots e None (e_amt e)].
Proof. apply (spec_earn_once lots sched evs WF fs RUN'). Qed.
Lemma m_no_overspend : forall k i, (i < length lots)%nat -> 0 <= rem_after lots (firstn k fs) i.
Proof. apply (spec_no_overspend lots sched evs WF fs RUN'). Qed.
End Transfer.

Lemma m_sell_all lots sched evs fs :
  wf lots sched evs -> run_matcher gen_always_repush lots sched evs = Ok fs ->
  forall e, e_earn e = false -> wf lots sched (evs ++ [e]) ->
    (forall i, (i < length lots)%nat -> lot_us lots i <= e_us e) ->
    e_amt e = sumZ (map (rem_after lots fs) (seq 0 (length lots))) ->
    exists fs', run_matcher gen_always_repush lots sched (evs ++ [e]) = Ok (fs ++ fs') /\
                forall i, (i < length lots)%nat -> rem_after lots (fs ++ fs') i = 0.
Proof.
  intros WF RUN e He WF' Hall Hamt.
  rewrite code_matcher_is_spec in RUN by exact WF.
  rewrite code_matcher_is_spec by exact WF'.
  eapply spec_sell_all; eauto.
Qed.

Lemma m_prefix_stable lots lots2 sched evs evs2 T :
  (forall e, In e evs -> e_us e <= T) -> (forall e, In e evs2 -> T < e_us e) ->
  (forall l, In l lots -> utc_us (i_ts l) <= T) -> (forall l, In l lots2 -> T < utc_us (i_ts l)) ->
  wf lots sched evs -> wf (lots ++ lots2) sched (evs ++ evs2) ->
  match run_matcher gen_always_repush lots sched evs with
  | Ok fs1 => match run_matcher gen_always_repush (lots ++ lots2) sched (evs ++ evs2) with
              | Ok fs => exists fs2, fs = fs1 ++ fs2 /\ (forall f, In f fs2 -> exists e, In e evs2 /\ e_row e = f_ev f)
              | Err _ => True
              end
  | Err x => run_matcher gen_always_repush (lots ++ lots2) sched (evs ++ evs2) = Err x
  end.
Proof.
  intros H1 H2 H3 H4 WF WF2.
  rewrite (code_matcher_is_spec _ _ _ WF), (code_matcher_is_spec _ _ _ WF2).
  apply (spec_prefix_stable lots lots2 sched evs evs2 T); auto.
Qed.

(** non-vacuity: a concrete history satisfying [wf], with two lots, an income event, a method
    change and a partially consumed lot *)
Definition ex_lot (row us price amt : Z) (ty : ttype) : intx :=
  {| i_row := row; i_ts := {| utc_us := us; off_s := 0 |}; i_exch := 0; i_holder := 0; i_type := ty;
     i_spot := price; i_crypto_in := amt; i_crypto_fee := 0;
     i_fiat_in_no_fee := dzero; i_fiat_in_with_fee := dzero; i_fiat_fee := dzero |}.
Definition ex_lots := [ex_lot 3 100 10 5 BUY; ex_lot 4 200 30 2 INTEREST; ex_lot 5 300 20 4 BUY].
Definition ex_evs := [ {| e_row := 4; e_us := 200; e_year := 2020; e_earn := true; e_amt := 2 |};
                       {| e_row := 9; e_us := 400; e_year := 2020; e_earn := false; e_amt := 3 |};
                       {| e_row := 10; e_us := 500; e_year := 2021; e_earn := false; e_amt := 6 |} ].
Definition ex_sched := [(1970, Hifo); (2021, Fifo)].
Example ex_run :
  run_matcher gen_always_repush ex_lots ex_sched ex_evs =
  Ok [ {| f_ev := 4; f_lot := None; f_amt := 2 |}; {| f_ev := 9; f_lot := Some 4; f_amt := 2 |};
       {| f_ev := 9; f_lot := Some 5; f_amt := 1 |}; {| f_ev := 10; f_lot := Some 3; f_amt := 5 |};
       {| f_ev := 10; f_lot := Some 5; f_amt := 1 |} ].
Proof. vm_compute. reflexivity. Qed.
