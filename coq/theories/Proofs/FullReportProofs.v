(** Full report model: every window transaction / fraction / summary line is written on exactly one
    row of its table, with the figures of [computed]; no write leaves a sheet (Tax sheet: while at most
    21 holders have a balance). *)
From RP2V Require Import Base.Prelude Base.Time Base.Dec Base.Sorting Base.Assoc Model.Types Model.Generated Model.Txn
  Model.Matcher Model.Pipeline Model.Computed Model.Grid Model.ReportInput Model.FullReport Proofs.AssocProofs
  Proofs.FullReportLayout.
Open Scope Z_scope.

(** ---------- facts about the generated tables, decided by computation on the current source's values *)
Fixpoint nodupb (l : list Z) : bool :=
  match l with [] => true | x :: t => negb (existsb (Z.eqb x) t) && nodupb t end.
Lemma nodupb_sound l : nodupb l = true -> NoDup l.
Proof.
  induction l as [|x t IH]; simpl; intro H; [constructor|].
  apply andb_prop in H. destruct H as [H1 H2]. constructor; [|apply IH; exact H2].
  intro Hin. apply negb_true_iff in H1. rewrite <- not_true_iff_false in H1. apply H1.
  apply existsb_exists. exists x. split; [exact Hin|apply Z.eqb_refl].
Qed.
Definition cols_okb (cols : list fcol) : bool :=
  nodupb (map col_of cols) && forallb (fun x => (0 <=? col_of x) && (col_of x <? gen_full_max_columns)) cols.
Lemma cols_okb_sound cols : cols_okb cols = true -> cols_ok cols.
Proof.
  unfold cols_okb, cols_ok. intro H. apply andb_prop in H. destruct H as [H1 H2]. split; [apply nodupb_sound; exact H1|].
  apply Forall_forall. intros x Hx. rewrite forallb_forall in H2. specialize (H2 x Hx).
  apply andb_prop in H2. destruct H2 as [A B]. apply Z.leb_le in A. apply Z.ltb_lt in B. lia.
Qed.

Lemma cols_in_ok : cols_ok gen_full_cols_in. Proof. apply cols_okb_sound. vm_compute. reflexivity. Qed.
Lemma cols_out_ok : cols_ok gen_full_cols_out. Proof. apply cols_okb_sound. vm_compute. reflexivity. Qed.
Lemma cols_intra_ok : cols_ok gen_full_cols_intra. Proof. apply cols_okb_sound. vm_compute. reflexivity. Qed.
Lemma cols_gls_ok : cols_ok gen_full_cols_gls. Proof. apply cols_okb_sound. vm_compute. reflexivity. Qed.
Lemma cols_bal_ok : cols_ok gen_full_cols_bal. Proof. apply cols_okb_sound. vm_compute. reflexivity. Qed.
Lemma cols_tot_ok : cols_ok gen_full_cols_tot. Proof. apply cols_okb_sound. vm_compute. reflexivity. Qed.
Lemma cols_sum_ok : cols_ok gen_full_cols_sum. Proof. apply cols_okb_sound. vm_compute. reflexivity. Qed.
Lemma cols_det_ok : forall d, cols_ok (det_cols d).
Proof.
  intro d. unfold det_cols. destruct (g_lot (fst d)); apply cols_okb_sound; vm_compute; reflexivity.
Qed.

Definition hdr_okb (h : list bool * list bool * Z) : bool :=
  (0 <=? snd h) && (snd h + Z.of_nat (length (fst (fst h))) <=? gen_full_max_columns).
Lemma hdr_okb_sound h : hdr_okb h = true -> hdr_ok h.
Proof. unfold hdr_okb, hdr_ok. intro H. apply andb_prop in H. destruct H as [A B]. apply Z.leb_le in A, B. lia. Qed.
Lemma hdr_in_ok : hdr_ok gen_full_hdr_in. Proof. apply hdr_okb_sound. vm_compute. reflexivity. Qed.
Lemma hdr_out_ok : hdr_ok gen_full_hdr_out. Proof. apply hdr_okb_sound. vm_compute. reflexivity. Qed.
Lemma hdr_intra_ok : hdr_ok gen_full_hdr_intra. Proof. apply hdr_okb_sound. vm_compute. reflexivity. Qed.
Lemma hdr_gls_ok : hdr_ok gen_full_hdr_gls. Proof. apply hdr_okb_sound. vm_compute. reflexivity. Qed.
Lemma hdr_bal_ok : hdr_ok gen_full_hdr_bal. Proof. apply hdr_okb_sound. vm_compute. reflexivity. Qed.
Lemma hdr_det_ok : hdr_ok gen_full_hdr_det. Proof. apply hdr_okb_sound. vm_compute. reflexivity. Qed.
Lemma hdr_sum_ok : hdr_ok gen_full_hdr_sum. Proof. apply hdr_okb_sound. vm_compute. reflexivity. Qed.
Lemma max_cols_pos : 0 < gen_full_max_columns. Proof. reflexivity. Qed.

(** the gaps between the tables are not negative, and the fixed rows fit into MIN_ROWS *)
Lemma gaps_nonneg : 0 <= gap 0 /\ 0 <= gap 1 /\ 0 <= gap 2 /\ 0 <= gap 3 /\ 0 <= gap 4 /\ 0 <= gap 5 /\ 0 <= gap 6.
Proof. repeat split; vm_compute; discriminate. Qed.
Lemma header_height_pos : 0 < gen_header_height. Proof. reflexivity. Qed.
Lemma inout_fixed_rows : gap 0 + gap 1 + gap 2 + 3 * gen_header_height <= gen_full_min_rows.
Proof. vm_compute. discriminate. Qed.
(** 19 fixed rows of the Tax sheet; MIN_ROWS leaves room for 21 per-holder total rows *)
Definition tax_fixed : Z := gap 3 + gap 4 + gap 5 + gap 6 + 3 * gen_header_height + gen_full_avg_rows.
Definition max_holders : Z := gen_full_min_rows - tax_fixed.
Lemma max_holders_val : tax_fixed = 19 /\ max_holders = gen_full_min_rows - 19.
Proof. split; reflexivity. Qed.
Lemma avg_cells_box r (g : Z * bool -> payload) : box r (r + gen_full_avg_rows) 0 gen_full_max_columns
  (map (fun ob : Z * bool => cw (r + fst ob) 0 (g ob)) gen_full_avg_cells) /\
  Forall (fun ob : Z * bool => 0 <= fst ob < gen_full_avg_rows) gen_full_avg_cells.
Proof.
  assert (H : Forall (fun ob : Z * bool => 0 <= fst ob < gen_full_avg_rows) gen_full_avg_cells).
  { apply Forall_forall. intros ob Hin.
    assert (forallb (fun ob : Z * bool => (0 <=? fst ob) && (fst ob <? gen_full_avg_rows)) gen_full_avg_cells = true) by (vm_compute; reflexivity).
    rewrite forallb_forall in H. specialize (H ob Hin). apply andb_prop in H. destruct H as [A B].
    apply Z.leb_le in A. apply Z.ltb_lt in B. lia. }
  split; [|exact H]. unfold box. apply Forall_map. eapply Forall_impl; [|exact H].
  intros ob Hob. unfold cw; cbn [cw_row cw_col]. pose proof max_cols_pos. cbv beta in Hob. lia.
Qed.

(** ---------- the In-Out sheet *)
Section InOut.
Variables (env : fenv) (inp : rinput) (x : actx).
Local Notation c := (ac_c x).
Local Notation L := (inout_rows_of (ac_c x)).
Local Notation n_in := (Z.of_nat (length (cd_ins (ac_c x)))).
Local Notation n_out := (Z.of_nat (length (cd_outs (ac_c x)))).
Local Notation n_x := (Z.of_nat (length (cd_intras (ac_c x)))).

Lemma inout_layout_facts :
  il_in L = gap 0 + gen_header_height /\
  il_out L = il_in L + n_in + gap 1 + gen_header_height /\
  il_intra L = il_out L + n_out + gap 2 + gen_header_height /\
  il_end L = il_intra L + n_x.
Proof. repeat split. Qed.

Let B_hin := fill_header_box (il_in L - gen_header_height) gen_full_hdr_in hdr_in_ok max_cols_pos.
Let B_hout := fill_header_box (il_out L - gen_header_height) gen_full_hdr_out hdr_out_ok max_cols_pos.
Let B_hx := fill_header_box (il_intra L - gen_header_height) gen_full_hdr_intra hdr_intra_ok max_cols_pos.
Let B_in := table_rows_box (fun _ : intx => gen_full_cols_in) (in_field env inp x) (cd_ins c) (il_in L) 0 (fun _ _ => proj2 cols_in_ok).
Let B_out := table_rows_box (fun _ : outtx => gen_full_cols_out) (out_field env inp x) (cd_outs c) (il_out L) 0 (fun _ _ => proj2 cols_out_ok).
Let B_x := table_rows_box (fun _ : intratx => gen_full_cols_intra) (intra_field env inp x) (cd_intras c) (il_intra L) 0 (fun _ _ => proj2 cols_intra_ok).

Ltac layout :=
  pose proof gaps_nonneg; pose proof header_height_pos; pose proof inout_layout_facts; lia.

(** row [il_in + j] holds the j-th in-transaction of the window: for every column of the layout the only
    write to that cell is the transaction's field *)
Lemma inout_in_at j t col lk f :
  nth_error (cd_ins c) j = Some t -> In (col, lk, f) gen_full_cols_in ->
  writes_at (inout_writes env inp x) (il_in L + Z.of_nat j) col
  = [cw (il_in L + Z.of_nat j) col (in_field env inp x j t lk f)].
Proof.
  intros Hn Hin. assert (Hj : Z.of_nat j < n_in) by (apply Nat2Z.inj_lt; apply nth_error_Some; rewrite Hn; discriminate).
  unfold inout_writes. rewrite !writes_at_app.
  rewrite (writes_at_outside _ _ _ _ _ _ _ B_hin) by layout.
  rewrite (table_rows_at _ _ (cd_ins c) (il_in L) 0 j t col lk f (fun _ _ => proj2 cols_in_ok) Hn (proj1 cols_in_ok) Hin).
  rewrite (writes_at_outside _ _ _ _ _ _ _ B_hout) by layout.
  rewrite (writes_at_outside _ _ _ _ _ _ _ B_out) by layout.
  rewrite (writes_at_outside _ _ _ _ _ _ _ B_hx) by layout.
  rewrite (writes_at_outside _ _ _ _ _ _ _ B_x) by layout.
  reflexivity.
Qed.

Lemma inout_out_at j t col lk f :
  nth_error (cd_outs c) j = Some t -> In (col, lk, f) gen_full_cols_out ->
  writes_at (inout_writes env inp x) (il_out L + Z.of_nat j) col
  = [cw (il_out L + Z.of_nat j) col (out_field env inp x j t lk f)].
Proof.
  intros Hn Hin. assert (Hj : Z.of_nat j < n_out) by (apply Nat2Z.inj_lt; apply nth_error_Some; rewrite Hn; discriminate).
  unfold inout_writes. rewrite !writes_at_app.
  rewrite (writes_at_outside _ _ _ _ _ _ _ B_hin) by layout.
  rewrite (writes_at_outside _ _ _ _ _ _ _ B_in) by layout.
  rewrite (writes_at_outside _ _ _ _ _ _ _ B_hout) by layout.
  rewrite (table_rows_at _ _ (cd_outs c) (il_out L) 0 j t col lk f (fun _ _ => proj2 cols_out_ok) Hn (proj1 cols_out_ok) Hin).
  rewrite (writes_at_outside _ _ _ _ _ _ _ B_hx) by layout.
  rewrite (writes_at_outside _ _ _ _ _ _ _ B_x) by layout.
  reflexivity.
Qed.

Lemma inout_intra_at j t col lk f :
  nth_error (cd_intras c) j = Some t -> In (col, lk, f) gen_full_cols_intra ->
  writes_at (inout_writes env inp x) (il_intra L + Z.of_nat j) col
  = [cw (il_intra L + Z.of_nat j) col (intra_field env inp x j t lk f)].
Proof.
  intros Hn Hin. assert (Hj : Z.of_nat j < n_x) by (apply Nat2Z.inj_lt; apply nth_error_Some; rewrite Hn; discriminate).
  unfold inout_writes. rewrite !writes_at_app.
  rewrite (writes_at_outside _ _ _ _ _ _ _ B_hin) by layout.
  rewrite (writes_at_outside _ _ _ _ _ _ _ B_in) by layout.
  rewrite (writes_at_outside _ _ _ _ _ _ _ B_hout) by layout.
  rewrite (writes_at_outside _ _ _ _ _ _ _ B_out) by layout.
  rewrite (writes_at_outside _ _ _ _ _ _ _ B_hx) by layout.
  rewrite (table_rows_at _ _ (cd_intras c) (il_intra L) 0 j t col lk f (fun _ _ => proj2 cols_intra_ok) Hn (proj1 cols_intra_ok) Hin).
  reflexivity.
Qed.

(** all writes of the sheet lie in rows [0, il_end) *)
Lemma inout_box : box 0 (il_end L) 0 gen_full_max_columns (inout_writes env inp x).
Proof.
  unfold inout_writes.
  repeat apply box_app.
  - eapply box_weaken; [exact B_hin| | | |]; layout.
  - eapply box_weaken; [exact B_in| | | |]; layout.
  - eapply box_weaken; [exact B_hout| | | |]; layout.
  - eapply box_weaken; [exact B_out| | | |]; layout.
  - eapply box_weaken; [exact B_hx| | | |]; layout.
  - eapply box_weaken; [exact B_x| | | |]; layout.
Qed.

End InOut.

Lemma avg_filter r off b (g : Z * bool -> payload) (cells : list (Z * bool)) :
  In (off, b) cells -> NoDup (map fst cells) ->
  writes_at (map (fun ob : Z * bool => cw (r + fst ob) 0 (g ob)) cells) (r + off) 0 = [cw (r + off) 0 (g (off, b))].
Proof.
  unfold writes_at. induction cells as [|[o b0] rest IH]; intros Hin Hnd; [contradiction|].
  cbn [map filter fst]. inversion Hnd as [|? ? Hni Hnd']; subst. unfold at_cell at 1. cbn [cw cw_row cw_col].
  rewrite Z.eqb_refl, andb_true_r.
  destruct Hin as [E|Hin].
  - inversion E; subst. rewrite Z.eqb_refl. f_equal. apply filter_nil. intros w Hw. apply in_map_iff in Hw.
    destruct Hw as [[o2 b2] [<- Hin2]]. unfold at_cell; cbn [cw cw_row cw_col fst]. rewrite andb_true_r. apply Z.eqb_neq. intro E2.
    apply Hni. apply in_map_iff. exists (o2, b2). split; [simpl; lia|exact Hin2].
  - destruct (r + o =? r + off) eqn:E.
    + apply Z.eqb_eq in E. exfalso. apply Hni. apply in_map_iff. exists (off, b). split; [simpl; lia|exact Hin].
    + apply IH; auto.
Qed.

(** ---------- the Tax sheet *)
Section Tax.
Variables (env : fenv) (inp : rinput) (x : actx) (lm : assoc Z).
Local Notation c := (ac_c x).
Local Notation L := (tax_layout_of inp x).
Local Notation tots := (holder_totals inp (cd_balances (ac_c x))).
Local Notation n_y := (Z.of_nat (length (cd_yearly (ac_c x)))).
Local Notation n_b := (Z.of_nat (length (cd_balances (ac_c x)))).
Local Notation n_h := (Z.of_nat (length (holder_totals inp (cd_balances (ac_c x))))).
Local Notation n_d := (Z.of_nat (length (drows (ac_c x)))).
Local Notation n_g := (Z.of_nat (length (cd_gls (ac_c x)))).

Lemma tax_layout_facts :
  tl_gls L = gap 3 + gen_header_height /\
  tl_bal L = tl_gls L + n_y + gap 4 + gen_header_height /\
  tl_tot L = tl_bal L + n_b /\
  tl_avg L = tl_tot L + n_h + gap 5 /\
  tl_det L = tl_avg L + gen_full_avg_rows + gap 6 + gen_header_height /\
  tl_end L = tl_det L + n_g.
Proof. repeat split. Qed.

Lemma drows_le : (length (drows c) <= length (cd_gls c))%nat.
Proof. unfold drows. etransitivity; [apply Nat.eq_le_incl; apply combine_length|apply Nat.le_min_l]. Qed.

Let B_hgls := fill_header_box (tl_gls L - gen_header_height) gen_full_hdr_gls hdr_gls_ok max_cols_pos.
Let B_hbal := fill_header_box (tl_bal L - gen_header_height) gen_full_hdr_bal hdr_bal_ok max_cols_pos.
Let B_hdet := fill_header_box (tl_det L - gen_header_height) gen_full_hdr_det hdr_det_ok max_cols_pos.
Let B_gls := table_rows_box (fun _ : yline => gen_full_cols_gls) (yearly_field env x) (cd_yearly c) (tl_gls L) 0 (fun _ _ => proj2 cols_gls_ok).
Let B_bal := table_rows_box (fun _ : balance => gen_full_cols_bal) (bal_field inp x) (cd_balances c) (tl_bal L) 0 (fun _ _ => proj2 cols_bal_ok).
Let B_tot := table_rows_box (fun _ : Z * Z => gen_full_cols_tot) (total_field inp x) tots (tl_tot L) 0 (fun _ _ => proj2 cols_tot_ok).
Let B_avg := proj1 (avg_cells_box (tl_avg L) (fun ob : Z * bool => if snd ob then PNum (cd_price c) else PLabel)).
Let B_det := table_rows_box det_cols (det_field env inp x lm) (drows c) (tl_det L) 0 (fun d _ => proj2 (cols_det_ok d)).

Ltac layout :=
  pose proof gaps_nonneg; pose proof header_height_pos; pose proof tax_layout_facts; pose proof drows_le;
  assert (0 < gen_full_avg_rows) by reflexivity; lia.

Lemma tax_yearly_at j y col lk f :
  nth_error (cd_yearly c) j = Some y -> In (col, lk, f) gen_full_cols_gls ->
  writes_at (tax_writes env inp x lm) (tl_gls L + Z.of_nat j) col = [cw (tl_gls L + Z.of_nat j) col (yearly_field env x j y lk f)].
Proof.
  intros Hn Hin. assert (Hj : Z.of_nat j < n_y) by (apply Nat2Z.inj_lt; apply nth_error_Some; rewrite Hn; discriminate).
  unfold tax_writes. rewrite !writes_at_app.
  rewrite (writes_at_outside _ _ _ _ _ _ _ B_hgls) by layout.
  rewrite (table_rows_at _ _ (cd_yearly c) (tl_gls L) 0 j y col lk f (fun _ _ => proj2 cols_gls_ok) Hn (proj1 cols_gls_ok) Hin).
  rewrite (writes_at_outside _ _ _ _ _ _ _ B_hbal) by layout.
  rewrite (writes_at_outside _ _ _ _ _ _ _ B_bal) by layout.
  rewrite (writes_at_outside _ _ _ _ _ _ _ B_tot) by layout.
  rewrite (writes_at_outside _ _ _ _ _ _ _ B_avg) by layout.
  rewrite (writes_at_outside _ _ _ _ _ _ _ B_hdet) by layout.
  rewrite (writes_at_outside _ _ _ _ _ _ _ B_det) by layout.
  reflexivity.
Qed.

Lemma tax_balance_at j b col lk f :
  nth_error (cd_balances c) j = Some b -> In (col, lk, f) gen_full_cols_bal ->
  writes_at (tax_writes env inp x lm) (tl_bal L + Z.of_nat j) col = [cw (tl_bal L + Z.of_nat j) col (bal_field inp x j b lk f)].
Proof.
  intros Hn Hin. assert (Hj : Z.of_nat j < n_b) by (apply Nat2Z.inj_lt; apply nth_error_Some; rewrite Hn; discriminate).
  unfold tax_writes. rewrite !writes_at_app.
  rewrite (writes_at_outside _ _ _ _ _ _ _ B_hgls) by layout.
  rewrite (writes_at_outside _ _ _ _ _ _ _ B_gls) by layout.
  rewrite (writes_at_outside _ _ _ _ _ _ _ B_hbal) by layout.
  rewrite (table_rows_at _ _ (cd_balances c) (tl_bal L) 0 j b col lk f (fun _ _ => proj2 cols_bal_ok) Hn (proj1 cols_bal_ok) Hin).
  rewrite (writes_at_outside _ _ _ _ _ _ _ B_tot) by layout.
  rewrite (writes_at_outside _ _ _ _ _ _ _ B_avg) by layout.
  rewrite (writes_at_outside _ _ _ _ _ _ _ B_hdet) by layout.
  rewrite (writes_at_outside _ _ _ _ _ _ _ B_det) by layout.
  reflexivity.
Qed.

Lemma tax_total_at j t col lk f :
  nth_error tots j = Some t -> In (col, lk, f) gen_full_cols_tot ->
  writes_at (tax_writes env inp x lm) (tl_tot L + Z.of_nat j) col = [cw (tl_tot L + Z.of_nat j) col (total_field inp x j t lk f)].
Proof.
  intros Hn Hin. assert (Hj : Z.of_nat j < n_h) by (apply Nat2Z.inj_lt; apply nth_error_Some; rewrite Hn; discriminate).
  unfold tax_writes. rewrite !writes_at_app.
  rewrite (writes_at_outside _ _ _ _ _ _ _ B_hgls) by layout.
  rewrite (writes_at_outside _ _ _ _ _ _ _ B_gls) by layout.
  rewrite (writes_at_outside _ _ _ _ _ _ _ B_hbal) by layout.
  rewrite (writes_at_outside _ _ _ _ _ _ _ B_bal) by layout.
  rewrite (table_rows_at _ _ tots (tl_tot L) 0 j t col lk f (fun _ _ => proj2 cols_tot_ok) Hn (proj1 cols_tot_ok) Hin).
  rewrite (writes_at_outside _ _ _ _ _ _ _ B_avg) by layout.
  rewrite (writes_at_outside _ _ _ _ _ _ _ B_hdet) by layout.
  rewrite (writes_at_outside _ _ _ _ _ _ _ B_det) by layout.
  reflexivity.
Qed.

(** row [tl_det + j] holds the j-th fraction of the window *)
Lemma tax_detail_at j d col lk f :
  nth_error (drows c) j = Some d -> In (col, lk, f) (det_cols d) ->
  writes_at (tax_writes env inp x lm) (tl_det L + Z.of_nat j) col = [cw (tl_det L + Z.of_nat j) col (det_field env inp x lm j d lk f)].
Proof.
  intros Hn Hin. assert (Hj : Z.of_nat j < n_d) by (apply Nat2Z.inj_lt; apply nth_error_Some; rewrite Hn; discriminate).
  unfold tax_writes. rewrite !writes_at_app.
  rewrite (writes_at_outside _ _ _ _ _ _ _ B_hgls) by layout.
  rewrite (writes_at_outside _ _ _ _ _ _ _ B_gls) by layout.
  rewrite (writes_at_outside _ _ _ _ _ _ _ B_hbal) by layout.
  rewrite (writes_at_outside _ _ _ _ _ _ _ B_bal) by layout.
  rewrite (writes_at_outside _ _ _ _ _ _ _ B_tot) by layout.
  rewrite (writes_at_outside _ _ _ _ _ _ _ B_avg) by layout.
  rewrite (writes_at_outside _ _ _ _ _ _ _ B_hdet) by layout.
  rewrite (table_rows_at det_cols _ (drows c) (tl_det L) 0 j d col lk f (fun d _ => proj2 (cols_det_ok d)) Hn (proj1 (cols_det_ok d)) Hin).
  reflexivity.
Qed.

(** the average price is written once, below its three label rows *)
Lemma tax_avg_price_at off :
  In (off, true) gen_full_avg_cells -> NoDup (map fst gen_full_avg_cells) ->
  writes_at (tax_writes env inp x lm) (tl_avg L + off) 0 = [cw (tl_avg L + off) 0 (PNum (cd_price c))].
Proof.
  intros Hin Hnd. pose proof (proj2 (avg_cells_box 0 (fun _ => PEmpty))) as Hr. rewrite Forall_forall in Hr. specialize (Hr _ Hin). simpl in Hr.
  unfold tax_writes. rewrite !writes_at_app.
  rewrite (writes_at_outside _ _ _ _ _ _ _ B_hgls) by layout.
  rewrite (writes_at_outside _ _ _ _ _ _ _ B_gls) by layout.
  rewrite (writes_at_outside _ _ _ _ _ _ _ B_hbal) by layout.
  rewrite (writes_at_outside _ _ _ _ _ _ _ B_bal) by layout.
  rewrite (writes_at_outside _ _ _ _ _ _ _ B_tot) by layout.
  rewrite (writes_at_outside _ _ _ _ _ _ _ B_hdet) by layout.
  rewrite (writes_at_outside _ _ _ _ _ _ _ B_det) by layout.
  rewrite app_nil_r. cbn [app].
  apply (avg_filter (tl_avg L) off true (fun ob : Z * bool => if snd ob then PNum (cd_price c) else PLabel) gen_full_avg_cells Hin Hnd).
Qed.

Lemma tax_box : box 0 (tl_det L + n_d) 0 gen_full_max_columns (tax_writes env inp x lm).
Proof.
  unfold tax_writes. repeat apply box_app.
  - eapply box_weaken; [exact B_hgls| | | |]; layout.
  - eapply box_weaken; [exact B_gls| | | |]; layout.
  - eapply box_weaken; [exact B_hbal| | | |]; layout.
  - eapply box_weaken; [exact B_bal| | | |]; layout.
  - eapply box_weaken; [exact B_tot| | | |]; layout.
  - eapply box_weaken; [exact B_avg| | | |]; layout.
  - eapply box_weaken; [exact B_hdet| | | |]; layout.
  - eapply box_weaken; [exact B_det| | | |]; layout.
Qed.

End Tax.

(** ---------- the transaction -> row dictionary *)
Section RowMap.
Context {A : Type} (rowid : A -> Z).

Lemma lm_add_other : forall l r lm k, ~ In k (map rowid l) -> aget k (lm_add rowid r l lm) = aget k lm.
Proof.
  induction l as [|a rest IH]; intros r lm k H; simpl; auto.
  rewrite IH by (intro Hin; apply H; right; exact Hin).
  apply aget_aset_other. intro E; subst. apply H. left; reflexivity.
Qed.

Lemma lm_add_at : forall l r lm j t, NoDup (map rowid l) -> nth_error l j = Some t ->
  aget (rowid t) (lm_add rowid r l lm) = Some (r + Z.of_nat j + 1).
Proof.
  induction l as [|a rest IH]; intros r lm j t Hnd Hn; [destruct j; discriminate|].
  simpl in Hnd. inversion Hnd as [|? ? Hni Hnd']; subst. destruct j as [|j]; simpl in Hn.
  - inversion Hn; subst. simpl lm_add. rewrite lm_add_other by exact Hni. rewrite aget_aset_same. f_equal. simpl. lia.
  - simpl lm_add. rewrite (IH (r + 1) _ j t Hnd' Hn). f_equal. lia.
Qed.
End RowMap.

Lemma nodup_app_l {A} (a b : list A) : NoDup (a ++ b) -> NoDup a.
Proof. induction a as [|x a IH]; simpl; intro H; [constructor|]. inversion H; subst. constructor; [|auto]. intro; apply H2. apply in_or_app; left; assumption. Qed.
Lemma nodup_app_r {A} (a b : list A) : NoDup (a ++ b) -> NoDup b.
Proof. induction a as [|x a IH]; simpl; intro H; [exact H|]. inversion H; subst. auto. Qed.
Lemma nodup_app_disj {A} (a b : list A) x : NoDup (a ++ b) -> In x a -> ~ In x b.
Proof.
  induction a as [|y a IH]; simpl; intros H Hin; [contradiction|]. inversion H; subst.
  destruct Hin as [->|Hin]; [intro Hb; apply H2; apply in_or_app; right; exact Hb | apply IH; assumption].
Qed.

Section Links.
Variables (fl : fflags) (env : fenv) (inp : rinput) (x : actx) (lm0 : assoc Z).
Local Notation c := (ac_c x).
Local Notation L := (inout_rows_of (ac_c x)).
Local Notation name := (ac_name x).

(** input row numbers of the transactions shown in the In-Out sheet *)
Definition vis_rows : list Z := map i_row (cd_ins c) ++ map o_row (cd_outs c) ++ map x_row (cd_intras c).

(** transaction e is written on (0-based) row r of the In-Out sheet *)
Definition shown_at (e : txn) (r : Z) : Prop :=
  match e with
  | TIn t => exists k, nth_error (cd_ins c) k = Some t /\ r = il_in L + Z.of_nat k
  | TOut t => exists k, nth_error (cd_outs c) k = Some t /\ r = il_out L + Z.of_nat k
  | TIntra t => exists k, nth_error (cd_intras c) k = Some t /\ r = il_intra L + Z.of_nat k
  end.

Hypothesis Hclears : ff_clears fl = true.
Hypothesis Hnd : NoDup vis_rows.

Lemma lm_after_clears : lm_after fl x lm0 = lm_after fl x [].
Proof. unfold lm_after. rewrite Hclears. reflexivity. Qed.

Lemma shown_row_pos e r : shown_at e r -> 0 <= r.
Proof.
  pose proof gaps_nonneg. pose proof header_height_pos. pose proof (inout_layout_facts x).
  destruct e; unfold shown_at; intros (k & _ & ->); lia.
Qed.

(** after the three tables the dictionary is exact on the transactions shown ... *)
Lemma lm_after_shown e r : shown_at e r -> aget (t_row e) (lm_after fl x lm0) = Some (r + 1).
Proof.
  unfold lm_after. rewrite Hclears. unfold vis_rows in Hnd.
  pose proof (nodup_app_l _ _ Hnd) as N1. pose proof (nodup_app_r _ _ Hnd) as N23.
  pose proof (nodup_app_l _ _ N23) as N2. pose proof (nodup_app_r _ _ N23) as N3.
  destruct e as [t|t|t]; unfold shown_at; cbn [t_row]; intros (k & Hn & ->).
  - assert (Hin : In (i_row t) (map i_row (cd_ins c))) by (apply in_map; eapply nth_error_In; exact Hn).
    pose proof (nodup_app_disj _ _ _ Hnd Hin) as Hno.
    rewrite lm_add_other by (intro H; apply Hno; apply in_or_app; right; exact H).
    rewrite lm_add_other by (intro H; apply Hno; apply in_or_app; left; exact H).
    rewrite (lm_add_at i_row _ _ _ k t N1 Hn). reflexivity.
  - assert (Hin : In (o_row t) (map o_row (cd_outs c))) by (apply in_map; eapply nth_error_In; exact Hn).
    rewrite lm_add_other by (apply (nodup_app_disj _ _ _ N23 Hin)).
    rewrite (lm_add_at o_row _ _ _ k t N2 Hn). reflexivity.
  - rewrite (lm_add_at x_row _ _ _ k t N3 Hn). reflexivity.
Qed.

(** ... and holds nothing else: a transaction that is not shown has no entry *)
Lemma lm_after_hidden rid : ~ In rid vis_rows -> aget rid (lm_after fl x lm0) = None.
Proof.
  unfold lm_after, vis_rows. rewrite Hclears. intro H.
  rewrite !lm_add_other; [reflexivity| | |]; intro Hin; apply H; apply in_or_app; [left|right|right]; auto;
    apply in_or_app; [left|right]; assumption.
Qed.

Local Notation lm := (lm_after fl x lm0).

(** hyperlinked cells of a gain/loss row *)
Lemma det_field_event j d f :
  det_field env inp x lm j d L_event f = linkp lm (inout_name env name) (t_row (g_ev (fst d))) (det_field env inp x [] j d L_none f).
Proof. reflexivity. Qed.
Lemma det_field_lot j d f l : g_lot (fst d) = Some l ->
  det_field env inp x lm j d L_lot f = linkp lm (inout_name env name) (i_row l) (det_field env inp x [] j d L_none f).
Proof. intro H. unfold det_field. rewrite H. reflexivity. Qed.

Lemma link_shown e r inner : shown_at e r -> linkp lm (inout_name env name) (t_row e) inner = PLink (inout_name env name) (r + 1) inner.
Proof.
  intro H. unfold linkp. rewrite (lm_after_shown e r H). pose proof (shown_row_pos e r H).
  destruct (r + 1 =? 0) eqn:E; [apply Z.eqb_eq in E; lia|reflexivity].
Qed.
Lemma link_hidden rid inner : ~ In rid vis_rows -> linkp lm (inout_name env name) rid inner = inner.
Proof. intro H. unfold linkp. rewrite (lm_after_hidden rid H). reflexivity. Qed.

Theorem event_link_target j d f r : shown_at (g_ev (fst d)) r ->
  det_field env inp x lm j d L_event f = PLink (inout_name env name) (r + 1) (det_field env inp x [] j d L_none f).
Proof. intro H. rewrite det_field_event. apply link_shown. exact H. Qed.
Theorem event_no_link j d f : ~ In (t_row (g_ev (fst d))) vis_rows ->
  det_field env inp x lm j d L_event f = det_field env inp x [] j d L_none f.
Proof. intro H. rewrite det_field_event. apply link_hidden. exact H. Qed.
Theorem lot_link_target j d f l r : g_lot (fst d) = Some l -> shown_at (TIn l) r ->
  det_field env inp x lm j d L_lot f = PLink (inout_name env name) (r + 1) (det_field env inp x [] j d L_none f).
Proof. intros Hl H. rewrite (det_field_lot j d f l Hl). apply (link_shown (TIn l)). exact H. Qed.
Theorem lot_no_link j d f l : g_lot (fst d) = Some l -> ~ In (i_row l) vis_rows ->
  det_field env inp x lm j d L_lot f = det_field env inp x [] j d L_none f.
Proof. intros Hl H. rewrite (det_field_lot j d f l Hl). apply link_hidden. exact H. Qed.
End Links.

(** ---------- (asset, year) -> first gain/loss row of the year *)
Fixpoint first_idx (y : Z) (l : list Z) : option nat :=
  match l with
  | [] => None
  | z :: t => if z =? y then Some O else option_map S (first_idx y t)
  end.
(** years along the list never decrease, starting from prev *)
Fixpoint nondecr (prev : Z) (l : list Z) : Prop :=
  match l with [] => True | y :: t => prev <= y /\ nondecr y t end.

Lemma first_idx_spec y : forall l j, first_idx y l = Some j ->
  nth_error l j = Some y /\ forall j', (j' < j)%nat -> nth_error l j' <> Some y.
Proof.
  induction l as [|z t IH]; intros j H; simpl in H; [discriminate|].
  destruct (z =? y) eqn:E.
  - inversion H; subst. apply Z.eqb_eq in E; subst. split; [reflexivity|]. intros j' Hj; lia.
  - destruct (first_idx y t) as [j0|] eqn:F; [|discriminate]. inversion H; subst.
    destruct (IH j0 eq_refl) as [A B]. split; [exact A|].
    intros [|j'] Hj; simpl; [intro X; inversion X; subst; rewrite Z.eqb_refl in E; discriminate|].
    apply B. lia.
Qed.
Lemma first_idx_none y : forall l, first_idx y l = None -> ~ In y l.
Proof.
  induction l as [|z t IH]; simpl; intros H; [tauto|].
  destruct (z =? y) eqn:E; [discriminate|]. destruct (first_idx y t) eqn:F; [discriminate|].
  intros [->|Hin]; [rewrite Z.eqb_refl in E; discriminate|apply IH; auto].
Qed.
Lemma nondecr_above y : forall l prev, nondecr prev l -> y < prev -> first_idx y l = None.
Proof.
  induction l as [|z t IH]; intros prev H Hlt; simpl; auto. destruct H as [H1 H2].
  destruct (z =? y) eqn:E; [apply Z.eqb_eq in E; lia|]. rewrite (IH z H2) by lia. reflexivity.
Qed.

Lemma ym_add_spec y : forall l r prev ym, nondecr prev (map g_year l) ->
  aget y (ym_add r prev l ym) =
  if y =? prev then aget y ym
  else match first_idx y (map g_year l) with Some j => Some (r + Z.of_nat j + 1) | None => aget y ym end.
Proof.
  induction l as [|g rest IH]; intros r prev ym H; simpl.
  - destruct (y =? prev); reflexivity.
  - destruct H as [H1 H2]. rewrite (IH (r + 1) (g_year g) _ H2).
    destruct (y =? prev) eqn:Ep.
    + apply Z.eqb_eq in Ep; subst prev. destruct (g_year g =? y) eqn:Eg.
      * apply Z.eqb_eq in Eg. rewrite Eg, Z.eqb_refl. reflexivity.
      * assert (y =? g_year g = false) as -> by (rewrite Z.eqb_sym; exact Eg).
        rewrite (nondecr_above y _ _ H2) by (apply Z.eqb_neq in Eg; lia).
        apply aget_aset_other. apply Z.eqb_neq in Eg. auto.
    + destruct (g_year g =? y) eqn:Eg.
      * apply Z.eqb_eq in Eg. rewrite Eg, Z.eqb_refl, Ep. rewrite aget_aset_same. f_equal. simpl. lia.
      * assert (y =? g_year g = false) as -> by (rewrite Z.eqb_sym; exact Eg).
        destruct (first_idx y (map g_year rest)) as [j|]; simpl.
        -- f_equal. lia.
        -- destruct (g_year g =? prev); [reflexivity|]. apply aget_aset_other. apply Z.eqb_neq in Eg. auto.
Qed.

Section SummaryLinks.
Variables (fl : fflags) (env : fenv) (inp : rinput) (x : actx).
Local Notation c := (ac_c x).
Local Notation L := (tax_layout_of inp x).
Local Notation years := (map g_year (cd_gls (ac_c x))).

(** calendar years are positive and do not decrease along the (instant-sorted) fractions shown *)
Hypothesis Hyears : nondecr 1 years.

Lemma ym_of_spec y : 0 < y ->
  aget y (ym_of inp x) = option_map (fun j => tl_det L + Z.of_nat j + 1) (first_idx y years).
Proof.
  intro Hy. unfold ym_of. rewrite ym_add_spec.
  - assert (y =? 0 = false) as -> by (apply Z.eqb_neq; lia). destruct (first_idx y years); reflexivity.
  - destruct (cd_gls c) as [|g rest]; simpl in *; [exact I|]. destruct Hyears. split; [lia|assumption].
Qed.

(** a Summary line links to the first gain/loss row of its year, or carries no link when no row of that year is shown *)
Theorem summary_link k y f : 0 < y_year y ->
  summary_field env x (ym_of inp x) k y L_summary f =
  match first_idx (y_year y) years with
  | Some j => PLink (tax_name env (ac_name x)) (tl_det L + Z.of_nat j + 1) (summary_field env x [] k y L_none f)
  | None => summary_field env x [] k y L_none f
  end.
Proof.
  intro Hy. unfold summary_field. rewrite (ym_of_spec _ Hy). destruct (first_idx (y_year y) years); reflexivity.
Qed.

Lemma summary_no_key_error ym : ff_guarded fl = true -> summary_key_error fl x ym = false.
Proof. intro H. unfold summary_key_error. rewrite H. reflexivity. Qed.

Lemma summary_line_at ym r k y col lk f :
  nth_error (cd_yearly c) k = Some y -> In (col, lk, f) gen_full_cols_sum ->
  writes_at (summary_writes env x ym r) (r + Z.of_nat k) col = [cw (r + Z.of_nat k) col (summary_field env x ym k y lk f)].
Proof.
  intros Hn Hin. unfold summary_writes.
  apply (table_rows_at (fun _ : yline => gen_full_cols_sum) (summary_field env x ym) (cd_yearly c) r 0 k y col lk f
           (fun _ _ => proj2 cols_sum_ok) Hn (proj1 cols_sum_ok) Hin).
Qed.
End SummaryLinks.

(** ---------- the whole run *)
Fixpoint actxs (aidx : Z) (l : list (rasset * computed)) (ex : list (assoc (str * str))) : list actx :=
  match l with
  | [] => []
  | (a, c) :: rest =>
    {| ac_idx := aidx; ac_name := ra_name a; ac_txs := ra_txs a; ac_c := c; ac_extra := hd [] ex |} :: actxs (aidx + 1) rest (tl ex)
  end.

Fixpoint summary_all (env : fenv) (inp : rinput) (r : Z) (xs : list actx) : list cellw :=
  match xs with
  | [] => []
  | x :: t => summary_writes env x (ym_of inp x) r ++ summary_all env inp (r + Z.of_nat (length (cd_yearly (ac_c x)))) t
  end.

Section Whole.
Variables (fl : fflags) (env : fenv) (inp : rinput).

(** the two sheets of every asset, the row map being threaded from asset to asset as the code does *)
Fixpoint sheets_from (lm0 : assoc Z) (xs : list actx) : list sheetw :=
  match xs with
  | [] => []
  | x :: t => let lm := lm_after fl x lm0 in inout_sheet env inp x :: tax_sheet env inp x lm :: sheets_from lm t
  end.
Definition asset_sheets (x : actx) : list sheetw := [inout_sheet env inp x; tax_sheet env inp x (lm_after fl x [])].

Lemma sheets_from_clears : ff_clears fl = true -> forall xs lm0, sheets_from lm0 xs = flat_map asset_sheets xs.
Proof.
  intros Hc. induction xs as [|x t IH]; intro lm0; simpl; [reflexivity|].
  rewrite (lm_after_clears fl x lm0 Hc). rewrite IH. reflexivity.
Qed.

Lemma gen_assets_shape : forall l aidx ex st st', gen_assets fl env inp aidx l ex st = ROk st' ->
  gs_sheets st' = gs_sheets st ++ sheets_from (gs_lm st) (actxs aidx l ex) /\
  gs_sum st' = gs_sum st ++ summary_all env inp (gs_srow st) (actxs aidx l ex) /\
  Forall (fun s => sheet_ok s = true) (sheets_from (gs_lm st) (actxs aidx l ex)).
Proof.
  induction l as [|[a c] rest IH]; intros aidx ex st st' H; simpl in H.
  - inversion H; subst. simpl. rewrite !app_nil_r. auto.
  - set (x := {| ac_idx := aidx; ac_name := ra_name a; ac_txs := ra_txs a; ac_c := c; ac_extra := hd [] ex |}) in *.
    destruct (gen_asset fl env inp x st) as [st1| | |e] eqn:E; try discriminate.
    destruct (IH _ _ _ _ H) as (A & B & C).
    unfold gen_asset in E.
    destruct (sheet_ok (inout_sheet env inp x)) eqn:S1; cbn [negb] in E; [|discriminate].
    destruct (sheet_ok (tax_sheet env inp x (lm_after fl x (gs_lm st)))) eqn:S2; cbn [negb] in E; [|discriminate].
    destruct (summary_key_error fl x (ym_of inp x)); [discriminate|].
    destruct (forallb _ (summary_writes env x (ym_of inp x) (gs_srow st))); cbn [negb] in E; [|discriminate].
    inversion E; subst st1; clear E. simpl in A, B, C.
    simpl actxs. fold x. simpl sheets_from. simpl summary_all. repeat split.
    + rewrite A. rewrite <- app_assoc. reflexivity.
    + rewrite B. rewrite <- app_assoc. reflexivity.
    + constructor; [exact S1|]. constructor; [exact S2|exact C].
Qed.

(** shape of a successful run: Legend, Summary, then the two sheets of every asset in order *)
Theorem full_report_shape sheets : full_report fl env inp = ROk sheets ->
  exists acs methods, computed_all inp (rp_assets inp) = Ok acs /\ legend_methods fl (rp_sched inp) = ROk methods /\
    let xs := actxs 0 acs (fe_extra env) in
    exists scap,
    sheets = {| sw_name := tr env gen_full_msg_legend; sw_rows := fe_legend_rows env; sw_cols := fe_legend_cols env;
                sw_writes := legend_writes inp methods |}
             :: {| sw_name := tr env gen_full_msg_summary; sw_rows := scap; sw_cols := fe_summary_cols env;
                   sw_writes := fst (fill_header 0 gen_full_hdr_sum) ++ summary_all env inp gen_header_height xs |}
             :: sheets_from [] xs
    /\ Forall (fun s => sheet_ok s = true) (sheets_from [] xs).
Proof.
  unfold full_report. intro H.
  destruct (computed_all inp (rp_assets inp)) as [acs|e] eqn:EC; [|discriminate].
  destruct (legend_methods fl (rp_sched inp)) as [methods| | |e] eqn:EM; try discriminate.
  destruct (forallb _ (legend_writes inp methods)); cbn [negb] in H; [|discriminate].
  destruct (fill_header 0 gen_full_hdr_sum) as [hw srow] eqn:EH.
  destruct (forallb _ hw); cbn [negb] in H; [|discriminate].
  destruct (gen_assets fl env inp 0 acs (fe_extra env) _) as [st| | |e] eqn:EG; try discriminate.
  inversion H; subst sheets; clear H.
  destruct (gen_assets_shape _ _ _ _ _ EG) as (A & B & C). simpl in A, B, C.
  exists acs, methods. repeat split. exists (gs_scap st).
  assert (srow = gen_header_height) as -> by (pose proof (fill_header_snd 0 gen_full_hdr_sum) as X; rewrite EH in X; simpl in X; lia).
  rewrite A, B. simpl fst. split; [reflexivity|exact C].
Qed.

(** with the dictionary emptied per asset every asset's sheets depend on that asset alone *)
Corollary full_report_shape_clears sheets : ff_clears fl = true -> full_report fl env inp = ROk sheets ->
  exists acs legend summary, computed_all inp (rp_assets inp) = Ok acs /\
    sheets = legend :: summary :: flat_map asset_sheets (actxs 0 acs (fe_extra env)).
Proof.
  intros Hc H. destruct (full_report_shape sheets H) as (acs & methods & EC & _ & scap & E & _).
  exists acs. do 2 eexists. split; [exact EC|]. rewrite E. rewrite (sheets_from_clears Hc). reflexivity.
Qed.
End Whole.

(** ---------- small facts stated in Properties/C13.v, C19.v *)
(** "exactly one write hits the cell" gives the final content of the cell (what ends up in the file) *)
Lemma inout_final env inp x r c w : 0 <= c < 1024 ->
  writes_at (sw_writes (inout_sheet env inp x)) r c = [w] -> cell_at (sw_writes (inout_sheet env inp x)) r c = cw_val w.
Proof. intros Hc H. apply cell_at_single; [exact Hc|eapply box_cols; apply inout_box|exact H]. Qed.
Lemma tax_final env inp x lm r c w : 0 <= c < 1024 ->
  writes_at (sw_writes (tax_sheet env inp x lm)) r c = [w] -> cell_at (sw_writes (tax_sheet env inp x lm)) r c = cw_val w.
Proof. intros Hc H. apply cell_at_single; [exact Hc|eapply box_cols; apply tax_box|exact H]. Qed.

Lemma inout_rows_values c :
  3 <= il_in (inout_rows_of c) /\
  il_in (inout_rows_of c) + Z.of_nat (length (cd_ins c)) + 3 <= il_out (inout_rows_of c) /\
  il_out (inout_rows_of c) + Z.of_nat (length (cd_outs c)) + 3 <= il_intra (inout_rows_of c).
Proof.
  unfold inout_rows_of; cbn [il_in il_out il_intra]. pose proof gaps_nonneg. change gen_header_height with 3. lia.
Qed.

Lemma avg_price_cell env inp x lm :
  writes_at (sw_writes (tax_sheet env inp x lm)) (tl_avg (tax_layout_of inp x) + 3) 0
  = [cw (tl_avg (tax_layout_of inp x) + 3) 0 (PNum (cd_price (ac_c x)))].
Proof.
  apply tax_avg_price_at; [right; right; right; left; reflexivity|].
  repeat constructor; simpl; intuition discriminate.
Qed.

Lemma fraction_figures env inp x lm j (g : gl) ei en lotlab :
  let d : drow := (g, ((ei, en), lotlab)) in
  det_field env inp x lm j d L_none F_g_amount = PNum (of_grid (g_amt g)) /\
  det_field env inp x lm j d L_none F_g_gain = pnum_o (g_gain g) /\
  det_field env inp x lm j d L_none F_cap_type = cap_type env (g_long (rp_period inp) g) /\
  det_field env inp x lm j d L_none F_ev_fiat = pnum_o (g_proceeds g) /\
  det_field env inp x lm j d L_none F_ev_note = PStr (note (S ei) en (g_amt g) (t_balance_change (g_ev g)) (ac_name x)) /\
  (forall l li ln, g_lot g = Some l -> lotlab = Some (li, ln) ->
     det_field env inp x lm j d L_none F_lot_cost = pnum_o (g_cost g) /\
     det_field env inp x lm j d L_none F_lot_note = PStr (note (S li) ln (g_amt g) (in_crypto_balance_change l) (ac_name x))).
Proof.
  intro d. subst d.
  split; [reflexivity|]. split; [reflexivity|]. split; [reflexivity|]. split; [reflexivity|]. split; [reflexivity|].
  intros l li ln Hl Hlab. unfold det_field; cbn [fst snd]. rewrite Hl, Hlab. split; reflexivity.
Qed.

Lemma target_row env inp x e r : shown_at x e r ->
  match e with
  | TIn t => exists k, forall col lk f, In (col, lk, f) gen_full_cols_in ->
      writes_at (sw_writes (inout_sheet env inp x)) r col = [cw r col (in_field env inp x k t lk f)]
  | TOut t => exists k, forall col lk f, In (col, lk, f) gen_full_cols_out ->
      writes_at (sw_writes (inout_sheet env inp x)) r col = [cw r col (out_field env inp x k t lk f)]
  | TIntra t => exists k, forall col lk f, In (col, lk, f) gen_full_cols_intra ->
      writes_at (sw_writes (inout_sheet env inp x)) r col = [cw r col (intra_field env inp x k t lk f)]
  end.
Proof.
  destruct e as [t|t|t]; intros (k & Hn & ->); exists k; intros col lk f Hin.
  - exact (inout_in_at env inp x k t col lk f Hn Hin).
  - exact (inout_out_at env inp x k t col lk f Hn Hin).
  - exact (inout_intra_at env inp x k t col lk f Hn Hin).
Qed.

Lemma row_map_exact fl x lm0 : ff_clears fl = true -> NoDup (vis_rows x) ->
  (forall e r, shown_at x e r -> aget (t_row e) (lm_after fl x lm0) = Some (r + 1)) /\
  (forall rid, ~ In rid (vis_rows x) -> aget rid (lm_after fl x lm0) = None).
Proof.
  intros Hc Hnd. split.
  - intros e r. exact (lm_after_shown fl x lm0 Hc Hnd e r).
  - intros rid. exact (lm_after_hidden fl x lm0 Hc rid).
Qed.

(** ---------- Legend *)
Lemma legend_methods_ok fl sched : ff_single_by_value fl = true ->
  exists s, legend_methods fl sched = ROk s /\
            (forall y m, sched = [(y, m)] -> s = meth_name m) /\
            ((length sched <> 1)%nat -> s = join s_comma (sched_items MIN_YEAR sched)).
Proof.
  intro H. destruct sched as [|[y m] [|p t]].
  - eexists. split; [reflexivity|]. split; [intros; discriminate|reflexivity].
  - exists (meth_name m). unfold legend_methods. rewrite H. simpl. split; [reflexivity|].
    split; [intros y' m' E; inversion E; reflexivity|intro X; exfalso; apply X; reflexivity].
  - eexists. split; [reflexivity|]. split; [intros; discriminate|reflexivity].
Qed.

(** the three Legend cells next to "Accounting Method", "From Date Filter", "To Date Filter" *)
Lemma legend_cells inp methods :
  writes_at (legend_writes inp methods) gen_full_legend_method_row 1 = [cw gen_full_legend_method_row 1 (PStr methods)] /\
  writes_at (legend_writes inp methods) (gen_full_legend_method_row + 1) 1
    = [cw (gen_full_legend_method_row + 1) 1 (day_cell (rp_from inp) MIN_DAY)] /\
  writes_at (legend_writes inp methods) (gen_full_legend_method_row + 2) 1
    = [cw (gen_full_legend_method_row + 2) 1 (day_cell (rp_to inp) MAX_DAY)].
Proof.
  unfold legend_writes. rewrite !writes_at_app.
  assert (E1 : writes_at (legend_page 0 gen_full_legend) gen_full_legend_method_row 1 = []) by (vm_compute; reflexivity).
  assert (E2 : writes_at (legend_page 0 gen_full_legend) (gen_full_legend_method_row + 1) 1 = []) by (vm_compute; reflexivity).
  assert (E3 : writes_at (legend_page 0 gen_full_legend) (gen_full_legend_method_row + 2) 1 = []) by (vm_compute; reflexivity).
  rewrite E1, E2, E3. repeat split.
Qed.
