(** END TO END for ANY rows the parser accepts -- crypto-fee acquisitions included.

    [E2E_success] (Proofs/EndToEnd.v) goes through the [hist]-based theory of C16 ([built_history]: the transactions are the
    constructors applied to raw rows on the 1e-11 grid) and therefore leaves out acquisition rows with a crypto fee: the parser
    splits such a row into an acquisition whose fiat fields are unrounded products and an artificial fee disposal, and that
    acquisition is not [mk_in] of any raw row.  Here the same conclusion is reached WITHOUT a [hist]: the well-formedness of the
    matcher input ([MatchWf.wf], what [pipeline_wf] establishes for built histories) is proved directly for the transactions
    [expected] gives for a well-formed sheet, and the totality of [compute] is re-derived from [wf] alone (the proof of
    [compute_follows_balances] uses nothing else of a matched history).

    1. what every expected transaction satisfies (invariant of [expect_list]): amounts positive (acquisitions: unless STAKING),
       holder indices inside the configured list, artificial ids in [counter', counter) and pairwise distinct;
    2. one sheet: InputData accepts the sets, the taxable events are defined, the matcher input is well formed;
    3. [compute] on a well-formed matcher input: only the balance guard can fail;
    4. [E2E_success_any_rows]. *)
From Coq Require Import List ZArith Bool Lia Permutation Sorted.
From RP2V Require Import Base.Prelude Base.Time Base.Dec Base.Sorting Base.Assoc Model.Types Model.Generated Model.Txn
  Model.Matcher Model.MatchSpec Model.MatchWf Model.FracSpec Model.Pipeline Model.Parser Model.Render Model.TableOrderSpec
  Model.Computed Model.ComputedSpec Model.NumberSpec Model.TotalSpec Model.FromRowsSpec Model.Grid Model.ReportInput Model.MainRun
  Model.RunCompose Model.ConfigModel Model.EndToEnd.
From RP2V Require Import Proofs.SortingProofs Proofs.FilterProofs Proofs.DecProofs Proofs.ComputedProofs Proofs.NumberingProofs
  Proofs.NumberingLift Proofs.MatcherProps Proofs.C03Proofs Proofs.C09Proofs Proofs.C17Proofs Proofs.PipelineWf Proofs.C06Proofs
  Proofs.C08Proofs Proofs.C08Compute Proofs.PriceProofs Proofs.ParserLookup Proofs.ParserRows Proofs.ParserSheet Proofs.ParserSpec
  Proofs.FaultsCtor Proofs.TableOrder Proofs.FromRows Proofs.ComputeTotal Proofs.RunLemmas Proofs.C16Proofs Proofs.RunCompose
  Proofs.BalanceProofs Proofs.EndToEndFront Proofs.EndToEnd.
Import ListNotations.
Open Scope Z_scope.

(** * 1. what every expected transaction satisfies *)
Definition in_ok (x : intx) : Prop := (i_type x <> STAKING -> 0 < i_crypto_in x) /\ holder_ok (i_holder x).
Definition out_ok (o : outtx) : Prop := 0 < o_crypto_out_with_fee o /\ holder_ok (o_holder o).
Definition intra_ok (x : intratx) : Prop :=
  (intra_is_taxable x = true -> 0 < x_crypto_fee x) /\ holder_ok (x_from_holder x) /\ holder_ok (x_to_holder x).

Record acc_ok (c0 : Z) (a : acc) : Prop := {
  ao_ins : forall x, In x (a_ins a) -> in_ok x;
  ao_outs : forall o, In o (a_outs a) -> out_ok o;
  ao_art : forall o, In o (a_art a) -> out_ok o /\ a_counter a <= o_row o < c0;
  ao_art_nodup : NoDup (map o_row (a_art a));
  ao_intras : forall x, In x (a_intras a) -> intra_ok x;
  ao_counter : a_counter a <= c0 }.

Lemma split_in_fields tx tx' : split_in tx = Ok tx' ->
  i_row tx' = i_row tx /\ i_type tx' = i_type tx /\ i_crypto_in tx' = i_crypto_in tx /\ i_holder tx' = i_holder tx.
Proof.
  unfold split_in. destruct (_ || _); [discriminate|]. destruct (_ || _); [discriminate|]. destruct (dltb _ _); [discriminate|].
  intros [= <-]. cbn. auto.
Qed.

Lemma mk_in_ok raw tx : mk_in raw = Ok tx -> holder_ok (ri_holder raw) -> in_ok tx.
Proof.
  intros K H. destruct (ParserSpec.mk_in_fields _ _ K) as (_ & _ & _ & Eh & Et & _ & Ec & _). split.
  - intros Hty. rewrite Ec. apply (mk_in_positive _ _ K). rewrite <- Et. exact Hty.
  - rewrite Eh. exact H.
Qed.

Section Rows.
Variable cfg : pcfg.
Hypothesis HL : Z.of_nat (length (pc_holders cfg)) <= 100000.

Lemma res_holder_ok s ho : res_holder cfg s = Some ho -> holder_ok ho.
Proof. unfold res_holder. intros H. apply str_index_bound in H. unfold holder_ok. lia. Qed.

Lemma expect_row_ok c0 a n r a' : expect_row cfg a n r = Ok a' -> acc_ok c0 a -> acc_ok c0 a'.
Proof.
  intros E [A1 A2 A3 A4 A5 A6]. destruct r as [s|s|s]; unfold expect_row in E.
  - destruct (raw_of_in cfg n s) as [raw|] eqn:R; [|discriminate].
    assert (HH : holder_ok (ri_holder raw)).
    { unfold raw_of_in in R. destruct (res_ts cfg (si_ts s)); [|discriminate]. destruct (res_exch cfg (si_exch s)); [|discriminate].
      destruct (res_holder cfg (si_holder s)) as [ho|] eqn:EH; [|discriminate]. destruct (ttype_of_str (si_type s)); [|discriminate].
      injection R as <-. exact (res_holder_ok _ _ EH). }
    destruct (mk_in raw) as [tx|] eqn:K; cbn [bind] in E; [|discriminate].
    pose proof (mk_in_ok raw tx K HH) as Htx.
    destruct (0 <? i_crypto_fee tx).
    + destruct (split_in tx) as [tx'|] eqn:SP; cbn [bind] in E; [|discriminate].
      destruct (fee_out tx (a_counter a - 1)) as [o|] eqn:EF; cbn [bind] in E; [|discriminate]. injection E as <-.
      destruct (split_in_fields _ _ SP) as (_ & S2 & S3 & S4).
      assert (Ho : out_ok o).
      { unfold fee_out in EF. split; [exact (mk_out_pos _ _ EF)|].
        destruct (ParserSpec.mk_out_fields _ _ EF) as (_ & _ & _ & -> & _). cbn [ro_holder]. exact (proj2 Htx). }
      pose proof (fee_out_row _ _ _ EF) as Hrow.
      constructor; cbn [a_ins a_outs a_intras a_art a_counter].
      * intros x Hx. apply in_app_or in Hx. destruct Hx as [Hx|[<-|[]]]; [exact (A1 x Hx)|].
        destruct Htx as [T1 T2]. split; [rewrite S2, S3; exact T1|rewrite S4; exact T2].
      * exact A2.
      * intros o' Ho'. apply in_app_or in Ho'. destruct Ho' as [Ho'|[<-|[]]].
        -- destruct (A3 o' Ho') as [B1 B2]. split; [exact B1|lia].
        -- split; [exact Ho|]. rewrite Hrow. lia.
      * rewrite map_app. cbn [map]. apply NoDup_app_one; [exact A4|]. rewrite Hrow. intros Hin.
        apply in_map_iff in Hin. destruct Hin as (o' & Er & Ho'). destruct (A3 o' Ho') as [_ B]. lia.
      * exact A5.
      * lia.
    + injection E as <-. constructor; cbn [a_ins a_outs a_intras a_art a_counter]; try assumption.
      intros x Hx. apply in_app_or in Hx. destruct Hx as [Hx|[<-|[]]]; [exact (A1 x Hx)|exact Htx].
  - destruct (raw_of_out cfg n s) as [raw|] eqn:R; [|discriminate].
    assert (HH : holder_ok (ro_holder raw)).
    { unfold raw_of_out in R. destruct (res_ts cfg (so_ts s)); [|discriminate]. destruct (res_exch cfg (so_exch s)); [|discriminate].
      destruct (res_holder cfg (so_holder s)) as [ho|] eqn:EH; [|discriminate]. destruct (ttype_of_str (so_type s)); [|discriminate].
      injection R as <-. exact (res_holder_ok _ _ EH). }
    destruct (mk_out raw) as [tx|] eqn:K; cbn [bind] in E; [|discriminate]. injection E as <-.
    constructor; cbn [a_ins a_outs a_intras a_art a_counter]; try assumption.
    intros o Ho. apply in_app_or in Ho. destruct Ho as [Ho|[<-|[]]]; [exact (A2 o Ho)|].
    split; [exact (mk_out_pos _ _ K)|]. destruct (ParserSpec.mk_out_fields _ _ K) as (_ & _ & _ & -> & _). exact HH.
  - destruct (raw_of_intra cfg n s) as [raw|] eqn:R; [|discriminate].
    assert (HH : holder_ok (rx_from_holder raw) /\ holder_ok (rx_to_holder raw)).
    { unfold raw_of_intra in R. destruct (res_ts cfg (sx_ts s)); [|discriminate]. destruct (res_exch cfg (sx_fe s)); [|discriminate].
      destruct (res_holder cfg (sx_fh s)) as [fh|] eqn:E1; [|discriminate]. destruct (res_exch cfg (sx_te s)); [|discriminate].
      destruct (res_holder cfg (sx_th s)) as [th|] eqn:E2; [|discriminate].
      injection R as <-. split; [exact (res_holder_ok _ _ E1)|exact (res_holder_ok _ _ E2)]. }
    destruct (mk_intra raw) as [tx|] eqn:K; cbn [bind] in E; [|discriminate]. injection E as <-.
    constructor; cbn [a_ins a_outs a_intras a_art a_counter]; try assumption.
    intros x Hx. apply in_app_or in Hx. destruct Hx as [Hx|[<-|[]]]; [exact (A5 x Hx)|].
    unfold intra_ok. destruct (mk_intra_holders _ _ K) as [-> ->]. split; [exact (mk_intra_taxable_pos _ _ K)|exact HH].
Qed.

Lemma expect_list_ok c0 : forall l a a', expect_list cfg a l = Ok a' -> acc_ok c0 a -> acc_ok c0 a'.
Proof.
  induction l as [|[n r] l IH]; intros a a' E H; cbn [expect_list fst snd] in E; [injection E as <-; exact H|].
  destruct (expect_row cfg a n r) as [a1|] eqn:E1; [|discriminate]. exact (IH _ _ E (expect_row_ok c0 _ _ _ _ E1 H)).
Qed.

Lemma acc0_ok c0 : acc_ok c0 (acc0 c0).
Proof. constructor; cbn [acc0 a_ins a_outs a_intras a_art a_counter map]; try (intros ? []); [constructor|lia]. Qed.

(** * 2. one sheet *)
Lemma NoDup_app_disjoint {A} (l1 l2 : list A) : NoDup l1 -> NoDup l2 -> (forall x, In x l1 -> In x l2 -> False) -> NoDup (l1 ++ l2).
Proof.
  induction l1 as [|x l1 IH]; intros N1 N2 D; [exact N2|]. inversion N1 as [|? ? Hx N1']; subst. cbn. constructor.
  - intros Hin. apply in_app_or in Hin. destruct Hin as [Hin|Hin]; [exact (Hx Hin)|exact (D x (or_introl eq_refl) Hin)].
  - apply IH; [exact N1'|exact N2|]. intros y Hy1 Hy2. exact (D y (or_intror Hy1) Hy2).
Qed.

Lemma taxable_events_of_distinct t :
  NoDup (map i_row (t_ins t) ++ map o_row (t_outs t) ++ map x_row (t_intras t)) -> exists evs, taxable_events t = Ok evs.
Proof.
  intros ND. destruct (NoDup_app_inv _ _ ND) as (N1 & N23 & D1). destruct (NoDup_app_inv _ _ N23) as (N2 & N3 & D2).
  unfold taxable_events.
  assert (HN : NoDup (map t_row (taxable_unsorted t))).
  { unfold taxable_unsorted. rewrite !map_app, !map_map. cbn [t_row].
    assert (I1 : forall x, In x (map i_row (filter in_is_taxable (t_ins t))) -> In x (map i_row (t_ins t))).
    { intros x Hx. apply in_map_iff in Hx. destruct Hx as (a & <- & Ha). apply filter_In in Ha. apply in_map, Ha. }
    assert (I2 : forall x, In x (map o_row (filter out_is_taxable (t_outs t))) -> In x (map o_row (t_outs t))).
    { intros x Hx. apply in_map_iff in Hx. destruct Hx as (a & <- & Ha). apply filter_In in Ha. apply in_map, Ha. }
    assert (I3 : forall x, In x (map x_row (filter intra_is_taxable (t_intras t))) -> In x (map x_row (t_intras t))).
    { intros x Hx. apply in_map_iff in Hx. destruct Hx as (a & <- & Ha). apply filter_In in Ha. apply in_map, Ha. }
    apply NoDup_app_intro; [apply NoDup_map_filter; exact N1| |].
    - apply NoDup_app_intro; [apply NoDup_map_filter; exact N2|apply NoDup_map_filter; exact N3|].
      intros x Hx Hy. exact (D2 x (I2 x Hx) (I3 x Hy)).
    - intros x Hx Hy. apply (D1 x (I1 x Hx)). apply in_app_or in Hy. apply in_or_app.
      destruct Hy as [Hy|Hy]; [left; exact (I2 x Hy)|right; exact (I3 x Hy)]. }
  rewrite (NoDup_has_dup _ HN). eexists; reflexivity.
Qed.

(** the facts about the transaction sets of one expected sheet *)
Record sheet_sets_ok (p : parsed) (t : txs) : Prop := {
  ss_txs : txs_of_parsed p = Ok t;
  ss_sorted : lots_sorted (t_ins t);
  ss_distinct : lots_distinct_rows (t_ins t);
  ss_nonempty : lots_nonempty (t_ins t);
  ss_ins : forall x, In x (t_ins t) -> In x (pa_ins p) /\ in_ok x;
  ss_outs : forall o, In o (t_outs t) -> out_ok o;
  ss_intras : forall x, In x (t_intras t) -> intra_ok x;
  ss_events : exists evs, taxable_events t = Ok evs }.

Theorem expected_sheet_sets asset counter blocks p :
  counter <= 0 -> wf_blocks cfg asset 1 blocks -> expected cfg counter blocks = Ok p -> pa_ins p <> [] ->
  pa_counter p <= counter /\ exists t, sheet_sets_ok p t.
Proof.
  intros HC W E NE. unfold expected in E.
  destruct (expect_blocks cfg (acc0 counter) 1 blocks) as [a|] eqn:EB; [|discriminate]. injection E as <-.
  pose proof (expect_blocks_rownos cfg asset blocks _ _ 1 TabIn W EB) as RI.
  pose proof (expect_blocks_rownos cfg asset blocks _ _ 1 TabOut W EB) as RO.
  pose proof (expect_blocks_rownos cfg asset blocks _ _ 1 TabIntra W EB) as RX.
  cbn [tab_rows acc0 a_ins a_outs a_intras map app] in RI, RO, RX.
  rewrite expect_blocks_list in EB.
  destruct (expect_list_ok counter _ _ _ EB (acc0_ok counter)) as [A1 A2 A3 A4 A5 A6].
  cbn [parsed_of pa_counter pa_ins] in *. split; [exact A6|].
  (* the row ids: sheet rows (>= 3, sorted, disjoint across the tables) and artificial ids (< counter <= 0, distinct) *)
  assert (POS : forall T x, In x (data_rownos T 1 blocks) -> 3 <= x).
  { intros T x Hx. rewrite data_rownos_gen in Hx. apply gen_bounds in Hx. lia. }
  assert (NDall : NoDup (map i_row (a_ins a) ++ map o_row (a_outs a ++ a_art a) ++ map x_row (a_intras a))).
  { rewrite map_app, RI, RO, RX.
    assert (NP : NoDup (data_rownos TabIn 1 blocks ++ data_rownos TabOut 1 blocks ++ data_rownos TabIntra 1 blocks)).
    { rewrite !data_rownos_gen. eapply Permutation_NoDup; [apply Permutation_sym; apply gen_partition|]. apply SS_lt_NoDup. apply gen_sorted. }
    destruct (NoDup_app_inv _ _ NP) as (N1 & N23 & D1). destruct (NoDup_app_inv _ _ N23) as (N2 & N3 & D2).
    assert (NEG : forall x, In x (map o_row (a_art a)) -> x < 1).
    { intros x Hx. apply in_map_iff in Hx. destruct Hx as (o & <- & Ho). destruct (A3 o Ho) as [_ B]. lia. }
    apply NoDup_app_disjoint; [exact N1| |].
    - apply NoDup_app_disjoint; [apply NoDup_app_disjoint; [exact N2|exact A4|]|exact N3|].
      + intros x H1 H2. specialize (POS _ _ H1). specialize (NEG _ H2). lia.
      + intros x H1 H2. apply in_app_or in H1. destruct H1 as [H1|H1]; [exact (D2 x H1 H2)|].
        specialize (POS _ _ H2). specialize (NEG _ H1). lia.
    - intros x H1 H2. apply in_app_or in H2. destruct H2 as [H2|H2].
      + apply in_app_or in H2. destruct H2 as [H2|H2]; [apply (D1 x H1); apply in_or_app; left; exact H2|].
        specialize (POS _ _ H1). specialize (NEG _ H2). lia.
      + apply (D1 x H1). apply in_or_app. right. exact H2. }
  destruct (NoDup_app_inv _ _ NDall) as (Ni & Nox & _). destruct (NoDup_app_inv _ _ Nox) as (No & Nx & _).
  exists {| t_ins := sort_by in_us (a_ins a); t_outs := sort_by out_us (a_outs a ++ a_art a); t_intras := sort_by intra_us (a_intras a) |}.
  constructor; cbn [t_ins t_outs t_intras].
  - unfold txs_of_parsed, txs_of_lists. cbn [pa_ins pa_outs pa_intras parsed_of].
    rewrite (NoDup_has_dup _ Ni), (NoDup_has_dup _ No), (NoDup_has_dup _ Nx). cbn [orb].
    destruct (a_ins a) as [|x0 l0] eqn:EI; [congruence|reflexivity].
  - assert (HS : StronglySorted (fun x y => i_row x < i_row y) (a_ins a)).
    { apply (SS_unmap i_row Z.lt). rewrite RI. apply data_rownos_sorted. }
    pose proof (sort_by_lex in_us _ _ HS) as HLx. intros i j Hij. exact (SS_nth _ _ HLx i j dummy_lot Hij).
  - unfold lots_distinct_rows. eapply Permutation_NoDup; [|exact Ni]. apply Permutation_map, Permutation_sym, sort_by_perm.
  - unfold lots_nonempty. intros Hnil. apply NE. apply length_zero_iff_nil. rewrite <- (sort_by_length in_us), Hnil. reflexivity.
  - intros x Hx. apply sort_by_in in Hx. split; [exact Hx|exact (A1 x Hx)].
  - intros o Ho. apply sort_by_in in Ho. apply in_app_or in Ho. destruct Ho as [Ho|Ho]; [exact (A2 o Ho)|exact (proj1 (A3 o Ho))].
  - intros x Hx. apply sort_by_in in Hx. exact (A5 x Hx).
  - apply taxable_events_of_distinct. cbn [t_ins t_outs t_intras].
    eapply Permutation_NoDup; [|exact NDall]. apply Permutation_sym.
    repeat apply Permutation_app; apply Permutation_map, sort_by_perm.
Qed.
End Rows.

(** the matcher input of an expected sheet is well formed: what [pipeline_wf] proves for built histories, here for the parsed
    transactions (STAKING amounts positive, F13 and the schedule cover remain hypotheses) *)
Theorem sheet_sets_wf p t sched evs :
  sheet_sets_ok p t -> taxable_events t = Ok evs ->
  (forall x, In x (pa_ins p) -> i_type x = STAKING -> 0 < i_crypto_in x) ->
  hist_same_instant_same_year evs -> hist_sched_covers sched evs -> NoDup (map fst sched) ->
  wf (t_ins t) sched (map event_of evs).
Proof.
  intros [S1 S2 S3 S4 S5 S6 S7 _] HE HST HY HCV ND.
  assert (POS : forall x, In x (t_ins t) -> 0 < i_crypto_in x).
  { intros x Hx. destruct (S5 x Hx) as [Hp [Hq _]]. destruct (ttype_eqb (i_type x) STAKING) eqn:Ety.
    - apply ttype_eqb_eq in Ety. exact (HST x Hp Ety).
    - apply Hq. intros Heq. apply ttype_eqb_eq in Heq. congruence. }
  unfold wf. split; [exact S2|]. split; [exact S3|]. split.
  { intros i Hi. unfold lotn. apply POS. apply nth_In. exact Hi. }
  split; [exact S4|]. split; [exact (pw_evs_sorted t evs HE)|]. split.
  { intros e He. apply in_map_iff in He. destruct He as [x [<- Hx]]. cbn [event_of e_amt].
    apply (taxable_events_iff _ _ _ HE) in Hx.
    destruct Hx as [[a [-> [Ha _]]]|[[a [-> Ha]]|[a [-> [Ha HT]]]]].
    - rewrite change_TIn. exact (POS a Ha).
    - rewrite change_TOut. exact (proj1 (S6 a Ha)).
    - rewrite change_TIntra. exact (proj1 (S7 a Ha) HT). }
  split; [exact (pw_evs_distinct_rows t evs HE)|]. split; [exact (pw_earn_first t evs HE)|].
  split; [exact (pw_earn_is_lot t evs HE)|]. split; [exact (pw_same_instant_same_year evs HY)|].
  split; [exact (pw_sched_covers sched evs HCV)|exact ND].
Qed.

Lemma sheet_sets_holders_ok p t : sheet_sets_ok p t -> holders_ok t.
Proof.
  intros [_ _ _ _ S5 S6 S7 _] x Hx. unfold replay_order in Hx. apply sort_by_in in Hx.
  apply in_app_or in Hx. destruct Hx as [Hx|Hx]; [|apply in_app_or in Hx; destruct Hx as [Hx|Hx]];
    apply in_map_iff in Hx; destruct Hx as (a & <- & Ha); cbn [txn_holders_ok].
  - exact (proj2 (proj2 (S5 a Ha))).
  - exact (proj2 (S7 a Ha)).
  - exact (proj2 (S6 a Ha)).
Qed.

(** * 3. [compute] on a well-formed matcher input: every stage but the balance replay succeeds
    (the proof of [compute_follows_balances], Proofs/ComputeTotal.v, with [wf] as the hypothesis instead of a matched history) *)
Section WfTotal.
Variables (sched : list (Z * meth)) (t : txs) (evs : list txn) (fs : list fraction).
Hypothesis HE : taxable_events t = Ok evs.
Hypothesis WF : wf (t_ins t) sched (map event_of evs).
Hypothesis HFR : fractions_of gen_always_repush sched t = Ok fs.

Theorem compute_follows_balances_wf : forall period from_day to_day allow exs hos,
  match balances allow to_day exs hos t with
  | Ok _ => exists cd, compute period from_day to_day allow exs hos t fs = Ok cd
  | Err e => compute period from_day to_day allow exs hos t fs = Err e
  end.
Proof.
  intros period from_day to_day allow exs hos.
  destruct (matcher_fractions_resolve _ _ _ _ HE WF HFR) as (gls0 & HR).
  assert (HA : all_fractions t fs = Some (sort_by (fun g => t_us (g_ev g)) gls0)) by (unfold all_fractions; rewrite HE, HR; reflexivity).
  assert (HN : exists nb, numbering to_day (sort_by (fun g => t_us (g_ev g)) gls0) = Ok nb).
  { destruct (matcher_numbering_total _ _ _ _ _ to_day HE WF HFR HA) as (evt & lott & HNum & _). eexists. exact HNum. }
  pose proof WF as (_ & _ & Hlp & _ & _ & Hep & _).
  assert (Hins : forall a, In a (t_ins t) -> 0 < i_crypto_in a).
  { intros a Ha. destruct (In_nth _ _ dummy_lot Ha) as (i & Hi & Hnth). specialize (Hlp i Hi). unfold lotn in Hlp. rewrite Hnth in Hlp. exact Hlp. }
  pose proof (resolve_all_forall2 _ _ _ _ HR) as HF.
  assert (Hev : forall g, In g gls0 -> t_balance_change (g_ev g) <> 0).
  { intros g Hg. pose proof (resolve_all_in _ _ _ _ HR g Hg) as Hin.
    specialize (Hep (event_of (g_ev g)) (in_map event_of _ _ Hin)). cbn [event_of e_amt] in Hep. lia. }
  assert (Hlot : forall g a, In g gls0 -> g_lot g = Some a -> i_crypto_in a <> 0).
  { intros g a Hg Ha. destruct (NumberingLift.Forall2_in_r _ _ _ g HF Hg) as (f & Hf & Hrf).
    pose proof (resolve_lot _ _ _ _ Hrf) as Hl. destruct (f_lot f) as [r|]; [|congruence].
    destruct Hl as (a' & Ha' & Hin & _). rewrite Ha in Ha'. injection Ha' as <-. specialize (Hins a Hin). lia. }
  destruct (balances allow to_day exs hos t) as [bl|e] eqn:HB.
  - exact (compute_of_balances period from_day to_day allow exs hos t fs evs gls0 HE HR HN Hev Hlot Hins bl HB).
  - exact (compute_err_of_balances period from_day to_day allow exs hos t fs evs gls0 HE HR HN Hev Hlot e HB).
Qed.

Theorem compute_total_wf : forall period from_day to_day allow exs hos,
  allow = true \/ (holders_ok t /\ never_overdrawn to_day t) ->
  exists cd, compute period from_day to_day allow exs hos t fs = Ok cd.
Proof.
  intros period from_day to_day allow exs hos Hg.
  pose proof (compute_follows_balances_wf period from_day to_day allow exs hos) as H.
  destruct (balances allow to_day exs hos t) as [bl|e] eqn:HB; [exact H|]. exfalso.
  destruct (c08_only_error _ _ _ _ _ _ HB) as [-> ->]. destruct Hg as [Hg|[Hok Hno]]; [discriminate Hg|].
  apply (c08_rejected_iff to_day exs hos t Hok) in HB. destruct HB as (p & x & r & Hs & Hov). exact (Hno p x r Hs Hov).
Qed.
End WfTotal.

(** * 4. success for any rows the parser accepts *)
(** what remains a hypothesis about one expected sheet [p] (the transactions [expected] gives for its typed rows):
      pro_staking  every STAKING acquisition has a positive amount
      pro_events   taxable events of one instant lie in one local year (F13); the schedule has an entry at or before every event year
      pro_lots     the lots never run out
      pro_guard    -n, or no debit overdraws its account up to the to-date (C08)
    Crypto-fee acquisitions are allowed. *)
Record parsed_rows_ok (sched : list (Z * meth)) (allow : bool) (to_day : Z) (p : parsed) : Prop := {
  pro_staking : forall x, In x (pa_ins p) -> i_type x = STAKING -> 0 < i_crypto_in x;
  pro_events : forall t evs, txs_of_parsed p = Ok t -> taxable_events t = Ok evs ->
               hist_same_instant_same_year evs /\ hist_sched_covers sched evs;
  pro_lots : forall t evs, txs_of_parsed p = Ok t -> taxable_events t = Ok evs -> ~ lots_exhausted t evs;
  pro_guard : forall t, txs_of_parsed p = Ok t -> allow = true \/ never_overdrawn to_day t }.

(** the counters of the assets stay at or below 0 *)
Lemma expected_all_counters cfg sheet : forall assets counter ps,
  Z.of_nat (length (pc_holders cfg)) <= 100000 -> counter <= 0 ->
  (forall a, In a assets -> wf_blocks cfg a 1 (sheet a)) ->
  expected_all cfg sheet assets counter = Ok ps -> (forall a p, In (a, p) ps -> pa_ins p <> []) ->
  forall a p, In (a, p) ps -> In a assets /\ exists counter', counter' <= 0 /\ expected cfg counter' (sheet a) = Ok p.
Proof.
  induction assets as [|a0 rest IH]; intros counter ps HL HC HW E NE a p Hin; cbn [expected_all] in E.
  - injection E as <-. destruct Hin.
  - destruct (expected cfg counter (sheet a0)) as [p0|] eqn:E0; [|discriminate].
    destruct (expected_all cfg sheet rest (pa_counter p0)) as [ps'|] eqn:Er; [|discriminate]. injection E as <-.
    destruct Hin as [[= <- <-]|Hin]; [split; [left; reflexivity|exists counter; auto]|].
    destruct (expected_sheet_sets cfg HL a0 counter (sheet a0) p0 HC (HW a0 (or_introl eq_refl)) E0 (NE a0 p0 (or_introl eq_refl))) as [HC' _].
    destruct (IH (pa_counter p0) ps' HL ltac:(lia) (fun b Hb => HW b (or_intror Hb)) Er (fun b q Hq => NE b q (or_intror Hq)) a p Hin) as [H1 H2].
    split; [right; exact H1|exact H2].
Qed.

Theorem E2E_success_any_rows c o secs ts workbook v envp s sheet trailing ps :
  validate_config secs = Ok s ->
  supported c o ->
  (o_method o = None \/ cs_methods s = []) ->
  Forall (fun e => str_in (snd e) method_plugins = true) (cs_methods s) ->
  NoDup (map fst (cs_methods s)) ->
  (forall a, o_asset o = Some a -> In a (cs_assets s)) ->
  Z.of_nat (length (cs_holders s)) <= 100000 ->
  rendered_workbook (pcfg_of s ts) workbook sheet trailing (run_assets o s) ->
  expected_all (pcfg_of s ts) sheet (run_assets o s) 0 = Ok ps -> (forall a p, In (a, p) ps -> pa_ins p <> []) ->
  (forall sched a p, e2e_sched c o s = Some sched -> In (a, p) ps -> parsed_rows_ok sched (o_neg o) (o_to o) p) ->
  (forall i, e2e_input c o envp s ps = Some i -> reports_ok_hyps v i) ->
  exists i l,
    e2e_input c o envp s ps = Some i /\
    rp2_model c o secs ts workbook v envp = (0, l) /\
    map fst l = discovery c /\
    (forall g sheets, In (g, sheets) l -> run_gen v i g = inl sheets /\ within_capacity g sheets) /\
    MainRun.run c o (l6_config s) (inp_of_rinput i) = (0, map (report_file c o s) l) /\
    Forall2 (fun ra ap => ra_name ra = fst ap /\ txs_of_parsed (snd ap) = Ok (ra_txs ra) /\
                          fractions_of gen_always_repush (rp_sched i) (ra_txs ra) = Ok (ra_fracs ra))
            (rp_assets i) (sort_leb by_name ps).
Proof.
  intros V SUP H1 HF ND HA HL R E NE ROWS REP. set (cfg := pcfg_of s ts) in *.
  pose proof (supported_options_pass c o s SUP H1 HF HA) as O.
  destruct (supported_schedule c o s SUP H1 HF ND) as (names & sched & Hs & S & NDs & Hl).
  assert (P : parse_all cfg (run_assets o s) workbook 0 = Ok ps).
  { apply (parse_all_rendered _ workbook sheet trailing (run_assets o s) 0 ps R); [|exact E|exact NE].
    exact (proj2 (options_check_passed _ _ _ _ O)). }
  assert (FA : front_accepts c o secs ts workbook s (run_assets o s) ps) by (split; [exact V|split; [exact O|exact P]]).
  (* every asset: transaction sets, well-formed matcher input, the matcher, ComputedData *)
  destruct (map_result_all (asset_of sched)
              (fun ap ra => ra_name ra = fst ap /\ txs_of_parsed (snd ap) = Ok (ra_txs ra) /\
                            fractions_of gen_always_repush sched (ra_txs ra) = Ok (ra_fracs ra) /\
                            exists cd, compute (country_period c envp) (o_from o) (o_to o) (o_neg o) (cs_exchanges s) (cs_holders s)
                                               (ra_txs ra) (ra_fracs ra) = Ok cd)
              (sort_leb by_name ps)) as (assets & HM & F2).
  { intros [a p] Hin. apply sort_leb_in in Hin.
    destruct (expected_all_counters cfg sheet (run_assets o s) 0 ps HL ltac:(lia)
                (fun b Hb => proj1 (proj2 (R b Hb))) E NE a p Hin) as (Ha & counter & HC & Ep).
    destruct (R a Ha) as (_ & W & _ & _).
    destruct (expected_sheet_sets cfg HL a counter (sheet a) p HC W Ep (NE a p Hin)) as (_ & t & SS).
    destruct (ROWS sched a p S Hin) as [RS REv RL RG].
    pose proof (ss_txs _ _ SS) as T. destruct (ss_events _ _ SS) as (evs & HE).
    destruct (REv t evs T HE) as [HY HCV].
    pose proof (sheet_sets_wf p t sched evs SS HE RS HY HCV NDs) as WF.
    assert (HFR : exists fs, fractions_of gen_always_repush sched t = Ok fs).
    { unfold fractions_of. rewrite HE. destruct (m_total _ _ _ WF) as [(fs & Hfs)|Hx]; [exists fs; exact Hfs|].
      exfalso. apply (RL t evs T HE). apply (m_fails_iff _ _ _ WF). exact Hx. }
    destruct HFR as (fs & HFR).
    assert (G : o_neg o = true \/ (holders_ok t /\ never_overdrawn (o_to o) t)).
    { destruct (RG t T) as [G|G]; [left; exact G|right; split; [exact (sheet_sets_holders_ok p t SS)|exact G]]. }
    destruct (compute_total_wf sched t evs fs HE WF HFR (country_period c envp) (o_from o) (o_to o) (o_neg o) (cs_exchanges s) (cs_holders s) G)
      as (cd & HCD).
    exists {| ra_name := a; ra_txs := t; ra_fracs := fs |}. split; [unfold asset_of; cbn [fst snd]; rewrite T, HFR; reflexivity|].
    cbn [ra_name ra_txs ra_fracs fst snd]. split; [reflexivity|]. split; [exact T|]. split; [exact HFR|exists cd; exact HCD]. }
  set (i := rinput_of c o envp s sched assets).
  assert (HI : e2e_input c o envp s ps = Some i) by (unfold e2e_input; rewrite S, HM; reflexivity).
  assert (HCA : exists cs, computed_all i (rp_assets i) = Ok cs).
  { destruct (computed_all_each i (rp_assets i)) as (cs & HC & _); [|exists cs; exact HC].
    intros ra Hra. cbn [i rinput_of rp_assets] in Hra. destruct (EndToEnd.Forall2_in_r _ _ _ _ F2 Hra) as (ap & _ & _ & _ & _ & cd & HCD).
    exists cd. unfold computed_of. cbn [i rinput_of rp_period rp_from rp_to rp_allow rp_exchanges rp_holders]. exact HCD. }
  destruct (e2e_success_of_computed c o secs ts workbook v envp s (run_assets o s) ps i FA SUP H1 HF HI HCA (REP i HI)) as (l & RM & DL & HG & RUN).
  exists i, l. split; [exact HI|]. split; [exact RM|]. split; [exact DL|]. split; [exact HG|]. split; [exact RUN|].
  apply Forall2_flip in F2. cbn [i rinput_of rp_assets rp_sched]. eapply Forall2_imp; [|exact F2].
  intros ra ap (A1 & A2 & A3 & _). auto.
Qed.

(** * 5. rejection for any rows the parser accepts: the lots run out *)
Theorem e2e_lots_exhausted_any_rows c o secs ts workbook v envp s assets ps sched a p t evs :
  front_accepts c o secs ts workbook s assets ps -> e2e_sched c o s = Some sched -> In (a, p) ps ->
  txs_of_parsed p = Ok t -> taxable_events t = Ok evs -> wf (t_ins t) sched (map event_of evs) -> lots_exhausted t evs ->
  rp2_model c o secs ts workbook v envp = (1, []).
Proof.
  intros (V & O & P) S Hin T HE WF Hex.
  apply (e2e_asset_rejected c o secs ts workbook v envp s assets ps V O P sched (a, p) S Hin).
  unfold asset_of. cbn [snd]. rewrite T. unfold fractions_of. rewrite HE.
  rewrite (proj2 (m_fails_iff _ _ _ WF) Hex). exact I.
Qed.
